package main

import (
	"go/ast"
	"go/token"
	"go/types"
	"strings"
)

// Reaching definitions, textual and conservative: the definition of a local that reaches a use is the nearest
// assignment before it that (a) is a statement of a block (or an if/switch init) enclosing the use, (b) has no other
// assignment to the same local between it and the use, and (c) is not undone by a loop: a loop around the use that
// does not contain the definition must not assign the local at all. A use inside a function literal that does not
// contain the definition is not resolved. This lets the resolved normal forms see through `x, err := f(); x = g(x)`
// (two definitions, each use has exactly one) without any path reasoning.
type reachDef struct {
	stmt ast.Stmt
	eff  token.Pos // the definition holds from here on (end of the statement: `x = x + 1` reads the previous x)
	def  localDef  // rhs == nil: defined, value unknown (x++, var x T, range variable)
}

type reachInfo struct {
	defs    map[types.Object][]reachDef
	parents map[ast.Node]ast.Node
	addr    map[types.Object]bool // &x taken, or assigned inside a function literal: never resolved
	last    ast.Stmt              // the defining statement of the last successful at()
}

func reachingDefs(info *types.Info, body *ast.BlockStmt) *reachInfo {
	ri := &reachInfo{defs: map[types.Object][]reachDef{}, parents: parentMap(body), addr: map[types.Object]bool{}}
	inLit := func(n ast.Node) bool {
		for p := ri.parents[n]; p != nil; p = ri.parents[p] {
			if _, ok := p.(*ast.FuncLit); ok {
				return true
			}
		}
		return false
	}
	ast.Inspect(body, func(n ast.Node) bool {
		switch x := n.(type) {
		case *ast.AssignStmt:
			for i, l := range x.Lhs {
				id, ok := ast.Unparen(l).(*ast.Ident)
				if !ok || id.Name == "_" {
					continue
				}
				o := info.ObjectOf(id)
				if o == nil {
					continue
				}
				if inLit(x) && info.Defs[id] == nil {
					ri.addr[o] = true
				}
				d := reachDef{stmt: x, eff: x.End()}
				switch {
				case x.Tok != token.ASSIGN && x.Tok != token.DEFINE:
					// x op= e holds x op e, with the x on the right read as what reached this statement
					if op, isOp := opOfAssign[x.Tok]; isOp && len(x.Lhs) == 1 && len(x.Rhs) == 1 {
						use := &ast.Ident{NamePos: id.NamePos, Name: id.Name}
						info.Uses[use] = o
						if tv, ok := info.Types[id]; ok {
							info.Types[use] = tv
						} else {
							info.Types[use] = types.TypeAndValue{Type: o.Type()}
						}
						be := &ast.BinaryExpr{X: use, OpPos: x.TokPos, Op: op, Y: &ast.ParenExpr{Lparen: x.Rhs[0].Pos(), X: x.Rhs[0], Rparen: x.Rhs[0].End()}}
						info.Types[be] = types.TypeAndValue{Type: o.Type()}
						info.Types[be.Y] = info.Types[x.Rhs[0]]
						d.def = localDef{be, 0, 1}
					}
				case len(x.Rhs) == len(x.Lhs):
					d.def = localDef{x.Rhs[i], 0, 1}
				case len(x.Rhs) == 1:
					d.def = localDef{x.Rhs[0], i, len(x.Lhs)}
				}
				ri.defs[o] = append(ri.defs[o], d)
			}
		case *ast.IncDecStmt:
			if id, ok := ast.Unparen(x.X).(*ast.Ident); ok {
				if o := info.ObjectOf(id); o != nil {
					ri.defs[o] = append(ri.defs[o], reachDef{stmt: x, eff: x.End()})
				}
			}
		case *ast.DeclStmt:
			if gd, ok := x.Decl.(*ast.GenDecl); ok {
				for _, sp := range gd.Specs {
					vs, ok := sp.(*ast.ValueSpec)
					if !ok {
						continue
					}
					for i, id := range vs.Names {
						o := info.Defs[id]
						if o == nil {
							continue
						}
						d := reachDef{stmt: x, eff: x.End()}
						if len(vs.Values) == len(vs.Names) {
							d.def = localDef{vs.Values[i], 0, 1}
						} else if len(vs.Values) == 1 {
							d.def = localDef{vs.Values[0], i, len(vs.Names)}
						}
						ri.defs[o] = append(ri.defs[o], d)
					}
				}
			}
		case *ast.RangeStmt:
			for _, e := range []ast.Expr{x.Key, x.Value} {
				if id, ok := e.(*ast.Ident); ok && id.Name != "_" {
					if o := info.ObjectOf(id); o != nil {
						ri.defs[o] = append(ri.defs[o], reachDef{stmt: x, eff: x.Body.Pos()})
					}
				}
			}
		case *ast.UnaryExpr:
			if x.Op == token.AND {
				if id, ok := ast.Unparen(x.X).(*ast.Ident); ok {
					if o := info.ObjectOf(id); o != nil {
						ri.addr[o] = true
					}
				}
			}
		}
		return true
	})
	return ri
}

// at returns the definition of o that reaches the use `use` (an identifier node inside the body), if exactly one does.
func (ri *reachInfo) at(o types.Object, use ast.Node) (localDef, bool) {
	if ri == nil || o == nil || ri.addr[o] {
		return localDef{}, false
	}
	ds := ri.defs[o]
	if len(ds) == 0 {
		return localDef{}, false
	}
	P := use.Pos()
	var best *reachDef
	for i := range ds {
		if ds[i].eff <= P && (best == nil || ds[i].eff > best.eff) {
			best = &ds[i]
		}
	}
	if best == nil || best.def.rhs == nil {
		return localDef{}, false
	}
	// (a) the definition's statement is a direct statement of something that encloses the use
	cont := ri.parents[best.stmt]
	switch c := cont.(type) {
	case *ast.ForStmt:
		if c.Post == best.stmt {
			return localDef{}, false
		}
	case nil:
		return localDef{}, false
	}
	if lb, ok := cont.(*ast.LabeledStmt); ok {
		cont = ri.parents[lb]
	}
	if cont == nil || !(cont.Pos() <= P && P < cont.End()) {
		return localDef{}, false
	}
	// (b) nothing else assigns it between the definition and the use
	for i := range ds {
		d := &ds[i]
		if d == best {
			continue
		}
		if d.stmt.Pos() > best.stmt.Pos() && d.stmt.Pos() < P {
			if _, isRange := d.stmt.(*ast.RangeStmt); !isRange && d.stmt.Pos() <= P && P < d.stmt.End() {
				continue // the statement the use itself is written in: x = f(x)
			}
			return localDef{}, false
		}
	}
	// (c) loops and function literals around the use that do not contain the definition
	for p := ri.parents[use]; p != nil; p = ri.parents[p] {
		switch l := p.(type) {
		case *ast.ForStmt, *ast.RangeStmt:
			var body *ast.BlockStmt
			if f, ok := l.(*ast.ForStmt); ok {
				body = f.Body
			} else {
				body = l.(*ast.RangeStmt).Body
			}
			if body.Pos() <= best.stmt.Pos() && best.stmt.End() <= body.End() {
				continue // defined in the iteration that uses it
			}
			for i := range ds {
				if &ds[i] != best && l.Pos() <= ds[i].stmt.Pos() && ds[i].stmt.End() <= l.End() {
					return localDef{}, false
				}
			}
		case *ast.FuncLit:
			if !(l.Pos() <= best.stmt.Pos() && best.stmt.End() <= l.End()) {
				return localDef{}, false
			}
		}
	}
	ri.last = best.stmt
	return best.def, true
}

// polyReach: when set (by the comparison and formula collectors, per function), exprPoly resolves a local that its
// single-definition map does not hold through the definition that reaches the use. polyPaths: in the same collectors,
// a field path written through a local alias (flat := &a.b[i]; flat.X) is spelled through the aliased path.
var polyReach *reachInfo
var polyPaths bool

// pathLike: a value that merely names a place: x, x.f, x[i], &x, *x.
func pathLike(e ast.Expr) bool {
	switch x := ast.Unparen(e).(type) {
	case *ast.Ident:
		return x.Name != "nil" && x.Name != "true" && x.Name != "false"
	case *ast.SelectorExpr:
		return pathLike(x.X)
	case *ast.IndexExpr:
		return pathLike(x.X)
	case *ast.StarExpr:
		return pathLike(x.X)
	case *ast.UnaryExpr:
		return x.Op == token.AND && pathLike(x.X)
	}
	return false
}

// exprTextD renders a path like exprText, spelling a local alias of a place through the place it names.
func exprTextD(info *types.Info, e ast.Expr, defs map[types.Object]localDef, depth int) string {
	if !polyPaths || defs == nil || depth > 12 {
		return exprText(info, e)
	}
	switch x := ast.Unparen(e).(type) {
	case *ast.Ident:
		o := info.Uses[x]
		d, ok := defs[o]
		if !ok {
			d, ok = polyReach.at(o, x)
		}
		if ok && d.pos == 0 && d.n == 1 && d.rhs != nil && pathLike(d.rhs) {
			r := ast.Unparen(d.rhs)
			if ue, isAddr := r.(*ast.UnaryExpr); isAddr && ue.Op == token.AND {
				r = ue.X
			}
			return exprTextD(info, r, defs, depth+1)
		}
		return exprText(info, x)
	case *ast.SelectorExpr:
		if isSpecType(info.TypeOf(x.X)) {
			return exprText(info, x)
		}
		return strings.TrimLeft(exprTextD(info, x.X, defs, depth+1), "&*") + "." + x.Sel.Name
	case *ast.StarExpr:
		if in := exprTextD(info, x.X, defs, depth+1); strings.HasPrefix(in, "&") {
			return in[1:]
		} else {
			return "*" + in
		}
	case *ast.IndexExpr:
		if ip, ok := exprPoly(info, x.Index, defs, nil, depth+20); ok {
			return exprTextD(info, x.X, defs, depth+1) + "[" + strings.NewReplacer("*", "·", " ", "").Replace(ip.String()) + "]"
		}
		return exprTextD(info, x.X, defs, depth+1) + "[" + exprText(info, x.Index) + "]"
	}
	return exprText(info, e)
}

// mayReach: the definitions of o that can still hold at `use`: every definition written before it, except those that
// a later definition overrides for certain (one that is a direct statement of a block enclosing the use). Definitions
// on paths that leave the function before the use are kept (more to check, never less).
func (ri *reachInfo) mayReach(o types.Object, use ast.Node) []reachDef {
	P := use.Pos()
	var before []reachDef
	for _, d := range ri.defs[o] {
		if d.eff <= P {
			before = append(before, d)
		}
	}
	var out []reachDef
	for _, d := range before {
		killed := false
		for _, d2 := range before {
			if d2.stmt.Pos() <= d.stmt.Pos() {
				continue
			}
			cont := ri.parents[d2.stmt]
			if cont != nil && cont.Pos() <= P && P < cont.End() {
				if f, ok := cont.(*ast.ForStmt); ok && f.Post == d2.stmt {
					continue
				}
				killed = true
			}
		}
		if !killed {
			out = append(out, d)
		}
	}
	return out
}
