package main

import (
	"fmt"
	"go/ast"
	"go/token"
	"go/types"
	"os"
	"strings"

	"golang.org/x/tools/go/packages"
)

func init() {
	register(&Rule{Name: "merkle.unrolled", Floor: 2,
		Doc: "hand-unrolled HashTreeRoot of byte-array types ([N]byte hashed by direct hFn(a, b) calls): read in order, the leaves of the call tree are chunk 0, chunk 1, ... of the value (bytes [32k, min(32k+32, N)) each exactly once), padded with zero chunks to a power of two, and the tree is balanced",
		Run: ruleMerkleUnrolled})
	register(&Rule{Name: "global.hasher", Floor: 20,
		Doc: "hashers obtained from tree.GetHashFn()/hashing.GetHashFn() carry a scratch buffer and a running digest: each is used by the function that obtained it (or passed down), never stored in a package-level variable or a struct field where concurrent transitions of unrelated states would share it",
		Run: ruleGlobalHasher})
	register(&Rule{Name: "merge.predicate", Floor: 2,
		Doc: "is_merge_transition_complete / is_merge_transition_block compare whole objects: the hash-tree-root of the full execution payload (header) against the root of the type's default value — not a single field of it",
		Run: ruleMergePredicate})
	register(&Rule{Name: "deposit.pop", Floor: 3,
		Doc: "process_deposit for a new pubkey: an undecodable pubkey, an undecodable signature and a failed proof-of-possession each SKIP the deposit (return nil: the block stays valid, the deposit index has advanced); only state access failures are errors",
		Run: ruleDepositPop})
	register(&Rule{Name: "shuffle.identity", Floor: 2,
		Doc: "every `if` on the way to the round loop of the per-index permutation and of the whole-list shuffle — one that returns the input before the loop, or one the loop sits in — skips the rounds only when there are no rounds or the range has at most one element (a disjunction of such conditions, never a conjunction); any wider shortcut is not the spec's permutation for the skipped sizes; no shortcut at all is fine",
		Run: ruleShuffleIdentity})
	register(&Rule{Name: "bisect.step", Floor: 1,
		Doc: "a bisection loop `for lo+1 < hi { mid = lo + (hi-lo)/2; if present(mid) { lo = mid } else { hi = mid } }` narrows to exactly the probed point on both branches: moving a bound past the pivot (mid±1) skips a candidate that was never probed, or excludes the last present one",
		Run: ruleBisectStep})
}

// ---------------------------------------------------------------------------------------------------------------

func ruleMerkleUnrolled(c *Ctx) {
	n := 0
	c.P.funcDecls(func(pk *packages.Package, fd *ast.FuncDecl) {
		if fd.Body == nil || fd.Recv == nil || fd.Name.Name != "HashTreeRoot" || len(fd.Recv.List) != 1 || len(fd.Recv.List[0].Names) != 1 {
			return
		}
		info := pk.TypesInfo
		recv := info.Defs[fd.Recv.List[0].Names[0]]
		if recv == nil {
			return
		}
		rt := recv.Type()
		if p, ok := rt.(*types.Pointer); ok {
			rt = p.Elem()
		}
		arr, ok := rt.Underlying().(*types.Array)
		if !ok {
			return
		}
		if b, ok := arr.Elem().Underlying().(*types.Basic); !ok || b.Kind() != types.Byte && b.Kind() != types.Uint8 {
			return
		}
		// the hash function parameter
		var hfn types.Object
		if fd.Type.Params != nil {
			for _, f := range fd.Type.Params.List {
				if nt := namedOf(info.TypeOf(f.Type)); nt != nil && nt.Obj().Name() == "HashFn" && len(f.Names) == 1 {
					hfn = info.Defs[f.Names[0]]
				}
			}
		}
		if hfn == nil {
			return
		}
		direct := false
		ast.Inspect(fd.Body, func(nd ast.Node) bool {
			if call, ok := nd.(*ast.CallExpr); ok {
				if id, ok := call.Fun.(*ast.Ident); ok && info.Uses[id] == hfn {
					direct = true
				}
			}
			return !direct
		})
		if !direct {
			return
		}
		n++
		N := arr.Len()
		fname := pkgShort(pk.Types) + "." + funcName(fd)
		key := fname
		// leaves: copy(X[:], recv[lo:hi]) with constant bounds, or copy(B[i][:], recv[f(i):g(i)]) in a counting loop
		type span struct{ lo, hi int64 }
		leaf := map[types.Object]span{}
		arrLeaf := map[types.Object]int64{} // array of chunks -> count
		constOf := func(e ast.Expr, dflt int64) (int64, bool) {
			if e == nil {
				return dflt, true
			}
			return constantInt(info.Types[e])
		}
		var visit func(nd ast.Node, loopVar types.Object, loopN int64)
		visit = func(nd ast.Node, loopVar types.Object, loopN int64) {
			ast.Inspect(nd, func(x ast.Node) bool {
				if fs, ok := x.(*ast.ForStmt); ok && x != nd {
					// for i := 0; i < n; i++
					if as, ok := fs.Init.(*ast.AssignStmt); ok && len(as.Lhs) == 1 {
						if id, ok := as.Lhs[0].(*ast.Ident); ok {
							if be, ok := fs.Cond.(*ast.BinaryExpr); ok && be.Op == token.LSS {
								if cnt, ok := constantInt(info.Types[be.Y]); ok {
									if st, ok := constantInt(info.Types[as.Rhs[0]]); ok && st == 0 {
										visit(fs.Body, info.Defs[id], cnt)
									}
								}
							}
						}
					}
					return false
				}
				call, ok := x.(*ast.CallExpr)
				if !ok || len(call.Args) != 2 {
					return true
				}
				if id, ok := call.Fun.(*ast.Ident); !ok || id.Name != "copy" {
					return true
				}
				dst, ok1 := ast.Unparen(call.Args[0]).(*ast.SliceExpr)
				src, ok2 := ast.Unparen(call.Args[1]).(*ast.SliceExpr)
				if !ok1 || !ok2 {
					return true
				}
				if sid, ok := ast.Unparen(src.X).(*ast.Ident); !ok || info.Uses[sid] != recv {
					return true
				}
				switch d := ast.Unparen(dst.X).(type) {
				case *ast.Ident:
					lo, okl := constOf(src.Low, 0)
					hi, okh := constOf(src.High, N)
					if okl && okh {
						leaf[info.Uses[d]] = span{lo, hi}
					}
				case *ast.IndexExpr:
					// B[i] with the loop variable; bounds must be 32*i and 32*i+32
					bid, ok := ast.Unparen(d.X).(*ast.Ident)
					iid, ok2 := ast.Unparen(d.Index).(*ast.Ident)
					if !ok || !ok2 || loopVar == nil || info.Uses[iid] != loopVar {
						return true
					}
					stop := map[string]bool{loopVar.Name(): true}
					lo, okl := exprPoly(info, src.Low, nil, stop, 0)
					hi, okh := exprPoly(info, src.High, nil, stop, 0)
					wantLo := polyMul(polyConst(32), polyAtom(loopVar.Name()))
					wantHi := polyAdd(wantLo, polyConst(32), 1)
					if okl && okh && polyEq(lo, wantLo) && polyEq(hi, wantHi) {
						arrLeaf[info.Uses[bid]] = loopN
					}
				}
				return true
			})
		}
		visit(fd.Body, nil, 0)
		defs := singleDefs(info, fd.Body)
		// the returned tree
		var ret ast.Expr
		for _, st := range fd.Body.List {
			if r, ok := st.(*ast.ReturnStmt); ok && len(r.Results) == 1 {
				ret = r.Results[0]
			}
		}
		if ret == nil {
			c.unm(key, fd.Pos(), "no single top-level return")
			return
		}
		// the rule reads trees of hFn(…, …) calls written out by hand; a root computed some other way (a reduction loop
		// over a layer of chunks) is not such a tree and is left undecided
		{
			top := ast.Unparen(ret)
			for k := 0; k < 4; k++ {
				id, ok := top.(*ast.Ident)
				if !ok {
					break
				}
				d, ok := defs[info.Uses[id]]
				if !ok || d.n != 1 || d.rhs == nil {
					break
				}
				top = ast.Unparen(d.rhs)
			}
			isTree := false
			if call, ok := top.(*ast.CallExpr); ok {
				if id, ok := call.Fun.(*ast.Ident); ok && info.Uses[id] == hfn && len(call.Args) == 2 {
					isTree = true
				}
			}
			if !isTree {
				c.info(key, fd.Pos(), "%s does not return a hand-written tree of %s(a, b) calls: merkleized some other way (a loop over a layer), which this rule does not read — not an instance of it", fname, hfn.Name())
				return
			}
		}
		type lf struct {
			kind  string // chunk | zero | ?
			k     int64
			depth int
			text  string
		}
		var leaves []lf
		var walk func(e ast.Expr, depth int)
		walk = func(e ast.Expr, depth int) {
			e = ast.Unparen(e)
			if call, ok := e.(*ast.CallExpr); ok {
				if id, ok := call.Fun.(*ast.Ident); ok && info.Uses[id] == hfn && len(call.Args) == 2 {
					walk(call.Args[0], depth+1)
					walk(call.Args[1], depth+1)
					return
				}
			}
			switch x := e.(type) {
			case *ast.Ident:
				obj := info.Uses[x]
				if sp, ok := leaf[obj]; ok {
					hiWant := sp.lo + 32
					if hiWant > N {
						hiWant = N
					}
					if sp.lo%32 == 0 && sp.hi == hiWant {
						leaves = append(leaves, lf{"chunk", sp.lo / 32, depth, x.Name})
					} else {
						leaves = append(leaves, lf{"?", 0, depth, fmt.Sprintf("%s=[%d:%d]", x.Name, sp.lo, sp.hi)})
					}
					return
				}
				if d, ok := defs[obj]; ok && d.n == 1 && d.rhs != nil {
					walk(d.rhs, depth)
					return
				}
			case *ast.IndexExpr:
				if bid, ok := ast.Unparen(x.X).(*ast.Ident); ok {
					if cnt, ok := arrLeaf[info.Uses[bid]]; ok {
						if k, ok := constantInt(info.Types[x.Index]); ok && k < cnt {
							leaves = append(leaves, lf{"chunk", k, depth, types.ExprString(x)})
							return
						} else if ok {
							// an element of the chunk array that the filling loop never reaches: still its zero value
							if at, isArr := info.TypeOf(x.X).Underlying().(*types.Array); isArr && k < at.Len() {
								leaves = append(leaves, lf{"zero", 0, depth, "untouched element " + types.ExprString(x)})
								return
							}
						}
					}
				}
			case *ast.CompositeLit:
				if len(x.Elts) == 0 {
					leaves = append(leaves, lf{"zero", 0, depth, "zero chunk"})
					return
				}
			}
			leaves = append(leaves, lf{"?", 0, depth, types.ExprString(e)})
		}
		walk(ret, 0)
		chunks := (N + 31) / 32
		pow := int64(1)
		for pow < chunks {
			pow *= 2
		}
		var probs []string
		if int64(len(leaves)) != pow {
			probs = append(probs, fmt.Sprintf("%d leaves, want %d (%d chunks padded to a power of two)", len(leaves), pow, chunks))
		}
		for i, l := range leaves {
			switch {
			case l.kind == "?":
				probs = append(probs, fmt.Sprintf("leaf %d (%s) is not a 32-byte chunk of the value", i, l.text))
			case int64(i) < chunks && (l.kind != "chunk" || l.k != int64(i)):
				probs = append(probs, fmt.Sprintf("leaf %d is %s (%s %d), want chunk %d", i, l.text, l.kind, l.k, i))
			case int64(i) >= chunks && l.kind != "zero":
				probs = append(probs, fmt.Sprintf("padding leaf %d is %s", i, l.text))
			}
			if l.depth != leaves[0].depth {
				probs = append(probs, fmt.Sprintf("leaf %d at depth %d, leaf 0 at depth %d (unbalanced)", i, l.depth, leaves[0].depth))
			}
		}
		if len(probs) > 0 {
			c.bad(key, fd.Pos(), "%s merkleizes a %d-byte value by hand but %s", fname, N, strings.Join(probs, "; "))
		} else {
			c.ok(key, fd.Pos(), "%d chunks in order, padded to %d leaves, balanced", chunks, pow)
		}
	})
	c.stat("hand_hashers", n)
	if n < 2 {
		anchorFail("merkle.unrolled: expected hand-written byte-array hashers (pubkey, signature, logs bloom on the reviewed tree), found %d", n)
	}
}

// ---------------------------------------------------------------------------------------------------------------

func isGetHashFn(info *types.Info, call *ast.CallExpr) bool {
	f := callee(info, call) // a package-level func variable in both packages
	// (Sha256Repeat is the constructor behind GetHashFn: one digest object and scratch buffer per returned function)
	if f == nil || (f.Name() != "GetHashFn" && f.Name() != "Sha256Repeat") || f.Pkg() == nil {
		return false
	}
	p := f.Pkg().Path()
	return strings.HasSuffix(p, "ztyp/tree") || strings.HasSuffix(p, "util/hashing") || strings.Contains(p, "protolambda/zrnt")
}

func ruleGlobalHasher(c *Ctx) {
	sites := 0
	for _, pk := range c.P.Pkgs {
		info := pk.TypesInfo
		for _, file := range pk.Syntax {
			for _, decl := range file.Decls {
				switch d := decl.(type) {
				case *ast.GenDecl:
					if d.Tok != token.VAR {
						continue
					}
					for _, sp := range d.Specs {
						vs := sp.(*ast.ValueSpec)
						for i, v := range vs.Values {
							ast.Inspect(v, func(n ast.Node) bool {
								if _, ok := n.(*ast.FuncLit); ok {
									return false // a function value that obtains its own hasher when called
								}
								if call, ok := n.(*ast.CallExpr); ok && isGetHashFn(info, call) {
									sites++
									name := "?"
									if i < len(vs.Names) {
										name = vs.Names[i].Name
									}
									c.bad(pkgShort(pk.Types)+".var "+name, call.Pos(), "package-level variable %s holds a hasher from GetHashFn(): its scratch buffer and digest are shared by every goroutine that hashes through it (concurrent state transitions then compute and cache wrong tree hashes)", name)
								}
								return true
							})
						}
					}
				case *ast.FuncDecl:
					if d.Body == nil {
						continue
					}
					fname := pkgShort(pk.Types) + "." + funcName(d)
					parents := parentMap(d.Body)
					k := 0
					ast.Inspect(d.Body, func(n ast.Node) bool {
						call, ok := n.(*ast.CallExpr)
						if !ok || !isGetHashFn(info, call) {
							return true
						}
						sites++
						k++
						key := fmt.Sprintf("%s#%d", fname, k)
						// where does the value go?
						var cur ast.Node = call
						par := parents[cur]
						for {
							if pe, ok := par.(*ast.ParenExpr); ok {
								cur, par = pe, parents[pe]
								continue
							}
							break
						}
						switch p := par.(type) {
						case *ast.AssignStmt:
							for i, r := range p.Rhs {
								if r != cur.(ast.Expr) || i >= len(p.Lhs) {
									continue
								}
								switch l := ast.Unparen(p.Lhs[i]).(type) {
								case *ast.Ident:
									if obj := info.ObjectOf(l); obj != nil && obj.Parent() == pk.Types.Scope() {
										c.bad(key, call.Pos(), "%s stores a hasher in the package-level variable %s", fname, l.Name)
										return true
									}
								case *ast.SelectorExpr:
									c.bad(key, call.Pos(), "%s stores a hasher in %s, which outlives the call and may be shared between goroutines", fname, types.ExprString(l))
									return true
								}
							}
						case *ast.KeyValueExpr, *ast.CompositeLit:
							if _, isFieldInit := par.(*ast.KeyValueExpr); isFieldInit {
								if nt := namedOf(info.TypeOf(call)); nt != nil && nt.Obj().Name() == "HashFn" {
									c.bad(key, call.Pos(), "%s puts a hasher into a composite value (field %s)", fname, types.ExprString(par.(*ast.KeyValueExpr).Key))
									return true
								}
							}
						}
						c.ok(key, call.Pos(), "used locally / passed down")
						return true
					})
				}
			}
		}
	}
	c.stat("gethashfn_sites", sites)
}

// ---------------------------------------------------------------------------------------------------------------

func ruleMergePredicate(c *Ctx) {
	type want struct{ fn, typ, descr string }
	for _, w := range []want{
		{"IsTransitionBlock", "ExecutionPayload", "ExecutionPayloadType"},
		{"IsTransitionCompleted", "ExecutionPayloadHeader", "ExecutionPayloadHeaderType"},
	} {
		pk, fd := c.P.findFunc("eth2/beacon/bellatrix", "BeaconStateView."+w.fn)
		if fd == nil {
			anchorFail("merge.predicate: bellatrix.BeaconStateView.%s not found", w.fn)
		}
		info := pk.TypesInfo
		key := "bellatrix." + w.fn
		defs := singleDefs(info, fd.Body)
		// the return that computes the answer (the others give a constant or pass an error on), wherever it stands
		var last *ast.ReturnStmt
		nCmp := 0
		var be *ast.BinaryExpr
		ast.Inspect(fd.Body, func(n ast.Node) bool {
			if _, ok := n.(*ast.FuncLit); ok {
				return false
			}
			r, ok := n.(*ast.ReturnStmt)
			if !ok || len(r.Results) < 1 {
				return true
			}
			e := ast.Unparen(resolveLocal(info, r.Results[0], defs, 3))
			neg := false
			for {
				u, ok := e.(*ast.UnaryExpr)
				if !ok || u.Op != token.NOT {
					break
				}
				neg = !neg
				e = ast.Unparen(u.X)
			}
			if tv, ok := info.Types[r.Results[0]]; ok && tv.Value != nil {
				return true // constant answer
			}
			if b, ok := e.(*ast.BinaryExpr); ok && (b.Op == token.NEQ || b.Op == token.EQL) {
				nCmp++
				last = r
				op := b.Op
				if neg {
					op = negOp[op]
				}
				be = &ast.BinaryExpr{X: b.X, Y: b.Y, Op: op, OpPos: b.OpPos}
				return true
			}
			if last == nil {
				last = r
			}
			return true
		})
		if last == nil {
			c.unm(key, fd.Pos(), "no return")
			continue
		}
		if be == nil || nCmp != 1 || be.Op != token.NEQ {
			c.bad(key, last.Pos(), "%s does not answer with `<root of the object> != <root of the default object>`", w.fn)
			continue
		}
		isWholeRoot := func(e ast.Expr) bool {
			e = resolveLocal(info, e, defs, 3)
			call, ok := e.(*ast.CallExpr)
			if !ok {
				return false
			}
			sel, ok := call.Fun.(*ast.SelectorExpr)
			if !ok || sel.Sel.Name != "HashTreeRoot" {
				return false
			}
			t := info.TypeOf(sel.X)
			if p, ok := t.(*types.Pointer); ok {
				t = p.Elem()
			}
			nt := namedOf(t)
			return nt != nil && (nt.Obj().Name() == w.typ || nt.Obj().Name() == w.typ+"View")
		}
		isDefaultRoot := func(e ast.Expr) bool {
			e = resolveLocal(info, e, defs, 3)
			s := types.ExprString(e)
			return strings.Contains(s, w.descr) && strings.Contains(s, "DefaultNode()") && strings.Contains(s, "MerkleRoot(")
		}
		switch {
		case isWholeRoot(be.X) && isDefaultRoot(be.Y), isWholeRoot(be.Y) && isDefaultRoot(be.X):
			c.ok(key, last.Pos(), "compares the root of the whole %s with the default %s root", w.typ, w.descr)
		default:
			c.bad(key, last.Pos(), "%s decides on `%s`: the spec compares the whole %s with its default value, so an object that differs from the default in any other field must count as non-default", w.fn, types.ExprString(be), w.typ)
		}
	}
}

// ---------------------------------------------------------------------------------------------------------------

func ruleDepositPop(c *Ctx) {
	pk, fd := c.P.mustFunc("eth2/beacon/phase0", "ProcessDeposit")
	info := pk.TypesInfo
	parents := parentMap(fd.Body)
	isReturnNil := func(b *ast.BlockStmt) bool {
		for _, st := range b.List {
			if r, ok := st.(*ast.ReturnStmt); ok {
				if len(r.Results) == 1 {
					if id, ok := r.Results[0].(*ast.Ident); ok && id.Name == "nil" {
						return true
					}
				}
				return false
			}
		}
		return false
	}
	// (callee leaf, receiver type) of the three proof-of-possession steps
	found := map[string]bool{}
	ast.Inspect(fd.Body, func(n ast.Node) bool {
		call, ok := n.(*ast.CallExpr)
		if !ok {
			return true
		}
		f := calleeFunc(info, call)
		if f == nil {
			return true
		}
		var step string
		switch {
		case f.Name() == "Pubkey" && strings.Contains(qualName(f), "BLSPubkey"):
			step = "pubkey-decode"
		case f.Name() == "Signature" && strings.Contains(qualName(f), "BLSSignature"):
			step = "signature-decode"
		case f.Name() == "Verify" && f.Pkg() != nil && f.Pkg().Name() == "blsu":
			step = "pop-verify"
		default:
			return true
		}
		found[step] = true
		key := "ProcessDeposit." + step
		// the signature is only inspected for a NEW validator: a top-up (known pubkey) is credited whatever its
		// signature bytes are, so the signature decode and the verification must sit under `if !exists`
		if step != "pubkey-decode" {
			// wherever the step stands: under `if !exists { … }`, or after `if exists { …; return }` — what matters is
			// that "the pubkey is not known" holds there; `exists` is the boolean derived from the registry lookup
			guarded := false
			defs := singleDefs(info, fd.Body)
			var stmt ast.Node = call
			for stmt != nil {
				if _, ok := stmt.(ast.Stmt); ok {
					break
				}
				stmt = parents[stmt]
			}
			for _, as := range assumedConds(parents, stmt) {
				e := ast.Unparen(as.cond)
				neg := as.neg
				for {
					u, ok := e.(*ast.UnaryExpr)
					if !ok || u.Op != token.NOT {
						break
					}
					neg = !neg
					e = ast.Unparen(u.X)
				}
				if id, ok := e.(*ast.Ident); ok && neg {
					if b, ok := info.TypeOf(id).Underlying().(*types.Basic); ok && b.Kind() == types.Bool {
						if derivesFromCall(info, id, defs, "ValidatorIndex") || mentionsLookupFlag(info, id, defs, fd) {
							guarded = true
						}
					}
				}
			}
			if guarded {
				c.ok(key+".new-only", call.Pos(), "only for a pubkey that is not in the registry yet")
			} else {
				c.bad(key+".new-only", call.Pos(), "the %s step runs for top-ups as well: the spec never looks at the signature of a deposit for a known pubkey, so a top-up with undecodable or invalid signature bytes must still be credited", step)
			}
		}
		if step == "pop-verify" {
			// the enclosing if (condition contains !Verify) must return nil
			var cur ast.Node = call
			for cur != nil {
				if is, ok := cur.(*ast.IfStmt); ok && is.Cond.Pos() <= call.Pos() && call.End() <= is.Cond.End() {
					if isReturnNil(is.Body) {
						c.ok(key, call.Pos(), "failed proof-of-possession skips the deposit")
					} else {
						c.bad(key, call.Pos(), "a failed proof-of-possession does not `return nil`: the spec skips such a deposit, the block stays valid")
					}
					return true
				}
				cur = parents[cur]
			}
			// result kept in a local (`ok := skip || Verify(...)`): the `!ok` branch must skip the deposit
			var las *ast.AssignStmt
			for q := ast.Node(call); q != nil; q = parents[q] {
				if a, ok := q.(*ast.AssignStmt); ok {
					las = a
					break
				}
				if _, ok := q.(ast.Stmt); ok {
					break
				}
			}
			if las != nil && len(las.Lhs) == 1 {
				if lid, ok := las.Lhs[0].(*ast.Ident); ok {
					lobj := info.ObjectOf(lid)
					done := false
					ast.Inspect(fd.Body, func(k ast.Node) bool {
						is, ok := k.(*ast.IfStmt)
						if !ok || done {
							return true
						}
						if ue, ok := ast.Unparen(is.Cond).(*ast.UnaryExpr); ok && ue.Op == token.NOT {
							if tid, ok := ast.Unparen(ue.X).(*ast.Ident); ok && info.ObjectOf(tid) == lobj {
								done = true
								if isReturnNil(is.Body) {
									c.ok(key, call.Pos(), "failed proof-of-possession (kept in %s) skips the deposit", lid.Name)
								} else {
									c.bad(key, call.Pos(), "a failed proof-of-possession does not `return nil`: the spec skips such a deposit, the block stays valid")
								}
							}
						}
						return true
					})
					if done {
						return true
					}
				}
			}
			c.unm(key, call.Pos(), "Verify call not inside an if condition")
			return true
		}
		// decode steps: x, err := call ; the err test that governs the new-validator path returns nil
		as, ok := parents[call].(*ast.AssignStmt)
		if !ok || len(as.Lhs) != 2 {
			c.unm(key, call.Pos(), "decode result not bound to (value, err)")
			return true
		}
		errId, _ := as.Lhs[1].(*ast.Ident)
		if errId == nil {
			c.unm(key, call.Pos(), "no err identifier")
			return true
		}
		errObj := info.ObjectOf(errId)
		var test *ast.IfStmt
		ast.Inspect(fd.Body, func(m ast.Node) bool {
			if is, ok := m.(*ast.IfStmt); ok && is.Pos() > as.Pos() && test == nil {
				if be, ok := ast.Unparen(is.Cond).(*ast.BinaryExpr); ok && be.Op == token.NEQ {
					if id, ok := ast.Unparen(be.X).(*ast.Ident); ok && info.ObjectOf(id) == errObj {
						test = is
					}
				}
			}
			return test == nil
		})
		if test == nil {
			c.bad(key, call.Pos(), "the error of the %s step is never tested", step)
			return true
		}
		if isReturnNil(test.Body) {
			c.ok(key, test.Pos(), "undecodable input skips the deposit")
		} else {
			c.bad(key, test.Pos(), "an undecodable %s makes ProcessDeposit fail instead of skipping the deposit: the spec treats it as an invalid proof-of-possession (deposit skipped, block valid, genesis continues)", strings.TrimSuffix(step, "-decode"))
		}
		return true
	})
	// steps that moved into unexported helpers of the package (reached from ProcessDeposit): performed, but not read here
	inHelpers := map[string]string{}
	{
		seen := map[*types.Func]bool{}
		var visit func(body *ast.BlockStmt, depth int)
		visit = func(body *ast.BlockStmt, depth int) {
			if body == nil || depth > 3 {
				return
			}
			ast.Inspect(body, func(n ast.Node) bool {
				call, ok := n.(*ast.CallExpr)
				if !ok {
					return true
				}
				f := calleeFunc(info, call)
				if f == nil {
					return true
				}
				if depth > 0 {
					switch {
					case f.Name() == "Pubkey" && strings.Contains(qualName(f), "BLSPubkey"):
						inHelpers["pubkey-decode"] = "helper"
					case f.Name() == "Signature" && strings.Contains(qualName(f), "BLSSignature"):
						inHelpers["signature-decode"] = "helper"
					case f.Name() == "Verify" && f.Pkg() != nil && f.Pkg().Name() == "blsu":
						inHelpers["pop-verify"] = "helper"
					}
				}
				if f.Pkg() == pk.Types && !f.Exported() && !seen[f] {
					seen[f] = true
					if hd := declOfFunc(pk, f); hd != nil {
						visit(hd.Body, depth+1)
					}
				}
				return true
			})
		}
		visit(fd.Body, 0)
	}
	var moved []string
	for _, st := range []string{"pubkey-decode", "signature-decode", "pop-verify"} {
		if !found[st] {
			if inHelpers[st] != "" {
				moved = append(moved, st)
				continue
			}
			c.bad("ProcessDeposit."+st, fd.Pos(), "ProcessDeposit no longer performs the %s step", st)
		}
	}
	if len(moved) > 0 {
		c.unm("ProcessDeposit.steps-in-helper", fd.Pos(), "the %s step(s) are performed in an unexported helper of the package: what a failure of theirs leads to in ProcessDeposit is not read by this rule", strings.Join(moved, ", "))
	}
}

// ---------------------------------------------------------------------------------------------------------------

func ruleShuffleIdentity(c *Ctx) {
	pk, _ := c.P.mustFunc("eth2/beacon/common", "innerPermuteIndex")
	info := pk.TypesInfo
	for _, fname := range []string{"innerPermuteIndex", "innerShuffleList"} {
		_, fd := c.P.mustFunc("eth2/beacon/common", fname)
		key := fname + ".early-return"
		n := 0
		hasLoop := func(st ast.Node) bool {
			found := false
			ast.Inspect(st, func(m ast.Node) bool {
				switch m.(type) {
				case *ast.ForStmt, *ast.RangeStmt:
					found = true
				case *ast.FuncLit:
					return false
				}
				return !found
			})
			return found
		}
		judge := func(is *ast.IfStmt, atoms []ast.Expr, conj bool, how string) {
			n++
			k := fmt.Sprintf("%s#%d", key, n)
			var badAtoms []string
			for _, a := range atoms {
				if !identityAtomOK(info, a) {
					badAtoms = append(badAtoms, types.ExprString(a))
				}
			}
			switch {
			case conj:
				c.bad(k, is.Pos(), "%s %s under the conjunction `%s`: each of `rounds == 0` and `size <= 1` alone makes the permutation the identity, the conjunction runs the rounds on inputs the other copy skips (or the reverse)", fname, how, types.ExprString(is.Cond))
			case len(badAtoms) > 0:
				c.bad(k, is.Pos(), "%s %s when `%s`: only rounds == 0 or a range of at most one element make the spec's permutation the identity", fname, how, strings.Join(badAtoms, " || "))
			default:
				c.ok(k, is.Pos(), "%s only for `%s`", how, types.ExprString(is.Cond))
			}
		}
		// the statements on the way to the round loop: an `if` that returns before it, or an `if` the loop sits in (the
		// rounds are skipped when its condition fails)
		var scan func(list []ast.Stmt)
		scan = func(list []ast.Stmt) {
			for _, st := range list {
				is, isIf := st.(*ast.IfStmt)
				if !isIf {
					if hasLoop(st) {
						return
					}
					continue
				}
				if hasLoop(is.Body) {
					// skipped when !cond: the negation of a conjunction is the disjunction of the negated atoms
					var atoms []ast.Expr
					for _, a := range flattenBool(is.Cond, token.LAND) {
						atoms = append(atoms, negatedAtom(a))
					}
					judge(is, atoms, len(flattenBool(is.Cond, token.LOR)) > 1, "skips the rounds unless the condition holds,")
					scan(is.Body.List)
					return
				}
				if is.Else != nil && hasLoop(is.Else) {
					judge(is, flattenBool(is.Cond, token.LOR), len(flattenBool(is.Cond, token.LAND)) > 1, "skips the rounds")
					if eb, ok := is.Else.(*ast.BlockStmt); ok {
						scan(eb.List)
					}
					return
				}
				returns := false
				for _, b := range is.Body.List {
					if _, ok := b.(*ast.ReturnStmt); ok {
						returns = true
					}
				}
				if !returns {
					continue
				}
				judge(is, flattenBool(is.Cond, token.LOR), len(flattenBool(is.Cond, token.LAND)) > 1, "returns its input unchanged")
			}
		}
		scan(fd.Body.List)
		if n == 0 {
			if hasLoop(fd.Body) {
				c.ok(key, fd.Pos(), "no shortcut before the round loop: every input goes through the rounds")
			} else {
				c.unm(key, fd.Pos(), "no round loop in %s", fname)
			}
		}
	}
}

// negatedAtom: the comparison that holds exactly when e does not (a != b for a == b, a <= b for a > b, …); anything
// else is wrapped in a `!`, which no accepted atom matches.
func negatedAtom(e ast.Expr) ast.Expr {
	e = ast.Unparen(e)
	if u, ok := e.(*ast.UnaryExpr); ok && u.Op == token.NOT {
		return ast.Unparen(u.X)
	}
	if be, ok := e.(*ast.BinaryExpr); ok {
		inv := map[token.Token]token.Token{token.EQL: token.NEQ, token.NEQ: token.EQL, token.LSS: token.GEQ, token.GEQ: token.LSS, token.GTR: token.LEQ, token.LEQ: token.GTR}
		if op, ok := inv[be.Op]; ok {
			return &ast.BinaryExpr{X: be.X, Op: op, Y: be.Y, OpPos: be.OpPos}
		}
	}
	return &ast.UnaryExpr{Op: token.NOT, X: e}
}

// identityAtomOK: `rounds == 0`, or `<size> <= 1` / `< 2` / `== 0` / `== 1` where <size> is len(x) or a parameter named *size*/*count*.
func identityAtomOK(info *types.Info, e ast.Expr) bool {
	be, ok := ast.Unparen(e).(*ast.BinaryExpr)
	if !ok {
		return false
	}
	if tv, ok := info.Types[be.Y]; !ok || tv.Value == nil {
		return false
	}
	k, okK := constantInt(info.Types[be.Y])
	if !okK {
		return false
	}
	lhs := ast.Unparen(stripConv(info, be.X))
	if id, ok := lhs.(*ast.Ident); ok && strings.EqualFold(id.Name, "rounds") {
		return (be.Op == token.EQL && k == 0) || (be.Op == token.LSS && k == 1) || (be.Op == token.LEQ && k == 0)
	}
	isSize := false
	switch x := lhs.(type) {
	case *ast.CallExpr:
		if id, ok := x.Fun.(*ast.Ident); ok && id.Name == "len" {
			isSize = true
		}
	case *ast.Ident:
		ln := strings.ToLower(x.Name)
		isSize = strings.Contains(ln, "size") || strings.Contains(ln, "count") || strings.Contains(ln, "length")
	}
	if !isSize {
		return false
	}
	switch be.Op {
	case token.LEQ:
		return k <= 1
	case token.LSS:
		return k <= 2
	case token.EQL:
		return k == 0 || k == 1
	}
	return false
}

// ---------------------------------------------------------------------------------------------------------------

func ruleBisectStep(c *Ctx) {
	found := 0
	c.P.funcDecls(func(pk *packages.Package, fd *ast.FuncDecl) {
		if fd.Body == nil || !strings.Contains(pk.PkgPath, "/eth2/") {
			return
		}
		info := pk.TypesInfo
		fname := pkgShort(pk.Types) + "." + funcName(fd)
		ast.Inspect(fd.Body, func(n ast.Node) bool {
			fs, ok := n.(*ast.ForStmt)
			if !ok || fs.Init != nil || fs.Post != nil || fs.Cond == nil {
				return true
			}
			// cond: lo + 1 < hi, in any spelling (hi > lo+1, hi-lo > 1, !(lo+1 >= hi)): brought to `q < 0`
			_, cp, cop := condCutOf(info, fs.Cond, nil)
			if cp == nil {
				return true
			}
			var d Poly
			switch cop {
			case token.LSS:
				d = cp
			case token.GTR:
				d = polyMul(cp, polyConst(-1))
			case token.LEQ:
				d = polyAdd(cp, polyConst(1), -1)
			case token.GEQ:
				d = polyAdd(polyMul(cp, polyConst(-1)), polyConst(1), -1)
			default:
				return true
			}
			as := atomsOf(d)
			if len(as) != 2 || d[""] != 1 {
				return true
			}
			var lo, hi string
			for _, a := range as {
				if d[a] == 1 {
					lo = a
				} else if d[a] == -1 {
					hi = a
				}
			}
			if lo == "" || hi == "" || len(fs.Body.List) < 2 {
				return true
			}
			// the probe: mid = lo + (hi-lo)/2, possibly through a local for the span
			defs := singleDefs(info, fd.Body)
			wantMid := polyAdd(polyAtom(lo), polyDiv(polyAdd(polyAtom(hi), polyAtom(lo), -1), polyConst(2)), 1)
			mid := ""
			midAt := -1
			for i, st := range fs.Body.List {
				first, ok := st.(*ast.AssignStmt)
				if !ok || len(first.Lhs) != 1 || len(first.Rhs) != 1 {
					continue
				}
				mp, ok := exprPoly(info, first.Rhs[0], defs, nil, 0)
				if ok && polyEq(mp, wantMid) {
					mid = strings.ReplaceAll(types.ExprString(first.Lhs[0]), " ", "")
					midAt = i
					break
				}
			}
			if mid == "" {
				return true
			}
			found++
			key := fname + "@bisect"
			// the if/else that moves the bounds
			var mover *ast.IfStmt
			for _, st := range fs.Body.List[midAt+1:] {
				if is, ok := st.(*ast.IfStmt); ok && is.Else != nil {
					mover = is
				}
			}
			if mover == nil {
				c.unm(key, fs.Pos(), "no if/else moving the bounds")
				return true
			}
			check := func(b *ast.BlockStmt) (string, bool) {
				for _, st := range b.List {
					as, ok := st.(*ast.AssignStmt)
					if !ok || as.Tok != token.ASSIGN || len(as.Lhs) != 1 || len(as.Rhs) != 1 {
						continue
					}
					l := strings.ReplaceAll(types.ExprString(as.Lhs[0]), " ", "")
					if l != lo && l != hi {
						continue
					}
					rp, ok := exprPoly(info, as.Rhs[0], nil, nil, 0)
					if !ok || !polyEq(rp, polyAtom(exprAtomText(info, mid))) {
						return fmt.Sprintf("`%s = %s`", l, types.ExprString(as.Rhs[0])), false
					}
					return l, true
				}
				return "no bound moved", false
			}
			eb, _ := mover.Else.(*ast.BlockStmt)
			if eb == nil {
				c.unm(key, mover.Pos(), "else-if in the bound mover")
				return true
			}
			a, okA := check(mover.Body)
			b, okB := check(eb)
			switch {
			case !okA:
				c.bad(key, mover.Pos(), "%s: the bisection's first branch does %s instead of moving a bound to the probed point %s", fname, a, mid)
			case !okB:
				c.bad(key, eb.Pos(), "%s: the bisection's second branch does %s instead of moving a bound to the probed point %s: the point next to the pivot is then never probed, so the answer can be one off", fname, b, mid)
			case a == b:
				c.bad(key, mover.Pos(), "%s: both branches of the bisection move %s", fname, a)
			default:
				c.ok(key, fs.Pos(), "both branches narrow to the probed point (%s / %s = %s)", a, b, mid)
			}
			return true
		})
	})
	if found < 1 {
		anchorFail("bisect.step: no bisection loop of the form `for lo+1 < hi { mid = lo + (hi-lo)/2; ... }` found (ClosestToSlot)")
	}
}

// ---------------------------------------------------------------------------------------------------------------

func divisorSites(p *Prog, f func(pk *packages.Package, fd *ast.FuncDecl, be ast.Node, div ast.Expr)) {
	p.funcDecls(func(pk *packages.Package, fd *ast.FuncDecl) {
		if fd.Body == nil || !strings.Contains(pk.PkgPath, "/eth2/") {
			return
		}
		info := pk.TypesInfo
		ast.Inspect(fd.Body, func(n ast.Node) bool {
			switch x := n.(type) {
			case *ast.BinaryExpr:
				if x.Op != token.QUO && x.Op != token.REM {
					return true
				}
				if tv, ok := info.Types[x.Y]; ok && tv.Value != nil {
					return true
				}
				if b, ok := info.TypeOf(x.Y).Underlying().(*types.Basic); !ok || b.Info()&types.IsInteger == 0 {
					return true
				}
				f(pk, fd, x, x.Y)
			case *ast.AssignStmt:
				if (x.Tok == token.QUO_ASSIGN || x.Tok == token.REM_ASSIGN) && len(x.Rhs) == 1 {
					if tv, ok := info.Types[x.Rhs[0]]; ok && tv.Value != nil {
						return true
					}
					f(pk, fd, x, x.Rhs[0])
				}
			}
			return true
		})
	})
}

func init() {
	if len(os.Args) > 1 && os.Args[1] == "divs" {
		p, err := load(loadOpts{repo: dumpRepo()})
		if err != nil {
			fmt.Println(err)
			os.Exit(2)
		}
		divisorSites(p, func(pk *packages.Package, fd *ast.FuncDecl, n ast.Node, div ast.Expr) {
			fmt.Printf("%s.%s | %s | %s\n", pkgShort(pk.Types), funcName(fd), types.ExprString(div), p.rel(n.Pos()))
		})
		os.Exit(0)
	}
}

// exprAtomText: the atom exprPoly gives a plain place written as text (spec.X -> X is not needed here).
func exprAtomText(info *types.Info, s string) string { return s }

// assumedConds: the conditions that hold whenever control reaches statement n (see assumptionsAt), as syntax:
// (cond, neg) means cond holds (neg=false) or its negation holds (neg=true).
type assumedCond struct {
	cond ast.Expr
	neg  bool
}

func assumedConds(parents map[ast.Node]ast.Node, n ast.Node) []assumedCond {
	var out []assumedCond
	if n == nil {
		return nil
	}
	var child ast.Node = n
	for p := parents[n]; p != nil; child, p = p, parents[p] {
		switch x := p.(type) {
		case *ast.BlockStmt:
			for _, st := range x.List {
				if st == child {
					break
				}
				if is, ok := st.(*ast.IfStmt); ok && is.Else == nil && terminates(is.Body) {
					out = append(out, assumedCond{is.Cond, true})
				}
			}
		case *ast.IfStmt:
			if child == ast.Node(x.Body) {
				out = append(out, assumedCond{x.Cond, false})
			} else if child == ast.Node(x.Else) {
				out = append(out, assumedCond{x.Cond, true})
			}
		case *ast.FuncLit:
			return out
		}
	}
	return out
}

// mentionsLookupFlag: the boolean is defined from the `ok` of a two-result registry lookup (x, ok := cache.ValidatorIndex(pub)).
func mentionsLookupFlag(info *types.Info, id *ast.Ident, defs map[types.Object]localDef, fd *ast.FuncDecl) bool {
	d, ok := defs[info.Uses[id]]
	if !ok || d.rhs == nil {
		return false
	}
	found := false
	ast.Inspect(d.rhs, func(k ast.Node) bool {
		if x, ok := k.(*ast.Ident); ok {
			if dd, ok := defs[info.Uses[x]]; ok && dd.n == 2 && dd.rhs != nil {
				if cl, ok := ast.Unparen(dd.rhs).(*ast.CallExpr); ok {
					if f := calleeFunc(info, cl); f != nil && f.Name() == "ValidatorIndex" {
						found = true
					}
				}
			}
		}
		return !found
	})
	return found
}
