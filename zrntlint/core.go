package main

import (
	"encoding/json"
	"fmt"
	"go/ast"
	"go/token"
	"go/types"
	"os"
	"path/filepath"
	"sort"
	"strings"
	"sync"
	"time"

	"golang.org/x/tools/go/callgraph"
	"golang.org/x/tools/go/callgraph/cha"
	"golang.org/x/tools/go/callgraph/vta"
	"golang.org/x/tools/go/packages"
	"golang.org/x/tools/go/ssa"
	"golang.org/x/tools/go/ssa/ssautil"
)

const modPath = "github.com/protolambda/zrnt"

// Status of an obligation.
const (
	OK         = "ok"
	Violation  = "violation"
	Unmodelled = "unmodelled"
	Info       = "info"
)

// Oblig is one decided (or undecided) instance of a rule on a named construct.
type Oblig struct {
	Rule   string `json:"rule"`
	Key    string `json:"key"` // rule:construct, never a line number
	Pos    string `json:"pos"`
	Status string `json:"status"`
	Detail string `json:"detail,omitempty"`
}

// Prog is the loaded program with lazily built views.
type Prog struct {
	Repo      string
	Fset      *token.FileSet
	Pkgs      []*packages.Package          // root packages (zrnt only)
	ByPth     map[string]*packages.Package // import path -> package (all, incl. deps)
	Files     int
	Funcs     int
	Desugared int // tagless switches rewritten as if-chains (desugar.go)
	Unrolled  int // loops over written-out tables rewritten as straight-line code (unroll.go)
	Clamps    int // branch-written clamps and saturating subtractions rewritten with min/max (desugar.go)
	Flags     int // boolean flags defined as a disjunction turned into their negation (desugar_cmp.go)
	SplitCmps int // ordering tests against a min/max split into the tests against its operands (desugar_cmp.go)

	ssaOnce sync.Once
	SSA     *ssa.Program
	SSAPkgs map[*types.Package]*ssa.Package

	cgOnce sync.Once
	vtaCG  *callgraph.Graph
	chaCG  *callgraph.Graph

	overlay map[string][]byte
}

type loadOpts struct {
	repo    string
	tests   bool
	overlay map[string][]byte
}

func load(o loadOpts) (*Prog, error) {
	cfg := &packages.Config{
		Mode: packages.NeedName | packages.NeedFiles | packages.NeedCompiledGoFiles | packages.NeedImports |
			packages.NeedDeps | packages.NeedTypes | packages.NeedSyntax | packages.NeedTypesInfo |
			packages.NeedTypesSizes | packages.NeedModule | packages.NeedEmbedFiles | packages.NeedEmbedPatterns,
		Dir:     o.repo,
		Tests:   o.tests,
		Overlay: o.overlay,
		Env: append(os.Environ(), "GOFLAGS=-mod=mod", "GOPROXY=off", "GOSUMDB=off", "GOTOOLCHAIN=local",
			"GOWORK=off"),
	}
	pats := []string{"./eth2/...", "./example/..."}
	if o.tests {
		pats = append(pats, "./tests/...")
	}
	pkgs, err := packages.Load(cfg, pats...)
	if err != nil {
		return nil, fmt.Errorf("packages.Load: %w", err)
	}
	if len(pkgs) == 0 {
		return nil, fmt.Errorf("no packages loaded from %s", o.repo)
	}
	p := &Prog{Repo: o.repo, ByPth: map[string]*packages.Package{}, overlay: o.overlay}
	var errs []string
	packages.Visit(pkgs, nil, func(pk *packages.Package) {
		if _, ok := p.ByPth[pk.PkgPath]; !ok || !strings.HasSuffix(pk.ID, "]") {
			if old, ok := p.ByPth[pk.PkgPath]; !ok || len(old.Syntax) == 0 {
				p.ByPth[pk.PkgPath] = pk
			}
		}
		if strings.HasPrefix(pk.PkgPath, modPath) {
			for _, e := range pk.Errors {
				errs = append(errs, e.Error())
			}
			if len(pk.IgnoredFiles) > 0 {
				for _, f := range pk.IgnoredFiles {
					if strings.HasSuffix(f, ".go") {
						errs = append(errs, "ignored go file (build tag/arch not covered): "+f)
					}
				}
			}
		}
	})
	if len(errs) > 0 {
		sort.Strings(errs)
		if len(errs) > 8 {
			errs = errs[:8]
		}
		return nil, fmt.Errorf("load/type errors: %s", strings.Join(errs, "; "))
	}
	// with Tests:true a package appears twice (plain and "[pkg.test]" variant, the latter a superset): keep one per path
	best := map[string]*packages.Package{}
	for _, pk := range pkgs {
		if !strings.HasPrefix(pk.PkgPath, modPath) || strings.HasSuffix(pk.ID, ".test") {
			continue
		}
		// keep the plain package: the "[pkg.test]" variant has distinct type objects that other packages do not import,
		// which would break cross-package resolution; in-package _test.go files are therefore not analysed.
		if old, ok := best[pk.PkgPath]; !ok || strings.Contains(old.ID, "[") && !strings.Contains(pk.ID, "[") {
			best[pk.PkgPath] = pk
		}
	}
	for _, pk := range pkgs {
		if best[pk.PkgPath] != pk {
			continue
		}
		p.ByPth[pk.PkgPath] = pk
		p.Pkgs = append(p.Pkgs, pk)
		if p.Fset == nil {
			p.Fset = pk.Fset
		}
		p.Files += len(pk.Syntax)
		for _, f := range pk.Syntax {
			for _, d := range f.Decls {
				if fd, ok := d.(*ast.FuncDecl); ok && fd.Body != nil {
					p.Funcs++
				}
			}
		}
	}
	if len(p.Pkgs) < 10 {
		return nil, fmt.Errorf("only %d zrnt packages loaded, expected >= 10", len(p.Pkgs))
	}
	sort.Slice(p.Pkgs, func(i, j int) bool { return p.Pkgs[i].ID < p.Pkgs[j].ID })
	p.Desugared = desugarLoopHeads(p) + desugarSwitches(p)
	partlyWritten = map[types.Object]bool{}
	for _, pk := range p.Pkgs {
		info := pk.TypesInfo
		base := func(e ast.Expr) types.Object {
			through := false
			for {
				switch x := ast.Unparen(e).(type) {
				case *ast.Ident:
					if !through {
						return nil
					}
					return info.ObjectOf(x)
				case *ast.SelectorExpr:
					e, through = x.X, true
				case *ast.IndexExpr:
					e, through = x.X, true
				case *ast.StarExpr:
					e, through = x.X, true
				default:
					return nil
				}
			}
		}
		for _, f := range pk.Syntax {
			ast.Inspect(f, func(n ast.Node) bool {
				switch x := n.(type) {
				case *ast.AssignStmt:
					for _, l := range x.Lhs {
						if o := base(l); o != nil {
							partlyWritten[o] = true
						}
					}
				case *ast.IncDecStmt:
					if o := base(x.X); o != nil {
						partlyWritten[o] = true
					}
				case *ast.UnaryExpr:
					if x.Op == token.AND {
						if id, ok := ast.Unparen(x.X).(*ast.Ident); ok {
							if o := info.ObjectOf(id); o != nil {
								partlyWritten[o] = true
							}
						} else if o := base(x.X); o != nil {
							partlyWritten[o] = true
						}
					}
				case *ast.CallExpr:
					// a method with a pointer receiver called on the variable may write into it
					if sel, ok := ast.Unparen(x.Fun).(*ast.SelectorExpr); ok {
						if s := info.Selections[sel]; s != nil && s.Kind() == types.MethodVal {
							if sig, ok := s.Obj().Type().(*types.Signature); ok && sig.Recv() != nil {
								if _, ptr := sig.Recv().Type().(*types.Pointer); ptr {
									if id, ok := ast.Unparen(sel.X).(*ast.Ident); ok {
										if o := info.ObjectOf(id); o != nil {
											if _, isPtr := o.Type().Underlying().(*types.Pointer); !isPtr {
												partlyWritten[o] = true
											}
										}
									}
								}
							}
						}
					}
				}
				return true
			})
		}
	}
	p.Unrolled = desugarTableLoops(p)
	p.Clamps = desugarClamps(p)
	p.SplitCmps = desugarMinMaxCmps(p)
	p.Flags = desugarFlagPolarity(p)
	computeOwners(p)
	return p, nil
}

// partlyWritten: variables of which a part is assigned somewhere (x.f = …, x[i] = …, x.f++), whose address is taken, or
// on which a pointer-receiver method is called: the value they were defined with is not the value they hold later.
var partlyWritten map[types.Object]bool

// Pkg returns the (non-test) zrnt package with the path suffix, e.g. "eth2/beacon/common".
func (p *Prog) Pkg(suffix string) *packages.Package {
	return p.ByPth[modPath+"/"+suffix]
}

func (p *Prog) buildSSA() {
	p.ssaOnce.Do(func() {
		// build SSA for all packages (deps included) so call graph sees through ztyp.
		var all []*packages.Package
		for _, pk := range p.Pkgs {
			all = append(all, pk)
		}
		prog, _ := ssautil.AllPackages(all, ssa.InstantiateGenerics)
		prog.Build()
		p.SSA = prog
		p.SSAPkgs = map[*types.Package]*ssa.Package{}
		for _, sp := range prog.AllPackages() {
			p.SSAPkgs[sp.Pkg] = sp
		}
	})
}

func (p *Prog) VTA() *callgraph.Graph {
	p.buildSSA()
	p.cgOnce.Do(func() {
		p.chaCG = cha.CallGraph(p.SSA)
		p.vtaCG = vta.CallGraph(ssautil.AllFunctions(p.SSA), p.chaCG)
	})
	return p.vtaCG
}

func (p *Prog) CHA() *callgraph.Graph {
	p.VTA()
	return p.chaCG
}

// SSAFunc returns the ssa function for a types.Func.
func (p *Prog) SSAFunc(f *types.Func) *ssa.Function {
	p.buildSSA()
	return p.SSA.FuncValue(f)
}

// rel returns a repo-relative file:line for a position.
func (p *Prog) rel(pos token.Pos) string {
	if !pos.IsValid() {
		return "?"
	}
	ps := p.Fset.Position(pos)
	f := ps.Filename
	if r, err := filepath.Rel(p.Repo, f); err == nil && !strings.HasPrefix(r, "..") {
		f = r
	}
	return fmt.Sprintf("%s:%d", f, ps.Line)
}

// short package name for keys: last path element ("common", "phase0", "proto"...).
func pkgShort(pk *types.Package) string {
	if pk == nil {
		return ""
	}
	return pk.Name()
}

// ---- rule registry ----

type Rule struct {
	Name  string
	Doc   string // the rule applied (one sentence, for evidence)
	Floor int    // minimum number of obligations expected (vacuity guard)
	Run   func(c *Ctx)
}

type Ctx struct {
	P    *Prog
	rule *Rule
	out  []Oblig
	// counters of things analysed, for evidence
	stats map[string]int
}

func (c *Ctx) add(status, construct string, pos token.Pos, detail string, args ...any) {
	c.out = append(c.out, Oblig{Rule: c.rule.Name, Key: c.rule.Name + ":" + construct, Pos: c.P.rel(pos),
		Status: status, Detail: fmt.Sprintf(detail, args...)})
}
func (c *Ctx) ok(construct string, pos token.Pos, detail string, args ...any) {
	c.add(OK, construct, pos, detail, args...)
}
func (c *Ctx) bad(construct string, pos token.Pos, detail string, args ...any) {
	c.add(Violation, construct, pos, detail, args...)
}
func (c *Ctx) unm(construct string, pos token.Pos, detail string, args ...any) {
	c.add(Unmodelled, construct, pos, detail, args...)
}
func (c *Ctx) info(construct string, pos token.Pos, detail string, args ...any) {
	c.add(Info, construct, pos, detail, args...)
}
func (c *Ctx) stat(k string, n int) {
	if c.stats == nil {
		c.stats = map[string]int{}
	}
	c.stats[k] += n
}

// anchorErr is raised (panic) when a registry anchor does not resolve: the check must error, not pass.
type anchorErr struct{ msg string }

func anchorFail(format string, args ...any) {
	panic(anchorErr{fmt.Sprintf(format, args...)})
}

var rules = map[string]*Rule{}

func register(r *Rule) {
	if _, dup := rules[r.Name]; dup {
		panic("duplicate rule " + r.Name)
	}
	rules[r.Name] = r
}

type ruleResult struct {
	Rule   *Rule
	Obligs []Oblig
	Stats  map[string]int
	Err    string
	Wall   float64
}

func runRule(p *Prog, r *Rule) (res ruleResult) {
	t0 := time.Now()
	res.Rule = r
	c := &Ctx{P: p, rule: r}
	defer func() {
		res.Wall = time.Since(t0).Seconds()
		if e := recover(); e != nil {
			if ae, ok := e.(anchorErr); ok {
				res.Err = "anchor: " + ae.msg
			} else {
				res.Err = fmt.Sprintf("analyser panic: %v", e)
				if os.Getenv("ZRNTLINT_DEBUG") != "" {
					panic(e)
				}
			}
		}
		res.Obligs = c.out
		res.Stats = c.stats
	}()
	r.Run(c)
	// de-duplicate keys deterministically: identical key twice gets #n suffix
	seen := map[string]int{}
	for i := range c.out {
		k := c.out[i].Key
		seen[k]++
		if seen[k] > 1 {
			c.out[i].Key = fmt.Sprintf("%s#%d", k, seen[k])
		}
	}
	return
}

// ---- known findings ----

type KnownFinding struct {
	Property string `json:"property"`
	Key      string `json:"key"`
	What     string `json:"what"`
	Triage   string `json:"triage,omitempty"`
}
type FixedFinding struct {
	Property string `json:"property"`
	Commit   string `json:"commit"`
	Key      string `json:"key"`
	What     string `json:"what"`
}
type KnownFile struct {
	Comment string         `json:"comment"`
	Known   []KnownFinding `json:"known"`
	Fixed   []FixedFinding `json:"fixed"`
}

func loadKnown(path string) (*KnownFile, error) {
	b, err := os.ReadFile(path)
	if err != nil {
		if os.IsNotExist(err) {
			return &KnownFile{}, nil
		}
		return nil, err
	}
	var k KnownFile
	if err := json.Unmarshal(b, &k); err != nil {
		return nil, err
	}
	return &k, nil
}

// ---- helpers shared by rules ----

// funcDecls iterates over all function declarations with bodies in zrnt root packages.
func (p *Prog) funcDecls(f func(pk *packages.Package, fd *ast.FuncDecl)) {
	for _, pk := range p.Pkgs {
		for _, file := range pk.Syntax {
			for _, d := range file.Decls {
				if fd, ok := d.(*ast.FuncDecl); ok && fd.Body != nil {
					f(pk, fd)
				}
			}
		}
	}
}

// recvTypeName returns the receiver's named type name ("" if none).
func recvTypeName(fd *ast.FuncDecl) string {
	if fd.Recv == nil || len(fd.Recv.List) == 0 {
		return ""
	}
	t := fd.Recv.List[0].Type
	for {
		switch x := t.(type) {
		case *ast.StarExpr:
			t = x.X
		case *ast.ParenExpr:
			t = x.X
		case *ast.IndexExpr:
			t = x.X
		case *ast.Ident:
			return x.Name
		default:
			return ""
		}
	}
}

// funcName gives "Recv.Name" or "Name".
func funcName(fd *ast.FuncDecl) string {
	if r := recvTypeName(fd); r != "" {
		return r + "." + fd.Name.Name
	}
	return fd.Name.Name
}

// findFunc finds a function/method declaration in package by "Name" or "Recv.Name".
func (p *Prog) findFunc(pkgSuffix, name string) (*packages.Package, *ast.FuncDecl) {
	pk := p.Pkg(pkgSuffix)
	if pk == nil {
		return nil, nil
	}
	for _, file := range pk.Syntax {
		for _, d := range file.Decls {
			if fd, ok := d.(*ast.FuncDecl); ok && funcName(fd) == name {
				return pk, fd
			}
		}
	}
	return pk, nil
}

func (p *Prog) mustFunc(pkgSuffix, name string) (*packages.Package, *ast.FuncDecl) {
	pk, fd := p.findFunc(pkgSuffix, name)
	if pk == nil {
		anchorFail("package %s not loaded", pkgSuffix)
	}
	if fd == nil || fd.Body == nil {
		anchorFail("function %s.%s not found", pkgSuffix, name)
	}
	return pk, fd
}

// callee resolves the static callee of a call (function, method, or nil for dynamic/builtin/conversion).
func callee(info *types.Info, call *ast.CallExpr) types.Object {
	fun := ast.Unparen(call.Fun)
	switch f := fun.(type) {
	case *ast.Ident:
		return info.Uses[f]
	case *ast.SelectorExpr:
		if sel, ok := info.Selections[f]; ok {
			return sel.Obj()
		}
		return info.Uses[f.Sel]
	case *ast.IndexExpr:
		if id, ok := ast.Unparen(f.X).(*ast.Ident); ok {
			return info.Uses[id]
		}
	}
	return nil
}

// calleeFunc returns the *types.Func if the call statically resolves to a function or (possibly interface) method.
func calleeFunc(info *types.Info, call *ast.CallExpr) *types.Func {
	if o := callee(info, call); o != nil {
		if f, ok := o.(*types.Func); ok {
			return f
		}
		// a local that holds a method value or a function and nothing else (store := state.Set; store(…)): the call
		// is a call of that method (owners.go)
		if lv, ok := localFuncValues[o]; ok {
			return lv.fn
		}
	}
	return nil
}

// qualName: pkgname.Recv.Name or pkgname.Name for a types.Func.
func qualName(f *types.Func) string {
	if f == nil {
		return ""
	}
	sig, _ := f.Type().(*types.Signature)
	name := f.Name()
	if sig != nil && sig.Recv() != nil {
		t := sig.Recv().Type()
		if pt, ok := t.(*types.Pointer); ok {
			t = pt.Elem()
		}
		if nt, ok := t.(*types.Named); ok {
			name = nt.Obj().Name() + "." + name
		} else if it, ok := t.(*types.Interface); ok {
			_ = it
			name = "(iface)." + name
		}
	}
	if f.Pkg() != nil {
		return f.Pkg().Name() + "." + name
	}
	return name
}

// isZrnt reports whether the object lives in the zrnt module.
func isZrnt(o types.Object) bool {
	return o != nil && o.Pkg() != nil && strings.HasPrefix(o.Pkg().Path(), modPath)
}

func exprStr(fset *token.FileSet, e ast.Expr) string {
	return types.ExprString(e)
}

func namedOf(t types.Type) *types.Named {
	for {
		switch x := t.(type) {
		case *types.Pointer:
			t = x.Elem()
		case *types.Named:
			return x
		case *types.Alias:
			t = types.Unalias(x)
		default:
			return nil
		}
	}
}

func sortedKeys[V any](m map[string]V) []string {
	ks := make([]string, 0, len(m))
	for k := range m {
		ks = append(ks, k)
	}
	sort.Strings(ks)
	return ks
}

// dumpRepo: the tree the survey sub-commands (cmps, formulas, siblings, divs) read; VERIF_REPO overrides /repo.
func dumpRepo() string {
	if r := os.Getenv("VERIF_REPO"); r != "" {
		return r
	}
	return "/repo"
}
