package main

import (
	"go/ast"
	"go/types"
	"strings"

	"golang.org/x/tools/go/packages"
)

func init() {
	register(&Rule{Name: "args.order", Floor: 250,
		Doc: "at every call of a zrnt function, no two arguments carry the names of two same-typed parameters of the callee at each other's positions: by exact leaf name, or by the distinguishing words of the parameter names found in the other argument's path (finalized/justified in fc.finalized.Epoch, fc.justified.Epoch); a swapped pair of same-typed arguments type-checks and silently exchanges their meaning",
		Run: ruleArgsOrder})
}

func leafName(e ast.Expr) string {
	switch x := ast.Unparen(e).(type) {
	case *ast.Ident:
		return x.Name
	case *ast.SelectorExpr:
		return x.Sel.Name
	}
	return ""
}

func normName(s string) string {
	return strings.ToLower(strings.ReplaceAll(s, "_", ""))
}

func ruleArgsOrder(c *Ctx) {
	sites := 0
	c.P.funcDecls(func(pk *packages.Package, fd *ast.FuncDecl) {
		info := pk.TypesInfo
		ast.Inspect(fd.Body, func(n ast.Node) bool {
			call, ok := n.(*ast.CallExpr)
			if !ok {
				return true
			}
			f := calleeFunc(info, call)
			if f == nil || !isZrnt(f) {
				return true
			}
			sig := f.Type().(*types.Signature)
			np := sig.Params().Len()
			if np < 2 || len(call.Args) != np || sig.Variadic() {
				return true
			}
			sites++
			swapped := false
			for i := 0; i < np && !swapped; i++ {
				ai := normName(leafName(call.Args[i]))
				if ai == "" {
					continue
				}
				pi := sig.Params().At(i)
				if normName(pi.Name()) == ai {
					continue
				}
				for j := 0; j < np; j++ {
					if j == i {
						continue
					}
					pj := sig.Params().At(j)
					if normName(pj.Name()) != ai || !types.Identical(pi.Type(), pj.Type()) {
						continue
					}
					// argument i bears parameter j's name; is argument j named after parameter i (a true swap)?
					aj := normName(leafName(call.Args[j]))
					if aj == normName(pi.Name()) {
						key := pkgShort(pk.Types) + "." + funcName(fd) + "->" + qualName(f)
						c.bad(key, call.Pos(), "arguments %s and %s are passed at the positions of parameters %s and %s of %s (same type %s): swapped", types.ExprString(call.Args[i]), types.ExprString(call.Args[j]), pi.Name(), pj.Name(), qualName(f), pi.Type())
						swapped = true
						break
					}
				}
			}
			// the same by distinguishing words: parameters justifiedEpoch / finalizedEpoch differ by "justified" /
			// "finalized"; an argument path that carries the OTHER parameter's word at each of the two positions
			// (fc.finalized.Epoch, fc.justified.Epoch) is the same exchange
			for i := 0; i < np && !swapped; i++ {
				for j := i + 1; j < np && !swapped; j++ {
					pi, pj := sig.Params().At(i), sig.Params().At(j)
					if !types.Identical(pi.Type(), pj.Type()) {
						continue
					}
					wi, wj := distinctWords(pi.Name(), pj.Name())
					if len(wi) == 0 || len(wj) == 0 {
						continue
					}
					ai, aj := pathWords(call.Args[i]), pathWords(call.Args[j])
					has := func(ws map[string]bool, set []string) bool {
						for _, w := range set {
							if ws[w] {
								return true
							}
						}
						return false
					}
					if has(ai, wj) && !has(ai, wi) && has(aj, wi) && !has(aj, wj) {
						key := pkgShort(pk.Types) + "." + funcName(fd) + "->" + qualName(f)
						c.bad(key, call.Pos(), "arguments %s and %s are passed at the positions of parameters %s and %s of %s (same type %s): each names what the other parameter is called — swapped", types.ExprString(call.Args[i]), types.ExprString(call.Args[j]), pi.Name(), pj.Name(), qualName(f), pi.Type())
						swapped = true
					}
				}
			}
			if !swapped {
				c.ok(pkgShort(pk.Types)+"."+funcName(fd)+"->"+qualName(f), call.Pos(), "no permuted same-typed arguments")
			}
			return true
		})
	})
	c.stat("call_sites_checked", sites)
}

// camelWords: "justifiedEpoch" -> [justified epoch]; "prev_epoch" -> [prev epoch].
func camelWords(s string) []string {
	var out []string
	cur := ""
	flush := func() {
		if cur != "" {
			out = append(out, strings.ToLower(cur))
			cur = ""
		}
	}
	for i, r := range s {
		switch {
		case r == '_':
			flush()
		case r >= 'A' && r <= 'Z' && i > 0 && cur != "" && !(cur[len(cur)-1] >= 'A' && cur[len(cur)-1] <= 'Z'):
			flush()
			cur += string(r)
		default:
			cur += string(r)
		}
	}
	flush()
	return out
}

// distinctWords: the words of a that b does not have, and the reverse (words shorter than 4 letters do not count).
func distinctWords(a, b string) (onlyA, onlyB []string) {
	wa, wb := camelWords(a), camelWords(b)
	in := func(w string, ws []string) bool {
		for _, x := range ws {
			if x == w {
				return true
			}
		}
		return false
	}
	for _, w := range wa {
		if len(w) >= 4 && !in(w, wb) {
			onlyA = append(onlyA, w)
		}
	}
	for _, w := range wb {
		if len(w) >= 4 && !in(w, wa) {
			onlyB = append(onlyB, w)
		}
	}
	return
}

// pathWords: the words of every identifier of a plain path expression (a.b.c, conversions and & stripped).
func pathWords(e ast.Expr) map[string]bool {
	out := map[string]bool{}
	var walk func(e ast.Expr)
	walk = func(e ast.Expr) {
		switch x := ast.Unparen(e).(type) {
		case *ast.Ident:
			for _, w := range camelWords(x.Name) {
				out[w] = true
			}
		case *ast.SelectorExpr:
			walk(x.X)
			for _, w := range camelWords(x.Sel.Name) {
				out[w] = true
			}
		case *ast.UnaryExpr:
			walk(x.X)
		case *ast.StarExpr:
			walk(x.X)
		case *ast.CallExpr:
			if len(x.Args) == 1 {
				walk(x.Args[0]) // conversion
			}
		}
	}
	walk(e)
	return out
}
