package main

import (
	"go/ast"
	"go/types"
	"strings"

	"golang.org/x/tools/go/packages"
)

func init() {
	register(&Rule{Name: "args.order", Floor: 250,
		Doc: "at every call of a zrnt function, no two arguments that are plain identifiers/field selectors carry the names of two same-typed parameters of the callee at each other's positions (exact-name permutation; a swapped pair of same-typed arguments type-checks and silently exchanges their meaning)",
		Run: ruleArgsOrder})
}

func leafName(e ast.Expr) string {
	switch x := ast.Unparen(e).(type) {
	case *ast.Ident:
		return x.Name
	case *ast.SelectorExpr:
		return x.Sel.Name
	}
	return ""
}

func normName(s string) string {
	return strings.ToLower(strings.ReplaceAll(s, "_", ""))
}

func ruleArgsOrder(c *Ctx) {
	sites := 0
	c.P.funcDecls(func(pk *packages.Package, fd *ast.FuncDecl) {
		info := pk.TypesInfo
		ast.Inspect(fd.Body, func(n ast.Node) bool {
			call, ok := n.(*ast.CallExpr)
			if !ok {
				return true
			}
			f := calleeFunc(info, call)
			if f == nil || !isZrnt(f) {
				return true
			}
			sig := f.Type().(*types.Signature)
			np := sig.Params().Len()
			if np < 2 || len(call.Args) != np || sig.Variadic() {
				return true
			}
			sites++
			swapped := false
			for i := 0; i < np && !swapped; i++ {
				ai := normName(leafName(call.Args[i]))
				if ai == "" {
					continue
				}
				pi := sig.Params().At(i)
				if normName(pi.Name()) == ai {
					continue
				}
				for j := 0; j < np; j++ {
					if j == i {
						continue
					}
					pj := sig.Params().At(j)
					if normName(pj.Name()) != ai || !types.Identical(pi.Type(), pj.Type()) {
						continue
					}
					// argument i bears parameter j's name; is argument j named after parameter i (a true swap)?
					aj := normName(leafName(call.Args[j]))
					if aj == normName(pi.Name()) {
						key := pkgShort(pk.Types) + "." + funcName(fd) + "->" + qualName(f)
						c.bad(key, call.Pos(), "arguments %s and %s are passed at the positions of parameters %s and %s of %s (same type %s): swapped", types.ExprString(call.Args[i]), types.ExprString(call.Args[j]), pi.Name(), pj.Name(), qualName(f), pi.Type())
						swapped = true
						break
					}
				}
			}
			if !swapped {
				c.ok(pkgShort(pk.Types)+"."+funcName(fd)+"->"+qualName(f), call.Pos(), "no permuted same-typed arguments")
			}
			return true
		})
	})
	c.stat("call_sites_checked", sites)
}
