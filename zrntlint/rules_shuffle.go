package main

import (
	"bytes"
	"fmt"
	"go/ast"
	"go/printer"
	"go/token"
	"go/types"
	"sort"
	"strings"

	"golang.org/x/tools/go/packages"
)

func init() {
	register(&Rule{Name: "shuffle.perm", Floor: 6,
		Doc: "the whole-list shuffle only ever writes its input through two-element parallel swaps (so the output is a permutation of the input for every seed, size and round count); the forward entry points pass dir=true and the inverse ones dir=false to the same inner routine; the round counter runs 0..rounds-1 forwards and rounds-1..0 backwards (`for { … break }` with a stepped counter, or a counting loop over step with round = step / rounds-1-step); the two mirrored pair loops of innerShuffleList have identical bodies; NewShufflingEpoch copies the active indices element-wise and un-shuffles them with SHUFFLE_ROUND_COUNT",
		Run: ruleShufflePerm})
	register(&Rule{Name: "committee.partition", Floor: 6,
		Doc: "committees are consecutive reslices Shuffling[start(k):end(k)] of one permutation with start(k) = n*k/count, end(k) = start(k+1), k = slot*perSlot + index over the full slot x index product and count = perSlot*SLOTS_PER_EPOCH (so they partition the active set); CommitteeCount clamps active/SLOTS_PER_EPOCH/TARGET_COMMITTEE_SIZE to [1, MAX_COMMITTEES_PER_SLOT]; proposer and sync-committee sampling use the same acceptance test against MAX_EFFECTIVE_BALANCE and the same permuted-index call",
		Run: ruleCommitteePartition})
}

func nodeString(fset *token.FileSet, n ast.Node) string {
	var buf bytes.Buffer
	printer.Fprint(&buf, fset, n)
	return buf.String()
}

func ruleShufflePerm(c *Ctx) {
	pk, fd := c.P.mustFunc("eth2/beacon/common", "innerShuffleList")
	info := pk.TypesInfo
	// the slice parameter
	var input types.Object
	for _, f := range fd.Type.Params.List {
		if _, ok := info.TypeOf(f.Type).(*types.Slice); ok {
			for _, n := range f.Names {
				input = info.Defs[n]
			}
		}
	}
	if input == nil {
		anchorFail("innerShuffleList: slice parameter not found")
	}
	// (a) writes: in innerShuffleList and in any unexported function of the package the list is handed to, the list is
	// written by two-element swaps of its own elements only, and is handed to nothing else
	swaps, bad := 0, 0
	type lstFn struct {
		fd  *ast.FuncDecl
		obj types.Object
	}
	work := []lstFn{{fd, input}}
	seenFn := map[*ast.FuncDecl]bool{fd: true}
	var helperCalls []*ast.FuncDecl // helpers that received the list, once per call
	for len(work) > 0 {
		cur := work[0]
		work = work[1:]
		ast.Inspect(cur.fd.Body, func(n ast.Node) bool {
			as, ok := n.(*ast.AssignStmt)
			if !ok {
				return true
			}
			touches := false
			for _, l := range as.Lhs {
				if mentions(info, l, cur.obj) {
					touches = true
				}
			}
			if !touches {
				return true
			}
			// must be input[a], input[b] = input[b], input[a]
			isSwap := len(as.Lhs) == 2 && len(as.Rhs) == 2 && as.Tok == token.ASSIGN &&
				types.ExprString(as.Lhs[0]) == types.ExprString(as.Rhs[1]) && types.ExprString(as.Lhs[1]) == types.ExprString(as.Rhs[0])
			if isSwap {
				for _, l := range as.Lhs {
					ix, ok := ast.Unparen(l).(*ast.IndexExpr)
					if !ok {
						isSwap = false
						continue
					}
					if id, ok := ast.Unparen(ix.X).(*ast.Ident); !ok || info.Uses[id] != cur.obj {
						isSwap = false
					}
				}
			}
			if isSwap {
				swaps++
			} else {
				bad++
				c.bad("innerShuffleList.write", as.Pos(), "the list is written by `%s`, which is not a two-element swap: an element can be lost or duplicated", nodeString(c.P.Fset, as))
			}
			return true
		})
		// no append / reslice passing the list on — except to an unexported function of the package, which is then
		// held to the same rules
		ast.Inspect(cur.fd.Body, func(n ast.Node) bool {
			call, ok := n.(*ast.CallExpr)
			if !ok {
				return true
			}
			for ai, a := range call.Args {
				id, ok := ast.Unparen(a).(*ast.Ident)
				if !ok || info.Uses[id] != cur.obj {
					continue
				}
				if fid, ok := call.Fun.(*ast.Ident); ok && fid.Name == "len" {
					continue
				}
				if f := calleeFunc(info, call); f != nil && !f.Exported() && f.Pkg() == pk.Types {
					var hd *ast.FuncDecl
					c.P.funcDecls(func(p2 *packages.Package, f2 *ast.FuncDecl) {
						if p2 == pk && f2.Body != nil && p2.TypesInfo.Defs[f2.Name] == f {
							hd = f2
						}
					})
					if hd != nil {
						k := 0
						var pobj types.Object
						for _, fl := range hd.Type.Params.List {
							for _, nm := range fl.Names {
								if k == ai {
									pobj = info.Defs[nm]
								}
								k++
							}
						}
						if pobj != nil {
							helperCalls = append(helperCalls, hd)
							if !seenFn[hd] {
								seenFn[hd] = true
								work = append(work, lstFn{hd, pobj})
							}
							continue
						}
					}
				}
				bad++
				c.bad("innerShuffleList.escape", call.Pos(), "the list is handed to %s inside the shuffle", types.ExprString(call.Fun))
			}
			return true
		})
	}
	if bad == 0 && swaps >= 2 {
		c.ok("innerShuffleList.write", fd.Pos(), "%d write sites, all two-element swaps of the list's own elements", swaps)
	} else if bad == 0 && swaps == 1 && len(helperCalls) == 2 && helperCalls[0] == helperCalls[1] {
		c.ok("innerShuffleList.write", fd.Pos(), "one swap site in %s, used for both segments", helperCalls[0].Name.Name)
	} else if swaps < 2 && bad == 0 {
		c.unm("innerShuffleList.write", fd.Pos(), "expected two swap sites, found %d", swaps)
	}
	// (c) mirrored loops
	var loops []*ast.ForStmt
	ast.Inspect(fd.Body, func(n ast.Node) bool {
		if f, ok := n.(*ast.ForStmt); ok && f.Init != nil && f.Post != nil {
			loops = append(loops, f)
		}
		return true
	})
	if len(loops) == 0 && len(helperCalls) == 2 && helperCalls[0] == helperCalls[1] {
		// one function does the pairs of a segment and is called for both segments: they cannot be treated differently
		c.ok("innerShuffleList.mirror", fd.Pos(), "both segments are handled by %s", helperCalls[0].Name.Name)
		c.ok("innerShuffleList.prelude1", fd.Pos(), "set-up is part of %s (its own parameters only)", helperCalls[0].Name.Name)
		c.ok("innerShuffleList.prelude2", fd.Pos(), "set-up is part of %s (its own parameters only)", helperCalls[0].Name.Name)
	} else if len(loops) != 2 {
		c.unm("innerShuffleList.mirror", fd.Pos(), "expected the two pair loops, found %d", len(loops))
	} else {
		strip := func(b *ast.BlockStmt) string {
			return nodeString(c.P.Fset, b) // printer drops comments that are not attached
		}
		a, b := strip(loops[0].Body), strip(loops[1].Body)
		norm := func(s string) string {
			var out []string
			for _, l := range strings.Split(s, "\n") {
				l = strings.TrimSpace(l)
				if l == "" || strings.HasPrefix(l, "//") {
					continue
				}
				out = append(out, l)
			}
			return strings.Join(out, "\n")
		}
		if norm(a) == norm(b) && types.ExprString(loops[0].Cond) == types.ExprString(loops[1].Cond) && nodeString(c.P.Fset, loops[0].Post) == nodeString(c.P.Fset, loops[1].Post) {
			c.ok("innerShuffleList.mirror", loops[0].Pos(), "both pair loops decide and swap identically")
		} else {
			c.bad("innerShuffleList.mirror", loops[1].Pos(), "the two pair loops (left of the pivot / right of the pivot) no longer have the same body, condition and step: pairs on one side of the pivot are treated differently from the other")
		}
	}
	// (c') the hash-source prelude of each pair loop refers only to that loop's own starting position
	if len(loops) == 2 {
		var prevEnd token.Pos = fd.Body.Pos()
		for li, lp := range loops {
			init, _ := lp.Init.(*ast.AssignStmt)
			key := fmt.Sprintf("innerShuffleList.prelude%d", li+1)
			if init == nil || len(init.Rhs) != 2 {
				c.unm(key, lp.Pos(), "pair loop init not of the form i, j := a, b")
				continue
			}
			j0, ok := ast.Unparen(init.Rhs[1]).(*ast.Ident)
			if !ok {
				c.unm(key, lp.Pos(), "start position of j is not a variable")
				continue
			}
			// the other segment's start position: the j-start of the other pair loop
			other := map[string]bool{}
			for _, ol := range loops {
				if oi, _ := ol.Init.(*ast.AssignStmt); oi != nil && len(oi.Rhs) == 2 {
					if oj, ok := ast.Unparen(oi.Rhs[1]).(*ast.Ident); ok {
						other[oj.Name] = true
					}
				}
			}
			delete(other, j0.Name)
			// variables this loop's header reads (start positions, bound): their definitions are exempt
			header := map[string]bool{}
			for _, e := range append(append([]ast.Expr{}, init.Rhs...), lp.Cond) {
				ast.Inspect(e, func(m ast.Node) bool {
					if id, ok := m.(*ast.Ident); ok {
						header[id.Name] = true
					}
					return true
				})
			}
			var wrong *ast.Ident
			// statements of the enclosing block between the previous loop and this one
			parents := parentMap(fd.Body)
			blk, _ := parents[ast.Node(lp)].(*ast.BlockStmt)
			if blk != nil {
				for _, st := range blk.List {
					if st.Pos() <= prevEnd || st.Pos() >= lp.Pos() {
						continue
					}
					if as, ok := st.(*ast.AssignStmt); ok && len(as.Lhs) == 1 {
						if id, ok := as.Lhs[0].(*ast.Ident); ok && (header[id.Name] || other[id.Name]) {
							continue
						}
					}
					ast.Inspect(st, func(m ast.Node) bool {
						if id, ok := m.(*ast.Ident); ok && other[id.Name] && wrong == nil {
							wrong = id
						}
						return true
					})
				}
			}
			if wrong != nil {
				c.bad(key, wrong.Pos(), "the hash-source set-up before the pair loop that starts at j = %s refers to %s, the other segment's position: the first swap bits of this segment come from the wrong hash block", j0.Name, wrong.Name)
			} else {
				c.ok(key, lp.Pos(), "set-up before the loop refers to its own start position %s only", j0.Name)
			}
			prevEnd = lp.End()
		}
	}
	// (d) round direction in both inner functions: the round counter starts at 0 (forward) or rounds-1 (backward),
	// forward steps r++ and leaves when r == rounds, backward leaves when r == 0 BEFORE r-- (no uint8 wrap);
	// rounds == 0 returns at once. The direction tests are found by the bool parameter they test, either polarity.
	for _, name := range []string{"innerShuffleList", "innerPermuteIndex"} {
		pk2, f2 := c.P.mustFunc("eth2/beacon/common", name)
		info2 := pk2.TypesInfo
		key := name + ".rounds"
		var dirObj, roundsObj types.Object
		for _, f := range f2.Type.Params.List {
			for _, nm := range f.Names {
				if b, ok := info2.TypeOf(f.Type).Underlying().(*types.Basic); ok {
					switch {
					case b.Kind() == types.Bool:
						dirObj = info2.Defs[nm]
					case b.Kind() == types.Uint8:
						roundsObj = info2.Defs[nm]
					}
				}
			}
		}
		var loop *ast.ForStmt
		for _, st := range f2.Body.List {
			if l, ok := st.(*ast.ForStmt); ok && l.Cond == nil && l.Init == nil {
				loop = l
			}
		}
		if dirObj != nil && roundsObj != nil && loop == nil {
			if done := countedRounds(c, info2, f2, key, dirObj, roundsObj); done {
				continue
			}
		}
		if dirObj == nil || roundsObj == nil || loop == nil {
			c.unm(key, f2.Pos(), "direction handling written in an unrecognised form (bool direction, uint8 rounds, `for { … }`)")
			continue
		}
		// split an if on the direction into (forward statements, backward statements)
		sides := func(is *ast.IfStmt) (fwd, bwd []ast.Stmt, ok bool) {
			cnd := ast.Unparen(is.Cond)
			neg := false
			if u, isNot := cnd.(*ast.UnaryExpr); isNot && u.Op == token.NOT {
				neg = true
				cnd = ast.Unparen(u.X)
			}
			id, isId := cnd.(*ast.Ident)
			if !isId || info2.ObjectOf(id) != dirObj || is.Init != nil {
				return nil, nil, false
			}
			var els []ast.Stmt
			if eb, ok := is.Else.(*ast.BlockStmt); ok {
				els = eb.List
			} else if is.Else != nil {
				return nil, nil, false
			}
			if neg {
				return els, is.Body.List, true
			}
			return is.Body.List, els, true
		}
		// the round counter: the uint8 local stepped in the loop
		var rObj types.Object
		ast.Inspect(loop.Body, func(n ast.Node) bool {
			if inc, ok := n.(*ast.IncDecStmt); ok && rObj == nil {
				if id, ok := ast.Unparen(inc.X).(*ast.Ident); ok {
					if b, ok := info2.TypeOf(id).Underlying().(*types.Basic); ok && b.Kind() == types.Uint8 {
						rObj = info2.ObjectOf(id)
					}
				}
			}
			return true
		})
		if rObj == nil {
			c.unm(key, loop.Pos(), "round counter (a uint8 stepped with ++/--) not found")
			continue
		}
		rA, roundsA := polyAtom(rObj.Name()), polyAtom(roundsObj.Name())
		// assigns: a plain `r = e` in the list with e the wanted value; other: one with another readable value
		assignsOther := false
		assigns := func(list []ast.Stmt, want Poly) bool {
			_ = assignsOther
			for _, st := range list {
				if as, ok := st.(*ast.AssignStmt); ok && len(as.Lhs) == 1 && len(as.Rhs) == 1 {
					if id, ok := as.Lhs[0].(*ast.Ident); ok && info2.ObjectOf(id) == rObj {
						if p, ok := exprPoly(info2, as.Rhs[0], nil, nil, 0); ok && polyEq(p, want) {
							return true
						} else if ok {
							assignsOther = true
						}
					}
				}
			}
			return false
		}
		steps := func(st ast.Stmt, tok token.Token) bool {
			if inc, ok := st.(*ast.IncDecStmt); ok && inc.Tok == tok {
				if id, ok := ast.Unparen(inc.X).(*ast.Ident); ok && info2.ObjectOf(id) == rObj {
					return true
				}
			}
			return false
		}
		// breaksWhen: `if r == <p's other side> { break }`; breaksOther: an equality break on r against something else
		breaksOther := false
		breaksWhen := func(st ast.Stmt, p Poly) bool {
			is, ok := st.(*ast.IfStmt)
			if !ok || len(is.Body.List) != 1 {
				return false
			}
			switch ex := is.Body.List[0].(type) {
			case *ast.BranchStmt:
				if ex.Tok != token.BREAK {
					return false
				}
			case *ast.ReturnStmt:
				// (the loop is the last thing the function does: leaving the function is leaving the loop)
				if len(ex.Results) != 0 || f2.Body.List[len(f2.Body.List)-1] != ast.Stmt(loop) {
					return false
				}
			default:
				return false
			}
			cut, q, op := condCutOf(info2, is.Cond, nil)
			if cut == canonCut(p, token.EQL) && cutSide(q, op) == "eq" {
				return true
			}
			// only r, rounds and constants: a reading of the schedule that differs
			if q != nil {
				onlyKnown := q[rA.String()] != 0
				for a := range q {
					if a != "" && a != rA.String() && a != roundsA.String() {
						onlyKnown = false
					}
				}
				if onlyKnown {
					breaksOther = true
				}
			}
			return false
		}
		_ = assigns
		// start value: what r holds when the loop is entered, forwards and backwards (the value set before the branch
		// on the direction, overwritten by whatever the taken side assigns)
		startOK := false
		var startF, startB Poly
		{
			valueOf := func(list []ast.Stmt) (Poly, bool) {
				var v Poly
				found := false
				for _, st := range list {
					if as, ok := st.(*ast.AssignStmt); ok && len(as.Lhs) == 1 && len(as.Rhs) == 1 {
						if id, ok := as.Lhs[0].(*ast.Ident); ok && info2.ObjectOf(id) == rObj {
							if p, ok := exprPoly(info2, as.Rhs[0], nil, nil, 0); ok {
								v, found = p, true
							} else {
								return nil, false
							}
						}
					}
				}
				return v, found
			}
			var v0 Poly
			for _, st := range f2.Body.List {
				if st.Pos() >= loop.Pos() {
					break
				}
				if v, ok := valueOf([]ast.Stmt{st}); ok {
					v0 = v
					startF, startB = v, v
				}
				if is, ok := st.(*ast.IfStmt); ok {
					if fwd, bwd, ok := sides(is); ok {
						if v, ok := valueOf(fwd); ok {
							startF = v
						}
						if v, ok := valueOf(bwd); ok {
							startB = v
						}
					}
				}
			}
			_ = v0
			if startF != nil && startB != nil {
				startOK = polyEq(startF, polyConst(0)) && polyEq(startB, polyAdd(roundsA, polyConst(1), -1))
				assignsOther = !startOK
			}
		}
		startDeviates := !startOK && assignsOther
		assignsOther = false
		// step and exit
		fwdOK, bwdOK, seenDir := false, false, false
		for _, st := range loop.Body.List {
			is, ok := st.(*ast.IfStmt)
			if !ok {
				continue
			}
			fwd, bwd, ok := sides(is)
			if !ok {
				continue
			}
			seenDir = true
			for i, s1 := range fwd {
				if steps(s1, token.INC) {
					for _, s2 := range fwd[i+1:] {
						if breaksWhen(s2, polyAdd(rA, roundsA, -1)) {
							fwdOK = true
						}
					}
				}
			}
			for i, s1 := range bwd {
				if breaksWhen(s1, rA) {
					for _, s2 := range bwd[i+1:] {
						if steps(s2, token.DEC) {
							bwdOK = true
						}
					}
				}
			}
		}
		zeroOK := roundsZeroReturns(f2)
		switch {
		case !seenDir:
			c.unm(key, f2.Pos(), "direction handling written in an unrecognised form")
		case (!startOK && startDeviates) || ((!fwdOK || !bwdOK) && breaksOther):
			c.bad(key, f2.Pos(), "round schedule deviates: forward must run r = 0..rounds-1 (r++ until r == rounds), backward r = rounds-1..0 (start at rounds-1 when !dir, stop at r == 0 before r--) [start %v forward %v backward %v]", startOK, fwdOK, bwdOK)
		case !startOK || !fwdOK || !bwdOK:
			// the schedule is not written as start value / step / exit test on the round counter alone (a second
			// variable holds the last round, the exit test stands before the branch on the direction, …)
			c.unm(key, f2.Pos(), "round schedule written in a form this clause does not read [start %v forward %v backward %v]", startOK, fwdOK, bwdOK)
		case !zeroOK:
			c.bad(key, f2.Pos(), "rounds == 0 is not short-circuited (rounds-1 underflows for the inverse direction)")
		default:
			c.ok(key, f2.Pos(), "0..rounds-1 forwards, rounds-1..0 backwards, rounds == 0 returns at once")
		}
	}
	// (b) wiring
	wiring := map[string]struct {
		inner string
		dir   string
	}{
		"ShuffleList": {"innerShuffleList", "true"}, "UnshuffleList": {"innerShuffleList", "false"},
		"PermuteIndex": {"innerPermuteIndex", "true"}, "UnpermuteIndex": {"innerPermuteIndex", "false"},
	}
	for _, name := range sortedKeys(wiring) {
		w := wiring[name]
		pk2, f2 := c.P.mustFunc("eth2/beacon/common", name)
		key := name + ".dir"
		var call *ast.CallExpr
		ast.Inspect(f2.Body, func(n ast.Node) bool {
			if cl, ok := n.(*ast.CallExpr); ok {
				if f := calleeFunc(pk2.TypesInfo, cl); f != nil && f.Name() == w.inner {
					call = cl
				}
			}
			return true
		})
		if call == nil {
			c.bad(key, f2.Pos(), "%s does not call %s", name, w.inner)
			continue
		}
		last := types.ExprString(call.Args[len(call.Args)-1])
		if last != w.dir {
			c.bad(key, call.Pos(), "%s passes dir=%s, want %s (forward and inverse are exchanged)", name, last, w.dir)
			continue
		}
		// parameters forwarded in order
		var names []string
		for _, f := range f2.Type.Params.List {
			for _, n := range f.Names {
				names = append(names, n.Name)
			}
		}
		var passed []string
		for _, a := range call.Args[1 : len(call.Args)-1] {
			passed = append(passed, types.ExprString(a))
		}
		if strings.Join(names, ",") != strings.Join(passed, ",") {
			c.bad(key, call.Pos(), "%s forwards (%s) where its parameters are (%s)", name, strings.Join(passed, ","), strings.Join(names, ","))
		} else {
			c.ok(key, call.Pos(), "%s(..., %s)", w.inner, w.dir)
		}
	}
	// (e) NewShufflingEpoch: what becomes the Shuffling field is new memory, filled position by position from what
	// becomes the ActiveIndices field, and un-shuffled with SHUFFLE_ROUND_COUNT. The two are identified by the field they
	// are stored in (a field store or a field of the literal), whatever the locals are called.
	pk3, f3 := c.P.mustFunc("eth2/beacon/common", "NewShufflingEpoch")
	info3 := pk3.TypesInfo
	defs3 := singleDefs(info3, f3.Body)
	var shufE, actE ast.Expr
	for _, bld := range structBuilds(info3, f3.Body, "ShufflingEpoch") {
		if e := bld.fields["Shuffling"]; e != nil {
			shufE = e
		}
		if e := bld.fields["ActiveIndices"]; e != nil {
			actE = e
		}
	}
	// names: the variable (or recv.Field path) that stands for each
	sameAs := func(e ast.Expr, field string, src ast.Expr) bool {
		e = ast.Unparen(e)
		if sel, ok := e.(*ast.SelectorExpr); ok && sel.Sel.Name == field {
			if nt := namedOf(info3.TypeOf(sel.X)); nt != nil && nt.Obj().Name() == "ShufflingEpoch" {
				return true
			}
		}
		if src == nil {
			return false
		}
		if id, ok := e.(*ast.Ident); ok {
			if sid, ok := ast.Unparen(src).(*ast.Ident); ok && info3.ObjectOf(id) == info3.ObjectOf(sid) {
				return true
			}
		}
		return false
	}
	isShuf := func(e ast.Expr) bool { return sameAs(e, "Shuffling", shufE) }
	isAct := func(e ast.Expr) bool {
		if sameAs(e, "ActiveIndices", actE) {
			return true
		}
		// the field's value written out again (ActiveIndices(indicesBounded, epoch))
		return actE != nil && types.ExprString(resolveLocal(info3, e, defs3, 2)) == types.ExprString(resolveLocal(info3, actE, defs3, 2))
	}
	var un *ast.CallExpr
	ast.Inspect(f3.Body, func(n ast.Node) bool {
		if cl, ok := n.(*ast.CallExpr); ok {
			if f := calleeFunc(info3, cl); f != nil && (f.Name() == "UnshuffleList" || f.Name() == "ShuffleList") {
				un = cl
			}
		}
		return true
	})
	switch {
	case un == nil:
		c.bad("NewShufflingEpoch.unshuffle", f3.Pos(), "the epoch shuffling is never shuffled")
	case calleeFunc(info3, un).Name() != "UnshuffleList":
		c.bad("NewShufflingEpoch.unshuffle", un.Pos(), "committee positions must be computed with UnshuffleList (position -> validator = inverse permutation), found ShuffleList")
	case !strings.Contains(types.ExprString(un.Args[0]), "SHUFFLE_ROUND_COUNT"):
		c.bad("NewShufflingEpoch.unshuffle", un.Pos(), "round count is %s, want spec.SHUFFLE_ROUND_COUNT", types.ExprString(un.Args[0]))
	case !isShuf(un.Args[1]):
		c.bad("NewShufflingEpoch.unshuffle", un.Pos(), "the list un-shuffled is %s, want the copy of the active indices", types.ExprString(un.Args[1]))
	default:
		c.ok("NewShufflingEpoch.unshuffle", un.Pos(), "UnshuffleList(SHUFFLE_ROUND_COUNT, Shuffling, seed)")
	}
	// element-wise copy: a range over ActiveIndices assigning Shuffling[i] = v, or copy(Shuffling, ActiveIndices)
	copyOK := false
	ast.Inspect(f3.Body, func(n ast.Node) bool {
		switch x := n.(type) {
		case *ast.RangeStmt:
			if !isAct(x.X) || len(x.Body.List) != 1 {
				return true
			}
			if as, ok := x.Body.List[0].(*ast.AssignStmt); ok && len(as.Lhs) == 1 && len(as.Rhs) == 1 {
				if ix, ok := ast.Unparen(as.Lhs[0]).(*ast.IndexExpr); ok && isShuf(ix.X) &&
					x.Key != nil && x.Value != nil && types.ExprString(ix.Index) == types.ExprString(x.Key) && types.ExprString(as.Rhs[0]) == types.ExprString(x.Value) {
					copyOK = true
				}
			}
		case *ast.CallExpr:
			if id, ok := x.Fun.(*ast.Ident); ok && id.Name == "copy" && len(x.Args) == 2 && isShuf(x.Args[0]) && isAct(x.Args[1]) {
				copyOK = true
			}
		}
		return true
	})
	if copyOK {
		c.ok("NewShufflingEpoch.copy", f3.Pos(), "Shuffling starts as an element-wise copy of ActiveIndices (ActiveIndices itself stays unshuffled)")
	} else {
		c.bad("NewShufflingEpoch.copy", f3.Pos(), "Shuffling is not initialised as a position-by-position copy of ActiveIndices")
	}
}

// countedRounds: the round schedule written as a counting loop, `for step := 0; step < rounds; step++`, with the round
// number chosen per step by the direction: step forwards, rounds-1-step backwards. No rounds means no iteration, and
// rounds-1-step is only evaluated with step < rounds, so nothing wraps. Reports whether the form was recognised.
func countedRounds(c *Ctx, info *types.Info, fd *ast.FuncDecl, key string, dirObj, roundsObj types.Object) bool {
	parents := parentMap(fd.Body)
	var loop *ast.ForStmt
	var stepObj types.Object
	ast.Inspect(fd.Body, func(n ast.Node) bool {
		if _, ok := n.(*ast.FuncLit); ok {
			return false
		}
		fs, ok := n.(*ast.ForStmt)
		if !ok || fs.Cond == nil || loop != nil {
			return true
		}
		be, ok := ast.Unparen(fs.Cond).(*ast.BinaryExpr)
		if !ok || !countingLoop(info, parents, be) {
			return true
		}
		iv, bound := be.X, be.Y
		if be.Op == token.GTR {
			iv, bound = be.Y, be.X
		}
		bid, ok1 := ast.Unparen(bound).(*ast.Ident)
		iid, ok2 := ast.Unparen(iv).(*ast.Ident)
		if ok1 && ok2 && info.ObjectOf(bid) == roundsObj {
			loop, stepObj = fs, info.ObjectOf(iid)
		}
		return true
	})
	if loop == nil || stepObj == nil {
		return false
	}
	stepA, roundsA := polyAtom(stepObj.Name()), polyAtom(roundsObj.Name())
	wantBwd := polyAdd(polyAdd(roundsA, polyConst(1), -1), stepA, -1)
	// value assigned to obj by the last plain assignment of a statement list
	valueIn := func(list []ast.Stmt, obj types.Object) (Poly, bool) {
		var p Poly
		found := false
		for _, st := range list {
			as, ok := st.(*ast.AssignStmt)
			if !ok || len(as.Lhs) != 1 || len(as.Rhs) != 1 || (as.Tok != token.ASSIGN && as.Tok != token.DEFINE) {
				continue
			}
			if id, ok := as.Lhs[0].(*ast.Ident); ok && info.ObjectOf(id) == obj {
				if q, ok := exprPoly(info, as.Rhs[0], nil, nil, 0); ok {
					p, found = q, true
				} else {
					found = false
				}
			}
		}
		return p, found
	}
	for i, st := range loop.Body.List {
		is, ok := st.(*ast.IfStmt)
		if !ok || is.Init != nil {
			continue
		}
		cnd := ast.Unparen(is.Cond)
		neg := false
		if u, isNot := cnd.(*ast.UnaryExpr); isNot && u.Op == token.NOT {
			neg = true
			cnd = ast.Unparen(u.X)
		}
		id, isId := cnd.(*ast.Ident)
		if !isId || info.ObjectOf(id) != dirObj {
			continue
		}
		var els []ast.Stmt
		if eb, ok := is.Else.(*ast.BlockStmt); ok {
			els = eb.List
		} else if is.Else != nil {
			continue
		}
		fwd, bwd := is.Body.List, els
		if neg {
			fwd, bwd = els, is.Body.List
		}
		// the variable the direction decides
		var obj types.Object
		for _, side := range [][]ast.Stmt{fwd, bwd} {
			for _, s1 := range side {
				if as, ok := s1.(*ast.AssignStmt); ok && len(as.Lhs) == 1 {
					if lid, ok := as.Lhs[0].(*ast.Ident); ok && obj == nil {
						obj = info.ObjectOf(lid)
					}
				}
			}
		}
		if obj == nil {
			continue
		}
		before, hasBefore := valueIn(loop.Body.List[:i], obj)
		f, okF := valueIn(fwd, obj)
		b, okB := valueIn(bwd, obj)
		if !okF && hasBefore {
			f, okF = before, true
		}
		if !okB && hasBefore {
			b, okB = before, true
		}
		if !okF || !okB {
			continue
		}
		if polyEq(f, stepA) && polyEq(b, wantBwd) {
			c.ok(key, is.Pos(), "counting loop over step = 0..rounds-1: round = step forwards, rounds-1-step backwards; no rounds, no iteration")
		} else {
			c.bad(key, is.Pos(), "round schedule deviates: forward must run the rounds 0..rounds-1 (round = %s here) and backward rounds-1..0 (round = %s here)", f.String(), b.String())
		}
		return true
	}
	return false
}

// roundsZeroReturns: some `if` whose condition holds whenever rounds == 0 (the bare test or an ||-disjunct) returns at once.
func roundsZeroReturns(fd *ast.FuncDecl) bool {
	found := false
	ast.Inspect(fd.Body, func(n ast.Node) bool {
		ifs, ok := n.(*ast.IfStmt)
		if !ok || found {
			return true
		}
		var disj func(e ast.Expr) bool
		disj = func(e ast.Expr) bool {
			e = ast.Unparen(e)
			if be, ok := e.(*ast.BinaryExpr); ok {
				if be.Op == token.LOR {
					return disj(be.X) || disj(be.Y)
				}
				if be.Op == token.EQL {
					// <the uint8 rounds parameter> == 0, either way round
					isRounds := func(e ast.Expr) bool {
						id, ok := ast.Unparen(e).(*ast.Ident)
						if !ok || id.Obj == nil {
							return false
						}
						if f, ok := id.Obj.Decl.(*ast.Field); ok {
							if t, ok := f.Type.(*ast.Ident); ok && t.Name == "uint8" {
								return true
							}
						}
						return false
					}
					isZero := func(e ast.Expr) bool {
						l, ok := ast.Unparen(e).(*ast.BasicLit)
						return ok && l.Value == "0"
					}
					if (isRounds(be.X) && isZero(be.Y)) || (isRounds(be.Y) && isZero(be.X)) {
						return true
					}
				}
				// the same test of an unsigned value: rounds < 1, rounds <= 0, 1 > rounds, 0 >= rounds
				isRoundsU := func(e ast.Expr) bool {
					id, ok := ast.Unparen(e).(*ast.Ident)
					if !ok || id.Obj == nil {
						return false
					}
					if f, ok := id.Obj.Decl.(*ast.Field); ok {
						if t, ok := f.Type.(*ast.Ident); ok && t.Name == "uint8" {
							return true
						}
					}
					return false
				}
				lit := func(e ast.Expr, v string) bool {
					l, ok := ast.Unparen(e).(*ast.BasicLit)
					return ok && l.Value == v
				}
				switch be.Op {
				case token.LSS:
					return isRoundsU(be.X) && lit(be.Y, "1")
				case token.LEQ:
					return isRoundsU(be.X) && lit(be.Y, "0")
				case token.GTR:
					return isRoundsU(be.Y) && lit(be.X, "1")
				case token.GEQ:
					return isRoundsU(be.Y) && lit(be.X, "0")
				}
			}
			return false
		}
		if disj(ifs.Cond) && len(ifs.Body.List) > 0 {
			if _, isRet := ifs.Body.List[len(ifs.Body.List)-1].(*ast.ReturnStmt); isRet {
				found = true
			}
		}
		return true
	})
	return found
}

// exprPoly normalises an integer expression over local names: identifiers resolve through single-definition locals,
// spec.X becomes X, len(e) becomes an atom.
// polyArg: the argument a parameter stands for while a helper is read at its call site. A struct value written out at
// the call (T{F: v}) stands for the parameter only where one of its fields is selected (exprPoly, selector case).
func polyArg(o types.Object) (ast.Expr, bool) {
	a, ok := polyArgs[o]
	if !ok {
		return nil, false
	}
	lit := ast.Unparen(a)
	if u, isU := lit.(*ast.UnaryExpr); isU && u.Op == token.AND {
		lit = ast.Unparen(u.X)
	}
	if _, isLit := lit.(*ast.CompositeLit); isLit {
		return nil, false
	}
	return a, true
}

// polySelfObj / polySelfText: the variable (or field path) being assigned by the statement whose right-hand side is read.
// polyAbsorbed (when set) collects the positions of the assignments whose value was read into a later assignment of
// the same variable (x = f(x) resolved through the x = … that reaches it): the later formula then spells them out.
var (
	polySelfObj  types.Object
	polySelfText string
	polyAbsorbed map[token.Pos]bool
)

func exprPoly(info *types.Info, e ast.Expr, defs map[types.Object]localDef, stop map[string]bool, depth int) (Poly, bool) {
	e = ast.Unparen(e)
	if depth > 48 {
		return nil, false
	}
	if tv, ok := info.Types[e]; ok && tv.Value != nil {
		if v, ok := constantInt(tv); ok {
			return polyConst(v), true
		}
		// integer constants beyond int64 (2^64-1 and the like): exact literal atoms
		if b, ok := tv.Type.Underlying().(*types.Basic); ok && b.Info()&types.IsInteger != 0 {
			return polyAtom("const" + tv.Value.ExactString()), true
		}
	}
	// the target of the assignment being read, mentioned on its own right-hand side, is "the previous value": one
	// name for it whatever the target is called (x = max(x, 1) is the same update of any x). Resolved forms look
	// through it first when exactly one definition reaches.
	if polySelfText != "" {
		if sel, ok := e.(*ast.SelectorExpr); ok && strings.ReplaceAll(exprText(info, sel), " ", "") == polySelfText {
			return polyAtom("§self"), true
		}
	}
	isSelf := false
	if id, isId := e.(*ast.Ident); isId && polySelfObj != nil && info.ObjectOf(id) == polySelfObj {
		if defs == nil {
			return polyAtom("§self"), true
		}
		isSelf = true
	}
	if id, isId := e.(*ast.Ident); isId && polyAbstract {
		if d, ok := defs[info.Uses[id]]; ok && d.pos == 0 && !stop[id.Name] {
			return exprPoly(info, d.rhs, defs, stop, depth+1)
		}
		if defs != nil && polyReach != nil && !stop[id.Name] {
			if d, ok := polyReach.at(info.Uses[id], id); ok && d.pos == 0 && !(isSelf && opAssignDef(polyReach.last)) {
				if isSelf && polyAbsorbed != nil {
					polyAbsorbed[polyReach.last.Pos()] = true
				}
				return exprPoly(info, d.rhs, defs, stop, depth+1)
			}
		}
		// a parameter standing for the argument of the call being read
		if a, ok := polyArg(info.Uses[id]); ok && depth < 40 {
			if pp, ok := exprPoly(info, a, defs, stop, depth+8); ok {
				return pp, true
			}
		}
	}
	if x, isSel := e.(*ast.SelectorExpr); isSel && !isSpecType(info.TypeOf(x.X)) {
		// a field of a struct value that is written out where it is handed over (a parameter standing for the
		// argument T{F: v}, or a local defined as one): the field's value
		if id, ok := ast.Unparen(x.X).(*ast.Ident); ok && depth < 40 {
			var src ast.Expr
			if a, ok := polyArgs[info.Uses[id]]; ok && !partlyWritten[info.Uses[id]] { // (the literal itself)
				src = a
			} else if d, ok := defs[info.Uses[id]]; ok && d.pos == 0 && d.n == 1 && !partlyWritten[info.Uses[id]] {
				src = d.rhs
			}
			if src != nil {
				lit := ast.Unparen(src)
				if u, ok := lit.(*ast.UnaryExpr); ok && u.Op == token.AND {
					lit = ast.Unparen(u.X)
				}
				if cl, ok := lit.(*ast.CompositeLit); ok {
					for _, el := range cl.Elts {
						if kv, ok := el.(*ast.KeyValueExpr); ok {
							if k, ok := kv.Key.(*ast.Ident); ok && k.Name == x.Sel.Name {
								if p, ok := exprPoly(info, kv.Value, defs, stop, depth+8); ok {
									return p, true
								}
							}
						}
					}
				}
			}
		}
	}
	if polyAbstract && isSelf {
		return polyAtom("§self"), true
	}
	if polyAbstract {
		switch x := e.(type) {
		case *ast.Ident, *ast.SelectorExpr:
			if _, isSel := x.(*ast.SelectorExpr); !isSel || !isSpecType(info.TypeOf(x.(*ast.SelectorExpr).X)) {
				if tv, ok := info.Types[e]; !ok || tv.Value == nil {
					// (resolved forms) v.f with v a local that names an element or a field path (v := &xs[i]): xs[i].f
					if sel, isSel := x.(*ast.SelectorExpr); isSel && defs != nil {
						if id, ok := ast.Unparen(sel.X).(*ast.Ident); ok {
							if d, ok := defs[info.Uses[id]]; ok && d.pos == 0 && d.n == 1 && d.rhs != nil && !partlyWritten[info.Uses[id]] {
								r := ast.Unparen(d.rhs)
								if u, ok := r.(*ast.UnaryExpr); ok && u.Op == token.AND {
									r = ast.Unparen(u.X)
								}
								switch r.(type) {
								case *ast.IndexExpr, *ast.SelectorExpr:
									return polyAtom(absPath(info, r, defs, 0) + "." + sel.Sel.Name), true
								}
							}
						}
					}
					return polyAtom(absName(info, e)), true
				}
			}
		}
	}
	switch x := e.(type) {
	case *ast.Ident:
		if stop[x.Name] {
			if isSelf {
				return polyAtom("§self"), true
			}
			return polyAtom(x.Name), true
		}
		if d, ok := defs[info.Uses[x]]; ok && d.pos == 0 {
			// (a definition that cannot be rendered — a map lookup with a literal key — leaves the local as it is)
			if p, ok := exprPoly(info, d.rhs, defs, stop, depth+1); ok {
				return p, true
			}
		}
		if defs != nil && polyReach != nil {
			// (the target's own earlier step `t += x` is not spelled out inside a later step of the same target: the
			// steps of one target are a list, each read against §self)
			if d, ok := polyReach.at(info.Uses[x], x); ok && d.pos == 0 && !(isSelf && opAssignDef(polyReach.last)) {
				if p, ok := exprPoly(info, d.rhs, defs, stop, depth+1); ok {
					if isSelf && polyAbsorbed != nil {
						polyAbsorbed[polyReach.last.Pos()] = true
					}
					return p, true
				}
			}
		}
		if isSelf {
			return polyAtom("§self"), true
		}
		if a, ok := polyArg(info.Uses[x]); ok && depth < 40 {
			if pp, ok := exprPoly(info, a, defs, stop, depth+8); ok {
				return pp, true
			}
			return polyAtom(strings.ReplaceAll(exprText(info, a), " ", "")), true
		}
		if isRecvObj(info.Uses[x]) {
			return polyAtom("recv"), true
		}
		return polyAtom(x.Name), true
	case *ast.SelectorExpr:
		if isSpecType(info.TypeOf(x.X)) {
			return polyAtom(x.Sel.Name), true
		}
		return polyAtom(exprTextD(info, x, defs, 0)), true
	case *ast.CallExpr:
		if isConversion(info, x) && len(x.Args) == 1 {
			inner, ok := exprPoly(info, x.Args[0], defs, stop, depth+1)
			if !ok {
				return nil, false
			}
			// a conversion to a NARROWER integer type truncates: keep it as an ordered opaque atom, so that
			// uint32(x>>8) and uint32(x)>>8 stay different; widening/same-size conversions are identities here
			if w := narrowing(info, x); w != "" {
				return polyAtom(w + "(" + strings.NewReplacer("*", "\u00b7", " ", "").Replace(inner.String()) + ")"), true
			}
			return inner, true
		}
		// encoding/hex.EncodedLen(n) is 2n, whatever n
		if f := calleeFunc(info, x); f != nil && f.Pkg() != nil && f.Pkg().Path() == "encoding/hex" && f.Name() == "EncodedLen" && len(x.Args) == 1 {
			if inner, ok := exprPoly(info, x.Args[0], defs, stop, depth+1); ok {
				return polyMul(inner, polyConst(2)), true
			}
		}
		if id, ok := x.Fun.(*ast.Ident); ok && id.Name == "len" && len(x.Args) == 1 {
			if polyAbstract {
				return polyAtom("len(" + absName(info, x.Args[0]) + ")"), true
			}
			return polyAtom("len(" + exprTextD(info, x.Args[0], defs, 0) + ")"), true
		}
		if id, ok := ast.Unparen(x.Fun).(*ast.Ident); ok && (id.Name == "min" || id.Name == "max") && len(x.Args) >= 1 {
			if _, isBuiltin := info.ObjectOf(id).(*types.Builtin); isBuiltin {
				var args []string
				for _, a := range x.Args {
					p, ok := exprPoly(info, a, defs, stop, depth+1)
					if !ok {
						return nil, false
					}
					args = append(args, strings.NewReplacer("*", "\u00b7", " ", "").Replace(p.String()))
				}
				sort.Strings(args)
				return polyAtom(id.Name + "(" + strings.Join(args, ";") + ")"), true
			}
		}
		// a call of a function of the same package that does nothing but return an expression is read as that
		// expression (resolved forms only): moving a formula into such a helper, or back, changes nothing
		if (defs != nil || polyInlineNamed) && polyInline != nil && depth < 30 {
			if f := calleeFunc(info, x); f != nil {
				if hd, ok := polyInline[f]; ok && hd.info == info && len(polyInlining) < 4 && !polyInlining[f] {
					ret := hd.ret
					saved := polyArgs
					merged := map[types.Object]ast.Expr{}
					for k, v := range saved {
						merged[k] = v
					}
					i := 0
					okArgs := true
					for _, fl := range hd.fd.Type.Params.List {
						for _, nm := range fl.Names {
							if i < len(x.Args) && substitutable(x.Args[i]) {
								merged[info.Defs[nm]] = x.Args[i]
							} else {
								okArgs = false
							}
							i++
						}
					}
					if hd.fd.Recv != nil && len(hd.fd.Recv.List) == 1 && len(hd.fd.Recv.List[0].Names) == 1 {
						if sel, ok := ast.Unparen(x.Fun).(*ast.SelectorExpr); ok && substitutable(sel.X) {
							merged[info.Defs[hd.fd.Recv.List[0].Names[0]]] = sel.X
						} else {
							okArgs = false
						}
					}
					if okArgs && i == len(x.Args) {
						polyArgs = merged
						polyInlining[f] = true
						idefs := defs
						if hd.defs != nil && defs != nil {
							// (the pipeline's locals are read through in the resolved forms)
							idefs = map[types.Object]localDef{}
							for k, v := range defs {
								idefs[k] = v
							}
							for k, v := range hd.defs {
								if _, dup := idefs[k]; !dup {
									idefs[k] = v
								}
							}
						}
						var p Poly
						ok := false
						if hd.defs == nil || defs != nil {
							p, ok = exprPoly(info, ret, idefs, stop, depth+6)
						}
						delete(polyInlining, f)
						polyArgs = saved
						if ok {
							return p, true
						}
					}
				}
			}
		}
		fnName := ""
		if f := calleeFunc(info, x); f != nil {
			fnName = f.Name()
		} else if id, ok := ast.Unparen(x.Fun).(*ast.Ident); ok && id.Name != "make" && id.Name != "new" && id.Name != "append" {
			// a call through a function-typed parameter or local (slotAfter(...)): opaque, named as written
			if _, isVar := info.ObjectOf(id).(*types.Var); isVar {
				fnName = id.Name
				// (resolved forms) a local that holds the function another call handed out (next := bals.Iter()) is
				// named after that call, not after the local
				if defs != nil {
					if d, ok := defs[info.ObjectOf(id)]; ok && d.n == 1 && d.rhs != nil {
						if mk, ok := ast.Unparen(d.rhs).(*ast.CallExpr); ok {
							if g := calleeFunc(info, mk); g != nil {
								fnName = g.Name() + "()"
							}
						}
					}
				}
			}
		}
		// (type-named forms) the value of an unexported function of zrnt that is not read in place stands where a
		// local of its result type would stand: a running total moved into a helper that returns it is that total
		if polyAbstract {
			if f := calleeFunc(info, x); f != nil && !f.Exported() && isZrnt(f) {
				if sig, ok := f.Type().(*types.Signature); ok && sig.Results().Len() >= 1 && sig.Recv() == nil {
					t := types.TypeString(sig.Results().At(0).Type(), func(*types.Package) string { return "" })
					if polyAbsSeen == nil {
						polyAbsSeen = map[types.Object]int{}
						polyAbsPerType = map[string]int{}
					}
					tn := strings.TrimLeft(t, "*")
					k, seen := polyAbsSeen[f]
					if !seen {
						polyAbsPerType[tn]++
						k = polyAbsPerType[tn]
						polyAbsSeen[f] = k
					}
					return polyAtom(fmt.Sprintf("\u00a7%s#%d", tn, k)), true
				}
			}
		}
		if fnName != "" {
			args := []string{}
			for _, a := range x.Args {
				p, ok := exprPoly(info, a, defs, stop, depth+1)
				if !ok {
					return nil, false
				}
				args = append(args, p.String())
			}
			return polyAtom(fnName + "(" + strings.Join(args, ",") + ")"), true
		}
	case *ast.UnaryExpr:
		if x.Op == token.SUB {
			in, ok := exprPoly(info, x.X, defs, stop, depth+1)
			if !ok {
				return nil, false
			}
			return polyMul(in, polyConst(-1)), true
		}
		if x.Op == token.ADD {
			return exprPoly(info, x.X, defs, stop, depth+1)
		}
	case *ast.IndexExpr:
		// element of an indexable value: opaque atom with a canonical index
		ip, ok := exprPoly(info, x.Index, defs, stop, depth+1)
		if !ok {
			return nil, false
		}
		base := strings.ReplaceAll(exprTextD(info, x.X, defs, 0), " ", "")
		if polyAbstract {
			base = absName(info, x.X)
		}
		return polyAtom(base + "[" + strings.NewReplacer("*", "\u00b7", " ", "").Replace(ip.String()) + "]"), true
	case *ast.SliceExpr:
		txt := strings.ReplaceAll(exprText(info, x), " ", "")
		// the bounds in canonical form (min/max operands sorted, locals read through in the resolved forms)
		if !x.Slice3 {
			bound := func(e ast.Expr) (string, bool) {
				if e == nil {
					return "", true
				}
				p, ok := exprPoly(info, e, defs, stop, depth+1)
				if !ok {
					return "", false
				}
				return strings.NewReplacer("*", "\u00b7", " ", "").Replace(p.String()), true
			}
			lo, ok1 := bound(x.Low)
			hi, ok2 := bound(x.High)
			if ok1 && ok2 {
				base := strings.ReplaceAll(exprTextD(info, x.X, defs, 0), " ", "")
				if polyAbstract {
					base = absName(info, x.X)
				}
				return polyAtom(base + "[" + lo + ":" + hi + "]"), true
			}
		}
		if polyAbstract {
			txt = absName(info, x.X) + "[:]"
		}
		return polyAtom(strings.ReplaceAll(txt, "*", "\u00b7")), true
	case *ast.BinaryExpr:
		a, ok1 := exprPoly(info, x.X, defs, stop, depth+1)
		b, ok2 := exprPoly(info, x.Y, defs, stop, depth+1)
		if !ok1 || !ok2 {
			return nil, false
		}
		switch x.Op {
		case token.ADD:
			return polyAdd(a, b, 1), true
		case token.SUB:
			return polyAdd(a, b, -1), true
		case token.MUL:
			return polyMul(a, b), true
		case token.QUO:
			return polyDiv(a, b), true
		case token.SHL:
			// x << c with a constant c is x * 2^c
			if cb, ok := b.isConst(); ok && cb >= 0 && cb < 62 {
				return polyMul(a, polyConst(int64(1)<<uint(cb))), true
			}
			return polyAtom("shl(" + strings.NewReplacer("*", "\u00b7", " ", "").Replace(a.String()) + "," + strings.NewReplacer("*", "\u00b7", " ", "").Replace(b.String()) + ")"), true
		case token.SHR:
			// x >> c with a constant c is floor(x / 2^c) on unsigned operands
			if cb, ok := b.isConst(); ok && cb >= 0 && cb < 62 {
				return polyDiv(a, polyConst(int64(1)<<uint(cb))), true
			}
			return polyAtom("shr(" + strings.NewReplacer("*", "\u00b7", " ", "").Replace(a.String()) + "," + strings.NewReplacer("*", "\u00b7", " ", "").Replace(b.String()) + ")"), true
		case token.AND, token.OR, token.XOR, token.AND_NOT:
			// bitwise operators: opaque canonical atoms (operands of the commutative ones sorted)
			return polyBitOp(x.Op, a, b), true
		case token.REM:
			safe := func(p Poly) string {
				return strings.NewReplacer("*", "\u00b7", " ", "").Replace(p.String())
			}
			return polyAtom("mod(" + safe(a) + "," + safe(b) + ")"), true
		}
	}
	return nil, false
}

func constantInt(tv types.TypeAndValue) (int64, bool) {
	s := tv.Value.ExactString()
	var v int64
	if len(s) == 0 || len(s) > 18 {
		return 0, false
	}
	for _, ch := range s {
		if ch < '0' || ch > '9' {
			return 0, false
		}
		v = v*10 + int64(ch-'0')
	}
	return v, true
}

func ruleCommitteePartition(c *Ctx) {
	pk, fd := c.P.mustFunc("eth2/beacon/common", "NewShufflingEpoch")
	info := pk.TypesInfo
	// the committee slicing: a slice expression over what resolves (through locals and helper parameters) to the
	// Shuffling field, here or in a helper of the package
	top := newInlEnv(info, fd.Body, nil, nil, nil, nil)
	var sl *ast.SliceExpr
	var slEnv *inlEnv
	walkInlinedNodes(c.P, pk, top, func(n ast.Node, fr *inlEnv) {
		s, ok := n.(*ast.SliceExpr)
		if !ok || s.Low == nil || s.High == nil {
			return
		}
		x, xfr := fr.resolve(s.X)
		if sel, ok := x.(*ast.SelectorExpr); ok {
			if sn := xfr.info.Selections[sel]; sn != nil && sn.Kind() == types.FieldVal && sn.Obj().Name() == "Shuffling" {
				sl, slEnv = s, fr
			}
		}
	})
	if sl == nil {
		c.unm("NewShufflingEpoch.slices", fd.Pos(), "committee slicing of Shuffling not found")
	} else {
		// loop variables stay atoms
		loopVars := map[string]bool{}
		var loops []*ast.ForStmt
		for p := slEnv.parents[ast.Node(sl)]; p != nil; p = slEnv.parents[p] {
			if f, ok := p.(*ast.ForStmt); ok {
				if as, ok := f.Init.(*ast.AssignStmt); ok && len(as.Lhs) == 1 && len(as.Rhs) == 1 {
					if id, ok := as.Lhs[0].(*ast.Ident); ok {
						if _, isCmp := ast.Unparen(f.Cond).(*ast.BinaryExpr); isCmp {
							loops = append(loops, f)
							loopVars[id.Name] = true
						}
					}
				}
			}
		}
		low, ok1 := slEnv.polyStop(sl.Low, loopVars)
		high, ok2 := slEnv.polyStop(sl.High, loopVars)
		if !ok1 || !ok2 || len(loops) != 2 {
			c.unm("NewShufflingEpoch.slices", sl.Pos(), "slice bounds not normalisable (or not inside the slot x index loops)")
		} else {
			inner, outer := loops[0], loops[1]
			iv := inner.Init.(*ast.AssignStmt).Lhs[0].(*ast.Ident).Name
			ov := outer.Init.(*ast.AssignStmt).Lhs[0].(*ast.Ident).Name
			// expected forms: n the length of the sliced value
			n, _ := slEnv.polyStop(&ast.CallExpr{Fun: ast.NewIdent("len"), Args: []ast.Expr{sl.X}}, loopVars)
			// (either operand order of the loop test: the bound is the side that is not the counter)
			bound := func(f *ast.ForStmt, v string) (Poly, token.Token) {
				be := ast.Unparen(f.Cond).(*ast.BinaryExpr)
				if id, ok := ast.Unparen(be.X).(*ast.Ident); ok && id.Name == v {
					p, _ := slEnv.polyStop(be.Y, loopVars)
					return p, be.Op
				}
				p, _ := slEnv.polyStop(be.X, loopVars)
				return p, flipOp[be.Op]
			}
			perSlot, iop := bound(inner, iv)
			slots, oop := bound(outer, ov)
			k := polyAdd(polyMul(polyAtom(ov), perSlot), polyAtom(iv), 1)
			count := polyMul(perSlot, slots)
			wantLow := polyDiv(polyMul(n, k), count)
			wantHigh := polyDiv(polyMul(n, polyAdd(k, polyConst(1), 1)), count)
			switch {
			case perSlot == nil || slots == nil || n == nil:
				c.unm("NewShufflingEpoch.slices", sl.Pos(), "loop bounds not normalisable")
			case !polyEq(low, wantLow):
				c.bad("NewShufflingEpoch.slices", sl.Pos(), "committee start is %s, want n*k/count = %s", low.String(), wantLow.String())
			case !polyEq(high, wantHigh):
				c.bad("NewShufflingEpoch.slices", sl.Pos(), "committee end is %s, want n*(k+1)/count = %s: consecutive committees overlap or leave a gap", high.String(), wantHigh.String())
			case slots.String() != "SLOTS_PER_EPOCH":
				c.bad("NewShufflingEpoch.slices", outer.Pos(), "outer loop runs to %s, want SLOTS_PER_EPOCH", slots.String())
			default:
				// loops start at 0 and step by 1 with <
				okLoops := iop == token.LSS && oop == token.LSS
				for _, l := range loops {
					as := l.Init.(*ast.AssignStmt)
					if p, ok := exprPoly(info, as.Rhs[0], nil, nil, 0); !ok || p.String() != "0" {
						okLoops = false
					}
					switch post := l.Post.(type) {
					case *ast.IncDecStmt:
						if post.Tok != token.INC {
							okLoops = false
						}
					case *ast.AssignStmt:
						if post.Tok != token.ADD_ASSIGN || len(post.Rhs) != 1 {
							okLoops = false
						} else if p, ok := exprPoly(info, post.Rhs[0], nil, nil, 0); !ok || p.String() != "1" {
							okLoops = false
						}
					default:
						okLoops = false
					}
				}
				if !okLoops {
					c.bad("NewShufflingEpoch.slices", outer.Pos(), "slot/index loops do not cover the full product 0 <= slot < SLOTS_PER_EPOCH, 0 <= index < perSlot")
				} else {
					c.ok("NewShufflingEpoch.slices", sl.Pos(), "Shuffling[n*k/count : n*(k+1)/count], k = %s*%s + %s, count = %s", ov, perSlot.String(), iv, count.String())
				}
			}
			// perSlot comes from CommitteeCount(spec, n)
			if perSlot == nil || !strings.HasPrefix(perSlot.String(), "CommitteeCount(") {
				c.bad("NewShufflingEpoch.count", inner.Pos(), "committees per slot is %v, want CommitteeCount(spec, active count)", perSlot)
			} else {
				c.ok("NewShufflingEpoch.count", inner.Pos(), "%s", perSlot.String())
			}
			// each committee is appended to its slot's list: the slice (directly or through a local) is an argument of an
			// append whose destination is the outer counter's element of something, or a local that is stored there
			appended := false
			ovObj := slEnv.info.ObjectOf(outer.Init.(*ast.AssignStmt).Lhs[0].(*ast.Ident))
			indexedByOuter := func(e ast.Expr) bool {
				ix, ok := ast.Unparen(e).(*ast.IndexExpr)
				if !ok {
					return false
				}
				id, ok := ast.Unparen(stripConv(slEnv.info, ix.Index)).(*ast.Ident)
				return ok && slEnv.info.ObjectOf(id) == ovObj
			}
			ast.Inspect(inner.Body, func(m ast.Node) bool {
				as, ok := m.(*ast.AssignStmt)
				if !ok || len(as.Lhs) != 1 || len(as.Rhs) != 1 {
					return true
				}
				cl, ok := ast.Unparen(as.Rhs[0]).(*ast.CallExpr)
				if !ok || len(cl.Args) != 2 {
					return true
				}
				if id, ok := cl.Fun.(*ast.Ident); !ok || id.Name != "append" {
					return true
				}
				// the appended value is the slice
				v := ast.Unparen(cl.Args[1])
				if id, ok := v.(*ast.Ident); ok {
					if d, ok := slEnv.defs[slEnv.info.Uses[id]]; ok && d.pos == 0 {
						v = ast.Unparen(d.rhs)
					}
				}
				if v != ast.Expr(sl) {
					return true
				}
				if indexedByOuter(as.Lhs[0]) {
					appended = true
					return true
				}
				if dst, ok := ast.Unparen(as.Lhs[0]).(*ast.Ident); ok {
					dobj := slEnv.info.ObjectOf(dst)
					ast.Inspect(outer.Body, func(k ast.Node) bool {
						if st, ok := k.(*ast.AssignStmt); ok && len(st.Lhs) == 1 && len(st.Rhs) == 1 && indexedByOuter(st.Lhs[0]) {
							if rid, ok := ast.Unparen(st.Rhs[0]).(*ast.Ident); ok && slEnv.info.ObjectOf(rid) == dobj {
								appended = true
							}
						}
						return true
					})
				}
				return true
			})
			if appended {
				c.ok("NewShufflingEpoch.append", inner.Pos(), "every slice is appended to the list of its slot")
			} else {
				c.bad("NewShufflingEpoch.append", inner.Pos(), "committee slices are not appended to the list of their slot")
			}
		}
	}
	// CommitteeCount: max(1, min(MAX_COMMITTEES_PER_SLOT, active / SLOTS_PER_EPOCH / TARGET_COMMITTEE_SIZE)), in any
	// spelling: judged on normal forms (operands resolved through single-definition locals), not on text
	committeeCountRule(c)
	samplingRules(c)
}

var _ = packages.NeedName

// polyAbstract makes exprPoly name local variables and parameters by their type (alpha-invariant atoms), used by the
// sibling cross-check to recognise a renamed local.
var polyAbstract = false

// polyAbsSeen numbers the locals met during one abstract evaluation; callers reset it (nil) per top-level expression.
var polyAbsSeen map[types.Object]int
var polyAbsPerType map[string]int

func absName(info *types.Info, e ast.Expr) string {
	switch x := ast.Unparen(e).(type) {
	case *ast.Ident:
		// a parameter standing for the argument of the call being read
		if a, ok := polyArg(info.Uses[x]); ok {
			if aid, isId := ast.Unparen(a).(*ast.Ident); !isId || info.Uses[aid] != info.Uses[x] {
				return absName(info, a)
			}
		}
		if v, ok := info.ObjectOf(x).(*types.Var); ok && !v.IsField() && v.Pkg() != nil && v.Parent() != v.Pkg().Scope() {
			t := types.TypeString(v.Type(), func(*types.Package) string { return "" })
			// distinct locals of one type stay distinct: numbered by first occurrence in the expression at hand
			if polyAbsSeen == nil {
				polyAbsSeen = map[types.Object]int{}
				polyAbsPerType = map[string]int{}
			}
			tn := strings.TrimLeft(t, "*")
			k, ok := polyAbsSeen[v]
			if !ok {
				// numbered per type, in order of first occurrence (canonCutAbs removes the order dependence)
				polyAbsPerType[tn]++
				k = polyAbsPerType[tn]
				polyAbsSeen[v] = k
			}
			return fmt.Sprintf("\u00a7%s#%d", tn, k)
		}
		return x.Name
	case *ast.SelectorExpr:
		if id := identOf(x.X); id != nil {
			if _, isPkg := info.ObjectOf(id).(*types.PkgName); isPkg {
				return x.Sel.Name
			}
		}
		return absName(info, x.X) + "." + x.Sel.Name
	case *ast.StarExpr:
		return absName(info, x.X)
	case *ast.IndexExpr:
		return absName(info, x.X) + "[]"
	case *ast.BinaryExpr:
		return "(" + absName(info, x.X) + x.Op.String() + absName(info, x.Y) + ")"
	case *ast.CallExpr:
		var as []string
		for _, a := range x.Args {
			as = append(as, absName(info, a))
		}
		fn := strings.ReplaceAll(types.ExprString(x.Fun), " ", "")
		if se, ok := x.Fun.(*ast.SelectorExpr); ok {
			fn = absName(info, se.X) + "." + se.Sel.Name
		}
		return fn + "(" + strings.Join(as, ",") + ")"
	case *ast.BasicLit:
		return x.Value
	}
	if tv, ok := info.Types[e]; ok && tv.Value != nil {
		return tv.Value.ExactString()
	}
	return strings.ReplaceAll(types.ExprString(e), " ", "")
}

func intBits(t types.Type) int {
	b, ok := t.Underlying().(*types.Basic)
	if !ok || b.Info()&types.IsInteger == 0 {
		return 0
	}
	switch b.Kind() {
	case types.Int8, types.Uint8:
		return 8
	case types.Int16, types.Uint16:
		return 16
	case types.Int32, types.Uint32:
		return 32
	}
	return 64
}

// narrowing returns the target type's name when the conversion drops high bits of an integer operand.
func narrowing(info *types.Info, call *ast.CallExpr) string {
	to, from := intBits(info.TypeOf(call.Fun)), intBits(info.TypeOf(call.Args[0]))
	if to == 0 || from == 0 || to >= from {
		return ""
	}
	if tv, ok := info.Types[call.Args[0]]; ok && tv.Value != nil {
		return ""
	}
	return fmt.Sprintf("trunc%d", to)
}

// polyRecv: when set (by the comparison and formula collectors, per method), the method's receiver is written `recv`
// in atoms whatever it is called, so that renaming a receiver does not change any normal form.
var polyRecv types.Object

// polyRecv2: the receiver of the CALLING method while a helper is read at one of its call sites; polyArgs: that call's
// arguments by parameter.
var polyRecv2 types.Object
var polyArgs map[types.Object]ast.Expr

func isRecvObj(o types.Object) bool {
	return o != nil && (o == polyRecv || o == polyRecv2)
}

// exprText renders an expression like types.ExprString, with the receiver canonicalised when polyRecv is set.
func exprText(info *types.Info, e ast.Expr) string {
	if polyRecv == nil && polyRecv2 == nil && polyArgs == nil {
		return types.ExprString(e)
	}
	switch x := ast.Unparen(e).(type) {
	case *ast.Ident:
		if a, ok := polyArg(info.Uses[x]); ok {
			if _, self := ast.Unparen(a).(*ast.Ident); !self || info.Uses[ast.Unparen(a).(*ast.Ident)] != info.Uses[x] {
				return exprText(info, a)
			}
		}
		if isRecvObj(info.Uses[x]) {
			return "recv"
		}
		return x.Name
	case *ast.SelectorExpr:
		// (&a).f and (*p).f are a.f and p.f
		return strings.TrimLeft(exprText(info, x.X), "&*") + "." + x.Sel.Name
	case *ast.StarExpr:
		if in := exprText(info, x.X); strings.HasPrefix(in, "&") {
			return in[1:]
		} else {
			return "*" + in
		}
	case *ast.IndexExpr:
		return exprText(info, x.X) + "[" + exprText(info, x.Index) + "]"
	case *ast.UnaryExpr:
		return x.Op.String() + exprText(info, x.X)
	}
	return types.ExprString(e)
}

// polyBitOp: the opaque canonical atom of a bitwise operation (operands of the commutative ones sorted).
func polyBitOp(op token.Token, a, b Poly) Poly {
	sa := strings.NewReplacer("*", "\u00b7", " ", "").Replace(a.String())
	sb := strings.NewReplacer("*", "\u00b7", " ", "").Replace(b.String())
	if op == token.AND_NOT {
		return polyAtom("(" + sa + op.String() + sb + ")")
	}
	// |, & and ^ are associative and commutative: one flat, sorted list of operands
	ops := append(bitOperands(sa, op), bitOperands(sb, op)...)
	sort.Strings(ops)
	return polyAtom("(" + strings.Join(ops, op.String()) + ")")
}

// bitOperands: the operands of s when s is itself an atom built by the same operator, else s.
func bitOperands(s string, op token.Token) []string {
	if len(s) < 2 || s[0] != '(' || s[len(s)-1] != ')' {
		return []string{s}
	}
	inner := s[1 : len(s)-1]
	o := op.String()[0]
	var parts []string
	depth, start := 0, 0
	for i := 0; i < len(inner); i++ {
		switch ch := inner[i]; {
		case ch == '(' || ch == '[':
			depth++
		case ch == ')' || ch == ']':
			depth--
			if depth < 0 {
				return []string{s} // the outer parentheses do not match each other
			}
		case depth == 0 && (ch == '|' || ch == '&' || ch == '^'):
			if ch != o || (ch == '&' && i+1 < len(inner) && inner[i+1] == '^') || (ch == '^' && i > 0 && inner[i-1] == '&') {
				return []string{s} // another operator at the top: a different kind of atom
			}
			parts = append(parts, inner[start:i])
			start = i + 1
		}
	}
	if len(parts) == 0 {
		return []string{s}
	}
	return append(parts, inner[start:])
}

// polyInline: the functions whose body is a single `return <expr>` (no variadics), by object; set by the collectors
// that want calls of them read as the returned expression. polyInlining guards against recursion.
type inlineDecl struct {
	fd   *ast.FuncDecl
	info *types.Info
	ret  ast.Expr                  // the value handed out (on success)
	defs map[types.Object]localDef // for a value pipeline: its locals
}

var polyInline map[*types.Func]inlineDecl

// polyInlineNamed: read such calls in place in the named and type-named forms too (formula.spec: a helper whose body
// changed must change the formulas of its callers, whichever form they are matched in).
var polyInlineNamed bool
var polyInlining = map[*types.Func]bool{}

func inlinableFuncs(p *Prog) map[*types.Func]inlineDecl {
	out := map[*types.Func]inlineDecl{}
	p.funcDecls(func(pk *packages.Package, fd *ast.FuncDecl) {
		if fd.Body == nil || len(fd.Body.List) == 0 {
			return
		}
		info := pk.TypesInfo
		f, ok := info.Defs[fd.Name].(*types.Func)
		if !ok {
			return
		}
		if sig, ok := f.Type().(*types.Signature); !ok || sig.Variadic() {
			return
		}
		last, ok := fd.Body.List[len(fd.Body.List)-1].(*ast.ReturnStmt)
		if !ok || len(last.Results) == 0 || len(last.Results) > 2 {
			return
		}
		if len(last.Results) == 2 && !isNilExpr(info, last.Results[1]) {
			return
		}
		if len(fd.Body.List) == 1 {
			if len(last.Results) != 1 {
				return
			}
			// the returned expression must be arithmetic over its parameters (not a call chain with effects): keep
			// those exprPoly can read at all; decided at use
			out[f] = inlineDecl{fd, info, last.Results[0], nil}
			return
		}
		// a value pipeline: locals defined once, each fallible step followed by `if err != nil { return …, err }`, and a
		// final return of the value (unexported functions only): read as the value it hands out on success, its locals
		// spelled out
		if fd.Name.IsExported() || fd.Recv != nil && fd.Name.IsExported() {
			return
		}
		for _, st := range fd.Body.List[:len(fd.Body.List)-1] {
			switch x := st.(type) {
			case *ast.AssignStmt:
				if x.Tok != token.DEFINE {
					return
				}
			case *ast.DeclStmt:
			case *ast.IfStmt:
				// an error guard and nothing else
				if x.Else != nil || x.Init != nil || len(x.Body.List) != 1 {
					return
				}
				be, ok := ast.Unparen(x.Cond).(*ast.BinaryExpr)
				if !ok || be.Op != token.NEQ || !(isNilExpr(info, be.X) || isNilExpr(info, be.Y)) {
					return
				}
				r, ok := x.Body.List[0].(*ast.ReturnStmt)
				if !ok || len(r.Results) == 0 || isNilExpr(info, r.Results[len(r.Results)-1]) {
					return
				}
			default:
				return
			}
		}
		defs := singleDefs(info, fd.Body)
		out[f] = inlineDecl{fd, info, last.Results[0], defs}
	})
	return out
}

// absPath: the type-named text of a path (x, x.f, xs[i], &x), with locals that merely name another path read through.
func absPath(info *types.Info, e ast.Expr, defs map[types.Object]localDef, depth int) string {
	e = ast.Unparen(e)
	if u, ok := e.(*ast.UnaryExpr); ok && u.Op == token.AND {
		e = ast.Unparen(u.X)
	}
	switch x := e.(type) {
	case *ast.Ident:
		// (a slice, map or pointer local names the same memory as what it was defined from, whatever is written through it)
		refLike := false
		if o := info.Uses[x]; o != nil {
			switch o.Type().Underlying().(type) {
			case *types.Slice, *types.Map, *types.Pointer:
				refLike = true
			}
		}
		if d, ok := defs[info.Uses[x]]; ok && d.pos == 0 && d.n == 1 && d.rhs != nil && depth < 4 && (refLike || !partlyWritten[info.Uses[x]]) {
			r := ast.Unparen(d.rhs)
			if u, ok := r.(*ast.UnaryExpr); ok && u.Op == token.AND {
				r = ast.Unparen(u.X)
			}
			switch r.(type) {
			case *ast.IndexExpr, *ast.SelectorExpr:
				return absPath(info, r, defs, depth+1)
			}
		}
	case *ast.SelectorExpr:
		if s, ok := info.Selections[x]; ok && s.Kind() == types.FieldVal {
			return absPath(info, x.X, defs, depth) + "." + x.Sel.Name
		}
	case *ast.IndexExpr:
		return absPath(info, x.X, defs, depth) + "[]"
	}
	return absName(info, e)
}

// opAssignDef: the defining statement is `x op= e` or x++ / x--.
func opAssignDef(st ast.Stmt) bool {
	switch x := st.(type) {
	case *ast.AssignStmt:
		return x.Tok != token.ASSIGN && x.Tok != token.DEFINE
	case *ast.IncDecStmt:
		return true
	}
	return false
}
