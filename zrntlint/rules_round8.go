package main

import (
	"go/ast"
	"go/token"
	"go/types"
	"sort"
	"strings"

	"golang.org/x/tools/go/cfg"
	"golang.org/x/tools/go/packages"
)

func init() {
	register(&Rule{Name: "filter.all", Floor: 0,
		Doc: "a query with several optional criteria (nil = not asked for) applies all of those that are set: in each reviewed search function (filterAllReviewed) and in the functions of its package it hands its criteria to, every place that accepts an item — an append to the result, a return of anything but the constant false from a boolean predicate — is reached only after each criterion the function looks at was looked at on that path (a must-analysis over the control-flow graph; inside a condition, what stands behind && is looked at when the condition holds, what stands behind || when it does not). A predicate that returns the verdict of its first set criterion never asks the second",
		Run: ruleFilterAll})
}

// filterAllReviewed: the search functions whose criteria are conjunctive (read in the code and in its doc comments).
var filterAllReviewed = map[string]string{
	"pool.AttestationPool.Search": "Search(WithSlot(s), WithCommittee(c)): aggregates of slot s AND committee c",
	"proto.ProtoArray.Search":     "blocks with a matching parent root and/or matching slot: both when both are given",
}

type filterCrit struct {
	objs    map[types.Object]string   // a pointer parameter / a pointer field -> its key
	holders map[types.Object][]string // a struct-typed variable all of whose fields are optional criteria -> their keys
}

func ruleFilterAll(c *Ctx) {
	n := 0
	for _, name := range sortedKeys(filterAllReviewed) {
		i := strings.Index(name, ".")
		var pk *packages.Package
		for _, p := range c.P.Pkgs {
			if pkgShort(p.Types) == name[:i] {
				pk = p
			}
		}
		if pk == nil {
			c.unm(name, token.NoPos, "package of the reviewed search function not loaded")
			continue
		}
		var fd *ast.FuncDecl
		for _, f := range pk.Syntax {
			for _, d := range f.Decls {
				if x, ok := d.(*ast.FuncDecl); ok && funcName(x) == name[i+1:] {
					fd = x
				}
			}
		}
		if fd == nil || fd.Body == nil {
			c.unm(name, token.NoPos, "reviewed search function %s not found", name)
			continue
		}
		info := pk.TypesInfo
		crit := filterCritOf(info, fd, nil)
		seen := map[*ast.FuncDecl]bool{}
		var visit func(fd *ast.FuncDecl, crit filterCrit, depth int)
		visit = func(fd *ast.FuncDecl, crit filterCrit, depth int) {
			if seen[fd] || depth > 2 {
				return
			}
			seen[fd] = true
			n++
			filterAllIn(c, info, pkgShort(pk.Types)+"."+funcName(fd), fd, crit)
			// the functions of the package that are handed criteria
			ast.Inspect(fd.Body, func(k ast.Node) bool {
				call, ok := k.(*ast.CallExpr)
				if !ok {
					return true
				}
				g := calleeFunc(info, call)
				if g == nil || g.Pkg() != pk.Types {
					return true
				}
				hd := declOfFunc(pk, g)
				if hd == nil || hd.Body == nil {
					return true
				}
				passed := map[int][]string{} // parameter index (-1 receiver) -> keys handed over
				mention := func(e ast.Expr) []string {
					// the options struct itself (conf, &conf) hands over all its criteria
					b := ast.Unparen(e)
					if u, ok := b.(*ast.UnaryExpr); ok && u.Op == token.AND {
						b = ast.Unparen(u.X)
					}
					if id, ok := b.(*ast.Ident); ok {
						if ks, ok := crit.holders[info.ObjectOf(id)]; ok {
							return ks
						}
					}
					return filterKeysIn(info, crit, e)
				}
				if sel, ok := ast.Unparen(call.Fun).(*ast.SelectorExpr); ok {
					if ks := mention(sel.X); len(ks) > 0 {
						passed[-1] = ks
					}
				}
				for ai, a := range call.Args {
					if ks := mention(a); len(ks) > 0 {
						passed[ai] = ks
					}
				}
				if len(passed) == 0 {
					return true
				}
				visit(hd, filterCritOf(info, hd, passed), depth+1)
				return true
			})
		}
		visit(fd, crit, 0)
	}
	c.stat("filter_functions", n)
}

// filterCritOf: the optional criteria of fd — its pointer parameters that it tests against nil, and the fields of its
// struct-typed locals / parameters / receiver whose fields are all pointers (an options struct). With passed (for a
// function that is handed criteria), only the parameters that received some.
func filterCritOf(info *types.Info, fd *ast.FuncDecl, passed map[int][]string) filterCrit {
	crit := filterCrit{objs: map[types.Object]string{}, holders: map[types.Object][]string{}}
	optionsStruct := func(t types.Type) *types.Struct {
		if p, ok := t.Underlying().(*types.Pointer); ok {
			t = p.Elem()
		}
		st, ok := t.Underlying().(*types.Struct)
		if !ok || st.NumFields() < 2 {
			return nil
		}
		for i := 0; i < st.NumFields(); i++ {
			if _, isPtr := st.Field(i).Type().Underlying().(*types.Pointer); !isPtr {
				return nil
			}
		}
		return st
	}
	addHolder := func(o types.Object) {
		if o == nil {
			return
		}
		if st := optionsStruct(o.Type()); st != nil {
			var ks []string
			for i := 0; i < st.NumFields(); i++ {
				crit.objs[st.Field(i)] = "." + st.Field(i).Name()
				ks = append(ks, "."+st.Field(i).Name())
			}
			crit.holders[o] = ks
		}
	}
	nilTested := map[types.Object]bool{}
	ast.Inspect(fd.Body, func(k ast.Node) bool {
		if be, ok := k.(*ast.BinaryExpr); ok && (be.Op == token.EQL || be.Op == token.NEQ) {
			for _, pr := range [][2]ast.Expr{{be.X, be.Y}, {be.Y, be.X}} {
				if id, ok := ast.Unparen(pr[0]).(*ast.Ident); ok && isNilExpr(info, pr[1]) {
					nilTested[info.ObjectOf(id)] = true
				}
			}
		}
		return true
	})
	idx := 0
	if fd.Recv != nil && len(fd.Recv.List) == 1 && len(fd.Recv.List[0].Names) == 1 {
		if passed == nil || passed[-1] != nil {
			addHolder(info.Defs[fd.Recv.List[0].Names[0]])
		}
	}
	for _, fl := range fd.Type.Params.List {
		for _, nm := range fl.Names {
			o := info.Defs[nm]
			if o != nil && (passed == nil || passed[idx] != nil) {
				if pt, ok := o.Type().Underlying().(*types.Pointer); ok && nilTested[o] {
					if _, isStruct := pt.Elem().Underlying().(*types.Struct); !isStruct {
						crit.objs[o] = nm.Name
					}
				}
				addHolder(o)
			}
			idx++
		}
	}
	if passed == nil {
		ast.Inspect(fd.Body, func(k ast.Node) bool {
			if id, ok := k.(*ast.Ident); ok {
				if v, ok := info.Defs[id].(*types.Var); ok && !v.IsField() {
					addHolder(v)
				}
			}
			return true
		})
	}
	return crit
}

// filterKeysIn: the criteria an expression mentions.
func filterKeysIn(info *types.Info, crit filterCrit, e ast.Node) []string {
	set := map[string]bool{}
	if e == nil {
		return nil
	}
	// an options struct handed over as a whole is looked at by the callee only when the callee answers with a boolean
	// (a predicate over it); `opt(&conf)`, which fills it in, looks at nothing
	asked := map[*ast.Ident]bool{}
	ast.Inspect(e, func(k ast.Node) bool {
		call, ok := k.(*ast.CallExpr)
		if !ok {
			return true
		}
		if bt, ok := info.TypeOf(call).(*types.Basic); !ok || bt.Info()&types.IsBoolean == 0 {
			return true
		}
		parts := append([]ast.Expr{}, call.Args...)
		if sel, ok := ast.Unparen(call.Fun).(*ast.SelectorExpr); ok {
			parts = append(parts, sel.X)
		}
		for _, p := range parts {
			ast.Inspect(p, func(m ast.Node) bool {
				if id, ok := m.(*ast.Ident); ok {
					asked[id] = true
				}
				return true
			})
		}
		return true
	})
	ast.Inspect(e, func(k ast.Node) bool {
		switch x := k.(type) {
		case *ast.FuncLit:
			return false
		case *ast.SelectorExpr:
			if key, ok := crit.objs[info.ObjectOf(x.Sel)]; ok {
				set[key] = true
				return false // (the holder it is selected from is not a mention of all)
			}
		case *ast.Ident:
			o := info.ObjectOf(x)
			if key, ok := crit.objs[o]; ok {
				set[key] = true
			}
			if ks, ok := crit.holders[o]; ok && asked[x] {
				for _, k2 := range ks {
					set[k2] = true
				}
			}
		}
		return true
	})
	var out []string
	for k := range set {
		out = append(out, k)
	}
	sort.Strings(out)
	return out
}

// filterEval: the criteria certainly looked at when e is evaluated and comes out as v.
func filterEval(info *types.Info, crit filterCrit, e ast.Expr, v bool) map[string]bool {
	out := map[string]bool{}
	var always func(e ast.Expr)
	var when func(e ast.Expr, v bool)
	always = func(e ast.Expr) {
		e = ast.Unparen(e)
		switch x := e.(type) {
		case *ast.BinaryExpr:
			if x.Op == token.LAND || x.Op == token.LOR {
				always(x.X)
				return
			}
		case *ast.UnaryExpr:
			if x.Op == token.NOT {
				always(x.X)
				return
			}
		}
		for _, k := range filterKeysIn(info, crit, e) {
			out[k] = true
		}
	}
	when = func(e ast.Expr, v bool) {
		e = ast.Unparen(e)
		switch x := e.(type) {
		case *ast.BinaryExpr:
			switch {
			case x.Op == token.LAND && v, x.Op == token.LOR && !v:
				when(x.X, v)
				when(x.Y, v)
				return
			case x.Op == token.LAND || x.Op == token.LOR:
				always(x.X)
				return
			}
		case *ast.UnaryExpr:
			if x.Op == token.NOT {
				when(x.X, !v)
				return
			}
		}
		always(e)
	}
	when(e, v)
	return out
}

func filterAllIn(c *Ctx, info *types.Info, fname string, fd *ast.FuncDecl, crit filterCrit) {
	used := filterKeysIn(info, crit, fd.Body)
	if len(used) < 2 {
		c.ok(fname, fd.Pos(), "looks at %d optional criterion/criteria: nothing to combine", len(used))
		return
	}
	g := cfg.New(fd.Body, func(*ast.CallExpr) bool { return true })
	all := map[string]bool{}
	for _, k := range used {
		all[k] = true
	}
	copySet := func(m map[string]bool) map[string]bool {
		o := map[string]bool{}
		for k := range m {
			o[k] = true
		}
		return o
	}
	// in[b]: nil = not reached yet (top)
	in := map[*cfg.Block]map[string]bool{}
	if len(g.Blocks) == 0 {
		return
	}
	in[g.Blocks[0]] = map[string]bool{}
	isBoolFunc := false
	if fd.Type.Results != nil && len(fd.Type.Results.List) > 0 {
		last := fd.Type.Results.List[len(fd.Type.Results.List)-1]
		if b, ok := info.TypeOf(last.Type).Underlying().(*types.Basic); ok && b.Kind() == types.Bool {
			isBoolFunc = true
		}
	}
	// the variables that collect the result: named results, and locals that are returned
	collectors := map[types.Object]bool{}
	if fd.Type.Results != nil {
		for _, fl := range fd.Type.Results.List {
			for _, nm := range fl.Names {
				collectors[info.Defs[nm]] = true
			}
		}
	}
	ast.Inspect(fd.Body, func(k ast.Node) bool {
		if r, ok := k.(*ast.ReturnStmt); ok {
			for _, e := range r.Results {
				if id, ok := ast.Unparen(e).(*ast.Ident); ok {
					if _, isSlice := info.TypeOf(id).Underlying().(*types.Slice); isSlice {
						collectors[info.ObjectOf(id)] = true
					}
				}
			}
		}
		return true
	})
	type miss struct {
		pos  token.Pos
		what string
		keys []string
	}
	var misses []miss
	check := func(pos token.Pos, what string, have map[string]bool) {
		var lacking []string
		for _, k := range used {
			if !have[k] {
				lacking = append(lacking, k)
			}
		}
		if len(lacking) > 0 {
			misses = append(misses, miss{pos, what, lacking})
		}
	}
	transfer := func(b *cfg.Block, have map[string]bool, report bool) (t, f map[string]bool) {
		have = copySet(have)
		for i, nd := range b.Nodes {
			isCond := i == len(b.Nodes)-1 && len(b.Succs) == 2
			if e, ok := nd.(ast.Expr); ok && isCond {
				tt := info.TypeOf(e)
				var bt *types.Basic
				if tt != nil {
					bt, _ = tt.Underlying().(*types.Basic)
				}
				if tt == nil || (bt != nil && bt.Info()&types.IsBoolean != 0) {
					t, f = copySet(have), copySet(have)
					for k := range filterEval(info, crit, e, true) {
						t[k] = true
					}
					for k := range filterEval(info, crit, e, false) {
						f[k] = true
					}
					return t, f
				}
			}
			switch x := nd.(type) {
			case *ast.ReturnStmt:
				if isBoolFunc && len(x.Results) > 0 && report {
					res := x.Results[len(x.Results)-1]
					if tv, ok := info.Types[res]; ok && tv.Value != nil && tv.Value.String() == "false" {
						continue
					}
					h := copySet(have)
					for k := range filterEval(info, crit, res, true) {
						h[k] = true
					}
					check(x.Pos(), "returns `"+types.ExprString(res)+"`", h)
				}
			case *ast.AssignStmt:
				if report && len(x.Lhs) == 1 && len(x.Rhs) == 1 {
					if id, ok := ast.Unparen(x.Lhs[0]).(*ast.Ident); ok && collectors[info.ObjectOf(id)] {
						if call, ok := ast.Unparen(x.Rhs[0]).(*ast.CallExpr); ok {
							if fid, ok := ast.Unparen(call.Fun).(*ast.Ident); ok && fid.Name == "append" {
								check(x.Pos(), "appends to "+id.Name, have)
							}
						}
					}
				}
			}
			// what a statement evaluates for certain: every criterion it mentions outside the right side of && / ||
			if e, ok := nd.(ast.Expr); ok {
				for k := range filterEval(info, crit, e, true) {
					if filterEval(info, crit, e, false)[k] {
						have[k] = true
					}
				}
			} else {
				ast.Inspect(nd, func(k ast.Node) bool {
					switch y := k.(type) {
					case *ast.FuncLit:
						return false
					case *ast.BinaryExpr:
						if y.Op == token.LAND || y.Op == token.LOR {
							for kk := range filterEval(info, crit, y, true) {
								if filterEval(info, crit, y, false)[kk] {
									have[kk] = true
								}
							}
							return false
						}
					case *ast.Ident, *ast.SelectorExpr:
						for _, kk := range filterKeysIn(info, crit, y) {
							have[kk] = true
						}
						return false
					}
					return true
				})
			}
		}
		return have, have
	}
	meet := func(dst *map[string]bool, src map[string]bool) bool {
		if *dst == nil {
			*dst = copySet(src)
			return true
		}
		changed := false
		for k := range *dst {
			if !src[k] {
				delete(*dst, k)
				changed = true
			}
		}
		return changed
	}
	for round := 0; round < 50; round++ {
		changed := false
		for _, b := range g.Blocks {
			if in[b] == nil {
				continue
			}
			t, f := transfer(b, in[b], false)
			for si, s := range b.Succs {
				src := t
				if si == 1 && len(b.Succs) == 2 {
					src = f
				}
				cur := in[s]
				if meet(&cur, src) {
					changed = true
				}
				in[s] = cur
			}
		}
		if !changed {
			break
		}
	}
	for _, b := range g.Blocks {
		if in[b] != nil {
			transfer(b, in[b], true)
		}
	}
	if len(misses) == 0 {
		c.ok(fname, fd.Pos(), "every accepting place is reached only after all %d criteria (%s) were looked at", len(used), strings.Join(used, ", "))
		return
	}
	m := misses[0]
	c.bad(fname, m.pos, "%s %s on a path that never looked at the criterion %s: when several criteria are given, an item that fails that one is still accepted (criteria of this query: %s)", fname, m.what, strings.Join(m.keys, ", "), strings.Join(used, ", "))
}

// ---------------------------------------------------------------------------------------------------------------

func init() {
	register(&Rule{Name: "lock.recv", Floor: 20,
		Doc: "every method of a struct type that carries a sync.Mutex / sync.RWMutex (directly, embedded or in an embedded struct) has a pointer receiver: with a value receiver each call works on a copy of the lock — it excludes nobody, and a copy taken while the original is write-locked is born locked",
		Run: ruleLockRecv})
	register(&Rule{Name: "tag.unique", Floor: 60,
		Doc: "within one struct no two fields carry the same json name, nor the same yaml name: encoding/json silently drops BOTH fields of a duplicated name (the text form of the value loses them, and reading it back leaves them zero)",
		Run: ruleTagUnique})
}

func carriesMutex(t types.Type, depth int) bool {
	if depth > 3 {
		return false
	}
	st, ok := t.Underlying().(*types.Struct)
	if !ok {
		return false
	}
	for i := 0; i < st.NumFields(); i++ {
		ft := st.Field(i).Type()
		if nt := namedOf(ft); nt != nil && nt.Obj().Pkg() != nil && nt.Obj().Pkg().Path() == "sync" && (nt.Obj().Name() == "Mutex" || nt.Obj().Name() == "RWMutex") {
			if _, isPtr := ft.(*types.Pointer); !isPtr {
				return true
			}
		}
		if st.Field(i).Embedded() {
			if _, isPtr := ft.(*types.Pointer); !isPtr && carriesMutex(ft, depth+1) {
				return true
			}
		}
	}
	return false
}

func ruleLockRecv(c *Ctx) {
	n := 0
	c.P.funcDecls(func(pk *packages.Package, fd *ast.FuncDecl) {
		if fd.Recv == nil || len(fd.Recv.List) != 1 || !strings.Contains(pk.PkgPath, "/eth2") {
			return
		}
		f, _ := pk.TypesInfo.Defs[fd.Name].(*types.Func)
		if f == nil {
			return
		}
		rt := f.Type().(*types.Signature).Recv().Type()
		base := rt
		_, isPtr := rt.(*types.Pointer)
		if isPtr {
			base = rt.(*types.Pointer).Elem()
		}
		if !carriesMutex(base, 0) {
			return
		}
		n++
		key := pkgShort(pk.Types) + "." + funcName(fd)
		if isPtr {
			c.ok(key, fd.Pos(), "pointer receiver")
		} else {
			c.bad(key, fd.Pos(), "%s has a value receiver, but %s carries a mutex: every call locks a private copy of it (no exclusion against the other methods; a copy taken while a writer holds the lock never unlocks)", key, types.TypeString(base, types.RelativeTo(pk.Types)))
		}
	})
	c.stat("methods_of_locked_types", n)
}

func ruleTagUnique(c *Ctx) {
	n := 0
	for _, pk := range c.P.Pkgs {
		if !strings.Contains(pk.PkgPath, "/eth2") {
			continue
		}
		for _, file := range pk.Syntax {
			ast.Inspect(file, func(k ast.Node) bool {
				ts, ok := k.(*ast.TypeSpec)
				if !ok {
					return true
				}
				st, ok := ts.Type.(*ast.StructType)
				if !ok || st.Fields == nil {
					return true
				}
				tagged := false
				for _, kind := range []string{"json", "yaml"} {
					seen := map[string]string{}
					for _, fl := range st.Fields.List {
						if fl.Tag == nil {
							continue
						}
						tag := reflectTag(strings.Trim(fl.Tag.Value, "`"), kind)
						if tag == "" || tag == "-" {
							continue
						}
						tagged = true
						name := tag
						if i := strings.Index(name, ","); i >= 0 {
							name = name[:i]
						}
						if name == "" {
							continue
						}
						fname := "(embedded)"
						if len(fl.Names) > 0 {
							fname = fl.Names[0].Name
						}
						if prev, dup := seen[name]; dup {
							c.bad(pkgShort(pk.Types)+"."+ts.Name.Name+":"+kind+":"+name, fl.Pos(), "%s.%s: the fields %s and %s both carry the %s name %q: the encoder drops both", pkgShort(pk.Types), ts.Name.Name, prev, fname, kind, name)
						}
						seen[name] = fname
					}
				}
				if tagged {
					n++
					c.ok(pkgShort(pk.Types)+"."+ts.Name.Name, ts.Pos(), "json / yaml names unique")
				}
				return true
			})
		}
	}
	c.stat("tagged_structs", n)
}
