#!/usr/bin/env python3
"""Generates formula_table.go: arithmetic of the specification that zrnt implements, one assignment at a time.

Each pick (function, assigned target, the spec's formula) was read against consensus-specs v1.5.0-beta.2 when it was
added; the generator records the canonical polynomial form(s) printed by `zrntlint formulas` for that target, both
with operand names and with locals named by type. The resulting Go table is literal data."""
import subprocess, sys
PICKS = [
 # ---- altair process_sync_aggregate
 ("altair.ProcessSyncAggregate", "totalActiveIncrements", "get_total_active_balance(state) // EFFECTIVE_BALANCE_INCREMENT"),
 ("altair.ProcessSyncAggregate", "baseRewardPerIncrement", "EFFECTIVE_BALANCE_INCREMENT * BASE_REWARD_FACTOR // integer_squareroot(total_active_balance)"),
 ("altair.ProcessSyncAggregate", "totalBaseRewards", "base_reward_per_increment * total_active_increments"),
 ("altair.ProcessSyncAggregate", "maxParticipantRewards", "total_base_rewards * SYNC_REWARD_WEIGHT // WEIGHT_DENOMINATOR // SLOTS_PER_EPOCH"),
 ("altair.ProcessSyncAggregate", "participantReward", "max_participant_rewards // SYNC_COMMITTEE_SIZE"),
 ("altair.ProcessSyncAggregate", "proposerReward", "participant_reward * PROPOSER_WEIGHT // (WEIGHT_DENOMINATOR - PROPOSER_WEIGHT)"),
 # ---- altair process_attestation (proposer reward)
 ("altair.ProcessAttestation", "baseRewardPerIncrement", "EFFECTIVE_BALANCE_INCREMENT * BASE_REWARD_FACTOR // integer_squareroot(total_active_balance)"),
 ("altair.ProcessAttestation", "baseReward", "increments * base_reward_per_increment"),
 ("altair.ProcessAttestation", "proposerRewardNumerator", "+= base_reward * {TIMELY_SOURCE_WEIGHT 14, TIMELY_TARGET_WEIGHT 26, TIMELY_HEAD_WEIGHT 14}"),
 ("altair.ProcessAttestation", "proposerRewardDenominator", "(WEIGHT_DENOMINATOR - PROPOSER_WEIGHT) * WEIGHT_DENOMINATOR // PROPOSER_WEIGHT (= 448)"),
 ("altair.ProcessAttestation", "proposerReward", "proposer_reward_numerator // proposer_reward_denominator"),
 ("deneb.ProcessAttestation", "baseRewardPerIncrement", "as altair"),
 ("deneb.ProcessAttestation", "baseReward", "as altair"),
 ("deneb.ProcessAttestation", "proposerRewardNumerator", "as altair"),
 ("deneb.ProcessAttestation", "proposerRewardDenominator", "as altair"),
 ("deneb.ProcessAttestation", "proposerReward", "as altair"),
 # ---- altair get_flag_index_deltas
 ("altair.ComputeFlagDeltas", "unslashedParticipatingIncrements", "unslashed_participating_balance // EFFECTIVE_BALANCE_INCREMENT"),
 ("altair.ComputeFlagDeltas", "activeIncrements", "get_total_active_balance // EFFECTIVE_BALANCE_INCREMENT"),
 ("altair.ComputeFlagDeltas", "baseRewardPerIncrement", "EFFECTIVE_BALANCE_INCREMENT * BASE_REWARD_FACTOR // integer_squareroot(total_active_balance)"),
 ("altair.ComputeFlagDeltas", "increments", "effective_balance // EFFECTIVE_BALANCE_INCREMENT"),
 ("altair.ComputeFlagDeltas", "baseReward", "increments * base_reward_per_increment"),
 ("altair.ComputeFlagDeltas", "rewardNumerator", "base_reward * weight * unslashed_participating_increments"),
 ("altair.ComputeFlagDeltas", "rewardDenominator", "active_increments * WEIGHT_DENOMINATOR"),
 ("altair.ComputeFlagDeltas", "out.Rewards[vi]", "+= reward_numerator // reward_denominator"),
 ("altair.ComputeFlagDeltas", "out.Penalties[vi]", "+= base_reward * weight // WEIGHT_DENOMINATOR"),
 # ---- altair inactivity
 ("altair.ProcessInactivityUpdates", "finalityDelay", "previous_epoch - finalized_checkpoint.epoch"),
 ("altair.ProcessInactivityUpdates", "newScore", "-= min(1, score); += INACTIVITY_SCORE_BIAS; -= min(INACTIVITY_SCORE_RECOVERY_RATE, score)"),
 ("altair.ComputeInactivityPenaltyDeltas", "penaltyDenominator", "INACTIVITY_SCORE_BIAS * INACTIVITY_PENALTY_QUOTIENT_<fork>"),
 ("altair.ComputeInactivityPenaltyDeltas", "penaltyNumerator", "effective_balance * inactivity_score"),
 ("altair.ComputeInactivityPenaltyDeltas", "out.Penalties[vi]", "+= penalty_numerator // penalty_denominator"),
 # ---- slashings
 ("phase0.ProcessEpochSlashings", "slashingsWeight", "sum(state.slashings) * PROPORTIONAL_SLASHING_MULTIPLIER_<fork>"),
 ("phase0.ProcessEpochSlashings", "slashingsEpoch", "epoch + EPOCHS_PER_SLASHINGS_VECTOR // 2 == validator.withdrawable_epoch"),
 ("phase0.ProcessEpochSlashings", "penaltyNumerator", "effective_balance // increment * adjusted_total_slashing_balance"),
 ("phase0.ProcessEpochSlashings", "penalty", "penalty_numerator // total_balance * increment"),
 ("phase0.SlashValidator", "withdrawalEpoch", "max(withdrawable_epoch, epoch + EPOCHS_PER_SLASHINGS_VECTOR)"),
 ("phase0.SlashValidator", "err", "decrease_balance(state, slashed_index, effective_balance // MIN_SLASHING_PENALTY_QUOTIENT_<fork>)"),
 ("phase0.SlashValidator", "whistleblowerReward", "effective_balance // WHISTLEBLOWER_REWARD_QUOTIENT"),
 ("phase0.BeaconStateView.ForkSettings", "return#0", "phase0 proposer_reward = whistleblower_reward // PROPOSER_REWARD_QUOTIENT"),
 ("altair.BeaconStateView.ForkSettings", "return#0", "altair+ proposer_reward = whistleblower_reward * PROPOSER_WEIGHT // WEIGHT_DENOMINATOR"),
 # ---- effective balances
 ("phase0.ProcessEffectiveBalanceUpdates", "HYSTERESIS_INCREMENT", "EFFECTIVE_BALANCE_INCREMENT // HYSTERESIS_QUOTIENT"),
 ("phase0.ProcessEffectiveBalanceUpdates", "DOWNWARD_THRESHOLD", "HYSTERESIS_INCREMENT * HYSTERESIS_DOWNWARD_MULTIPLIER"),
 ("phase0.ProcessEffectiveBalanceUpdates", "UPWARD_THRESHOLD", "HYSTERESIS_INCREMENT * HYSTERESIS_UPWARD_MULTIPLIER"),
 ("phase0.ProcessEffectiveBalanceUpdates", "effBalance", "balance - balance % EFFECTIVE_BALANCE_INCREMENT (then min with MAX_EFFECTIVE_BALANCE)"),
 ("phase0.GenesisFromEth1", "vEff", "balance - balance % EFFECTIVE_BALANCE_INCREMENT"),
 # ---- phase0 rewards
 ("phase0.AttestationRewardsAndPenalties", "finalityDelay", "previous_epoch - finalized_checkpoint.epoch"),
 ("phase0.AttestationRewardsAndPenalties", "baseReward", "effective_balance * BASE_REWARD_FACTOR // integer_squareroot(total_balance) // BASE_REWARDS_PER_EPOCH"),
 ("phase0.AttestationRewardsAndPenalties", "proposerReward", "base_reward // PROPOSER_REWARD_QUOTIENT"),
 ("phase0.AttestationRewardsAndPenalties", "maxAttesterReward", "base_reward - proposer_reward"),
 ("phase0.AttestationRewardsAndPenalties", "res.InclusionDelay.Rewards[i]", "+= max_attester_reward // inclusion_delay"),
 ("phase0.AttestationRewardsAndPenalties", "res.Source.Rewards[i]", "+= base_reward (leak) | base_reward * attesting_increments // total_increments"),
 ("phase0.AttestationRewardsAndPenalties", "res.Target.Rewards[i]", "+= base_reward (leak) | base_reward * attesting_increments // total_increments"),
 ("phase0.AttestationRewardsAndPenalties", "res.Head.Rewards[i]", "+= base_reward (leak) | base_reward * attesting_increments // total_increments"),
 ("phase0.AttestationRewardsAndPenalties", "res.Source.Penalties[i]", "+= base_reward"),
 ("phase0.AttestationRewardsAndPenalties", "res.Target.Penalties[i]", "+= base_reward"),
 ("phase0.AttestationRewardsAndPenalties", "res.Head.Penalties[i]", "+= base_reward"),
 ("phase0.AttestationRewardsAndPenalties", "res.Inactivity.Penalties[i]", "+= BASE_REWARDS_PER_EPOCH * base_reward - proposer_reward; += effective_balance * finality_delay // INACTIVITY_PENALTY_QUOTIENT"),
 # ---- registry, churn, timing
 ("common.Spec.GetChurnLimit", "return#0", "max(MIN_PER_EPOCH_CHURN_LIMIT, active_validator_count // CHURN_LIMIT_QUOTIENT)"),
 ("common.Spec.ComputeActivationExitEpoch", "return#0", "epoch + 1 + MAX_SEED_LOOKAHEAD"),
 ("common.Spec.EpochStartSlot", "out", "epoch * SLOTS_PER_EPOCH"),
 ("common.Spec.SlotToEpoch", "return#0", "slot // SLOTS_PER_EPOCH"),
 ("common.Spec.TimeAtSlot", "return#0", "genesis_time + slot * SECONDS_PER_SLOT"),
 ("common.Spec.TimeAtSlot", "max", "largest slot whose time fits 64 bits: (2^64-1 - genesis_time) // SECONDS_PER_SLOT (subtract first, divide second)"),
 ("common.Spec.TimeToSlot", "return#0", "(time - genesis_time) // SECONDS_PER_SLOT"),
 ("phase0.InitiateValidatorExit", "err", "withdrawable_epoch = exit_epoch + MIN_VALIDATOR_WITHDRAWABILITY_DELAY"),
 ("phase0.ProcessEpochRegistryUpdates", "withdrawEpoch", "exit_epoch + MIN_VALIDATOR_WITHDRAWABILITY_DELAY"),
 ("phase0.ProcessEpochRegistryUpdates", "eligibilityEpoch", "activation_eligibility_epoch = current_epoch + 1"),
 ("deneb.ProcessEpochRegistryUpdates", "withdrawEpoch", "exit_epoch + MIN_VALIDATOR_WITHDRAWABILITY_DELAY"),
 ("deneb.ProcessEpochRegistryUpdates", "eligibilityEpoch", "activation_eligibility_epoch = current_epoch + 1"),
 ("phase0.ProcessEth1Vote", "period", "EPOCHS_PER_ETH1_VOTING_PERIOD * SLOTS_PER_EPOCH"),
 ("phase0.ProcessDeposits", "expectedInputCount", "eth1_data.deposit_count - eth1_deposit_index (then min with MAX_DEPOSITS)"),
 ("phase0.GenesisFromEth1", "err", "genesis_time = eth1_timestamp + GENESIS_DELAY"),
 # ---- committees, subnets
 ("common.CommitteeCount", "validatorsPerSlot", "active_validator_count // SLOTS_PER_EPOCH"),
 ("common.CommitteeCount", "committeesPerSlot", "... // TARGET_COMMITTEE_SIZE (clamped to [1, MAX_COMMITTEES_PER_SLOT])"),
 ("common.NewShufflingEpoch", "committeeCount", "committees_per_slot * SLOTS_PER_EPOCH"),
 ("common.NewShufflingEpoch", "index", "(slot % SLOTS_PER_EPOCH) * committees_per_slot + committee_index"),
 ("common.NewShufflingEpoch", "startOffset", "len(indices) * index // count"),
 ("common.NewShufflingEpoch", "endOffset", "len(indices) * (index + 1) // count"),
 ("phase0.ComputeSubnetForAttestation", "slotsSinceEpochStart", "slot % SLOTS_PER_EPOCH"),
 ("phase0.ComputeSubnetForAttestation", "committeesSinceEpochStart", "committees_per_slot * slots_since_epoch_start"),
 ("phase0.ComputeSubnetForAttestation", "return#0", "(committees_since_epoch_start + committee_index) % ATTESTATION_SUBNET_COUNT"),
 ("phase0.IsAggregator", "modulo", "max(1, len(committee) // TARGET_AGGREGATORS_PER_COMMITTEE)"),
 ("altair.IsSyncCommitteeAggregator", "modulo", "max(1, SYNC_COMMITTEE_SIZE // SYNC_COMMITTEE_SUBNET_COUNT // TARGET_AGGREGATORS_PER_SYNC_SUBCOMMITTEE)"),
 ("common.IndexedSyncCommittee.InSubnet", "valSubnet", "index_in_committee // (SYNC_COMMITTEE_SIZE // SYNC_COMMITTEE_SUBNET_COUNT)"),
 ("common.IndexedSyncCommittee.Subnets", "subnet", "index_in_committee // (SYNC_COMMITTEE_SIZE // SYNC_COMMITTEE_SUBNET_COUNT)"),
 ("common.IndexedSyncCommittee.Subcommittee", "subComSize", "SYNC_COMMITTEE_SIZE // SYNC_COMMITTEE_SUBNET_COUNT"),
 ("common.IndexedSyncCommittee.Subcommittee", "i", "subcommittee_index * sync_subcommittee_size"),
 # ---- withdrawals
 ("capella.GetExpectedWithdrawals", "validatorIndex", "(validator_index + 1) % len(state.validators)"),
 ("capella.ProcessWithdrawals", "err", "next_withdrawal_index = latest_withdrawal.index + 1"),
 ("capella.ProcessWithdrawals", "nextValidatorIndex", "(latest.validator_index + 1) % n  |  (next_index + MAX_VALIDATORS_PER_WITHDRAWALS_SWEEP) % n"),
 ("common.SetRecentRoots", "err", "state.block_roots[slot % SLOTS_PER_HISTORICAL_ROOT], state.state_roots[...]"),
 # ---- swap-or-not shuffle (compute_shuffled_index and its whole-list form), samplers
 ("common.innerPermuteIndex", "r", "inverse direction starts at the last round: rounds - 1"),
 ("common.innerPermuteIndex", "pivot", "bytes_to_uint64(hash(seed + round)[0:8]) % index_count"),
 ("common.innerPermuteIndex", "flip", "(pivot + index_count - index) % index_count"),
 ("common.innerPermuteIndex", "byteV", "source[(position % 256) // 8]"),
 ("common.innerPermuteIndex", "bitV", "(byte >> (position % 8)) % 2"),
 ("common.innerShuffleList", "r", "inverse direction starts at the last round: rounds - 1"),
 ("common.innerShuffleList", "pivot", "bytes_to_uint64(hash(seed + round)[0:8]) % index_count"),
 ("common.innerShuffleList", "mirror", "(pivot + 1) >> 1 for the first segment, (pivot + list_size + 1) >> 1 for the second"),
 ("common.innerShuffleList", "end", "list_size - 1"),
 ("common.innerShuffleList", "byteV", "source[(j % 256) // 8], primed from the segment's first position (pivot, then end)"),
 ("common.innerShuffleList", "bitV", "(byte >> (j % 8)) % 2"),
 ("common.innerPermuteIndex", "call:PutUint32#1", "source = hash(seed + round + uint_to_bytes(uint32(position // 256))): shift first, truncate second"),
 ("common.innerShuffleList", "call:PutUint32#1", "source = hash(seed + round + uint_to_bytes(uint32(position // 256))) for pivot, j, end, j"),
 ("common.ComputeProposerIndex", "absI", "candidate i of batch: (batch*32 + j) % total"),
 ("common.ComputeSyncCommitteeIndices", "shuffledIndex", "compute_shuffled_index(i % active_validator_count, active_validator_count, seed)"),
 ("common.ComputeSyncCommitteeIndices", "randomByte", "hash(seed + uint_to_bytes(i // 32))[i % 32]"),
]
def gq(s): return '"' + s.replace("\\", "\\\\").replace('"', '\\"') + '"'
rows = {}
for line in subprocess.check_output(["/verif/bin/zrntlint", "formulas"]).decode().splitlines():
    p = line.split("\t")
    if len(p) < 6: continue
    rows.setdefault((p[0], p[1]), []).append((p[2], p[3], p[4]))
out = ["package main", "", "// Generated by gen_formula_table.py from reviewed picks; literal data, independent of the tree at check time.", "",
       "var formulaTable = []formulaSpec{"]
missing = 0
for fn, target, spec in PICKS:
    sites = rows.get((fn, target))
    if not sites:
        print("PICK NOT FOUND:", fn, target, file=sys.stderr); missing += 1; continue
    forms = sorted((t + " " + n, t + " " + a) for t, n, a in sites if not (n.strip() in ("1",) and t in ("+=", "-=")) or target == "newScore")
    # arithmetic-free plain assignments never reach the dump; keep everything listed
    out.append("\t{fn: %s, target: %s, named: []string{%s}, abs: []string{%s}, spec: %s}," % (
        gq(fn), gq(target), ", ".join(gq(f[0]) for f in forms), ", ".join(gq(f[1]) for f in forms), gq(spec)))
out.append("}")
open("/verif/zrntlint/formula_table.go", "w").write("\n".join(out) + "\n")
print("entries:", len(PICKS) - missing, "missing:", missing)
