package main

import (
	"fmt"
	"go/ast"
	"go/token"
	"go/types"
	"strings"

	"golang.org/x/tools/go/packages"
)

func init() {
	register(&Rule{Name: "tree.alias", Floor: 40,
		Doc: "a value handed to the tree (argument of FromFields / Set / Append on a ztyp view) must not be a pointer into caller-owned memory: `(*RootView)(&x.F)` / `&x.F` with x the receiver or a pointer parameter makes the caller's struct field the tree leaf itself, so a later write to the struct changes the tree's content under its cached hashes; a copy in a fresh local is required",
		Run: ruleTreeAlias})
	register(&Rule{Name: "adjacent.pairs", Floor: 1,
		Doc: "a loop that compares neighbouring elements s[i+a] and s[i+b] of one slice covers every adjacent pair: it starts at i = -a and runs while i+b < len(s) (a scan that skips the first or the last pair lets a duplicate or an inversion through)",
		Run: ruleAdjacentPairs})
	register(&Rule{Name: "epoch.pairing", Floor: 2,
		Doc: "when an epoch number and an active-validator set are taken from the epochs context for one computation, both come from the same epoch's shuffling (X.Epoch with X.ActiveIndices), and the next sync committee is computed for the next epoch",
		Run: ruleEpochPairing})
	register(&Rule{Name: "score.flow", Floor: 4,
		Doc: "vote deltas remove the old balance from the node of the applied vote and add the new balance to the node of the pending vote; ApplyScoreChanges finishes writing all node weights (and propagating deltas to parents) before any best-child comparison reads them",
		Run: ruleScoreFlow})
}

func isZtypViewCall(info *types.Info, call *ast.CallExpr) bool {
	f := calleeFunc(info, call)
	if f == nil || !isZtyp(f) {
		return false
	}
	switch f.Name() {
	case "FromFields", "FromElements", "Set", "Append", "SetBacking":
		return true
	}
	return false
}

func ruleTreeAlias(c *Ctx) {
	c.P.funcDecls(func(pk *packages.Package, fd *ast.FuncDecl) {
		info := pk.TypesInfo
		// caller-owned roots: the receiver and pointer-typed parameters
		owned := map[types.Object]bool{}
		if fd.Recv != nil && len(fd.Recv.List) == 1 && len(fd.Recv.List[0].Names) == 1 {
			if _, isPtr := info.TypeOf(fd.Recv.List[0].Type).(*types.Pointer); isPtr {
				owned[info.Defs[fd.Recv.List[0].Names[0]]] = true
			}
		}
		if fd.Type.Params != nil {
			for _, f := range fd.Type.Params.List {
				if _, isPtr := info.TypeOf(f.Type).(*types.Pointer); isPtr {
					for _, n := range f.Names {
						owned[info.Defs[n]] = true
					}
				}
			}
		}
		defs := singleDefs(info, fd.Body)
		// aliasOf: does e evaluate to a pointer into caller-owned memory? returns the offending sub-expression
		var aliasOf func(e ast.Expr, depth int) ast.Expr
		aliasOf = func(e ast.Expr, depth int) ast.Expr {
			if depth > 6 || e == nil {
				return nil
			}
			e = ast.Unparen(e)
			switch x := e.(type) {
			case *ast.Ident:
				if d, ok := defs[info.Uses[x]]; ok {
					if d.n > 1 && d.pos < d.n {
						// tuple definition `a, b := e1, e2` is stored per position by singleDefs when arities match
					}
					return aliasOf(d.rhs, depth+1)
				}
			case *ast.CallExpr:
				if isConversion(info, x) && len(x.Args) == 1 {
					if _, isPtr := info.TypeOf(x.Fun).(*types.Pointer); isPtr {
						return aliasOf(x.Args[0], depth+1)
					}
				}
			case *ast.UnaryExpr:
				if x.Op != token.AND {
					return nil
				}
				// &x.F... rooted at an owned object
				root := ast.Unparen(x.X)
				for {
					switch r := root.(type) {
					case *ast.SelectorExpr:
						root = ast.Unparen(r.X)
						continue
					case *ast.IndexExpr:
						root = ast.Unparen(r.X)
						continue
					}
					break
				}
				if _, isSel := ast.Unparen(x.X).(*ast.SelectorExpr); !isSel {
					return nil
				}
				if id, ok := root.(*ast.Ident); ok && owned[info.Uses[id]] {
					return x
				}
			}
			return nil
		}
		ast.Inspect(fd.Body, func(n ast.Node) bool {
			call, ok := n.(*ast.CallExpr)
			if !ok || !isZtypViewCall(info, call) {
				return true
			}
			key := pkgShort(pk.Types) + "." + funcName(fd) + ":" + calleeFunc(info, call).Name()
			var bad ast.Expr
			var badArg ast.Expr
			for _, a := range call.Args {
				// only views whose backing node is the value's own memory matter: in ztyp that is *RootView
				// ((*RootView).Backing returns (*Root)(r)); every other basic view copies into a fresh node.
				if !reachesRootView(info, a, defs, 0) {
					continue
				}
				if b := aliasOf(a, 0); b != nil {
					bad, badArg = b, a
					break
				}
			}
			// SetBacking on a leaf view overwrites the leaf IN PLACE ((*RootView).SetBacking does `*r = ...`): the parent
			// is not rebound, cached hashes above it go stale and copies that share the leaf change content. Only
			// composite views (which rebind through their hook) may be re-backed; a value that came out of a tree as the
			// View interface, or a *RootView, may not.
			if f := calleeFunc(info, call); f != nil && f.Name() == "SetBacking" && bad == nil {
				if sel, ok := call.Fun.(*ast.SelectorExpr); ok {
					rt := info.TypeOf(sel.X)
					_, isIface := rt.Underlying().(*types.Interface)
					isRoot := false
					if nt := namedOf(rt); nt != nil && nt.Obj().Name() == "RootView" {
						isRoot = true
					}
					if isIface || isRoot {
						c.bad(key, call.Pos(), "%s calls SetBacking on %s (static type %s): if this is a bytes32 leaf the tree node is overwritten in place, no ancestor is rebound, cached roots above it go stale and earlier copies of the state see the new content under the old root (build a fresh view and Set it on the parent instead)", funcName(fd), types.ExprString(sel.X), rt.String())
						return true
					}
				}
			}
			if bad != nil {
				c.bad(key, badArg.Pos(), "%s hands %s to the tree: the tree leaf is the caller's own struct field, a later write to the struct changes the tree under its cached hashes (copy into a local first)", funcName(fd), types.ExprString(bad))
			} else {
				c.ok(key, call.Pos(), "no argument points into caller-owned memory")
			}
			return true
		})
	})
}

func ruleAdjacentPairs(c *Ctx) {
	c.P.funcDecls(func(pk *packages.Package, fd *ast.FuncDecl) {
		info := pk.TypesInfo
		if fd.Body == nil {
			return
		}
		// the same scan written as a range over the tail: for i, v := range s[k:] { … v ~ s[i+c] … }: v is s[i+k]
		ast.Inspect(fd.Body, func(n ast.Node) bool {
			rs, ok := n.(*ast.RangeStmt)
			if !ok || rs.Key == nil || rs.Value == nil {
				return true
			}
			se, ok := ast.Unparen(rs.X).(*ast.SliceExpr)
			if !ok || se.High != nil || se.Low == nil {
				return true
			}
			if _, isSlice := info.TypeOf(se.X).Underlying().(*types.Slice); !isSlice {
				return true
			}
			k, ok := constantInt(info.Types[se.Low])
			kid, ok1 := rs.Key.(*ast.Ident)
			vid, ok2 := rs.Value.(*ast.Ident)
			if !ok || !ok1 || !ok2 {
				return true
			}
			kobj, vobj := info.Defs[kid], info.Defs[vid]
			slice := types.ExprString(se.X)
			found := false
			var cOff int64
			ast.Inspect(rs.Body, func(m ast.Node) bool {
				be, ok := m.(*ast.BinaryExpr)
				if !ok || found {
					return true
				}
				switch be.Op {
				case token.EQL, token.NEQ, token.LSS, token.LEQ, token.GTR, token.GEQ:
				default:
					return true
				}
				for _, pair := range [][2]ast.Expr{{be.X, be.Y}, {be.Y, be.X}} {
					id, ok := ast.Unparen(pair[0]).(*ast.Ident)
					if !ok || info.Uses[id] != vobj {
						continue
					}
					ix, ok := ast.Unparen(pair[1]).(*ast.IndexExpr)
					if !ok || types.ExprString(ix.X) != slice {
						continue
					}
					if p, ok := exprPoly(info, ix.Index, nil, nil, 0); ok && p[kid.Name] == 1 && len(p) <= 2 {
						cOff, found = p[""], true
					}
				}
				return true
			})
			_ = kobj
			if !found || (k-cOff != 1 && cOff-k != 1) {
				return true
			}
			key := pkgShort(pk.Types) + "." + funcName(fd) + ":" + slice
			lo := k
			if cOff < lo {
				lo = cOff
			}
			switch {
			case lo != 0:
				c.bad(key, rs.Pos(), "neighbour scan over %s compares [i%+d] with [i%+d] starting at i = 0: the pair (0,1) is never compared", slice, cOff, k)
			case cOff > k:
				c.bad(key, rs.Pos(), "neighbour scan over %s ranges the lower element and indexes the upper one: the last round reads one past the end", slice)
			default:
				c.ok(key, rs.Pos(), "every adjacent pair of %s is compared (range over the tail, the predecessor by index)", slice)
			}
			return true
		})
		ast.Inspect(fd.Body, func(n ast.Node) bool {
			fs, ok := n.(*ast.ForStmt)
			if !ok || fs.Init == nil || fs.Cond == nil {
				return true
			}
			init, ok := fs.Init.(*ast.AssignStmt)
			if !ok || len(init.Lhs) != 1 || len(init.Rhs) != 1 {
				return true
			}
			iv, ok := init.Lhs[0].(*ast.Ident)
			if !ok {
				return true
			}
			iobj := info.Defs[iv]
			startTV := info.Types[init.Rhs[0]]
			if startTV.Value == nil {
				return true
			}
			start, ok := constantInt(startTV)
			if !ok {
				return true
			}
			// comparisons of s[i+a] with s[i+b] in the body
			offsetOf := func(e ast.Expr) (string, int64, bool) {
				ix, ok := ast.Unparen(e).(*ast.IndexExpr)
				if !ok {
					return "", 0, false
				}
				if _, isSlice := info.TypeOf(ix.X).Underlying().(*types.Slice); !isSlice {
					return "", 0, false
				}
				idx := ast.Unparen(ix.Index)
				if id, ok := idx.(*ast.Ident); ok && info.Uses[id] == iobj {
					return types.ExprString(ix.X), 0, true
				}
				if be, ok := idx.(*ast.BinaryExpr); ok && (be.Op == token.ADD || be.Op == token.SUB) {
					if id, ok := ast.Unparen(be.X).(*ast.Ident); ok && info.Uses[id] == iobj {
						if tv := info.Types[be.Y]; tv.Value != nil {
							if v, ok := constantInt(tv); ok {
								if be.Op == token.SUB {
									v = -v
								}
								return types.ExprString(ix.X), v, true
							}
						}
					}
				}
				return "", 0, false
			}
			var slice string
			var a, b int64
			found := false
			ast.Inspect(fs.Body, func(m ast.Node) bool {
				be, ok := m.(*ast.BinaryExpr)
				if !ok || found {
					return true
				}
				switch be.Op {
				case token.EQL, token.NEQ, token.LSS, token.LEQ, token.GTR, token.GEQ:
				default:
					return true
				}
				s1, o1, ok1 := offsetOf(be.X)
				s2, o2, ok2 := offsetOf(be.Y)
				if ok1 && ok2 && s1 == s2 && o1 != o2 {
					slice, a, b = s1, o1, o2
					if a > b {
						a, b = b, a
					}
					found = true
				}
				return true
			})
			if !found || b-a != 1 {
				return true
			}
			key := pkgShort(pk.Types) + "." + funcName(fd) + ":" + slice
			// bound: i < len(s) - b  (or i+b < len(s))
			cond, ok := ast.Unparen(fs.Cond).(*ast.BinaryExpr)
			if !ok || (cond.Op != token.LSS && cond.Op != token.LEQ) {
				c.unm(key, fs.Pos(), "loop condition form not recognised")
				return true
			}
			defs := singleDefs(info, fd.Body)
			lhs, ok1 := exprPoly(info, cond.X, defs, map[string]bool{iv.Name: true}, 0)
			rhs, ok2 := exprPoly(info, cond.Y, defs, map[string]bool{iv.Name: true}, 0)
			if !ok1 || !ok2 {
				c.unm(key, fs.Pos(), "loop bound not normalisable")
				return true
			}
			// want: i + b < len(s)  <=>  lhs - rhs == i + b - len(s)   (for <) ; for <= : i + b - len(s) + ... i <= len-1-b
			want := polyAdd(polyAdd(polyAtom(iv.Name), polyConst(b), 1), polyAtom("len("+slice+")"), -1)
			got := polyAdd(lhs, rhs, -1)
			if cond.Op == token.LEQ {
				got = polyAdd(got, polyConst(-1), 1) // i <= X  <=>  i < X+1  => lhs - rhs - 1 < 0
			}
			// step: i++ / i += 1 and no other write to i in the body
			unit := false
			switch p := fs.Post.(type) {
			case *ast.IncDecStmt:
				if id, ok := p.X.(*ast.Ident); ok && info.Uses[id] == iobj && p.Tok == token.INC {
					unit = true
				}
			case *ast.AssignStmt:
				if len(p.Lhs) == 1 && len(p.Rhs) == 1 && p.Tok == token.ADD_ASSIGN {
					if id, ok := p.Lhs[0].(*ast.Ident); ok && info.Uses[id] == iobj {
						if v, ok := constantInt(info.Types[p.Rhs[0]]); ok && v == 1 {
							unit = true
						}
					}
				}
			}
			ast.Inspect(fs.Body, func(n ast.Node) bool {
				switch x := n.(type) {
				case *ast.AssignStmt:
					for _, l := range x.Lhs {
						if id, ok := l.(*ast.Ident); ok && info.Uses[id] == iobj {
							unit = false
						}
					}
				case *ast.IncDecStmt:
					if id, ok := x.X.(*ast.Ident); ok && info.Uses[id] == iobj {
						unit = false
					}
				}
				return true
			})
			switch {
			case !unit:
				c.bad(key, fs.Pos(), "neighbour scan over %s does not advance by exactly one per iteration: some adjacent pairs are skipped", slice)
			case start != -a:
				c.bad(key, fs.Pos(), "neighbour scan over %s compares [i%+d] with [i%+d] but starts at i = %d: the pair (%d,%d) is never compared", slice, a, b, start, 0, 1)
			case !polyEq(got, want):
				c.bad(key, fs.Pos(), "neighbour scan over %s compares [i%+d] with [i%+d] but its bound `%s` does not reach the last pair (want i%+d < len)", slice, a, b, types.ExprString(fs.Cond), b)
			default:
				c.ok(key, fs.Pos(), "covers every adjacent pair of %s", slice)
			}
			return true
		})
	})
}

func ruleEpochPairing(c *Ctx) {
	n := 0
	c.P.funcDecls(func(pk *packages.Package, fd *ast.FuncDecl) {
		info := pk.TypesInfo
		ast.Inspect(fd.Body, func(nd ast.Node) bool {
			call, ok := nd.(*ast.CallExpr)
			if !ok {
				return true
			}
			var epochBase, activeBase string
			for _, a := range call.Args {
				sel, ok := ast.Unparen(a).(*ast.SelectorExpr)
				if !ok {
					continue
				}
				if nt := namedOf(info.TypeOf(sel.X)); nt == nil || nt.Obj().Name() != "ShufflingEpoch" {
					continue
				}
				switch sel.Sel.Name {
				case "Epoch":
					epochBase = types.ExprString(sel.X)
				case "ActiveIndices":
					activeBase = types.ExprString(sel.X)
				}
			}
			if epochBase == "" || activeBase == "" {
				return true
			}
			n++
			key := pkgShort(pk.Types) + "." + funcName(fd) + "->" + calleeLabel(info, call)
			if epochBase != activeBase {
				c.bad(key, call.Pos(), "epoch is taken from %s but the active set from %s: the computation mixes two epochs (validators activating or exiting at that boundary are sampled wrongly)", epochBase, activeBase)
				return true
			}
			if fd.Name.Name == "ComputeNextSyncCommittee" && !strings.HasSuffix(epochBase, "NextEpoch") {
				c.bad(key, call.Pos(), "the next sync committee is computed from %s; the spec uses the next epoch (current_epoch + 1) for both seed and active set", epochBase)
				return true
			}
			c.ok(key, call.Pos(), "epoch and active set both from %s", epochBase)
			return true
		})
	})
	c.stat("paired_call_sites", n)
}

func ruleScoreFlow(c *Ctx) {
	// (1) ComputeDeltas
	pk, fd := c.P.mustFunc("eth2/forkchoice/proto", "ProtoVoteStore.ComputeDeltas")
	info := pk.TypesInfo
	var oldP, newP types.Object
	names := []*ast.Ident{}
	for _, f := range fd.Type.Params.List {
		names = append(names, f.Names...)
	}
	for _, n := range names {
		ln := strings.ToLower(n.Name)
		if strings.HasPrefix(ln, "old") {
			oldP = info.Defs[n]
		}
		if strings.HasPrefix(ln, "new") {
			newP = info.Defs[n]
		}
	}
	if oldP == nil || newP == nil {
		anchorFail("ComputeDeltas: old/new balance parameters not found")
	}
	// locals derived from old / new balances
	derived := map[types.Object]string{}
	ast.Inspect(fd.Body, func(n ast.Node) bool {
		as, ok := n.(*ast.AssignStmt)
		if !ok || len(as.Lhs) != len(as.Rhs) {
			return true
		}
		for k := range as.Lhs {
			id, ok := as.Lhs[k].(*ast.Ident)
			if !ok {
				continue
			}
			o := info.Defs[id]
			if o == nil {
				o = info.Uses[id]
			}
			if mentions(info, as.Rhs[k], oldP) {
				if derived[o] == "new" {
					derived[o] = "both"
				} else if derived[o] == "" {
					derived[o] = "old"
				}
			}
			if mentions(info, as.Rhs[k], newP) {
				if derived[o] == "old" {
					derived[o] = "both"
				} else if derived[o] == "" {
					derived[o] = "new"
				}
			}
		}
		return true
	})
	classOf := func(e ast.Expr) string {
		cls := ""
		ast.Inspect(e, func(n ast.Node) bool {
			if id, ok := n.(*ast.Ident); ok {
				if d, ok := derived[info.Uses[id]]; ok {
					cls = d
				}
			}
			return true
		})
		return cls
	}
	sub, add := "", ""
	var subPos, addPos token.Pos
	var subIdx, addIdx string
	ast.Inspect(fd.Body, func(n ast.Node) bool {
		as, ok := n.(*ast.AssignStmt)
		if !ok || len(as.Lhs) != 1 || len(as.Rhs) != 1 {
			return true
		}
		ix, ok := ast.Unparen(as.Lhs[0]).(*ast.IndexExpr)
		if !ok {
			return true
		}
		if sl, ok := info.TypeOf(ix.X).Underlying().(*types.Slice); !ok || namedOf(sl.Elem()) == nil || namedOf(sl.Elem()).Obj().Name() != "SignedGwei" {
			return true
		}
		switch as.Tok {
		case token.SUB_ASSIGN:
			sub, subPos, subIdx = classOf(as.Rhs[0]), as.Pos(), types.ExprString(ix.Index)
		case token.ADD_ASSIGN:
			add, addPos, addIdx = classOf(as.Rhs[0]), as.Pos(), types.ExprString(ix.Index)
		}
		return true
	})
	if sub == "old" {
		c.ok("ComputeDeltas.remove", subPos, "the applied vote's node loses the old balance")
	} else if sub == "" {
		c.unm("ComputeDeltas.remove", subPos, "where the delta removed from the applied vote's node (%s) comes from is not read", subIdx)
	} else {
		c.bad("ComputeDeltas.remove", subPos, "the delta removed from the applied vote's node (%s) is derived from the %s balances; it must be the old balance (what was added when the vote was applied)", subIdx, sub)
	}
	if add == "new" {
		c.ok("ComputeDeltas.add", addPos, "the pending vote's node gains the new balance")
	} else if add == "" {
		c.unm("ComputeDeltas.add", addPos, "where the delta added to the pending vote's node (%s) comes from is not read", addIdx)
	} else {
		c.bad("ComputeDeltas.add", addPos, "the delta added to the pending vote's node (%s) is derived from the %s balances; it must be the new balance (a balance change would otherwise be dropped)", addIdx, add)
	}
	// the index of the subtraction comes from vote.Current, the addition from vote.Next
	idxSrc := func(idx string) string {
		// resolve `x, ok := indices[vote.F]` definitions
		src := ""
		ast.Inspect(fd.Body, func(n ast.Node) bool {
			as, ok := n.(*ast.AssignStmt)
			if !ok || len(as.Rhs) != 1 || len(as.Lhs) < 1 {
				return true
			}
			id, ok := as.Lhs[0].(*ast.Ident)
			if !ok || !strings.HasPrefix(idx, id.Name) {
				return true
			}
			if ix, ok := ast.Unparen(as.Rhs[0]).(*ast.IndexExpr); ok {
				src = types.ExprString(ix.Index)
			}
			return true
		})
		return src
	}
	if s1, s2 := idxSrc(subIdx), idxSrc(addIdx); strings.HasSuffix(s1, ".Current") && strings.HasSuffix(s2, ".Next") {
		c.ok("ComputeDeltas.nodes", subPos, "subtraction at the node of vote.Current, addition at the node of vote.Next")
	} else {
		c.bad("ComputeDeltas.nodes", subPos, "subtraction is positioned by %s and addition by %s; the spec moves the weight from the applied vote (Current) to the pending vote (Next)", s1, s2)
	}
	// (2) ApplyScoreChanges: weight loop strictly before comparison loop
	pk, fd = c.P.mustFunc("eth2/forkchoice/proto", "ProtoArray.ApplyScoreChanges")
	info = pk.TypesInfo
	// the pass that writes weights and the pass that compares children are two different top-level statements of the
	// function, in that order; either may live in an unexported helper of the package (looked into, two levels)
	var weightLoop, cmpLoop *ast.ForStmt
	var weightAt, cmpAt ast.Stmt
	helperBody := func(call *ast.CallExpr) *ast.FuncDecl {
		f := calleeFunc(info, call)
		if f == nil || f.Pkg() != pk.Types || f.Exported() || f.Name() == "maybeUpdateBestChildAndDescendant" {
			return nil
		}
		var out *ast.FuncDecl
		c.P.funcDecls(func(p2 *packages.Package, f2 *ast.FuncDecl) {
			if p2 == pk && p2.TypesInfo.Defs[f2.Name] == f {
				out = f2
			}
		})
		return out
	}
	var effects func(root ast.Node, depth int) (w, cc *ast.ForStmt, hasW, hasC bool)
	effects = func(root ast.Node, depth int) (w, cc *ast.ForStmt, hasW, hasC bool) {
		var loops []*ast.ForStmt
		var visit func(n ast.Node) bool
		inner := func() *ast.ForStmt {
			if len(loops) == 0 {
				return nil
			}
			return loops[0]
		}
		visit = func(n ast.Node) bool {
			switch x := n.(type) {
			case *ast.ForStmt:
				loops = append(loops, x)
				ast.Inspect(x.Body, visit)
				loops = loops[:len(loops)-1]
				return false
			case *ast.AssignStmt:
				for _, l := range x.Lhs {
					if sel, ok := ast.Unparen(l).(*ast.SelectorExpr); ok && sel.Sel.Name == "Weight" {
						hasW = true
						if w == nil {
							w = inner()
						}
					}
				}
			case *ast.CallExpr:
				if f := calleeFunc(info, x); f != nil && f.Name() == "maybeUpdateBestChildAndDescendant" {
					hasC = true
					if cc == nil {
						cc = inner()
					}
				} else if depth < 2 {
					if hb := helperBody(x); hb != nil && hb.Body != nil {
						w2, c2, hw, hc := effects(hb.Body, depth+1)
						if hw {
							hasW = true
							if w == nil {
								w = w2
								if w == nil {
									w = inner()
								}
							}
						}
						if hc {
							hasC = true
							if cc == nil {
								cc = c2
								if cc == nil {
									cc = inner()
								}
							}
						}
					}
				}
			}
			return true
		}
		ast.Inspect(root, visit)
		return
	}
	for _, st := range fd.Body.List {
		w, cc, hasW, hasC := effects(st, 0)
		if hasW && weightAt == nil {
			weightAt, weightLoop = st, w
		}
		if hasC && cmpAt == nil {
			cmpAt, cmpLoop = st, cc
		}
	}
	switch {
	case weightAt == nil || cmpAt == nil || weightLoop == nil || cmpLoop == nil:
		c.unm("ApplyScoreChanges.two-pass", fd.Pos(), "weight-update loop or best-child loop not found in the function (or the unexported helpers it calls)")
	case weightAt == cmpAt:
		c.bad("ApplyScoreChanges.two-pass", cmpLoop.Pos(), "best-child comparisons run inside the loop that is still writing node weights: a node is compared with siblings whose weight has not received this batch's delta yet, and nothing re-runs the comparison afterwards")
	case weightAt.Pos() > cmpAt.Pos():
		c.bad("ApplyScoreChanges.two-pass", cmpLoop.Pos(), "best-child comparisons run before the weights are updated")
	default:
		c.ok("ApplyScoreChanges.two-pass", cmpLoop.Pos(), "all weights are final before the first best-child comparison")
	}
	// both loops run from the last node down to the first (children before parents)
	for name, fs := range map[string]*ast.ForStmt{"weights": weightLoop, "best-child": cmpLoop} {
		if fs == nil {
			continue
		}
		key := "ApplyScoreChanges." + name + ".backwards"
		okDir := false
		descending := false
		switch post := fs.Post.(type) {
		case *ast.IncDecStmt:
			descending = post.Tok == token.DEC
		case *ast.AssignStmt:
			if post.Tok == token.SUB_ASSIGN && len(post.Rhs) == 1 {
				if tv, ok := info.Types[post.Rhs[0]]; ok && tv.Value != nil && tv.Value.ExactString() == "1" {
					descending = true
				}
			}
		}
		if init, ok := fs.Init.(*ast.AssignStmt); ok && descending && len(init.Lhs) == 1 && len(init.Rhs) == 1 {
			// the first position visited is len(<nodes>) - 1, in any spelling: the counter starts there and indexes as it
			// is, or starts at len and indexes with i-1 (the counter's start put into the index expressions of the body)
			if iv, ok := init.Lhs[0].(*ast.Ident); ok {
				ldefs := singleDefs(info, fd.Body)
				if q, ok := exprPoly(info, init.Rhs[0], ldefs, nil, 0); ok {
					stop := map[string]bool{iv.Name: true}
					nIdx, good := 0, true
					ast.Inspect(fs.Body, func(k ast.Node) bool {
						ix, ok := k.(*ast.IndexExpr)
						if !ok {
							return true
						}
						if _, isSlice := info.TypeOf(ix.X).Underlying().(*types.Slice); !isSlice {
							return true
						}
						p, ok := exprPoly(info, ix.Index, ldefs, stop, 0)
						if !ok {
							return true
						}
						if _, uses := p[iv.Name]; !uses || p[iv.Name] != 1 {
							return true
						}
						nIdx++
						first := polyAdd(polyAdd(p, polyAtom(iv.Name), -1), q, 1)
						if first[""] != -1 || len(first) != 2 {
							good = false
							return true
						}
						for a, cf := range first {
							if a != "" && (cf != 1 || !strings.HasPrefix(a, "len(")) {
								good = false
							}
						}
						return true
					})
					if nIdx > 0 && good {
						okDir = true
					}
					if nIdx == 0 && q[""] == -1 && len(q) == 2 {
						for a, cf := range q {
							if a != "" && cf == 1 && strings.HasPrefix(a, "len(") {
								okDir = true
							}
						}
					}
				}
			}
		}
		if okDir {
			c.ok(key, fs.Pos(), "iterates from the last node to the first (children are visited before their parents)")
		} else {
			c.bad(key, fs.Pos(), "the %s pass does not iterate from len-1 down to 0: deltas must reach a parent only after all its children were processed", name)
		}
	}
}

// reachesRootView: the argument is (or is a local defined as) a *RootView-typed expression.
func reachesRootView(info *types.Info, e ast.Expr, defs map[types.Object]localDef, depth int) bool {
	if depth > 4 {
		return false
	}
	isRV := func(t types.Type) bool {
		pt, ok := t.(*types.Pointer)
		if !ok {
			return false
		}
		nt, ok := pt.Elem().(*types.Named)
		return ok && isZtyp(nt.Obj()) && nt.Obj().Name() == "RootView"
	}
	if isRV(info.TypeOf(e)) {
		return true
	}
	if id, ok := ast.Unparen(e).(*ast.Ident); ok {
		if d, ok := defs[info.Uses[id]]; ok {
			return reachesRootView(info, d.rhs, defs, depth+1)
		}
	}
	return false
}

func init() {
	register(&Rule{Name: "loop.exists", Floor: 2,
		Doc: "a boolean search loop (function returns bool and falls through to a literal `return false`/`return true` after the loop) only returns the opposite literal from inside the loop; returning a computed condition from inside decides on the first candidate instead of over all of them",
		Run: ruleLoopExists})
}

func ruleLoopExists(c *Ctx) {
	c.P.funcDecls(func(pk *packages.Package, fd *ast.FuncDecl) {
		info := pk.TypesInfo
		if fd.Type.Results == nil || len(fd.Type.Results.List) != 1 || len(fd.Type.Results.List[0].Names) > 1 {
			return
		}
		if b, ok := info.TypeOf(fd.Type.Results.List[0].Type).Underlying().(*types.Basic); !ok || b.Kind() != types.Bool {
			return
		}
		// top-level statements: a loop immediately followed (possibly at the end) by `return <bool literal>`
		list := fd.Body.List
		for i, st := range list {
			var body *ast.BlockStmt
			switch x := st.(type) {
			case *ast.ForStmt:
				body = x.Body
			case *ast.RangeStmt:
				body = x.Body
			default:
				continue
			}
			if i+1 >= len(list) {
				continue
			}
			r, ok := list[i+1].(*ast.ReturnStmt)
			if !ok || len(r.Results) != 1 {
				continue
			}
			lit, ok := ast.Unparen(r.Results[0]).(*ast.Ident)
			if !ok || (lit.Name != "false" && lit.Name != "true") {
				continue
			}
			key := pkgShort(pk.Types) + "." + funcName(fd) + "@search"
			var bad *ast.ReturnStmt
			ast.Inspect(body, func(n ast.Node) bool {
				if _, ok := n.(*ast.FuncLit); ok {
					return false
				}
				if rr, ok := n.(*ast.ReturnStmt); ok && len(rr.Results) == 1 && bad == nil {
					if id, ok := ast.Unparen(rr.Results[0]).(*ast.Ident); ok && (id.Name == "true" || id.Name == "false") {
						return true
					}
					bad = rr
				}
				return true
			})
			if bad != nil {
				c.bad(key, bad.Pos(), "search loop returns the computed value `%s` from inside the loop and `%s` after it: the first candidate that reaches this return decides, later candidates are never examined", types.ExprString(bad.Results[0]), lit.Name)
			} else {
				c.ok(key, st.Pos(), "inside the loop only literal verdicts are returned; `%s` after exhausting all candidates", lit.Name)
			}
		}
	})
}

func init() {
	register(&Rule{Name: "update.guard", Floor: 1,
		Doc: "refresh-if-changed blocks: when an if (without else) only assigns X_i = v_i for several i and its condition only compares those same pairs with !=, the condition is the disjunction of the inequalities (any difference refreshes all); a conjunction leaves a stale X_i whenever only one of them changed",
		Run: ruleUpdateGuard})
	register(&Rule{Name: "rotate.order", Floor: 2,
		Doc: "buffer rotations: in a run of consecutive assignments between reference-typed fields of one value (a.F = a.G; a.G = a.H; ...), no field is read after it was written in the same run — that would make two names share one buffer and lose the old content of the other",
		Run: ruleRotateOrder})
}

func flattenBool(e ast.Expr, op token.Token) []ast.Expr {
	e = ast.Unparen(e)
	if be, ok := e.(*ast.BinaryExpr); ok && be.Op == op {
		return append(flattenBool(be.X, op), flattenBool(be.Y, op)...)
	}
	return []ast.Expr{e}
}

func ruleUpdateGuard(c *Ctx) {
	c.P.funcDecls(func(pk *packages.Package, fd *ast.FuncDecl) {
		if fd.Body == nil {
			return
		}
		fname := pkgShort(pk.Types) + "." + funcName(fd)
		ast.Inspect(fd.Body, func(n ast.Node) bool {
			is, ok := n.(*ast.IfStmt)
			if !ok || is.Else != nil || is.Init != nil || len(is.Body.List) < 2 {
				return true
			}
			// body: only simple assignments X = v
			pairs := map[string]string{}
			for _, st := range is.Body.List {
				as, ok := st.(*ast.AssignStmt)
				if !ok || as.Tok != token.ASSIGN || len(as.Lhs) != 1 || len(as.Rhs) != 1 {
					return true
				}
				pairs[types.ExprString(as.Lhs[0])] = types.ExprString(as.Rhs[0])
			}
			// condition in negation normal form (so !(a == x && b == y) is a != x || b != y): leaves under any mix of
			// && / || are all `a != b` over exactly the assigned pairs
			type leaf struct {
				x, y ast.Expr
				op   token.Token
			}
			var leaves []leaf
			hasAnd := false
			okCond := true
			var collect func(e ast.Expr, neg bool)
			collect = func(e ast.Expr, neg bool) {
				e = ast.Unparen(e)
				if u, ok := e.(*ast.UnaryExpr); ok && u.Op == token.NOT {
					collect(u.X, !neg)
					return
				}
				be, ok := e.(*ast.BinaryExpr)
				if !ok {
					okCond = false
					return
				}
				if be.Op == token.LAND || be.Op == token.LOR {
					if (be.Op == token.LAND) != neg {
						hasAnd = true
					}
					collect(be.X, neg)
					collect(be.Y, neg)
					return
				}
				op := be.Op
				if neg {
					var known bool
					if op, known = negOp[op]; !known {
						okCond = false
						return
					}
				}
				leaves = append(leaves, leaf{be.X, be.Y, op})
			}
			collect(is.Cond, false)
			if !okCond || len(leaves) < 2 || len(leaves) != len(pairs) {
				return true
			}
			seen := map[string]bool{}
			for _, l := range leaves {
				if l.op != token.NEQ {
					return true
				}
				a, b := types.ExprString(l.x), types.ExprString(l.y)
				switch {
				case pairs[a] == b:
					seen[a] = true
				case pairs[b] == a:
					seen[b] = true
				default:
					return true
				}
			}
			if len(seen) != len(pairs) {
				return true
			}
			key := fname + "@refresh"
			for _, k := range sortedKeys(pairs) {
				key += ":" + k
				break
			}
			if !hasAnd {
				c.ok(key, is.Pos(), "refresh of %d values guarded by the disjunction of their inequalities", len(pairs))
			} else {
				c.bad(key, is.Pos(), "%s refreshes %d cached values only when `%s`: with a conjunction, a change of just one of them leaves it stale", fname, len(pairs), types.ExprString(is.Cond))
			}
			return true
		})
	})
}

func ruleRotateOrder(c *Ctx) {
	c.P.funcDecls(func(pk *packages.Package, fd *ast.FuncDecl) {
		if fd.Body == nil {
			return
		}
		info := pk.TypesInfo
		fname := pkgShort(pk.Types) + "." + funcName(fd)
		isRef := func(t types.Type) bool {
			switch t.Underlying().(type) {
			case *types.Map, *types.Slice, *types.Pointer, *types.Chan:
				return true
			}
			return false
		}
		fieldOf := func(e ast.Expr) (string, bool) {
			sel, ok := ast.Unparen(e).(*ast.SelectorExpr)
			if !ok {
				return "", false
			}
			if s, ok := info.Selections[sel]; !ok || s.Kind() != types.FieldVal || !isRef(s.Type()) {
				return "", false
			}
			return types.ExprString(sel), true
		}
		nrun := 0
		ast.Inspect(fd.Body, func(n ast.Node) bool {
			blk, ok := n.(*ast.BlockStmt)
			if !ok {
				return true
			}
			written := map[string]token.Pos{}
			rot := 0
			flush := func(pos token.Pos) {
				if rot >= 2 {
					nrun++
					c.ok(fmt.Sprintf("%s@rotation%d", fname, nrun), pos, "%d field-to-field moves, each field read before it is overwritten", rot)
				}
				written = map[string]token.Pos{}
				rot = 0
			}
			var runStart token.Pos
			for _, st := range blk.List {
				as, ok := st.(*ast.AssignStmt)
				if !ok || as.Tok != token.ASSIGN || len(as.Lhs) != len(as.Rhs) {
					flush(runStart)
					continue
				}
				// a, b = x, y reads x and y before it writes a and b: all right-hand sides of one statement are judged
				// against what earlier statements wrote, then its left-hand sides count as written
				allFields := true
				for _, l := range as.Lhs {
					if _, okL := fieldOf(l); !okL {
						allFields = false
					}
				}
				if !allFields {
					flush(runStart)
					continue
				}
				if rot == 0 && len(written) == 0 {
					runStart = as.Pos()
				}
				bad := false
				for i := range as.Lhs {
					lf, _ := fieldOf(as.Lhs[i])
					if rf, okR := fieldOf(as.Rhs[i]); okR {
						if _, w := written[rf]; w {
							nrun++
							c.bad(fmt.Sprintf("%s@rotation%d", fname, nrun), as.Pos(), "%s: `%s = %s` reads %s after it was overwritten two statements earlier in the same rotation: %s and %s now share one buffer and the previous content of %s is lost", fname, lf, rf, rf, lf, rf, rf)
							bad = true
							break
						}
						rot++
					}
				}
				if bad {
					written = map[string]token.Pos{}
					rot = 0
					continue
				}
				for _, l := range as.Lhs {
					lf, _ := fieldOf(l)
					written[lf] = as.Pos()
				}
			}
			flush(runStart)
			return true
		})
	})
}

func init() {
	register(&Rule{Name: "pair.cover", Floor: 4,
		Doc: "twin operands: when a function works on two same-typed values named <stem>1 and <stem>2 (locals, parameters or fields), every callee that is handed one twin is handed the other equally often (each check made on attestation_1 / header_1 is made on attestation_2 / header_2); a call repeated on the same twin leaves the other unchecked",
		Run: rulePairCover})
}

func rulePairCover(c *Ctx) {
	c.P.funcDecls(func(pk *packages.Package, fd *ast.FuncDecl) {
		if fd.Body == nil || !strings.Contains(pk.PkgPath, "/eth2/") {
			return
		}
		info := pk.TypesInfo
		fname := pkgShort(pk.Types) + "." + funcName(fd)
		// twin names: idents and selector leaves ending in 1 / 2 with the same stem and type
		type twin struct{ one, two string }
		names := map[string]types.Type{}
		ast.Inspect(fd, func(n ast.Node) bool {
			switch x := n.(type) {
			case *ast.Ident:
				if o := info.ObjectOf(x); o != nil {
					if _, isVar := o.(*types.Var); isVar {
						names[x.Name] = o.Type()
					}
				}
			}
			return true
		})
		var twins []twin
		for _, n := range sortedKeys(names) {
			if len(n) < 2 || !strings.HasSuffix(n, "1") {
				continue
			}
			other := n[:len(n)-1] + "2"
			if t2, ok := names[other]; ok && types.Identical(names[n], t2) {
				twins = append(twins, twin{n, other})
			}
		}
		if len(twins) == 0 {
			return
		}
		mentions := func(e ast.Expr, name string) bool {
			found := false
			ast.Inspect(e, func(n ast.Node) bool {
				if id, ok := n.(*ast.Ident); ok && id.Name == name {
					found = true
				}
				return !found
			})
			return found
		}
		for _, tw := range twins {
			cnt1, cnt2 := map[string]int{}, map[string]int{}
			pos := map[string]token.Pos{}
			ast.Inspect(fd.Body, func(n ast.Node) bool {
				call, ok := n.(*ast.CallExpr)
				if !ok {
					return true
				}
				f := calleeFunc(info, call)
				if f == nil {
					return true
				}
				m1, m2 := false, false
				for _, a := range call.Args {
					if mentions(a, tw.one) {
						m1 = true
					}
					if mentions(a, tw.two) {
						m2 = true
					}
				}
				if sel, ok := call.Fun.(*ast.SelectorExpr); ok {
					if mentions(sel.X, tw.one) {
						m1 = true
					}
					if mentions(sel.X, tw.two) {
						m2 = true
					}
				}
				if !m1 && !m2 {
					return true
				}
				// only verdict-producing callees (result is exactly an error or a bool) owe both twins the same treatment;
				// deriving a shared quantity (a domain, an epoch) from one twin is legitimate once the twins were compared
				sig, _ := f.Type().(*types.Signature)
				if sig == nil || sig.Results().Len() != 1 {
					return true
				}
				rt := sig.Results().At(0).Type()
				if b, isB := rt.Underlying().(*types.Basic); !(isB && b.Kind() == types.Bool) && rt.String() != "error" {
					return true
				}
				name := qualName(f)
				if _, ok := pos[name]; !ok {
					pos[name] = call.Pos()
				}
				if m1 {
					cnt1[name]++
				}
				if m2 {
					cnt2[name]++
				}
				return true
			})
			for _, name := range sortedKeys(pos) {
				key := fname + ":" + tw.one + "/" + tw.two + "->" + name
				if cnt1[name] == cnt2[name] {
					c.ok(key, pos[name], "applied to both twins (%d each)", cnt1[name])
				} else {
					c.bad(key, pos[name], "%s hands %s to %s %d time(s) and %s %d time(s): one of the twins is not given the same treatment (checked, verified, hashed) as the other", fname, tw.one, name, cnt1[name], tw.two, cnt2[name])
				}
			}
		}
	})
}
