package main

import (
	_ "embed"
	"encoding/json"
	"flag"
	"fmt"
	"os"
	"os/exec"
	"path/filepath"
	"sort"
	"strings"
	"sync"
)

// The benign corpus: behaviour-preserving edits of today's sources (renamed locals, commuted operands, an extracted
// local, reordered independent statements, reworded messages, ...). Applied through the overlay like the mutants;
// NO rule may report a violation, lose an anchor or fall under its floor because of them. This measures the other
// side of the checker: silence on code where the properties hold.

//go:embed benign.json
var benignJSON []byte

type benignResult struct {
	ID     string   `json:"id"`
	Status string   `json:"status"` // silent | alarm | stale | broken
	Detail []string `json:"detail,omitempty"`
}

func loadBenign() []Mutant {
	var ms []Mutant
	if err := json.Unmarshal(benignJSON, &ms); err != nil {
		panic("benign.json: " + err.Error())
	}
	return ms
}

func allRuleNames() []string { return sortedKeys(rules) }

// nonOK: obligation key -> status for everything that is not ok/info, plus rule-level errors.
func nonOK(p *Prog) map[string]string {
	out := map[string]string{}
	for _, rn := range allRuleNames() {
		rr := runRule(p, rules[rn])
		if rr.Err != "" {
			out["ERROR:"+rn] = rr.Err
		}
		// the vacuity floor is part of the verdict too: a rule that lost its sites makes the check fail
		nobl := 0
		for _, o := range rr.Obligs {
			if o.Status != Info {
				nobl++
			}
		}
		if nobl < rules[rn].Floor {
			out["ERROR:"+rn+":floor"] = fmt.Sprintf("%d obligations < floor %d", nobl, rules[rn].Floor)
		}
		for _, o := range rr.Obligs {
			if o.Status == Violation || o.Status == Unmodelled {
				out[o.Key] = string(o.Status)
			}
		}
	}
	return out
}

func runOneBenign(repo string, m Mutant, base map[string]string) benignResult {
	res := benignResult{ID: m.ID}
	var ov map[string][]byte
	why := ""
	if strings.HasPrefix(m.File, "patch:") {
		b, err := os.ReadFile(strings.TrimPrefix(m.File, "patch:"))
		if err != nil {
			why = "stale: " + err.Error()
		} else if o, err := applyUnifiedDiff(repo, string(b)); err != nil {
			why = "stale: " + err.Error()
		} else {
			ov = o
		}
	} else {
		ov, why = applyMutant(repo, m)
	}
	if why != "" {
		res.Status, res.Detail = "stale", []string{why}
		return res
	}
	p, err := load(loadOpts{repo: repo, overlay: ov})
	if err != nil {
		res.Status, res.Detail = "broken", []string{"does not type-check: " + truncate(err.Error(), 200)}
		return res
	}
	got := nonOK(p)
	for k, st := range got {
		if base[k] != st {
			res.Detail = append(res.Detail, st+" "+k)
		}
	}
	sort.Strings(res.Detail)
	if len(res.Detail) > 0 {
		res.Status = "alarm"
	} else {
		res.Status = "silent"
	}
	return res
}

func cmdBenign(args []string) int {
	fs := flag.NewFlagSet("benign", flag.ExitOnError)
	repo := fs.String("repo", "/repo", "")
	ids := fs.String("ids", "", "")
	worker := fs.Bool("worker", false, "")
	j := fs.Int("j", 12, "")
	asJSON := fs.Bool("json", false, "print one JSON result per line")
	patchdir := fs.String("patchdir", "", "instead of the built-in corpus: every <dir>/**/patch.diff is one behaviour-preserving change")
	fs.Parse(args)
	var sel []Mutant
	corpus := loadBenign()
	if *patchdir != "" {
		corpus = nil
		filepath.Walk(*patchdir, func(p string, fi os.FileInfo, err error) error {
			if err == nil && !fi.IsDir() && fi.Name() == "patch.diff" && fi.Size() > 0 {
				rel, _ := filepath.Rel(*patchdir, filepath.Dir(p))
				corpus = append(corpus, Mutant{ID: strings.ReplaceAll(rel, "/", "-"), File: "patch:" + p})
			}
			return nil
		})
	}
	for _, m := range corpus {
		if *ids != "" && !strings.Contains(","+*ids+",", ","+m.ID+",") {
			continue
		}
		sel = append(sel, m)
	}
	if *worker {
		p, err := load(loadOpts{repo: *repo})
		if err != nil {
			fmt.Fprintln(os.Stderr, err)
			return 2
		}
		base := nonOK(p)
		enc := json.NewEncoder(os.Stdout)
		for _, m := range sel {
			enc.Encode(runOneBenign(*repo, m, base))
		}
		return 0
	}
	self, _ := os.Executable()
	const perProc = 3
	var mu sync.Mutex
	var results []benignResult
	sem := make(chan struct{}, *j)
	var wg sync.WaitGroup
	for i := 0; i < len(sel); i += perProc {
		e := i + perProc
		if e > len(sel) {
			e = len(sel)
		}
		ch := sel[i:e]
		wg.Add(1)
		sem <- struct{}{}
		go func(ch []Mutant) {
			defer wg.Done()
			defer func() { <-sem }()
			var idl []string
			for _, m := range ch {
				idl = append(idl, m.ID)
			}
			wargs := []string{"benign", "-worker", "-repo", *repo, "-ids", strings.Join(idl, ",")}
			if *patchdir != "" {
				wargs = append(wargs, "-patchdir", *patchdir)
			}
			out, err := exec.Command(self, wargs...).Output()
			got := map[string]bool{}
			for _, line := range strings.Split(string(out), "\n") {
				var r benignResult
				if strings.TrimSpace(line) != "" && json.Unmarshal([]byte(line), &r) == nil {
					mu.Lock()
					results = append(results, r)
					mu.Unlock()
					got[r.ID] = true
				}
			}
			for _, id := range idl {
				if !got[id] {
					mu.Lock()
					results = append(results, benignResult{ID: id, Status: "broken", Detail: []string{fmt.Sprintf("worker failed: %v", err)}})
					mu.Unlock()
				}
			}
		}(ch)
	}
	wg.Wait()
	sort.Slice(results, func(a, b int) bool { return results[a].ID < results[b].ID })
	cnt := map[string]int{}
	if *asJSON {
		enc := json.NewEncoder(os.Stdout)
		for _, r := range results {
			enc.Encode(r)
		}
		return 0
	}
	for _, r := range results {
		cnt[r.Status]++
		if r.Status != "silent" {
			fmt.Printf("%-7s %-28s %s\n", r.Status, r.ID, strings.Join(r.Detail, " | "))
		}
	}
	fmt.Printf("benign: total=%d silent=%d alarm=%d stale=%d broken=%d\n", len(results), cnt["silent"], cnt["alarm"], cnt["stale"], cnt["broken"])
	if cnt["alarm"]+cnt["broken"]+cnt["stale"] > 0 {
		return 1
	}
	return 0
}

// runBenignForThorough: the built-in benign corpus, judged by the given property's rules only.
func runBenignForThorough(repo, verif string, ruleSpecs []string) map[string]any {
	self, _ := os.Executable()
	var results []benignResult
	var err error
	// the built-in edits, and the refactorings written by independent sub-agents (verif/benign80/<agent>/<n>/patch.diff)
	for _, extra := range [][]string{nil, {"-patchdir", filepath.Join(verif, "benign80")}, {"-patchdir", filepath.Join(verif, "benign80b")}} {
		args := append([]string{"benign", "-repo", repo, "-j", "8", "-json"}, extra...)
		if extra != nil {
			if _, e := os.Stat(extra[1]); e != nil {
				continue
			}
		}
		out, e := exec.Command(self, args...).Output()
		if e != nil {
			err = e
		}
		for _, line := range strings.Split(string(out), "\n") {
			var r benignResult
			if strings.HasPrefix(strings.TrimSpace(line), "{") && json.Unmarshal([]byte(line), &r) == nil {
				results = append(results, r)
			}
		}
	}
	want := map[string]bool{}
	for _, r := range ruleSpecs {
		if i := strings.Index(r, "@"); i >= 0 {
			r = r[:i]
		}
		want[r] = true
	}
	cnt := map[string]int{}
	var alarms []benignResult
	for _, r := range results {
		st := r.Status
		if st == "alarm" {
			// only alarms raised by this property's rules count here
			var mine []string
			for _, d := range r.Detail {
				f := strings.Fields(d)
				if len(f) == 2 {
					rule := f[1]
					if i := strings.Index(rule, ":"); i >= 0 {
						rule = rule[:i]
					}
					if want[strings.TrimPrefix(rule, "ERROR:")] || want[rule] {
						mine = append(mine, d)
					}
				}
			}
			if len(mine) == 0 {
				st = "silent"
			} else {
				alarms = append(alarms, benignResult{r.ID, st, mine})
			}
		}
		cnt[st]++
	}
	res := map[string]any{
		"what":  "behaviour-preserving changes of today's sources: 160 refactorings written by independent sub-agents that knew nothing of the checker, in two rounds (benign80/, benign80b/: inverted conditions with swapped branches, if/else chains turned into switches or early returns, extracted and inlined helpers and locals, range loops for counting loops, renamed receivers and locals, reordered independent statements) and 40 built-in edits (renamed locals and receivers, commuted operands, a < b+1 for a <= b, extracted locals, reordered independent statements, reworded messages, an added helper, a deferred unlock in a closure, reordered YAML keys) applied through the overlay: none of the property's rules may report a violation, become undecided, lose an anchor or fall under its floor. Measures the checker only.",
		"total": len(results), "silent": cnt["silent"], "alarm": cnt["alarm"], "stale": cnt["stale"], "broken": cnt["broken"],
	}
	if len(alarms) > 0 {
		res["alarms"] = alarms
	}
	if err != nil && len(results) == 0 {
		res["error"] = err.Error()
	}
	return res
}
