package main

import (
	_ "embed"
	"encoding/json"
	"flag"
	"fmt"
	"os"
	"os/exec"
	"path/filepath"
	"sort"
	"strings"
	"sync"
)

// The benign corpus: behaviour-preserving edits of today's sources (renamed locals, commuted operands, an extracted
// local, reordered independent statements, reworded messages, ...). Applied through the overlay like the mutants;
// NO rule may report a violation, lose an anchor or fall under its floor because of them. This measures the other
// side of the checker: silence on code where the properties hold.

//go:embed benign.json
var benignJSON []byte

type benignResult struct {
	ID     string   `json:"id"`
	Status string   `json:"status"` // silent | undecided (an instance within the tolerated one in ten left undecided; the check still passes) | alarm | stale | broken
	Detail []string `json:"detail,omitempty"`
}

func loadBenign() []Mutant {
	var ms []Mutant
	if err := json.Unmarshal(benignJSON, &ms); err != nil {
		panic("benign.json: " + err.Error())
	}
	return ms
}

func allRuleNames() []string { return sortedKeys(rules) }

// nonOK judges the program the way `check` does, property by property (each property's rules, restricted to its
// scope, with the vacuity floors and the one-in-ten bound on undecided instances): what would make some property's
// check exit non-zero is an alarm ("violation" / "error"); an undecided instance within the bound is "undecided".
func nonOK(p *Prog) map[string]string {
	out := map[string]string{}
	cache := map[string]ruleResult{}
	for _, pid := range sortedKeys(properties) {
		for _, rspec := range properties[pid].Rules {
			rn, scope := rspec, ""
			if i := strings.Index(rspec, "@"); i >= 0 {
				rn, scope = rspec[:i], rspec[i+1:]
			}
			r := rules[rn]
			if r == nil {
				continue
			}
			res, ok := cache[rn]
			if !ok {
				res = runRule(p, r)
				cache[rn] = res
			}
			obl := res.Obligs
			if scope != "" {
				var kept []Oblig
				for _, o := range obl {
					body := strings.TrimPrefix(o.Key, rn+":")
					for _, pre := range strings.Split(scope, "|") {
						if strings.HasPrefix(body, pre) {
							kept = append(kept, o)
							break
						}
					}
				}
				obl = kept
			}
			n, unm := 0, 0
			for _, o := range obl {
				switch o.Status {
				case OK:
					n++
				case Violation:
					n++
					out[o.Key] = "violation"
				case Unmodelled:
					n++
					unm++
				}
			}
			if res.Err != "" {
				out["ERROR:"+rn] = "error " + res.Err
			}
			if scope == "" && n < r.Floor || scope != "" && n == 0 {
				if r.Floor <= smallFloor && unm > 0 {
					// explained by the instance already undecided
				} else if r.Floor <= smallFloor {
					n++
					unm++
					out[rn+":floor"] = "undecided"
				} else {
					out["ERROR:"+rn+":floor"] = fmt.Sprintf("error %d obligations < floor %d", n, r.Floor)
				}
			}
			tooMany := n > 0 && undecidedConstructs(obl) >= 2 && unm*10 > n
			for _, o := range obl {
				if o.Status == Unmodelled {
					if tooMany {
						out[o.Key] = fmt.Sprintf("error undecided (%d of %d instances of %s for %s: more than one in ten)", unm, n, rn, pid)
					} else if _, dup := out[o.Key]; !dup {
						out[o.Key] = "undecided"
					}
				}
			}
		}
	}
	return out
}

func runOneBenign(repo string, m Mutant, base map[string]string) benignResult {
	res := benignResult{ID: m.ID}
	var ov map[string][]byte
	why := ""
	if strings.HasPrefix(m.File, "patch:") {
		b, err := os.ReadFile(strings.TrimPrefix(m.File, "patch:"))
		if err != nil {
			why = "stale: " + err.Error()
		} else if o, err := applyUnifiedDiff(repo, string(b)); err != nil {
			why = "stale: " + err.Error()
		} else {
			ov = o
		}
	} else {
		ov, why = applyMutant(repo, m)
	}
	if why != "" {
		res.Status, res.Detail = "stale", []string{why}
		return res
	}
	p, err := load(loadOpts{repo: repo, overlay: ov})
	if err != nil {
		res.Status, res.Detail = "broken", []string{"does not type-check: " + truncate(err.Error(), 200)}
		return res
	}
	got := nonOK(p)
	alarm := false
	for k, st := range got {
		if base[k] != st {
			f := strings.Fields(st)
			res.Detail = append(res.Detail, f[0]+" "+k)
			if f[0] != "undecided" {
				alarm = true
			}
		}
	}
	sort.Strings(res.Detail)
	switch {
	case alarm:
		res.Status = "alarm"
	case len(res.Detail) > 0:
		res.Status = "undecided"
	default:
		res.Status = "silent"
	}
	return res
}

func cmdBenign(args []string) int {
	fs := flag.NewFlagSet("benign", flag.ExitOnError)
	repo := fs.String("repo", "/repo", "")
	ids := fs.String("ids", "", "")
	worker := fs.Bool("worker", false, "")
	j := fs.Int("j", 12, "")
	asJSON := fs.Bool("json", false, "print one JSON result per line")
	patchdir := fs.String("patchdir", "", "instead of the built-in corpus: every <dir>/**/patch.diff is one behaviour-preserving change")
	fs.Parse(args)
	var sel []Mutant
	corpus := loadBenign()
	if *patchdir != "" {
		corpus = nil
		filepath.Walk(*patchdir, func(p string, fi os.FileInfo, err error) error {
			if err == nil && !fi.IsDir() && fi.Name() == "patch.diff" && fi.Size() > 0 {
				rel, _ := filepath.Rel(*patchdir, filepath.Dir(p))
				corpus = append(corpus, Mutant{ID: strings.ReplaceAll(rel, "/", "-"), File: "patch:" + p})
			}
			return nil
		})
	}
	for _, m := range corpus {
		if *ids != "" && !strings.Contains(","+*ids+",", ","+m.ID+",") {
			continue
		}
		sel = append(sel, m)
	}
	if *worker {
		p, err := load(loadOpts{repo: *repo})
		if err != nil {
			fmt.Fprintln(os.Stderr, err)
			return 2
		}
		base := nonOK(p)
		enc := json.NewEncoder(os.Stdout)
		for _, m := range sel {
			enc.Encode(runOneBenign(*repo, m, base))
		}
		return 0
	}
	self, _ := os.Executable()
	const perProc = 3
	var mu sync.Mutex
	var results []benignResult
	sem := make(chan struct{}, *j)
	var wg sync.WaitGroup
	for i := 0; i < len(sel); i += perProc {
		e := i + perProc
		if e > len(sel) {
			e = len(sel)
		}
		ch := sel[i:e]
		wg.Add(1)
		sem <- struct{}{}
		go func(ch []Mutant) {
			defer wg.Done()
			defer func() { <-sem }()
			var idl []string
			for _, m := range ch {
				idl = append(idl, m.ID)
			}
			wargs := []string{"benign", "-worker", "-repo", *repo, "-ids", strings.Join(idl, ",")}
			if *patchdir != "" {
				wargs = append(wargs, "-patchdir", *patchdir)
			}
			out, err := exec.Command(self, wargs...).Output()
			got := map[string]bool{}
			for _, line := range strings.Split(string(out), "\n") {
				var r benignResult
				if strings.TrimSpace(line) != "" && json.Unmarshal([]byte(line), &r) == nil {
					mu.Lock()
					results = append(results, r)
					mu.Unlock()
					got[r.ID] = true
				}
			}
			for _, id := range idl {
				if !got[id] {
					mu.Lock()
					results = append(results, benignResult{ID: id, Status: "broken", Detail: []string{fmt.Sprintf("worker failed: %v", err)}})
					mu.Unlock()
				}
			}
		}(ch)
	}
	wg.Wait()
	sort.Slice(results, func(a, b int) bool { return results[a].ID < results[b].ID })
	cnt := map[string]int{}
	if *asJSON {
		enc := json.NewEncoder(os.Stdout)
		for _, r := range results {
			enc.Encode(r)
		}
		return 0
	}
	for _, r := range results {
		cnt[r.Status]++
		if r.Status != "silent" {
			fmt.Printf("%-7s %-28s %s\n", r.Status, r.ID, strings.Join(r.Detail, " | "))
		}
	}
	fmt.Printf("benign: total=%d silent=%d undecided=%d alarm=%d stale=%d broken=%d\n", len(results), cnt["silent"], cnt["undecided"], cnt["alarm"], cnt["stale"], cnt["broken"])
	if cnt["alarm"]+cnt["broken"]+cnt["stale"] > 0 {
		return 1
	}
	return 0
}

// runBenignForThorough: the built-in benign corpus, judged by the given property's rules only.
func runBenignForThorough(repo, verif string, ruleSpecs []string) map[string]any {
	self, _ := os.Executable()
	var results []benignResult
	var err error
	// the built-in edits, and the refactorings written by independent sub-agents (verif/benign80/<agent>/<n>/patch.diff)
	for _, extra := range [][]string{nil, {"-patchdir", filepath.Join(verif, "benign80")}, {"-patchdir", filepath.Join(verif, "benign80b")}, {"-patchdir", filepath.Join(verif, "benign80c")}, {"-patchdir", filepath.Join(verif, "benign80d")}, {"-patchdir", filepath.Join(verif, "benign80e")}, {"-patchdir", filepath.Join(verif, "benign80f")}, {"-patchdir", filepath.Join(verif, "benign80g")}, {"-patchdir", filepath.Join(verif, "benign80h")}, {"-patchdir", filepath.Join(verif, "benign80i")}} {
		args := append([]string{"benign", "-repo", repo, "-j", "8", "-json"}, extra...)
		if extra != nil {
			if _, e := os.Stat(extra[1]); e != nil {
				continue
			}
		}
		out, e := exec.Command(self, args...).Output()
		if e != nil {
			err = e
		}
		for _, line := range strings.Split(string(out), "\n") {
			var r benignResult
			if strings.HasPrefix(strings.TrimSpace(line), "{") && json.Unmarshal([]byte(line), &r) == nil {
				results = append(results, r)
			}
		}
	}
	want := map[string]bool{}
	for _, r := range ruleSpecs {
		if i := strings.Index(r, "@"); i >= 0 {
			r = r[:i]
		}
		want[r] = true
	}
	cnt := map[string]int{}
	var alarms []benignResult
	for _, r := range results {
		st := r.Status
		if st == "alarm" {
			// only alarms raised by this property's rules count here
			var mine []string
			for _, d := range r.Detail {
				f := strings.Fields(d)
				if len(f) == 2 {
					rule := f[1]
					if i := strings.Index(rule, ":"); i >= 0 {
						rule = rule[:i]
					}
					if want[strings.TrimPrefix(rule, "ERROR:")] || want[rule] {
						mine = append(mine, d)
					}
				}
			}
			if len(mine) == 0 {
				st = "silent"
			} else {
				alarms = append(alarms, benignResult{r.ID, st, mine})
			}
		}
		cnt[st]++
	}
	res := map[string]any{
		"what":  "behaviour-preserving changes of today's sources: 720 refactorings written by independent sub-agents that knew nothing of the checker, in nine rounds (benign80/, benign80b/, benign80c/, benign80d/, benign80e/, benign80f/, benign80g/, benign80h/, benign80i/: inverted conditions with swapped branches, if/else chains turned into switches or early returns, extracted and inlined helpers and locals, range loops for counting loops, renamed receivers and locals, reordered independent statements, loops over written-out tables, clamps as min/max, closures as method values) and 40 built-in edits (renamed locals and receivers, commuted operands, a < b+1 for a <= b, extracted locals, reordered independent statements, reworded messages, an added helper, a deferred unlock in a closure, reordered YAML keys) applied through the overlay: none of the property's rules may report a violation, lose an anchor, fall under its floor or leave more than one instance in ten undecided (what `check` fails on); instances left undecided within that bound are counted separately. Measures the checker only.",
		"total": len(results), "silent": cnt["silent"], "undecided_but_passing": cnt["undecided"], "alarm": cnt["alarm"], "stale": cnt["stale"], "broken": cnt["broken"],
	}
	if len(alarms) > 0 {
		res["alarms"] = alarms
	}
	if err != nil && len(results) == 0 {
		res["error"] = err.Error()
	}
	return res
}
