#!/usr/bin/env python3
"""Source of the mutant corpus (mutants.json). One-edit variants of /repo's sources: (id, rule, file, old, new, expect[, nth])."""
import os
import json
M = []
def m(id, rule, file, old, new, expect, nth=0, note=""):
    d = {"id": id, "rule": rule, "file": file, "old": old, "new": new, "expect": expect}
    if nth: d["nth"] = nth
    if note: d["note"] = note
    M.append(d)

B = "eth2/beacon/"
# ---- fork.chain / fork.registry
m("fc-swap-branches", "fork.chain", B+"fork.go", "return d.Capella\n", "return d.Deneb\n", "ForkDigest[<DENEB]")
m("fc-version-skip", "fork.chain", B+"common/spec.go", "return spec.CAPELLA_FORK_VERSION", "return spec.DENEB_FORK_VERSION", "ForkVersion[<DENEB]")
m("fc-drop-last-test", "fork.chain", B+"common/spec.go", "} else if epoch < spec.FULU_FORK_EPOCH {\n\t\treturn spec.ELECTRA_FORK_VERSION\n\t} else {\n\t\treturn spec.FULU_FORK_VERSION", "} else {\n\t\treturn spec.ELECTRA_FORK_VERSION", "ForkVersion[complete]")
m("fr-decoder-version", "fork.registry", B+"fork.go", "Capella:   common.ComputeForkDigest(spec.CAPELLA_FORK_VERSION", "Capella:   common.ComputeForkDigest(spec.BELLATRIX_FORK_VERSION", "NewForkDecoder.Capella")
m("fr-allocator", "fork.registry", B+"fork.go", "return func() OpaqueBlock { return new(capella.SignedBeaconBlock) }, nil", "return func() OpaqueBlock { return new(bellatrix.SignedBeaconBlock) }, nil", "BlockAllocator.Capella")
m("fr-upgrade-epoch", "fork.registry", B+"fork.go", "slot == common.Slot(spec.CAPELLA_FORK_EPOCH)*spec.SLOTS_PER_EPOCH", "slot == common.Slot(spec.DENEB_FORK_EPOCH)*spec.SLOTS_PER_EPOCH", "UpgradeMaybe.from-bellatrix")
m("fr-upgrade-version", "fork.registry", B+"capella/fork.go", "CurrentVersion:  spec.CAPELLA_FORK_VERSION", "CurrentVersion:  spec.BELLATRIX_FORK_VERSION", "UpgradeToCapella.Fork")
m("fr-upgrade-prev", "fork.registry", B+"deneb/fork.go", "PreviousVersion: preFork.CurrentVersion", "PreviousVersion: preFork.PreviousVersion", "UpgradeToDeneb.Fork")
# ---- ssz.*
m("sf-swap-htr", "ssz.fields", B+"phase0/state.go", "&v.PreviousJustifiedCheckpoint, &v.CurrentJustifiedCheckpoint,\n\t\t&v.FinalizedCheckpoint)\n}\n\n// Hack", "&v.CurrentJustifiedCheckpoint, &v.PreviousJustifiedCheckpoint,\n\t\t&v.FinalizedCheckpoint)\n}\n\n// Hack", "phase0.BeaconState.HashTreeRoot")
m("sf-drop-wrap", "ssz.fields", B+"phase0/attestation.go", "return w.Container(spec.Wrap(&a.AggregationBits), &a.Data, &a.Signature)", "return w.Container(&a.Data, spec.Wrap(&a.AggregationBits), &a.Signature)", "phase0.Attestation.Serialize")
m("sf-omit-field", "ssz.fields", B+"common/header.go", "return hFn.HashTreeRoot(&s.Message, s.Signature)", "return hFn.HashTreeRoot(&s.Message)", "common.SignedBeaconBlockHeader.HashTreeRoot")
m("sc-limit", "ssz.coll", B+"phase0/deposit.go", "}, length, uint64(spec.MAX_DEPOSITS))", "}, length, uint64(spec.MAX_ATTESTATIONS))", "phase0.Deposits")
m("sc-bitlist", "ssz.coll", B+"phase0/attestation_bits.go", "return hFn.BitListHTR(li, uint64(spec.MAX_VALIDATORS_PER_COMMITTEE))", "return hFn.BitListHTR(li, uint64(spec.MAX_COMMITTEES_PER_SLOT))", "phase0.AttestationBits")
m("sd-descriptor-limit", "ssz.descriptor", B+"phase0/deposit.go", "return ListType(common.DepositType, uint64(spec.MAX_DEPOSITS))", "return ListType(common.DepositType, uint64(spec.MAX_VOLUNTARY_EXITS)+0*uint64(spec.MAX_DEPOSITS)+1)", "BeaconBlock")
m("sd-descriptor-type", "ssz.descriptor", B+"phase0/state.go", "{\"eth1_deposit_index\", Uint64Type},", "{\"eth1_deposit_index\", Uint32Type},", "phase0.BeaconState~BeaconStateType")
m("sd-descriptor-order", "ssz.descriptor", B+"common/header.go", "{\"slot\", SlotType},\n\t{\"proposer_index\", ValidatorIndexType},\n\t{\"parent_root\", RootType},", "{\"slot\", SlotType},\n\t{\"parent_root\", RootType},\n\t{\"proposer_index\", ValidatorIndexType},", "BeaconBlockHeader")
m("ss-bytelength", "ssz.size", B+"common/withdrawals.go", "return Uint64Type.TypeByteLength()*3 + Eth1AddressType.TypeByteLength()", "return Uint64Type.TypeByteLength()*2 + Eth1AddressType.TypeByteLength()", "common.Withdrawal", nth=1)
m("ss-deltas-offset", "ssz.size", B+"common/deltas.go", "return 2*codec.OFFSET_SIZE + a.Rewards.ByteLength(spec)", "return codec.OFFSET_SIZE + a.Rewards.ByteLength(spec)", "common.Deltas.ByteLength")
m("ss-deltas-field", "ssz.size", B+"common/deltas.go", "a.Rewards.ByteLength(spec) + a.Penalties.ByteLength(spec)", "a.Rewards.ByteLength(spec) + a.Rewards.ByteLength(spec)", "common.Deltas.ByteLength")
m("ss-fixed-zero", "ssz.size", B+"common/general.go", "func (g *Checkpoint) FixedLength() uint64 {\n\treturn 8 + 32", "func (g *Checkpoint) FixedLength() uint64 {\n\treturn 0", "common.Checkpoint.FixedLength")
m("ss-var-nonzero", "ssz.size", B+"phase0/attestation.go", "func (a *Attestation) FixedLength(*common.Spec) uint64 {\n\treturn 0", "func (a *Attestation) FixedLength(*common.Spec) uint64 {\n\treturn 228", "phase0.Attestation.FixedLength")
m("se-elemsize", "ssz.elemsize", B+"phase0/voluntary_exit.go", "}, SignedVoluntaryExitType.TypeByteLength(), uint64(spec.MAX_VOLUNTARY_EXITS))", "}, VoluntaryExitType.TypeByteLength(), uint64(spec.MAX_VOLUNTARY_EXITS))", "phase0.VoluntaryExits.Deserialize")
m("se-fixedcontainer", "ssz.elemsize", B+"phase0/attestation.go", "return dr.Container(spec.Wrap(&a.AggregationBits), &a.Data, &a.Signature)", "return dr.FixedLenContainer(spec.Wrap(&a.AggregationBits), &a.Data, &a.Signature)", "phase0.Attestation.Deserialize")
m("cs-scope", "codec.scope", B+"common/bls.go", "bytes.NewReader(pub[:]), 48))", "bytes.NewReader(pub[:]), 32))", "common.ViewPubkey")
# ---- view.*
m("vi-index", "view.index", B+"phase0/state.go", "c, err := common.AsCheckPoint(state.Get(_statePreviousJustifiedCheckpoint))\n\tif err != nil {\n\t\treturn common.Checkpoint{}, err", "c, err := common.AsCheckPoint(state.Get(_stateCurrentJustifiedCheckpoint))\n\tif err != nil {\n\t\treturn common.Checkpoint{}, err", "phase0.BeaconStateView.PreviousJustifiedCheckpoint")
m("vi-literal", "view.index", B+"common/header.go", "func (v *BeaconBlockHeaderView) StateRoot() (Root, error) {\n\treturn AsRoot(v.Get(3))", "func (v *BeaconBlockHeaderView) StateRoot() (Root, error) {\n\treturn AsRoot(v.Get(2))", "common.BeaconBlockHeaderView.StateRoot")
m("vi-wrapper", "view.index", B+"altair/state.go", "return common.AsSlot(state.Get(_stateSlot))", "return common.AsSlot(state.Get(_stateFork))", "altair.BeaconStateView.Slot")
m("vi-setter", "view.index", B+"capella/state.go", "return state.Set(_stateSlot, Uint64View(slot))", "return state.Set(_stateGenesisTime, Uint64View(slot))", "capella.BeaconStateView.SetSlot")
m("vo-iota-swap", "view.iota", B+"deneb/state.go", "\t_stateBlockRoots\n\t_stateStateRoots\n", "\t_stateStateRoots\n\t_stateBlockRoots\n", "_stateStateRoots")
m("vr-raw", "view.raw", B+"common/general.go", "root, err := AsRoot(v.Get(1))\n\tif err != nil {\n\t\treturn Checkpoint{}, err\n\t}\n\treturn Checkpoint{Epoch: epoch, Root: root}, nil", "root, err := AsRoot(v.Get(1))\n\tif err != nil {\n\t\treturn Checkpoint{}, err\n\t}\n\treturn Checkpoint{Epoch: Epoch(root[0]), Root: Root{byte(epoch)}}, nil", "XX-not-applicable")
m("vb-swap-upgrade", "view.build", B+"capella/fork.go", "\t\tprevJustCh.View(),\n\t\tcurrJustCh.View(),", "\t\tcurrJustCh.View(),\n\t\tprevJustCh.View(),", "UpgradeToCapella.FromFields[PreviousJustifiedCheckpoint]")
m("vb-swap-roots", "view.build", B+"deneb/fork.go", "\t\tblockRoots.(view.View),\n\t\tstateRoots.(view.View),", "\t\tstateRoots.(view.View),\n\t\tblockRoots.(view.View),", "UpgradeToDeneb.FromFields[BlockRoots]")
m("vb-struct-view", "view.build", B+"common/header.go", "&pr,\n\t\t&sr,\n\t\t&br,", "&sr,\n\t\t&pr,\n\t\t&br,", "BeaconBlockHeader.View.FromFields")
m("ve-elem", "view.elem", B+"altair/state.go", "inActivityScores.Append(Uint64View(0))", "inActivityScores.Append(Uint8View(0))", "altair.BeaconStateView.AddValidator:InactivityScoresView.Append")
m("lc-copy", "lit.copy", B+"capella/fork.go", "StateRoot:        oldExecutionHeader.StateRoot,", "StateRoot:        oldExecutionHeader.ReceiptsRoot,", "UpgradeToCapella")
m("lc-envelope", "lit.copy", B+"fork.go", "ParentRoot:    benv.ParentRoot,\n\t\t\t\tStateRoot:     benv.StateRoot,\n\t\t\t\tBody:          *x,\n\t\t\t},\n\t\t\tSignature: benv.Signature,\n\t\t}, nil\n\tcase *altair.BeaconBlockBody:", "ParentRoot:    benv.StateRoot,\n\t\t\t\tStateRoot:     benv.StateRoot,\n\t\t\t\tBody:          *x,\n\t\t\t},\n\t\t\tSignature: benv.Signature,\n\t\t}, nil\n\tcase *altair.BeaconBlockBody:", "EnvelopeToSignedBeaconBlock")
# ---- locks
F = "eth2/forkchoice/forkchoice.go"
m("lh-drop-lock", "lock.held", F, "func (fc *ProtoForkChoice) ProcessSlot(parentRoot Root, slot Slot, justifiedEpoch Epoch, finalizedEpoch Epoch) {\n\tfc.mu.Lock()\n\tdefer fc.mu.Unlock()\n", "func (fc *ProtoForkChoice) ProcessSlot(parentRoot Root, slot Slot, justifiedEpoch Epoch, finalizedEpoch Epoch) {\n", "forkchoice.ProtoForkChoice.ProcessSlot")
m("lh-rlock-write", "lock.held", F, "func (fc *ProtoForkChoice) Head() (NodeRef, error) {\n\tfc.mu.Lock()\n\tdefer fc.mu.Unlock()", "func (fc *ProtoForkChoice) Head() (NodeRef, error) {\n\tfc.mu.RLock()\n\tdefer fc.mu.RUnlock()", "forkchoice.ProtoForkChoice.Head")
m("lh-no-unlock", "lock.held", F, "func (fc *ProtoForkChoice) Justified() Checkpoint {\n\tfc.mu.RLock()\n\tdefer fc.mu.RUnlock()", "func (fc *ProtoForkChoice) Justified() Checkpoint {\n\tfc.mu.RLock()", "forkchoice.ProtoForkChoice.Justified#release")
m("lh-pool", "lock.held", "eth2/pool/voluntary_exits.go", "\tvep.Lock()\n\tdefer vep.Unlock()\n", "", "pool.VoluntaryExitPool", nth=1)
m("lh-pubkey", "lock.held", B+"common/validator_pubkeys.go", "\tpc.rwLock.RLock()\n\tdefer pc.rwLock.RUnlock()\n\treturn pc.unsafeValidatorIndex(pubkey)", "\treturn pc.unsafeValidatorIndex(pubkey)", "common.PubkeyCache.ValidatorIndex")
m("lr-reentry", "lock.reentry", F, "\tfc.pin = &NodeRef{Root: root, Slot: slot}\n\treturn nil", "\tfc.pin = &NodeRef{Root: root, Slot: slot}\n\t_ = fc.Finalized()\n\treturn nil", "forkchoice.ProtoForkChoice.SetPin->Finalized")
m("lr-reentry-helper", "lock.reentry", F, "if unknown, inSubtree := fc.protoArray.InSubtree(fc.finalized.Root, finalized.Root); unknown {", "if unknown, inSubtree := fc.InSubtree(fc.finalized.Root, finalized.Root); unknown {", "updateJustified")
m("la-atomic", "lock.atomic", "eth2/pool/voluntary_exits.go", "XX", "YY", "XX-placeholder")
# ---- args.order
m("ao-swap", "args.order", F, "return fc.protoArray.ProcessBlock(parentRoot, blockRoot, blockSlot, justifiedEpoch, finalizedEpoch)", "return fc.protoArray.ProcessBlock(parentRoot, blockRoot, blockSlot, finalizedEpoch, justifiedEpoch)", "forkchoice.ProtoForkChoice.ProcessBlock->")
m("ao-swap2", "args.order", F, "if err := fc.updateJustified(finalized, justified, justifiedStateBalances); err != nil {", "if err := fc.updateJustified(justified, finalized, justifiedStateBalances); err != nil {", "UpdateJustified->")
# ---- pools
m("mi-map", "map.init", "eth2/pool/attestations.go", "\t\taggPerValidator:    make(map[Assignment]common.Root),\n", "", "pool.AttestationPool.aggPerValidator")
m("mi-sync", "map.init", "eth2/pool/sync_committees.go", "\t\tnextMsgs:    make(SyncCommitteeMessages),\n", "", "pool.SyncCommitteePool.nextMsgs")
m("nm-deref", "nil.maplookup", "eth2/pool/sync_committees.go", "msg, ok := msgs[vi]\n\t\tif ok && msg.BeaconBlockRoot == root {", "msg := msgs[vi]\n\t\tif msg.BeaconBlockRoot == root {", "pool.SyncCommitteeMessages.Select")
m("nm-deref2", "nil.maplookup", "eth2/pool/attestations.go", "agg, ok := ap.aggregate[k]\n\t\tif !ok {\n\t\t\t// only individual attestations known for this data\n\t\t\tcontinue\n\t\t}", "agg := ap.aggregate[k]", "pool.AttestationPool.Search")
P = "eth2/forkchoice/proto/proto_array.go"
m("ig-guard", "index.guard", P, "if i >= NodeIndex(len(pr.nodes)) {", "if i > NodeIndex(len(pr.nodes)) {", "proto.ProtoArray.getNode")
# ---- proto
m("iu-abs", "idx.units", P, "node, err := pr.getNode(i)\n\t\t\tif err != nil {\n\t\t\t\treturn NodeRef{}, err\n\t\t\t}\n\t\t\t// Is the anchor a filled node?", "node := &pr.nodes[i]\n\t\t\t// Is the anchor a filled node?", "CanonAtSlot:nodes[i]")
m("iu-unguarded", "idx.units", P, "if node.ForkchoiceParent != NONE && node.ForkchoiceParent >= pr.indexOffset {\n\t\t\tdeltas[", "if node.ForkchoiceParent != NONE {\n\t\t\tdeltas[", "ApplyScoreChanges:deltas[")
m("iu-link", "idx.units", P, "if node.ForkchoiceParent != NONE && node.ForkchoiceParent >= pr.indexOffset {\n\t\t\tif err := pr.maybeUpdateBestChildAndDescendant", "if node.ForkchoiceParent != NONE {\n\t\t\tif err := pr.maybeUpdateBestChildAndDescendant", "updateConnections:maybeUpdateBestChildAndDescendant", nth=2)
m("iu-relative-store", "idx.units", P, "\tnodeIndex := pr.indexOffset + NodeIndex(len(pr.nodes))\n\tpr.blockSlots[blockRoot] = blockSlot", "\tnodeIndex := NodeIndex(len(pr.nodes))\n\tpr.blockSlots[blockRoot] = blockSlot", "ProcessBlock:indices[]")
m("iu-getnode", "idx.units", P, "\tif index < pr.indexOffset {\n\t\treturn nil, invalidIndexErr\n\t}\n\ti := index - pr.indexOffset", "\ti := index - pr.indexOffset", "getNode:nodes[")
m("ls-stuck", "loop.stuck", P, "\tvar pruned []prunedNode\n\tfor i := pr.indexOffset; i < anchorIndex; i++ {\n\t\tnode := &pr.nodes[i-pr.indexOffset]", "\tvar pruned []prunedNode\n\tj := 0\n\tfor i := pr.indexOffset; i < anchorIndex; i++ {\n\t\tnode := &pr.nodes[j]", "OnPrune@loop")
m("pt-nilsink", "prune.together", P, "\t\tcanonical := node.BestDescendant == headIndex\n\t\tpruned = append(pruned, prunedNode{canonical, node})", "\t\tif pr.sink != nil {\n\t\t\tcanonical := node.BestDescendant == headIndex\n\t\t\tpruned = append(pruned, prunedNode{canonical, node})\n\t\t}", "OnPrune.nilsink")
m("pt-offset", "prune.together", P, "\t\t// update offset\n\t\tpr.indexOffset++\n", "", "OnPrune")
m("pt-anchor", "prune.together", P, "\t\tif p.node.Ref.Root != anchorRoot {\n\t\t\tdelete(pr.blockSlots, p.node.Ref.Root)\n\t\t}", "\t\tdelete(pr.blockSlots, p.node.Ref.Root)", "OnPrune.anchor-slot")
# ---- cache
C = B+"common/validator_pubkeys.go"
m("cp-unfiltered", "cache.parent", C, "\t\tindex, ok = pc.parent.ValidatorIndex(pubkey)\n\t\t// only the history up to the fork-out point is shared with the parent\n\t\tif ok && index >= pc.trustedParentCount {\n\t\t\treturn 0, false\n\t\t}", "\t\treturn pc.parent.ValidatorIndex(pubkey)", "unsafeValidatorIndex->parent.ValidatorIndex")
m("cp-argguard", "cache.parent", C, "\t} else if pc.parent != nil {\n\t\treturn pc.parent.Pubkey(index)\n\t} else {\n\t\treturn nil, false\n\t}", "\t}\n\tif pc.parent != nil {\n\t\treturn pc.parent.Pubkey(index)\n\t}\n\treturn nil, false", "XX-structure")
m("cr-trusted", "cache.recursion", C, "\t\t\t\t// fork out the existing index, only trust the history\n\t\t\t\ttrustedParentCount: existingIndex,\n", "", "AddValidator.recurse")
m("cr-noexpect", "cache.recursion", C, "\tif index != expected {\n\t\t// index is unknown, but too far ahead of cache; in between indices are missing.\n\t\treturn nil, fmt.Errorf(\"AddValidator is incorrect, missing earlier index. got: (%d, %x), but currently expecting %d next\", index, pub, expected)\n\t}\n", "\t_ = fmt.Sprint\n", "AddValidator.append")
m("cd-exists", "cache.deposit", B+"phase0/deposit.go", "exists := ok && uint64(valIndex) < valCount", "exists := ok", "ProcessDeposit.exists")
m("cd-drop-handle", "cache.deposit", B+"phase0/deposit.go", "\t\tif pc, err := epc.ValidatorPubkeyCache.AddValidator(valIndex, pubkey); err != nil {\n\t\t\treturn err\n\t\t} else {\n\t\t\tepc.ValidatorPubkeyCache = pc\n\t\t}", "\t\tif _, err := epc.ValidatorPubkeyCache.AddValidator(valIndex, pubkey); err != nil {\n\t\t\treturn err\n\t\t}", "ProcessDeposit.cache-upkeep")
# ---- err.flow / ctx.poll
m("ef-return-nil", "err.flow", B+"common/header.go", "\tif err := ctx.Err(); err != nil {\n\t\treturn err\n\t}\n\tcurrentSlot, err := state.Slot()\n\tif err != nil {\n\t\treturn err\n\t}", "\tif err := ctx.Err(); err != nil {\n\t\treturn err\n\t}\n\tcurrentSlot, err := state.Slot()\n\tif err != nil {\n\t\treturn nil\n\t}", "common.ProcessHeader->Slot")
m("ef-drop-check", "err.flow", B+"phase0/deposit.go", "\tvalCount, err := validators.ValidatorCount()\n\tif err != nil {\n\t\treturn err\n\t}\n\tvalIndex, ok :=", "\tvalCount, err := validators.ValidatorCount()\n\tvalIndex, ok :=", "phase0.ProcessDeposit->ValidatorCount")
m("ef-discard", "err.flow", B+"altair/sync_aggregate.go", "\t\tif err := state.RotateSyncCommittee(nextView); err != nil {\n\t\t\treturn fmt.Errorf(\"failed to rotate sync committee: %v\", err)\n\t\t}", "\t\t_ = state.RotateSyncCommittee(nextView)", "altair.ProcessSyncCommitteeUpdates->RotateSyncCommittee")
m("ef-stmt", "err.flow", B+"common/transition.go", "\t\tif err := state.SetSlot(currentSlot); err != nil {\n\t\t\treturn err\n\t\t}", "\t\tstate.SetSlot(currentSlot)", "common.ProcessSlots->SetSlot")
m("ef-use-before", "err.flow", B+"common/epochs_context.go", "\tepochComms, err := epc.getEpochComms(epoch)\n\tif err != nil {\n\t\treturn 0, err\n\t}\n\treturn uint64(len(epochComms[0])), nil", "\tepochComms, err := epc.getEpochComms(epoch)\n\treturn uint64(len(epochComms[0])), err", "GetCommitteeCountPerSlot->getEpochComms")
m("ef-gossip-accept", "err.flow", "eth2/gossipval/voluntary_exit.go", "return GossipValidatorResult{IGNORE, err}", "return GossipValidatorResult{ACCEPT, err}", "gossipval.ValidateVoluntaryExit->", nth=1)
m("cx-continue", "ctx.poll", B+"phase0/deposit.go", "\tfor i := range ops {\n\t\tif err := ctx.Err(); err != nil {\n\t\t\treturn err\n\t\t}", "\tfor i := range ops {\n\t\tif err := ctx.Err(); err != nil {\n\t\t\tcontinue\n\t\t}", "phase0.ProcessDeposits#poll")
m("cx-nil", "ctx.poll", B+"common/transition.go", "func ProcessSlot(ctx context.Context, _ *Spec, state BeaconState) error {\n\tif err := ctx.Err(); err != nil {\n\t\treturn err\n\t}", "func ProcessSlot(ctx context.Context, _ *Spec, state BeaconState) error {\n\tif err := ctx.Err(); err != nil {\n\t\treturn nil\n\t}", "common.ProcessSlot#poll")
m("cx-unused", "ctx.poll", B+"common/transition.go", "\tfor currentSlot < slot {\n\t\tif err := ctx.Err(); err != nil {\n\t\t\treturn err\n\t\t}", "\tfor currentSlot < slot {\n\t\t_ = ctx.Err()", "common.ProcessSlots#poll")
# ---- gossip
G = "eth2/gossipval/"
m("gm-early-mark", "gossip.mark", G+"voluntary_exit.go", "XX", "YY", "XX")
m("gm-mark-block", "gossip.mark", G+"beacon_block.go", "\tif proposer != block.ProposerIndex {\n\t\treturn GossipValidatorResult{REJECT, fmt.Errorf(\"expected proposer %d, but block was proposed by %d\", proposer, block.ProposerIndex)}\n\t}\n\n\tblockVal.MarkBlock(block.Slot, block.ProposerIndex)\n", "\tblockVal.MarkBlock(block.Slot, block.ProposerIndex)\n\tif proposer != block.ProposerIndex {\n\t\treturn GossipValidatorResult{REJECT, fmt.Errorf(\"expected proposer %d, but block was proposed by %d\", proposer, block.ProposerIndex)}\n\t}\n", "ValidateBeaconBlock.MarkBlock.after")
m("gm-no-mark", "gossip.mark", G+"attestation.go", "\tattVal.MarkAttestation(att.Data.Target.Epoch, voter)\n", "", "ValidateAttestation.SeenAttestation.marked")
m("gv-ignore-to-reject", "gossip.verdict", G+"beacon_block.go", "return GossipValidatorResult{IGNORE, fmt.Errorf(\"block has unavailable parent block %s\", block.ParentRoot)}", "return GossipValidatorResult{REJECT, fmt.Errorf(\"block has unavailable parent block %s\", block.ParentRoot)}", "ValidateBeaconBlock.REJECT[ByBlock]")
m("gv-reject-to-ignore", "gossip.verdict", G+"attestation.go", "return nil, GossipValidatorResult{REJECT, errors.New(\"invalid attestation signature\")}", "return nil, GossipValidatorResult{IGNORE, errors.New(\"invalid attestation signature\")}", "ValidateAttestation.IGNORE[Verify]")
m("gv-seen-reject", "gossip.verdict", G+"aggregate_and_proof.go", "return nil, GossipValidatorResult{IGNORE, fmt.Errorf(\"attestation aggregate %s has already been seen\", aggRoot)}", "return nil, GossipValidatorResult{REJECT, fmt.Errorf(\"attestation aggregate %s has already been seen\", aggRoot)}", "ValidateAggregateAndProof.REJECT[SeenAggregate]")
m("gv-accept-branch", "gossip.verdict", G+"sync_comm_subnet.go", "XX", "YY", "XX")
# ---- bls
m("bv-truncate", "bls.verify", G+"attestation.go", "if !blsu.Verify(blsPub, sigRoot[:], sig) {", "if !blsu.Verify(blsPub, sigRoot[:4], sig) {", "gossipval.ValidateAttestation.msg")
m("bv-cond-sync", "bls.verify", B+"altair/sync_aggregate.go", "if !blsu.Eth2FastAggregateVerify(participantPubkeys, signingRoot[:], sig) {", "if len(participantPubkeys) > 0 && !blsu.Eth2FastAggregateVerify(participantPubkeys, signingRoot[:], sig) {", "altair.ProcessSyncAggregate.always")
m("bv-cond-randao", "bls.verify", B+"phase0/randao.go", "if !blsu.Verify(blsPub, sigRoot[:], revealSig) {", "if epoch > 0 && !blsu.Verify(blsPub, sigRoot[:], revealSig) {", "phase0.ProcessRandaoReveal.always")
m("fcc-pin-late", "fc.commit", "eth2/forkchoice/forkchoice.go", "\t\tfc.pin = nil\n\t\tfinSlot, _ := fc.spec.EpochStartSlot(finalized.Epoch)\n\t\tif err := fc.protoArray.OnPrune(ctx, finalized.Root, finSlot); err != nil {\n\t\t\treturn err\n\t\t}\n", "\t\tfinSlot, _ := fc.spec.EpochStartSlot(finalized.Epoch)\n\t\tif err := fc.protoArray.OnPrune(ctx, finalized.Root, finSlot); err != nil {\n\t\t\treturn err\n\t\t}\n\t\tfc.pin = nil\n", "ProtoForkChoice.UpdateJustified.pin")
m("fcc-balances", "fc.commit", "eth2/forkchoice/forkchoice.go", "\tfc.balances = newBals\n\tfc.justified = justified", "\tfc.justified = justified", "ProtoForkChoice.updateJustified.balances")
m("vn-balance", "validator.new", B+"altair/state.go", "bals.AppendBalance(balance)", "bals.AppendBalance(effBalance)", "altair.AddValidator.balance")
m("vn-exit", "validator.new", B+"deneb/state.go", "ExitEpoch:                  common.FAR_FUTURE_EPOCH,", "ExitEpoch:                  common.GENESIS_EPOCH,", "deneb.AddValidator.validator")
m("le-break", "loop.every", B+"altair/attester.go", "\t\tif flats[vi].Slashed {\n\t\t\tcontinue\n\t\t}\n\t\teffBal := flats[vi].EffectiveBalance\n\t\tprevFlag", "\t\tif flats[vi].Slashed {\n\t\t\tbreak\n\t\t}\n\t\teffBal := flats[vi].EffectiveBalance\n\t\tprevFlag", "altair.ComputeEpochAttesterData")
m("le-break2", "loop.every", B+"phase0/registry.go", "\t\tif exit == common.FAR_FUTURE_EPOCH {\n\t\t\tcontinue\n\t\t}", "\t\tif exit == common.FAR_FUTURE_EPOCH {\n\t\t\tbreak\n\t\t}", "phase0.ComputeRegistryProcessData")
m("th-len", "text.hex", B+"common/bls.go", "\tif len(text) != 96 {", "\tif len(text) != 98 {", "common.BLSPubkey.UnmarshalText")
m("th-partial", "text.hex", B+"common/versioning.go", "\t_, err := hex.Decode(p[:], text)\n\treturn err\n}\n\nfunc (v Version) ToUint32", "\t_, err := hex.Decode(p[:2], text)\n\treturn err\n}\n\nfunc (v Version) ToUint32", "common.Version.UnmarshalText")
m("th-prefix3", "text.hex", B+"common/kzg.go", "\t\ttext = text[2:]\n\t}\n\tif len(text) != 2*KZGCommitmentSize {", "\t\ttext = text[1:]\n\t}\n\tif len(text) != 2*KZGCommitmentSize {", "common.KZGCommitment.UnmarshalText")
m("bv-domain", "bls.verify", B+"phase0/voluntary_exit.go", "common.GetDomain(state, common.DOMAIN_VOLUNTARY_EXIT,", "common.GetDomain(state, common.DOMAIN_DEPOSIT,", "phase0.ValidateVoluntaryExit.domain")
m("bv-domain2", "bls.verify", B+"phase0/randao.go", "common.GetDomain(state, common.DOMAIN_RANDAO, epoch)", "common.GetDomain(state, common.DOMAIN_BEACON_PROPOSER, epoch)", "phase0.ProcessRandaoReveal.domain")
m("bv-negation", "bls.verify", B+"capella/bls_to_execution.go", "if !blsu.Verify(pubKey, sigRoot[:], signature) {", "if blsu.Verify(pubKey, sigRoot[:], signature) {", "capella.ProcessBLSToExecutionChange.result")
m("bv-version", "bls.verify", B+"deneb/voluntary_exit.go", "common.ComputeDomain(common.DOMAIN_VOLUNTARY_EXIT, spec.CAPELLA_FORK_VERSION, genesisValRoot)", "common.ComputeDomain(common.DOMAIN_VOLUNTARY_EXIT, spec.DENEB_FORK_VERSION, genesisValRoot)", "deneb.ValidateVoluntaryExit.version")
m("bv-object", "bls.verify", B+"phase0/indexed.go", "signingRoot := common.ComputeSigningRoot(indexedAttestation.Data.HashTreeRoot(tree.GetHashFn()), dom)", "signingRoot := common.ComputeSigningRoot(indexedAttestation.Data.Target.HashTreeRoot(tree.GetHashFn()), dom)", "phase0.ValidateIndexedAttestationSignature.domain")
m("bv-no-root", "bls.verify", B+"altair/sync_aggregate.go", "signingRoot := common.ComputeSigningRoot(blockRoot, domain)", "signingRoot := blockRoot\n\t_ = domain", "altair.ProcessSyncAggregate.root")
m("sd-seed", "seed.domain", B+"common/proposers.go", "GetSeed(spec, mixes, epoch, DOMAIN_BEACON_PROPOSER)", "GetSeed(spec, mixes, epoch, DOMAIN_BEACON_ATTESTER)", "common.ComputeProposers->GetSeed")
# ---- pipelines
m("ps-delete-stage", "pipe.stages", B+"deneb/transition.go", "\tif err := capella.ProcessWithdrawals(ctx, spec, state, &body.ExecutionPayload); err != nil {\n\t\treturn err\n\t}\n", "", "deneb.ProcessBlock[capella.ProcessWithdrawals]")
m("ps-wrong-variant", "pipe.stages", B+"deneb/transition.go", "if err := ProcessAttestations(ctx, spec, epc, state, body.Attestations); err != nil {", "if err := altair.ProcessAttestations(ctx, spec, epc, state, body.Attestations); err != nil {", "deneb.ProcessBlock[deneb.ProcessAttestations]")
m("ps-wrong-registry", "pipe.stages", B+"deneb/transition.go", "if err := ProcessEpochRegistryUpdates(ctx, spec, epc, flats, state); err != nil {", "if err := phase0.ProcessEpochRegistryUpdates(ctx, spec, epc, flats, state); err != nil {", "deneb.ProcessEpoch[deneb.ProcessEpochRegistryUpdates]")
m("ps-reorder", "pipe.stages", B+"capella/transition.go", "\tif err := phase0.ProcessProposerSlashings(ctx, spec, epc, state, body.ProposerSlashings); err != nil {\n\t\treturn err\n\t}\n\tif err := phase0.ProcessAttesterSlashings(ctx, spec, epc, state, body.AttesterSlashings); err != nil {\n\t\treturn err\n\t}", "\tif err := phase0.ProcessAttesterSlashings(ctx, spec, epc, state, body.AttesterSlashings); err != nil {\n\t\treturn err\n\t}\n\tif err := phase0.ProcessProposerSlashings(ctx, spec, epc, state, body.ProposerSlashings); err != nil {\n\t\treturn err\n\t}", "capella.ProcessBlock[ProcessProposerSlashings<ProcessAttesterSlashings]")
m("ps-epoch-reorder", "pipe.stages", B+"altair/transition.go", "\tif err := ProcessInactivityUpdates(ctx, spec, attesterData, state); err != nil {\n\t\treturn err\n\t}\n\tif err := ProcessEpochRewardsAndPenalties(ctx, spec, epc, attesterData, state); err != nil {\n\t\treturn err\n\t}", "\tif err := ProcessEpochRewardsAndPenalties(ctx, spec, epc, attesterData, state); err != nil {\n\t\treturn err\n\t}\n\tif err := ProcessInactivityUpdates(ctx, spec, attesterData, state); err != nil {\n\t\treturn err\n\t}", "altair.ProcessEpoch[ProcessInactivityUpdates<ProcessEpochRewardsAndPenalties]")
m("ps-historical", "pipe.stages", B+"capella/transition.go", "if err := ProcessHistoricalSummariesUpdate(ctx, spec, epc, state); err != nil {", "if err := phase0.ProcessHistoricalRootsUpdate(ctx, spec, epc, state); err != nil {", "capella.ProcessEpoch")
m("ps-conditional", "pipe.stages", B+"phase0/transition.go", "\tif err := ProcessEth1Vote(ctx, spec, epc, state, body.Eth1Data); err != nil {\n\t\treturn err\n\t}", "\tif len(body.Deposits) > 0 {\n\t\tif err := ProcessEth1Vote(ctx, spec, epc, state, body.Eth1Data); err != nil {\n\t\t\treturn err\n\t\t}\n\t}", "phase0.ProcessBlock[phase0.ProcessEth1Vote]")
m("so-rotate-before", "slots.order", B+"common/transition.go", "\t\tcurrentSlot += 1\n\t\tif err := state.SetSlot(currentSlot); err != nil {\n\t\t\treturn err\n\t\t}\n\n\t\tif isEpochEnd {\n\t\t\tif err := epc.RotateEpochs(state); err != nil {\n\t\t\t\treturn err\n\t\t\t}\n\t\t}\n", "\t\tif isEpochEnd {\n\t\t\tif err := epc.RotateEpochs(state); err != nil {\n\t\t\t\treturn err\n\t\t\t}\n\t\t}\n\t\tcurrentSlot += 1\n\t\tif err := state.SetSlot(currentSlot); err != nil {\n\t\t\treturn err\n\t\t}\n", "ProcessSlots.SetSlot<RotateEpochs")
m("so-uncond-epoch", "slots.order", B+"common/transition.go", "\t\tif isEpochEnd {\n\t\t\tif err := state.ProcessEpoch(ctx, spec, epc); err != nil {\n\t\t\t\treturn err\n\t\t\t}\n\t\t}", "\t\tif currentSlot%2 == 0 {\n\t\t\tif err := state.ProcessEpoch(ctx, spec, epc); err != nil {\n\t\t\t\treturn err\n\t\t\t}\n\t\t}", "ProcessSlots.ProcessEpoch")
m("so-no-guard", "slots.order", B+"common/transition.go", "\tif currentSlot >= slot {\n\t\treturn errors.New(\"cannot transition from pre-state with higher or equal slot than transition target\")\n\t}\n", "\t_ = errors.New\n", "ProcessSlots.target-guard")
m("so-stateroot", "slots.order", B+"common/transition.go", "\tif validateResult && benv.StateRoot != state.HashTreeRoot(tree.GetHashFn()) {\n\t\treturn errors.New(\"block has invalid state root\")\n\t}\n", "", "PostSlotTransition.state-root")
m("so-sig-after", "slots.order", B+"common/transition.go", "\t\tif !benv.VerifySignatureVersioned(spec, fork.CurrentVersion, genValRoot, proposer, pub) {\n\t\t\treturn errors.New(\"block has invalid signature\")\n\t\t}", "\t\tif benv.VerifySignatureVersioned(spec, fork.CurrentVersion, genValRoot, proposer, pub) {\n\t\t\treturn errors.New(\"block has invalid signature\")\n\t\t}", "PostSlotTransition.signature")
m("ev-drop-invalid", "engine.verdict", B+"deneb/execution_payload.go", "\t} else if !valid {\n\t\treturn fmt.Errorf(\"execution engine says payload is invalid: %s (height %d)\",\n\t\t\tpayload.BlockHash, payload.BlockNumber)\n\t}", "\t} else if !valid {\n\t\t_ = valid\n\t}", "deneb.ProcessExecutionPayload.header-after-verdict")
m("ev-order", "engine.verdict", B+"deneb/execution.go", "XX", "YY", "XX")
m("ev-false-nil", "engine.verdict", B+"capella/execution.go", "\t} else if !ok {\n\t\treturn false, nil\n\t}", "\t} else if !ok {\n\t\treturn true, nil\n\t}", "capella.VerifyAndNotifyNewPayload")
m("ev-parent-root", "engine.verdict", B+"deneb/execution_payload.go", "ParentBeaconBlockRoot: latestHeader.ParentRoot,", "ParentBeaconBlockRoot: latestHeader.StateRoot,", "deneb.ProcessExecutionPayload.request")
m("lf-limit", "limits.first", B+"capella/block.go", "x > uint64(spec.MAX_VOLUNTARY_EXITS) {", "x > uint64(spec.MAX_DEPOSITS)+1 {", "capella.CheckLimits.VoluntaryExits")
m("lf-missing", "limits.first", B+"altair/block.go", "\tif x := uint64(len(b.Attestations)); x > uint64(spec.MAX_ATTESTATIONS) {\n\t\treturn fmt.Errorf(\"too many attestations: %d\", x)\n\t}\n", "", "altair.CheckLimits.Attestations")
m("mb-depth", "merkle.bound", B+"phase0/deposit.go", "common.DEPOSIT_CONTRACT_TREE_DEPTH+1, // Add 1 for the `List` length mix-in", "common.DEPOSIT_CONTRACT_TREE_DEPTH+2, // Add 1 for the `List` length mix-in", "phase0.ProcessDeposit.branch")
m("mb-result", "merkle.bound", B+"phase0/deposit.go", "\t\treturn fmt.Errorf(\"deposit %d merkle proof failed to be verified\", depositIndex)", "\t\t_ = fmt.Sprint(depositIndex)", "phase0.ProcessDeposit.result")
m("fs-suffix", "fork.settings", B+"bellatrix/state.go", "InactivityPenaltyQuotient:      uint64(spec.INACTIVITY_PENALTY_QUOTIENT_BELLATRIX),", "InactivityPenaltyQuotient:      uint64(spec.INACTIVITY_PENALTY_QUOTIENT_ALTAIR),", "bellatrix.ForkSettings.InactivityPenaltyQuotient")
m("fs-share", "fork.settings", B+"altair/state.go", "return whistleblowerReward * PROPOSER_WEIGHT / WEIGHT_DENOMINATOR", "return whistleblowerReward / common.Gwei(spec.PROPOSER_REWARD_QUOTIENT)", "altair.ForkSettings.CalcProposerShare")
# ---- epoch / epc / genesis
E = B+"common/epochs_context.go"
m("ec-no-stake", "epc.coverage", E, "\tif err := epc.loadCurrentStake(state, indicesBounded); err != nil {\n\t\treturn err\n\t}\n\tif syncState, ok", "\tif syncState, ok", "EpochsContext.TotalActiveStake")
m("ec-no-proposers", "epc.coverage", E, "\tif err := epc.LoadProposers(state); err != nil {\n\t\treturn err\n\t}\n\tif err := epc.loadCurrentStake", "\tif err := epc.loadCurrentStake", "EpochsContext.Proposers")
m("es-inplace", "epc.shared", E, "\tepc.EffectiveBalances = make([]Gwei, len(indicesBounded), len(indicesBounded))\n", "\tif len(epc.EffectiveBalances) != len(indicesBounded) {\n\t\tepc.EffectiveBalances = append(epc.EffectiveBalances, make([]Gwei, len(indicesBounded)-len(epc.EffectiveBalances))...)\n\t}\n", "EpochsContext.EffectiveBalances")
m("es-copystate", "epc.shared", B+"altair/state.go", "return AsBeaconStateView(state.ContainerView.Copy())", "return state, nil", "altair.BeaconStateView.CopyState")
m("eu-no-sync", "epc.upkeep", B+"fork.go", "\t\tif err := epc.LoadSyncCommittees(post); err != nil {\n\t\t\treturn fmt.Errorf(\"failed to pre-compute sync committees: %v\", err)\n\t\t}\n", "", "UpgradeMaybe.altair.sync-committees")
m("eu-period", "epc.upkeep", B+"altair/sync_aggregate.go", "nextEpoch := epc.NextEpoch.Epoch", "nextEpoch := epc.CurrentEpoch.Epoch", "ProcessSyncCommitteeUpdates.period-test")
m("eu-shift", "epc.upkeep", E, "\tepc.PreviousEpoch = epc.CurrentEpoch\n\tepc.CurrentEpoch = epc.NextEpoch\n", "\tepc.CurrentEpoch = epc.NextEpoch\n\tepc.PreviousEpoch = epc.CurrentEpoch\n", "RotateEpochs.shift")
m("eq-reset", "exitqueue.reset", B+"phase0/registry.go", "\t\t\texitQueueEnd = exit\n\t\t\texitQueueEndChurn = 0\n", "\t\t\texitQueueEnd = exit\n", "ComputeRegistryProcessData")
m("eq-reset2", "exitqueue.reset", B+"phase0/voluntary_exit.go", "\t\t\texitQueueEnd = valExit\n\t\t\texitQueueEndChurn = 1\n", "\t\t\texitQueueEnd = valExit\n", "InitiateValidatorExit")
GN = B+"phase0/genesis.go"
m("gi-delay", "genesis.init", GN, "state.SetGenesisTime(time + spec.GENESIS_DELAY)", "state.SetGenesisTime(time)", "GenesisFromEth1.SetGenesisTime")
m("gi-order", "genesis.init", GN, "\t\tif err := updateDepTreeRoot(); err != nil {\n\t\t\treturn nil, nil, err\n\t\t}\n\t\t// in the rare case someone tries to create a genesis block using invalid data, error.\n\t\tif err := ProcessDeposit(spec, epc, state, &deps[i], ignoreSignaturesAndProofs); err != nil {\n\t\t\treturn nil, nil, err\n\t\t}", "\t\t// in the rare case someone tries to create a genesis block using invalid data, error.\n\t\tif err := ProcessDeposit(spec, epc, state, &deps[i], ignoreSignaturesAndProofs); err != nil {\n\t\t\treturn nil, nil, err\n\t\t}\n\t\tif err := updateDepTreeRoot(); err != nil {\n\t\t\treturn nil, nil, err\n\t\t}", "GenesisFromEth1.deposit-loop")
m("gi-ignore", "genesis.init", GN, "ProcessDeposit(spec, epc, state, &deps[i], ignoreSignaturesAndProofs)", "ProcessDeposit(spec, epc, state, &deps[i], true)", "GenesisFromEth1")
m("gi-count", "genesis.init", GN, "DepositCount: common.DepositIndex(len(deps)),", "DepositCount: common.DepositIndex(0),", "GenesisFromEth1.SetEth1Data")
m("gi-activation", "genesis.init", GN, "if vEff == spec.MAX_EFFECTIVE_BALANCE {", "if vEff >= spec.EFFECTIVE_BALANCE_INCREMENT {", "GenesisFromEth1.activation")
m("gi-valid", "cmp.spec", GN, "return activeCount >= uint64(spec.MIN_GENESIS_ACTIVE_VALIDATOR_COUNT), nil", "return activeCount > 0, nil", "phase0.IsValidGenesisState[")
# ---- config
Y = "eth2/configs/yamls/"
m("cv-quotient", "config.values", Y+"presets/mainnet/phase0.yaml", "INACTIVITY_PENALTY_QUOTIENT: 67108864", "INACTIVITY_PENALTY_QUOTIENT: 33554432", "mainnet.INACTIVITY_PENALTY_QUOTIENT")
m("cv-fork-version", "config.values", Y+"configs/mainnet.yaml", "DENEB_FORK_VERSION: 0x04000000", "DENEB_FORK_VERSION: 0x04000001", "mainnet.DENEB_FORK_VERSION")
m("cv-minimal", "config.values", Y+"presets/minimal/altair.yaml", "SYNC_COMMITTEE_SIZE: 32", "SYNC_COMMITTEE_SIZE: 64", "minimal.SYNC_COMMITTEE_SIZE")
m("cv-missing-key", "config.values", Y+"presets/mainnet/capella.yaml", "MAX_WITHDRAWALS_PER_PAYLOAD: 16", "MAX_WITHDRAWALS_PER_PAYLOAD_X: 16", "MAX_WITHDRAWALS_PER_PAYLOAD")
m("cv-wiring", "config.values", "eth2/configs/minimal.go", "//go:embed yamls/presets/minimal/altair.yaml", "//go:embed yamls/presets/mainnet/altair.yaml", "wiring.minimal.AltairPreset")
m("cv-domain", "config.values", B+"common/spec.go", "var DOMAIN_VOLUNTARY_EXIT = BLSDomainType{0x04, 0x00, 0x00, 0x00}", "var DOMAIN_VOLUNTARY_EXIT = BLSDomainType{0x03, 0x00, 0x00, 0x00}", "domain.DOMAIN_VOLUNTARY_EXIT")
m("cv-weight", "config.values", B+"altair/participation.go", "TIMELY_TARGET_WEIGHT common.Gwei = 26", "TIMELY_TARGET_WEIGHT common.Gwei = 24", "const.altair.TIMELY_TARGET_WEIGHT")
# ---- shuffle
S = B+"common/shuffle.go"
m("sh-write", "shuffle.perm", S, "\t\t\t\tinput[i], input[j] = input[j], input[i]\n\t\t\t}\n\t\t}\n\t\t// Now repeat", "\t\t\t\tinput[i] = input[j]\n\t\t\t}\n\t\t}\n\t\t// Now repeat", "innerShuffleList")
m("sh-mirror", "shuffle.perm", S, "if j&0x7 == 0x7 {", "if j&0x7 == 0x6 {", "innerShuffleList.mirror", nth=2)
m("sh-dir", "shuffle.perm", S, "innerShuffleList(hashFn, rounds, input, seed, false)", "innerShuffleList(hashFn, rounds, input, seed, true)", "UnshuffleList.dir")
m("sh-rounds", "shuffle.perm", S, "\t\t// Start at last round.\n\t\t// Iterating through the rounds in reverse, un-swaps everything, effectively un-shuffling the list.\n\t\tr = rounds - 1\n\t}\n\t// Seed is always the first 32 bytes of the hash input, we never have to change this part of the buffer.\n\tcopy(buf[:hSeedSize], seed[:])\n\tfor {\n\t\t// spec: pivot = bytes_to_int(hash(seed + int_to_bytes1(round))[0:8]) % list_size\n\t\t// This is the \"int_to_bytes1(round)\", appended to the seed.\n\t\tbuf[hSeedSize] = r\n\t\t// Seed is already in place, now just hash the correct part of the buffer, and take a uint64 from it,\n\t\t//  and modulo it to get a pivot within range.\n\t\th := hashFn(buf[:hPivotViewSize])\n\t\tpivot := binary.LittleEndian.Uint64(h[:8]) % listSize\n\n\t\t// Split up", "\t\t// Start at last round.\n\t\t// Iterating through the rounds in reverse, un-swaps everything, effectively un-shuffling the list.\n\t\tr = rounds\n\t}\n\t// Seed is always the first 32 bytes of the hash input, we never have to change this part of the buffer.\n\tcopy(buf[:hSeedSize], seed[:])\n\tfor {\n\t\t// spec: pivot = bytes_to_int(hash(seed + int_to_bytes1(round))[0:8]) % list_size\n\t\t// This is the \"int_to_bytes1(round)\", appended to the seed.\n\t\tbuf[hSeedSize] = r\n\t\t// Seed is already in place, now just hash the correct part of the buffer, and take a uint64 from it,\n\t\t//  and modulo it to get a pivot within range.\n\t\th := hashFn(buf[:hPivotViewSize])\n\t\tpivot := binary.LittleEndian.Uint64(h[:8]) % listSize\n\n\t\t// Split up", "innerShuffleList.rounds")
m("sh-epoch", "shuffle.perm", B+"common/shuffling.go", "UnshuffleList(uint8(spec.SHUFFLE_ROUND_COUNT), shep.Shuffling, seed)", "ShuffleList(uint8(spec.SHUFFLE_ROUND_COUNT), shep.Shuffling, seed)", "NewShufflingEpoch.unshuffle")
m("cp-slice", "committee.partition", B+"common/shuffling.go", "endOffset := (validatorCount * (index + 1)) / committeeCount", "endOffset := (validatorCount * (index + 2)) / committeeCount", "NewShufflingEpoch.slices")
m("cp-count", "committee.partition", B+"common/shuffling.go", "\tif committeesPerSlot == 0 {\n\t\tcommitteesPerSlot = 1\n\t}\n", "", "CommitteeCount")
m("cp-sampling", "committee.partition", B+"common/sync_committee.go", "if effectiveBalance*0xff >= spec.MAX_EFFECTIVE_BALANCE*Gwei(randomByte) {", "if effectiveBalance*0xff > spec.MAX_EFFECTIVE_BALANCE*Gwei(randomByte) {", "sampling.acceptance")

# ---- cmp.spec: one boundary flip per table entry, generated from the PICKS of gen_cmp_table.py
import re, os, glob
_src = open(os.path.join(os.path.dirname(os.path.abspath(__file__)), "gen_cmp_table.py")).read()
_picks = eval(re.search(r"^PICKS = (\[.*?^\])", _src, re.S | re.M).group(1))
_DIRS = {"phase0": B+"phase0", "altair": B+"altair", "bellatrix": B+"bellatrix", "capella": B+"capella", "deneb": B+"deneb",
         "electra": B+"electra", "common": B+"common", "forkchoice": "eth2/forkchoice", "proto": "eth2/forkchoice/proto",
         "gossipval": "eth2/gossipval", "pool": "eth2/pool"}
_FLIP = {">=": ">", ">": ">=", "<=": "<", "<": "<=", "==": "!=", "!=": "=="}
def _cmp_mutants():
    seen = set()
    for fn, text, spec in _picks:
        pkg, rest = fn.split(".", 1)
        name = rest.split(".")[-1]
        recv = rest.split(".")[0] if "." in rest else None
        mo = re.search(r"\s(>=|<=|==|!=|<|>)\s", text)
        if not mo:
            continue
        new = text[:mo.start(1)] + _FLIP[mo.group(1)] + text[mo.end(1):]
        for f in sorted(glob.glob("/repo/" + _DIRS[pkg] + "/*.go")):
            if f.endswith("_test.go"):
                continue
            src = open(f).read()
            if recv:
                fm = re.search(r"^func \(\w+ \*?%s(\[[^\]]*\])?\) %s\(" % (re.escape(recv), re.escape(name)), src, re.M)
            else:
                fm = re.search(r"^func %s\(" % re.escape(name), src, re.M)
            if not fm:
                continue
            end = src.find("\n}\n", fm.start())
            i = src.find(text, fm.start(), end if end > 0 else len(src))
            if i < 0:
                continue
            nth = src.count(text, 0, i) + 1
            total = src.count(text)
            mid = "cmp-%s-%d" % (fn.replace(".", "_"), len([1 for x in seen if x[0] == fn]) + 1)
            seen.add((fn, text))
            m(mid, "cmp.spec", f[len("/repo/"):], text, new, fn + "[", nth=(0 if total == 1 else nth), note=spec)
            break
_cmp_mutants()
m("cmp-typed-weaken", "cmp.spec", "eth2/forkchoice/forkchoice.go", "fc.finalized != finalized", "fc.finalized.Epoch != finalized.Epoch", "updateJustified[type")

# ---- rules added from the seeded-change rounds
m("rm-cursor", "ring.mod", B+"capella/transition.go", "nextValidatorIndex := common.ValidatorIndex(uint64(latestWithdrawal.ValidatorIndex+1) % validatorCount)", "nextValidatorIndex := latestWithdrawal.ValidatorIndex + 1", "ProcessWithdrawals@SetNextWithdrawalValidatorIndex")
m("rm-cursor-modulus", "ring.mod", B+"capella/transition.go", "uint64(spec.MAX_VALIDATORS_PER_WITHDRAWALS_SWEEP)) % validatorCount)", "uint64(spec.MAX_VALIDATORS_PER_WITHDRAWALS_SWEEP)) % uint64(spec.VALIDATOR_REGISTRY_LIMIT))", "ProcessWithdrawals@")
m("rm-sweep", "ring.mod", B+"capella/transition.go", "validatorIndex = common.ValidatorIndex(uint64(validatorIndex+1) % validatorCount)", "validatorIndex = validatorIndex + 1", "GetExpectedWithdrawals@advance")
m("rm-mix", "ring.mod", B+"phase0/randao.go", "\ti := uint64(epoch) % mixes.VectorLength\n\tr := RootView(mix)", "\ti := uint64(epoch)\n\tr := RootView(mix)", "RandaoMixesView.SetRandomMix")
m("rm-root-key", "ring.mod", B+"phase0/history.go", "\ti := uint64(slot) % v.VectorLength\n\treturn AsRoot(v.Get(i))", "\ti := uint64(slot+1) % v.VectorLength - 1 + 0*uint64(slot)\n\treturn AsRoot(v.Get(i))", "BatchRootsView.GetRoot", note="index no longer a plain modulo")
m("rm-slash", "ring.mod", B+"phase0/slashings.go", "\ti := uint64(epoch) % sl.VectorLength\n\treturn sl.Set(i, Uint64View(0))", "\ti := uint64(epoch) % uint64(8192)\n\treturn sl.Set(i, Uint64View(0))", "SlashingsView.ResetSlashings")
m("cf-eject", "churn.flow", B+"deneb/registry.go", "\t\tchurnLimit := getValidatorActivationChurnLimit(spec, registerData.ChurnLimit)\n\t\tif uint64(len(dequeued)) > churnLimit {", "\t\tchurnLimit := getValidatorActivationChurnLimit(spec, registerData.ChurnLimit)\n\t\tif uint64(len(registerData.IndicesToEject)) > churnLimit {", "ProcessEpochRegistryUpdates@use")
m("cf-unused", "churn.flow", B+"deneb/registry.go", "if uint64(len(dequeued)) > churnLimit {\n\t\t\tdequeued = dequeued[:churnLimit]", "if uint64(len(dequeued)) > registerData.ChurnLimit {\n\t\t\tdequeued = dequeued[:registerData.ChurnLimit+0*churnLimit]", "ProcessEpochRegistryUpdates@")


F = "eth2/forkchoice/"
m("ta-field-alias", "tree.alias", B+"common/general.go", "\tr := RootView(c.Root)\n\tres, _ := CheckpointType.FromFields(Uint64View(c.Epoch), &r)", "\tres, _ := CheckpointType.FromFields(Uint64View(c.Epoch), (*RootView)(&c.Root))", "Checkpoint.View")
m("ta-header-alias", "tree.alias", B+"common/header.go", "\tsr := RootView(h.StateRoot)\n\tbr := RootView(h.BodyRoot)\n\tc, _ := BeaconBlockHeaderType.FromFields(\n\t\tUint64View(h.Slot),\n\t\tUint64View(h.ProposerIndex),\n\t\t&pr,\n\t\t&sr,", "\tsr := (*RootView)(&h.StateRoot)\n\tbr := RootView(h.BodyRoot)\n\tc, _ := BeaconBlockHeaderType.FromFields(\n\t\tUint64View(h.Slot),\n\t\tUint64View(h.ProposerIndex),\n\t\t&pr,\n\t\tsr,", "BeaconBlockHeader.View")
m("ta-setter-alias", "tree.alias", B+"phase0/history.go", "func (v *BatchRootsView) SetRoot(slot common.Slot, r common.Root) error {\n\ti := uint64(slot) % v.VectorLength\n\trv := RootView(r)\n\treturn v.Set(i, &rv)", "func (v *BatchRootsView) SetRoot(slot common.Slot, r common.Root) error {\n\ti := uint64(slot) % v.VectorLength\n\treturn v.Set(i, (*RootView)(&r))", "XXnot-a-violation")
m("ap-skip-first", "adjacent.pairs", B+"phase0/indexed.go", "for i := 1; i < len(indices); i++ {\n\t\tif indices[i-1] == indices[i] {", "for i := 2; i < len(indices); i++ {\n\t\tif indices[i-1] == indices[i] {", "ValidateIndexedAttestationIndicesSet")
m("ap-stride", "adjacent.pairs", B+"phase0/indexed.go", "for i := 1; i < len(indices); i++ {\n\t\tif indices[i-1] == indices[i] {", "for i := 1; i < len(indices); i += 2 {\n\t\tif indices[i-1] == indices[i] {", "ValidateIndexedAttestationIndicesSet")
m("ep-proposers", "epoch.pairing", B+"common/epochs_context.go", "ComputeProposers(epc.Spec, state, epc.CurrentEpoch.Epoch, epc.CurrentEpoch.ActiveIndices)", "ComputeProposers(epc.Spec, state, epc.CurrentEpoch.Epoch, epc.NextEpoch.ActiveIndices)", "LoadProposers->ComputeProposers")
m("ep-sync", "epoch.pairing", B+"common/sync_committee.go", "ComputeSyncCommitteeIndices(spec, state, epc.NextEpoch.Epoch, epc.NextEpoch.ActiveIndices)", "ComputeSyncCommitteeIndices(spec, state, epc.NextEpoch.Epoch, epc.CurrentEpoch.ActiveIndices)", "ComputeNextSyncCommittee->ComputeSyncCommitteeIndices")
m("sf-remove-new", "score.flow", F+"proto/votestore.go", "deltas[currentIndex-offset] -= SignedGwei(oldBal)", "deltas[currentIndex-offset] -= SignedGwei(newBal)", "ComputeDeltas.remove")
m("sf-add-old", "score.flow", F+"proto/votestore.go", "deltas[nextIndex-offset] += SignedGwei(newBal)", "deltas[nextIndex-offset] += SignedGwei(oldBal)", "ComputeDeltas.add")
m("sf-one-pass", "score.flow", F+"proto/proto_array.go", "\t\t\tdeltas[node.ForkchoiceParent-pr.indexOffset] += delta\n\t\t}\n\t}\n\tfor i := len(pr.nodes) - 1; i >= 0; i-- {\n\t\tnode := &pr.nodes[i]\n\t\tif node.ForkchoiceParent != NONE && node.ForkchoiceParent >= pr.indexOffset {", "\t\t\tdeltas[node.ForkchoiceParent-pr.indexOffset] += delta\n\t\t}\n\t\tif node.ForkchoiceParent != NONE && node.ForkchoiceParent >= pr.indexOffset {", "ApplyScoreChanges")
m("sf-forward", "score.flow", F+"proto/proto_array.go", "\tfor i := len(pr.nodes) - 1; i >= 0; i-- {\n\t\tdelta := deltas[i]", "\tfor i := 0; i < len(pr.nodes); i++ {\n\t\tdelta := deltas[i]", "ApplyScoreChanges.weights.backwards")
m("le-insubnet", "loop.exists", B+"common/epochs_context.go", "\t\t\tif valSubnet == subnet {\n\t\t\t\treturn true\n\t\t\t}", "\t\t\treturn valSubnet == subnet", "IndexedSyncCommittee.InSubnet")
m("cu-relative", "cache.units", B+"common/validator_pubkeys.go", "\tpc.pub2idx[pub] = index\n\treturn pc, nil", "\tpc.pub2idx[pub] = index - pc.trustedParentCount\n\treturn pc, nil", "PubkeyCache.AddValidator")
m("cu-absolute", "cache.units", B+"common/validator_pubkeys.go", "return pc.idx2pub[index-pc.trustedParentCount], true", "return pc.idx2pub[index], true", "PubkeyCache.unsafePubkey")
m("pk-epoch", "pool.keys", "eth2/pool/attestations.go", "key := Assignment{Index: val, Epoch: att.Data.Target.Epoch}", "key := Assignment{Index: val, Epoch: att.Data.Source.Epoch}", "AttestationPool.AddAttestation")
m("ar-wrapper", "assert.reach", B+"common/epochs_context.go", "XX", "XX", "XX")


m("lo-drop-test", "lookup.ok", F+"proto/proto_array.go", "\tslot, ok := pr.blockSlots[root]\n\tif !ok {\n\t\treturn true, false\n\t}\n", "\tslot := pr.blockSlots[root]\n", "InSubtree:blockSlots[root]")
m("lo-underscore", "lookup.ok", F+"proto/proto_array.go", "\tanchorIndex, ok := pr.indices[anchorRef]\n\tif !ok {\n\t\treturn NodeRef{}, UnknownAnchorErr", "\tanchorIndex, _ := pr.indices[anchorRef]\n\tif false {\n\t\treturn NodeRef{}, UnknownAnchorErr", "FindHead:indices[anchorRef]")
m("lo-canon-plain", "lookup.ok", F+"proto/proto_array.go", "\t\t\ti, ok := pr.indices[ref]\n", "\t\t\ti, ok := pr.indices[ref], true\n", "CanonAtSlot:indices[ref]")


m("fc-boundary", "fork.chain", B+"fork.go", "} else if epoch < d.Spec.DENEB_FORK_EPOCH {", "} else if epoch <= d.Spec.DENEB_FORK_EPOCH {", "ForkDigest[<DENEB]")
m("fc-boundary-first", "fork.chain", B+"common/spec.go", "if epoch < spec.ALTAIR_FORK_EPOCH {", "if epoch <= spec.ALTAIR_FORK_EPOCH {", "ForkVersion[<ALTAIR]")


m("lh-foreign-idx", "lock.held", B+"common/validator_pubkeys.go", "pc.parent.ValidatorIndex(pubkey)", "pc.parent.unsafeValidatorIndex(pubkey)", "=>other.unsafeValidatorIndex")
m("lh-foreign-pub", "lock.held", B+"common/validator_pubkeys.go", "return pc.parent.Pubkey(index)", "return pc.parent.unsafePubkey(index)", "=>other.unsafePubkey")
m("ug-and", "update.guard", F+"proto/proto_array.go", "if justifiedEpoch != pr.justifiedEpoch || finalizedEpoch != pr.finalizedEpoch {", "if justifiedEpoch != pr.justifiedEpoch && finalizedEpoch != pr.finalizedEpoch {", "ApplyScoreChanges@refresh")
m("ro-contribs", "rotate.order", "eth2/pool/sync_committees.go", "\t\tsp.nextContribs = sp.currentContribs\n\t\tsp.currentContribs = sp.prevContribs\n", "\t\tsp.currentContribs = sp.prevContribs\n\t\tsp.nextContribs = sp.currentContribs\n", "SyncCommitteePool.Reset@rotation")
m("ro-epochs", "rotate.order", B+"common/epochs_context.go", "\tepc.PreviousEpoch = epc.CurrentEpoch\n\tepc.CurrentEpoch = epc.NextEpoch\n", "\tepc.CurrentEpoch = epc.NextEpoch\n\tepc.PreviousEpoch = epc.CurrentEpoch\n", "EpochsContext.RotateEpochs@rotation")
m("cmp-near-vote", "cmp.spec", F+"proto/votestore.go", "if targetEpoch > vote.NextTargetEpoch ||", "if targetEpoch > vote.CurrentTargetEpoch ||", "ProtoVoteStore.ProcessAttestation[")
m("cmp-near-prune", "cmp.spec", "eth2/pool/attestations.go", "\tfor k := range ap.aggPerValidator {\n\t\tif k.Epoch < min {", "\tfor k := range ap.aggPerValidator {\n\t\tif k.Epoch < epoch {", "AttestationPool.Prune[")
m("cmp-near-viable", "cmp.spec", F+"proto/proto_array.go", "(node.JustifiedEpoch == pr.justifiedEpoch || pr.justifiedEpoch == common.GENESIS_EPOCH)", "(node.JustifiedEpoch == pr.justifiedEpoch || pr.finalizedEpoch == common.GENESIS_EPOCH)", "isNodeViableForHead[")
m("cmp-near-rotate", "cmp.spec", B+"common/epochs_context.go", "if epc.CurrentEpoch.Epoch%epc.Spec.EPOCHS_PER_SYNC_COMMITTEE_PERIOD == 0 {", "if (epc.CurrentEpoch.Epoch+1)%epc.Spec.EPOCHS_PER_SYNC_COMMITTEE_PERIOD == 0 {", "RotateEpochs[")
m("cmp-near-exit", "cmp.spec", B+"deneb/voluntary_exit.go", "if scheduledExitEpoch != common.FAR_FUTURE_EPOCH {", "if scheduledExitEpoch <= currentEpoch {", "deneb.ValidateVoluntaryExit[")
m("cmp-near-genesis", "cmp.spec", B+"phase0/genesis.go", "if vEff == spec.MAX_EFFECTIVE_BALANCE {", "if balance == spec.MAX_EFFECTIVE_BALANCE {", "GenesisFromEth1[")


m("mu-dup-leaf", "merkle.unrolled", B+"common/logs_bloom.go", "d := hFn(bottom[6], bottom[7])", "d := hFn(bottom[6], bottom[6])", "LogsBloom.HashTreeRoot")
m("mu-order", "merkle.unrolled", B+"common/logs_bloom.go", "return hFn(hFn(a, b), hFn(c, d))", "return hFn(hFn(a, c), hFn(b, d))", "LogsBloom.HashTreeRoot")
m("mu-sig-pad", "merkle.unrolled", B+"common/bls.go", "return hFn(hFn(a, b), hFn(c, tree.Root{}))", "return hFn(hFn(a, b), c)", "BLSSignature.HashTreeRoot")
m("mu-pub-span", "merkle.unrolled", B+"common/bls.go", "copy(b[:], p[32:48])", "copy(b[:], p[32:40])", "BLSPubkey.HashTreeRoot")
m("gh-global", "global.hasher", B+"common/transition.go", "func ProcessSlot(", "var slotHashFn = tree.GetHashFn()\n\nfunc ProcessSlot(", "var slotHashFn")
m("mp-blockhash", "merge.predicate", B+"bellatrix/transition.go", "return block.Body.ExecutionPayload.HashTreeRoot(spec, tree.GetHashFn()) != empty, nil", "return block.Body.ExecutionPayload.BlockHash != (common.Root{}) || 0*len(empty) != 0, nil", "bellatrix.IsTransitionBlock")
m("dp-sig-error", "deposit.pop", B+"phase0/deposit.go", "\t\tsig, err := dep.Data.Signature.Signature()\n\t\tif err != nil {\n\t\t\t// deposit is skipped, still valid block.\n\t\t\treturn nil", "\t\tsig, err := dep.Data.Signature.Signature()\n\t\tif err != nil {\n\t\t\t// deposit is skipped, still valid block.\n\t\t\treturn err", "ProcessDeposit.signature-decode")
m("dp-verify-error", "deposit.pop", B+"phase0/deposit.go", "\t\t\t// and the chain continues.\n\t\t\treturn nil", "\t\t\t// and the chain continues.\n\t\t\treturn errors.New(\"invalid deposit signature\")", "ProcessDeposit.pop-verify")
m("si-size2", "shuffle.identity", S, "\tif rounds == 0 {\n\t\treturn input\n\t}", "\tif rounds == 0 || listSize <= 2 {\n\t\treturn input\n\t}", "innerPermuteIndex.early-return")
m("si-conj", "shuffle.identity", S, "if len(input) <= 1 || rounds == 0 {", "if len(input) <= 1 && rounds == 0 {", "innerShuffleList.early-return")
m("bs-minus-one", "bisect.step", F+"proto/proto_array.go", "\t\t\tmax.Slot = pivot.Slot\n", "\t\t\tmax.Slot = pivot.Slot - 1\n", "ClosestToSlot@bisect")
m("pc-same-twin", "pair.cover", B+"phase0/attester_slashing.go", "if err := ValidateIndexedAttestation(spec, epc, state, sa2); err != nil {", "if err := ValidateIndexedAttestation(spec, epc, state, sa1); err != nil {", "ProcessAttesterSlashing:sa1/sa2")
m("pc-gossip-twin", "pair.cover", "eth2/gossipval/attester_slashing.go", "phase0.ValidateIndexedAttestation(spec, epc, state, sa2)", "phase0.ValidateIndexedAttestation(spec, epc, state, sa1)", "ValidateAttesterSlashing:sa1/sa2")


m("sb-capella-time", "sibling.cmp", B+"capella/execution_payload.go", "} else if executionPayload.Timestamp != expectedTime {", "} else if executionPayload.Timestamp < expectedTime {", "capella.ProcessExecutionPayload~bellatrix")
m("sb-capella-randao", "sibling.cmp", B+"capella/execution_payload.go", "if executionPayload.PrevRandao != expectedMix {", "if executionPayload.PrevRandao != expectedMix && executionPayload.Timestamp != 0 {", "capella.ProcessExecutionPayload~bellatrix")
m("sb-electra-bits", "sibling.cmp", B+"electra/attestation_bits.go", "\tbitLen := cb.BitLen()\n\tif bitLen != uint64(len(committee)) {\n\t\treturn 0, fmt.Errorf", "\tbitLen := cb.BitLen()\n\tif bitLen > uint64(len(committee)) {\n\t\treturn 0, fmt.Errorf", "electra.AttestationBits.SingleParticipant~phase0")
m("sb-deneb-exit", "sibling.cmp", B+"deneb/voluntary_exit.go", "if scheduledExitEpoch != common.FAR_FUTURE_EPOCH {", "if scheduledExitEpoch == common.FAR_FUTURE_EPOCH-1 {", "deneb.ValidateVoluntaryExit~phase0")
# (sb-delta-lost, `len(dequeued) > churnLimit` -> `>=` before `dequeued = dequeued[:churnLimit]`, was removed: the two are the same function — an equivalent mutant, read as one normal form since the reslice clamp is rewritten with min at load)


# ---- formula.spec: one arithmetic slip per tabled assignment, generated from the picks of gen_formula_table.py
def _formula_mutants():
    import subprocess
    src = open(os.path.join(os.path.dirname(os.path.abspath(__file__)), "gen_formula_table.py")).read()
    picks = eval(re.search(r"^PICKS = (\[.*?^\])", src, re.S | re.M).group(1))
    rows = {}
    for line in subprocess.check_output([os.environ.get("ZL_BIN", "/verif/bin/zrntlint"), "formulas"]).decode().splitlines():
        p = line.split("\t")
        if len(p) >= 6:
            rows.setdefault((p[0], p[1]), []).append(p[5])
    n = 0
    for fn, target, spec in picks:
        for text in rows.get((fn, target), [])[:1]:
            new = None
            for a, b in ((" / ", " * "), (" * ", " + "), (" + ", " - "), (" - ", " + "), (" % ", " / ")):
                if a in text:
                    i = text.index(a)
                    new = text[:i] + b + text[i+len(a):]
                    break
            if not new:
                continue
            pkg = fn.split(".")[0]
            for f in sorted(glob.glob("/repo/" + _DIRS[pkg] + "/*.go")):
                if f.endswith("_test.go"):
                    continue
                s = open(f).read()
                name = fn.split(".")[-1]
                fm = re.search(r"^func (\([^)]*\) )?%s\(" % re.escape(name), s, re.M)
                if not fm:
                    continue
                end = s.find("\n}\n", fm.start())
                i = s.find(text, fm.start(), end if end > 0 else len(s))
                if i < 0:
                    continue
                nth = s.count(text, 0, i) + 1
                n += 1
                m("fm-%s-%s" % (fn.replace(".", "_"), re.sub(r"\W", "_", target)), "formula.spec", f[len("/repo/"):], text, new, fn + ":" + target, nth=(0 if s.count(text) == 1 else nth), note=spec)
                break
_formula_mutants()


U = "eth2/util/"
m("nh-guard", "numeric.helpers", U+"math/math_util.go", "\tif n == math.MaxUint64 {\n\t\treturn 4294967295\n\t}\n", "", "IntegerSquareroot.max-guard")
m("nh-guard-value", "numeric.helpers", U+"math/math_util.go", "\t\treturn 4294967295\n", "\t\treturn 4294967296\n", "IntegerSquareroot.max-guard")
m("nh-newton", "numeric.helpers", U+"math/math_util.go", "y = (x + n/x) >> 1", "y = (x + n/x) >> 2", "IntegerSquareroot.newton")
m("nh-smear", "numeric.helpers", U+"math/math_util.go", "\tv |= v >> (1 << 5)\n", "", "NextPowerOfTwo.smear")
m("nh-pow2", "numeric.helpers", U+"math/math_util.go", "return (n > 0) && (n&(n-1) == 0)", "return n&(n-1) == 0", "IsPowerOfTwo")
m("nh-merkle-side", "numeric.helpers", U+"merkle/crypto_util.go", "if (index>>i)&1 == 1 {", "if (index>>i)&1 == 0 {", "VerifyMerkleBranch.fold")
m("nh-merkle-depth", "numeric.helpers", U+"merkle/crypto_util.go", "for i := uint64(0); i < depth; i++ {", "for i := uint64(1); i < depth; i++ {", "VerifyMerkleBranch.fold")
m("nh-time-guard", "numeric.helpers", B+"common/time.go", "if slot >= Slot(max) {", "if slot > Slot(max)+1 {", "TimeAtSlot.overflow-guard")
m("nh-epoch-guard", "numeric.helpers", B+"common/time.go", "if e != spec.SlotToEpoch(out) {", "if e > spec.SlotToEpoch(out) {", "EpochStartSlot.overflow-guard")
m("nh-span-guard", "numeric.helpers", "eth2/gossipval/common.go", "if slot+span < slot {", "if slot+span < span {", "CheckSlotSpan.overflow-guard")


m("cr-progress", "cache.recursion", B+"common/validator_pubkeys.go", "trustedParentCount: existingIndex,", "trustedParentCount: index,", "AddValidator.recurse")
m("cr-progress2", "cache.recursion", B+"common/validator_pubkeys.go", "trustedParentCount: index,", "trustedParentCount: existingIndex,", "AddValidator.recurse#3", nth=2)
m("df-block", "dirty.flag", F+"proto/proto_array.go", "\tpr.updatedConnections = false\n\treturn true\n}", "\treturn true\n}", "ProcessBlock@append")
m("df-slot", "dirty.flag", F+"proto/proto_array.go", "\tpr.updatedConnections = false\n}\n", "}\n", "ProcessSlot@append")


m("eq-reset-zero", "exitqueue.reset", B+"phase0/voluntary_exit.go", "\t\t\texitQueueEnd = valExit\n\t\t\texitQueueEndChurn = 1\n", "\t\t\texitQueueEnd = valExit\n\t\t\texitQueueEndChurn = 0\n", "InitiateValidatorExit:exitQueueEnd")
m("eq-reset-one", "exitqueue.reset", B+"phase0/registry.go", "\t\t\texitQueueEnd = exit\n\t\t\texitQueueEndChurn = 0\n", "\t\t\texitQueueEnd = exit\n\t\t\texitQueueEndChurn = 1\n", "ComputeRegistryProcessData:exitQueueEnd")


m("ta-setbacking-leaf", "tree.alias", B+"phase0/validator.go", "\twCred := RootView(b)\n\treturn v.Set(_validatorWithdrawalCredentials, &wCred)", "\twCred, err := v.Get(_validatorWithdrawalCredentials)\n\tif err != nil {\n\t\treturn err\n\t}\n\treturn wCred.SetBacking(&b)", "ValidatorView.SetWithdrawalCredentials:SetBacking")


m("la-noretry", "lock.atomic", B+"common/validator_pubkeys.go", "\t\tpc.rwLock.Unlock()\n\t\treturn pc.AddValidator(index, pub)\n\t}\n\tdefer pc.rwLock.Unlock()\n", "\t\t_ = index\n\t}\n\tdefer pc.rwLock.Unlock()\n", "PubkeyCache.AddValidator")
m("cr-retry-unguarded", "cache.recursion", B+"common/validator_pubkeys.go", "\tif index < expected {\n", "\tif index <= expected+1 || pub == (BLSPubkey{}) {\n", "AddValidator.recurse#4")
m("lh-retry-locked", "lock.reentry", B+"common/validator_pubkeys.go", "\t\tpc.rwLock.Unlock()\n\t\treturn pc.AddValidator(index, pub)\n\t}\n\tdefer pc.rwLock.Unlock()\n", "\t\tdefer pc.rwLock.Unlock()\n\t\treturn pc.AddValidator(index, pub)\n\t}\n\tdefer pc.rwLock.Unlock()\n", "AddValidator->AddValidator")


m("cmp-near-const", "formula.spec", B+"common/shuffling.go", "if uint64(spec.MAX_COMMITTEES_PER_SLOT) < committeesPerSlot {", "if uint64(spec.TARGET_COMMITTEE_SIZE) < committeesPerSlot {", "common.CommitteeCount:")


m("lc-crossed-pair", "lit.copy", B+"fork.go", "\t\t\t\tParentRoot:    benv.ParentRoot,\n\t\t\t\tStateRoot:     benv.StateRoot,", "\t\t\t\tParentRoot:    benv.StateRoot,\n\t\t\t\tStateRoot:     benv.ParentRoot,", "EnvelopeToSignedBeaconBlock", nth=4)


m("pi-union-bits", "pool.item", "eth2/pool/attestations.go", "&phase0.Attestation{AggregationBits: a.Participants, Data: d.Data, Signature: a.Sig}", "&phase0.Attestation{AggregationBits: agg.Participants, Data: d.Data, Signature: a.Sig}", "AttestationPool.Search@Attestation")
m("fb-head-chain", "formula.spec", B+"altair/attestation.go", "isMatchingHead := isMatchingTarget && expectedHead == data.BeaconBlockRoot", "isMatchingHead := isMatchingSource && expectedHead == data.BeaconBlockRoot", "GetApplicableAttestationParticipationFlags:isMatchingHead")


m("fs-wrong-stake", "formula.spec", B+"phase0/deltas.go", "res.Target.Rewards[i] += baseReward * prevEpochTargetStake / totalBalance", "res.Target.Rewards[i] += baseReward * prevEpochSourceStake / totalBalance", "AttestationRewardsAndPenalties:res.Target.Rewards[i]")


m("lk-canon", "link.kind", F+"proto/proto_array.go", "\t\tindex = node.TransitionParent\n\t}\n\treturn NodeRef{}, fmt.Errorf", "\t\tindex = node.ForkchoiceParent\n\t}\n\treturn NodeRef{}, fmt.Errorf", "CanonAtSlot@TransitionParent")
m("lk-weights", "link.kind", F+"proto/proto_array.go", "deltas[node.ForkchoiceParent-pr.indexOffset] += delta", "deltas[node.TransitionParent-pr.indexOffset] += delta", "ApplyScoreChanges@ForkchoiceParent")
m("it-early", "insert.together", F+"proto/proto_array.go", "\tparentBlockSlot, ok := pr.blockSlots[parent]\n", "\tpr.blockSlots[blockRoot] = blockSlot\n\tparentBlockSlot, ok := pr.blockSlots[parent]\n", "ProcessBlock.blockSlots")
m("fp-wrong-cp", "finality.pairing", B+"phase0/justification.go", "toFinalize = &oldPreviousJustified", "toFinalize = &oldCurrentJustified", "ProcessEpochJustification.rule", nth=2)
m("ma-zero-prefix", "make.append", B+"deneb/execution_payload.go", "make([]common.Hash32, 0, len(body.BlobKZGCommitments))", "make([]common.Hash32, len(body.BlobKZGCommitments))", "ProcessExecutionPayload:versionedHashes")
m("si-rotate", "sibling.index", B+"deneb/state.go", "\tv, err := state.Get(_nextSyncCommittee)\n\tif err != nil {\n\t\treturn err\n\t}\n\tif err := state.Set(_currentSyncCommittee, v)", "\tv, err := state.Get(_currentSyncCommittee)\n\tif err != nil {\n\t\treturn err\n\t}\n\tif err := state.Set(_currentSyncCommittee, v)", "deneb.BeaconStateView.RotateSyncCommittee")
m("es-next-from-current", "epc.source", B+"common/epochs_context.go", "\tnext, err := state.NextSyncCommittee()\n", "\tnext, err := state.CurrentSyncCommittee()\n", "LoadSyncCommittees:NextSyncCommittee", nth=1)
m("es-inplace-filter", "epc.source", B+"phase0/attester.go", "\t\t\tparticipants = participants[:0]                                     // reset old slice (re-used in for loop)\n\t\t\tparticipants = append(participants, committee...)                   // add committee indices\n\t\t\tparticipants = att.AggregationBits.FilterParticipants(participants) // only keep the participants\n", "\t\t\tparticipants = att.AggregationBits.FilterParticipants(committee) // only keep the participants\n", "ComputeEpochAttesterData->FilterParticipants")
m("esh-reslice", "epc.shared", B+"common/epochs_context.go", "epc.EffectiveBalances = make([]Gwei, len(indicesBounded), len(indicesBounded))", "epc.EffectiveBalances = append(epc.EffectiveBalances[:0], make([]Gwei, len(indicesBounded))...)", "loadCurrentStake:EpochsContext.EffectiveBalances")
m("dp-topup-decoded", "deposit.pop", B+"phase0/deposit.go", "\tblsPub, err := dep.Data.Pubkey.Pubkey()\n\t// Check if it is a known validator that is depositing (\"if pubkey not in validator_pubkeys\")\n\tif !exists {\n\t\tif err != nil {\n\t\t\t// deposit is skipped, still valid block.\n\t\t\treturn nil\n\t\t}\n", "\tblsPub, err := dep.Data.Pubkey.Pubkey()\n\tif _, serr := dep.Data.Signature.Signature(); serr != nil {\n\t\treturn nil\n\t}\n\t// Check if it is a known validator that is depositing (\"if pubkey not in validator_pubkeys\")\n\tif !exists {\n\t\tif err != nil {\n\t\t\t// deposit is skipped, still valid block.\n\t\t\treturn nil\n\t\t}\n", "ProcessDeposit.signature-decode.new-only")
m("vb-name-cross", "view.build", B+"altair/fork.go", "\t\tpreviousEpochParticipation,\n\t\tcurrentEpochParticipation,", "\t\tcurrentEpochParticipation,\n\t\tpreviousEpochParticipation,", "UpgradeToAltair.FromFields")
m("fs-disparity-sign", "formula.spec", "eth2/gossipval/common.go", "maxSlot := slotAfter(MAXIMUM_GOSSIP_CLOCK_DISPARITY)", "maxSlot := slotAfter(-MAXIMUM_GOSSIP_CLOCK_DISPARITY)", "CheckSlotSpan:maxSlot")

# ---- variants for the rules rewritten on normal forms (each spelling-independent check must still see a changed meaning)
U2 = "eth2/util/"
m("nh-newton-cond", "numeric.helpers", U2+"math/math_util.go", "\tfor y < x {", "\tfor y <= x {", "IntegerSquareroot.newton")
m("nh-newton-start", "numeric.helpers", U2+"math/math_util.go", "\ty := (x + 1) >> 1", "\ty := (x + 2) >> 1", "IntegerSquareroot.newton")
m("nh-newton-order", "numeric.helpers", U2+"math/math_util.go", "\t\tx = y\n\t\ty = (x + n/x) >> 1", "\t\ty = (x + n/x) >> 1\n\t\tx = y", "IntegerSquareroot.newton")
m("nh-smear-dec", "numeric.helpers", U2+"math/math_util.go", "\tv := in\n\tv--\n", "\tv := in\n", "NextPowerOfTwo.smear")
m("nh-smear-inc", "numeric.helpers", U2+"math/math_util.go", "\tv++\n\treturn v", "\treturn v", "NextPowerOfTwo.smear")
m("nh-pow2-op", "numeric.helpers", U2+"math/math_util.go", "(n&(n-1) == 0)", "(n&(n+1) == 0)", "IsPowerOfTwo")
m("nh-merkle-root", "numeric.helpers", U2+"merkle/crypto_util.go", "return value == root", "return value == leaf", "VerifyMerkleBranch.fold")
m("nh-merkle-start", "numeric.helpers", U2+"merkle/crypto_util.go", "value := leaf", "value := root", "VerifyMerkleBranch.fold")
m("nh-merkle-bound", "numeric.helpers", U2+"merkle/crypto_util.go", "i < depth; i++", "i < index; i++", "VerifyMerkleBranch.fold")
m("nh-time-flip", "numeric.helpers", B+"common/time.go", "if slot >= Slot(max) {", "if slot <= Slot(max) {", "TimeAtSlot.overflow-guard")
m("nh-span-flip", "numeric.helpers", "eth2/gossipval/common.go", "if slot+span < slot {", "if slot+span > slot {", "CheckSlotSpan.overflow-guard")
m("cp-clamp-op", "committee.partition", B+"common/shuffling.go", "if uint64(spec.MAX_COMMITTEES_PER_SLOT) < committeesPerSlot {", "if uint64(spec.MAX_COMMITTEES_PER_SLOT) > committeesPerSlot {", "CommitteeCount")
m("cp-clamp-value", "committee.partition", B+"common/shuffling.go", "\t\tcommitteesPerSlot = uint64(spec.MAX_COMMITTEES_PER_SLOT)\n", "\t\tcommitteesPerSlot = uint64(spec.MAX_COMMITTEES_PER_SLOT) - 1\n", "CommitteeCount")
m("cp-base", "committee.partition", B+"common/shuffling.go", "committeesPerSlot := validatorsPerSlot / uint64(spec.TARGET_COMMITTEE_SIZE)", "committeesPerSlot := validatorsPerSlot / uint64(spec.MAX_VALIDATORS_PER_COMMITTEE)", "CommitteeCount")
m("cp-floor-value", "committee.partition", B+"common/shuffling.go", "\t\tcommitteesPerSlot = 1\n", "\t\tcommitteesPerSlot = 2\n", "CommitteeCount")
m("cp-sampling-255", "committee.partition", B+"common/proposers.go", "effectiveBalance*0xff", "effectiveBalance*0x100", "sampling.acceptance")
m("cp-sampling-side", "committee.partition", B+"common/proposers.go", "if effectiveBalance*0xff >= spec.MAX_EFFECTIVE_BALANCE*Gwei(randomByte) {", "if effectiveBalance*0xff <= spec.MAX_EFFECTIVE_BALANCE*Gwei(randomByte) {", "sampling.acceptance")
m("cp-permute-rounds", "committee.partition", B+"common/proposers.go", "PermuteIndex(uint8(spec.SHUFFLE_ROUND_COUNT), absI,", "PermuteIndex(uint8(spec.SHUFFLE_ROUND_COUNT)-1, absI,", "sampling.permute")
m("cp-permute-size", "committee.partition", B+"common/proposers.go", "absI, uint64(len(active)), seed)", "absI, uint64(len(active))-1, seed)", "sampling.permute")
m("cp-proposer-slots", "committee.partition", B+"common/proposers.go", "for i := Slot(0); i < spec.SLOTS_PER_EPOCH; i++ {", "for i := Slot(0); i < spec.SLOTS_PER_EPOCH-1; i++ {", "ComputeProposers.slots")
m("so-guard-op", "slots.order", B+"common/transition.go", "\tif currentSlot >= slot {", "\tif currentSlot > slot {", "ProcessSlots.target-guard")
m("so-stateroot-eq", "slots.order", B+"common/transition.go", "benv.StateRoot != state.HashTreeRoot(tree.GetHashFn())", "benv.StateRoot == state.HashTreeRoot(tree.GetHashFn())", "PostSlotTransition.state-root")
m("fc-flip-first", "fork.chain", B+"common/spec.go", "if epoch < spec.ALTAIR_FORK_EPOCH {", "if spec.ALTAIR_FORK_EPOCH < epoch {", "ForkVersion[<ALTAIR]")
m("mp-eq", "merge.predicate", B+"bellatrix/transition.go", "HashTreeRoot(spec, tree.GetHashFn()) != empty, nil", "HashTreeRoot(spec, tree.GetHashFn()) == empty, nil", "bellatrix.IsTransitionBlock")
m("iu-running-max", "idx.units", F+"proto/votestore.go", "\t\tif index < offset {", "\t\tif index > offset {", "ComputeDeltas")
m("eu-period-current", "epc.upkeep", B+"altair/sync_aggregate.go", "if nextEpoch%spec.EPOCHS_PER_SYNC_COMMITTEE_PERIOD == 0 {", "if (nextEpoch-1)%spec.EPOCHS_PER_SYNC_COMMITTEE_PERIOD == 0 {", "ProcessSyncCommitteeUpdates.period-test")
m("ev-pe-invalid-ok", "engine.verdict", B+"bellatrix/execution_payload.go", "\t} else if !valid {\n\t\treturn", "\t} else if valid {\n\t\treturn", "bellatrix.ProcessExecutionPayload.header-after-verdict")
m("bs-lo-only", "bisect.step", F+"proto/proto_array.go", "pivot.Slot = min.Slot + ((max.Slot - min.Slot) / 2)", "pivot.Slot = min.Slot + ((max.Slot - min.Slot) / 4)", "XX")

m("gv-early-accept", "gossip.verdict", "eth2/gossipval/voluntary_exit.go", "\t// REJECT] All of the conditions within process_voluntary_exit pass validation.\n", "\tif volExit.Message.Epoch == 0 {\n\t\treturn GossipValidatorResult{ACCEPT, nil}\n\t}\n", "ValidateVoluntaryExit.ACCEPT")
m("gv-inverted-reject", "gossip.verdict", "eth2/gossipval/voluntary_exit.go", "\tif err := phase0.ValidateVoluntaryExit(exitVal.Spec(), epc, state, volExit); err != nil {\n\t\treturn GossipValidatorResult{REJECT, err}\n\t}\n", "\tif err := phase0.ValidateVoluntaryExit(exitVal.Spec(), epc, state, volExit); err == nil {\n\t\t_ = err\n\t} else {\n\t\treturn GossipValidatorResult{IGNORE, err}\n\t}\n", "ValidateVoluntaryExit.IGNORE")
m("gv-seen-nested-reject", "gossip.verdict", "eth2/gossipval/voluntary_exit.go", "\tif exitVal.SeenExit(volExit.Message.ValidatorIndex) {\n\t\treturn GossipValidatorResult{IGNORE,", "\tif exitVal.SeenExit(volExit.Message.ValidatorIndex) {\n\t\treturn GossipValidatorResult{REJECT,", "ValidateVoluntaryExit.REJECT")

# ---- round 7 rules
m("dr-value-recv", "decode.recv", B+"altair/lightclient.go", "func (sb *SyncCommitteeProofBranch) Deserialize(dr *codec.DecodingReader) error {", "func (sb SyncCommitteeProofBranch) Deserialize(dr *codec.DecodingReader) error {", "altair.SyncCommitteeProofBranch.Deserialize")
m("dr-value-recv2", "decode.recv", B+"common/general.go", "func (c *Checkpoint) Deserialize(dr *codec.DecodingReader) error {", "func (c Checkpoint) Deserialize(dr *codec.DecodingReader) error {", "common.Checkpoint.Deserialize")
m("sw-bitlist", "ssz.writer", B+"altair/sync_bits.go", "func (li SyncCommitteeBits) Serialize(spec *common.Spec, w *codec.EncodingWriter) error {\n\treturn w.BitVector(li[:])", "func (li SyncCommitteeBits) Serialize(spec *common.Spec, w *codec.EncodingWriter) error {\n\treturn w.BitList(li[:])", "altair.SyncCommitteeBits")
m("tf-depth", "tree.fill", B+"phase0/randao.go", "\tc, err := tree.SubtreeFillToLength(&filler, tree.CoverDepth(length), length)\n\tif err != nil {\n\t\treturn nil, err\n\t}\n", "\tc := tree.SubtreeFillToDepth(&filler, tree.CoverDepth(length))\n", "phase0.SeedRandao:SubtreeFillToDepth")
m("hc-const", "htr.computed", B+"altair/sync_bits.go", "\t\treturn SyncCommitteeBitsType(spec).New().HashTreeRoot(hFn)\n", "\t\treturn common.Root{}\n", "altair.SyncCommitteeBits.HashTreeRoot")
m("hc-const2", "htr.computed", B+"common/general.go", "func (c *Checkpoint) HashTreeRoot(hFn tree.HashFn) Root {\n\treturn hFn.HashTreeRoot(c.Epoch, c.Root)", "func (c *Checkpoint) HashTreeRoot(hFn tree.HashFn) Root {\n\treturn Root{}", "common.Checkpoint.HashTreeRoot")
m("ns-signed-diff", "numeric.signed", B+"common/time.go", "\tif t < genesisTime {\n\t\treturn 0\n\t}\n\treturn Slot((t - genesisTime) / spec.SECONDS_PER_SLOT)", "\td := int64(t) - int64(genesisTime)\n\tif d < 0 {\n\t\treturn 0\n\t}\n\treturn Slot(Timestamp(d) / spec.SECONDS_PER_SLOT)", "common.Spec.TimeToSlot")
m("bv-primitive", "bls.verify", B+"phase0/proposer_slashing.go", "\tif !blsu.Verify(blsPub, sigRoot2[:], sig2) {", "\tif !blsu.FastAggregateVerify([]*blsu.Pubkey{blsPub}, sigRoot2[:], sig2) {", "phase0.ValidateProposerSlashing.primitive")
m("cd-skip-cache", "cache.deposit", B+"phase0/deposit.go", "\t\tif pc, err := epc.ValidatorPubkeyCache.AddValidator(valIndex, pubkey); err != nil {", "\t\tif _, known := epc.ValidatorPubkeyCache.Pubkey(valIndex); known {\n\t\t\treturn nil\n\t\t}\n\t\tif pc, err := epc.ValidatorPubkeyCache.AddValidator(valIndex, pubkey); err != nil {", "ProcessDeposit.cache-always")
m("gs-memo", "global.state", B+"common/shuffle.go", "func PermuteIndex(rounds uint8, index ValidatorIndex, listSize uint64, seed Root) ValidatorIndex {\n", "var lastPermuteSeed Root\n\nfunc PermuteIndex(rounds uint8, index ValidatorIndex, listSize uint64, seed Root) ValidatorIndex {\n\tlastPermuteSeed = seed\n", "common.var lastPermuteSeed")

# ---- round 8 rules
m("ea-setter-skip", "effect.always", B+"common/general.go", "func (v *CheckpointView) Set(ch *Checkpoint) error {\n\treturn v.SetBacking(ch.View().Backing())", "func (v *CheckpointView) Set(ch *Checkpoint) error {\n\tif cur, err := v.Epoch(); err == nil && cur == ch.Epoch {\n\t\treturn nil\n\t}\n\treturn v.SetBacking(ch.View().Backing())", "common.CheckpointView.Set")
m("ea-poll-skip", "effect.always", B+"altair/sync_aggregate.go", "func ProcessSyncCommitteeUpdates(ctx context.Context, spec *common.Spec, epc *common.EpochsContext, state common.SyncCommitteeBeaconState) error {\n\tif err := ctx.Err(); err != nil {\n\t\treturn err\n\t}\n\tnextEpoch := epc.NextEpoch.Epoch\n", "func ProcessSyncCommitteeUpdates(ctx context.Context, spec *common.Spec, epc *common.EpochsContext, state common.SyncCommitteeBeaconState) error {\n\tnextEpoch := epc.NextEpoch.Epoch\n\tif nextEpoch%spec.EPOCHS_PER_SYNC_COMMITTEE_PERIOD != 0 {\n\t\treturn nil\n\t}\n\tif err := ctx.Err(); err != nil {\n\t\treturn err\n\t}\n", "altair.ProcessSyncCommitteeUpdates")
m("ea-store-skip", "effect.always", B+"common/epochs_context.go", "\tepc.EffectiveBalances = make([]Gwei, len(indicesBounded), len(indicesBounded))\n\tepc.TotalActiveStake = 0\n", "\tif len(epc.EffectiveBalances) == len(indicesBounded) && epc.TotalActiveStake != 0 {\n\t\treturn nil\n\t}\n\tepc.EffectiveBalances = make([]Gwei, len(indicesBounded), len(indicesBounded))\n\tepc.TotalActiveStake = 0\n", "common.EpochsContext.loadCurrentStake")
m("fa-first-wins", "filter.all", "eth2/pool/attestations.go", "\t\tif conf.slot != nil && d.Data.Slot != *conf.slot {\n\t\t\tcontinue\n\t\t}\n\t\tif conf.comm != nil && d.Data.Index != *conf.comm {\n\t\t\tcontinue\n\t\t}\n", "\t\tif conf.slot != nil {\n\t\t\tif d.Data.Slot != *conf.slot {\n\t\t\t\tcontinue\n\t\t\t}\n\t\t} else if conf.comm != nil && d.Data.Index != *conf.comm {\n\t\t\tcontinue\n\t\t}\n", "pool.AttestationPool.Search")
m("fa-proto-or", "filter.all", F+"proto/proto_array.go", "\t\t\tif parentRoot != nil && node.ParentRoot != *parentRoot {\n\t\t\t\tcontinue\n\t\t\t}\n\t\t\tif slot != nil && node.Ref.Slot != *slot {\n\t\t\t\tcontinue\n\t\t\t}\n", "\t\t\tif parentRoot != nil {\n\t\t\t\tif node.ParentRoot != *parentRoot {\n\t\t\t\t\tcontinue\n\t\t\t\t}\n\t\t\t} else if node.Ref.Slot != *slot {\n\t\t\t\tcontinue\n\t\t\t}\n", "proto.ProtoArray.Search")
m("lr-value-recv", "lock.recv", "eth2/pool/voluntary_exits.go", "func (vep *VoluntaryExitPool) All() []*phase0.SignedVoluntaryExit {", "func (vep VoluntaryExitPool) All() []*phase0.SignedVoluntaryExit {", "pool.VoluntaryExitPool.All")
m("tu-dup-json", "tag.unique", B+"electra/state.go", "EarliestConsolidationEpoch common.Epoch `json:\"earliest_consolidation_epoch\" yaml:\"earliest_consolidation_epoch\"`", "EarliestConsolidationEpoch common.Epoch `json:\"earliest_exit_epoch\" yaml:\"earliest_consolidation_epoch\"`", "electra.BeaconState:json")
m("lc-dropped-field", "lit.copy", B+"electra/block.go", "\t\tExecutionRequests:     b.ExecutionRequests,\n", "", "complete", nth=1)
m("gh-shared-digest", "global.hasher", "eth2/util/hashing/hash_util.go", "var Hash HashFn = sha256.Sum256", "var Hash HashFn = Sha256Repeat()", "hashing.var Hash")
m("fs-store-over-accum", "formula.spec", B+"altair/fork.go", "participationRegistry[vi] |= applicableFlags", "participationRegistry[vi] = applicableFlags", "altair.TranslateParticipation")
m("fs-seed-mix", "formula.spec", B+"common/randao.go", "mixes.GetRandomMix(epoch + spec.EPOCHS_PER_HISTORICAL_VECTOR - spec.MIN_SEED_LOOKAHEAD - 1)", "mixes.GetRandomMix(epoch + spec.EPOCHS_PER_HISTORICAL_VECTOR - spec.MIN_SEED_LOOKAHEAD)", "common.GetSeed")

# lazy.init / lock.atomic positive cases are today's known findings (no mutant needed: they are violations on the tree)

# equivalent mutants: the boundary these flips move is unreachable where the comparison stands (the equal case left the
# function, or took another branch, just before) — cmp.spec reads such a comparison in its strict form either way
_EQUIVALENT = {
    ("eth2/forkchoice/proto/proto_array.go", "anchorIndex >= lookupIndex"),          # after `if anchorIndex == lookupIndex { return }`
    ("eth2/forkchoice/proto/proto_array.go", "child.Weight >= bestChild.Weight"),    # else-branch of `child.Weight == bestChild.Weight`
    ("eth2/beacon/phase0/voluntary_exit.go", "valExit > exitQueueEnd"),              # else-if after `valExit == exitQueueEnd`
    ("eth2/forkchoice/proto/proto_array.go", "node.Ref.Slot < slot"),                # after `if node.Ref.Slot == slot { return }`
}
M = [x for x in M if not (x["rule"] == "cmp.spec" and (x["file"], x["old"]) in _EQUIVALENT)]
M = [x for x in M if not x["expect"].startswith("XX")]
json.dump(M, open("mutants.json", "w"), indent=1)
print(len(M), "mutants")

