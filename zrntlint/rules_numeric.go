package main

import (
	"go/ast"
	"go/token"
	"go/types"
	"strings"
)

func init() {
	register(&Rule{Name: "numeric.helpers", Floor: 8,
		Doc: "the small numeric helpers compute what the spec's do, judged on normal forms and not on spelling: integer_squareroot special-cases UINT64_MAX before forming x+1 and then runs the Newton iteration (start x=n, y=(x+1)/2; while y<x: x, y = y, (y+n/y)/2) — the loop body is read symbolically, so the order and splitting of its assignments do not matter, also when the loop is rotated to its exit test (`for { …; if y >= x { return x }; … }`); NextPowerOfTwo returns, read symbolically, the decrement smeared by all six shift widths plus one; IsPowerOfTwo is n>0 && n&(n-1)==0; VerifyMerkleBranch folds exactly `depth` siblings, bit i of the index choosing sibling-left vs sibling-right (hashed through append or a two-argument pairing helper; the bit test may sit in a flag), and compares with the root; the overflow tests of TimeAtSlot / EpochStartSlot / CheckSlotSpan refuse (error) on the spec's side of the spec's boundary",
		Run: ruleNumericHelpers})
}

func safePoly(p Poly) string { return strings.NewReplacer("*", "·", " ", "").Replace(p.String()) }

func ruleNumericHelpers(c *Ctx) {
	// ---- integer square root
	{
		pk, fd := c.P.mustFunc("eth2/util/math", "IntegerSquareroot")
		info := pk.TypesInfo
		var param *ast.Ident
		if len(fd.Type.Params.List) == 1 && len(fd.Type.Params.List[0].Names) == 1 {
			param = fd.Type.Params.List[0].Names[0]
		}
		var loop *ast.ForStmt
		loopAt := -1
		for i, st := range fd.Body.List {
			if f, ok := st.(*ast.ForStmt); ok && loop == nil {
				loop, loopAt = f, i
			}
		}
		// (1) guard: before anything is added to n, `n == MaxUint64` answers 4294967295
		guard := false
		if param != nil {
			n := polyAtom(param.Name)
			maxP := polyAtom("const18446744073709551615")
			wantCut := canonCut(polyAdd(n, maxP, -1), token.EQL)
			wantCutOrd := canonCut(polyAdd(n, maxP, -1), token.GEQ)
			isSqrtMax := func(b *ast.BlockStmt) bool {
				if b == nil || len(b.List) != 1 {
					return false
				}
				r, ok := b.List[0].(*ast.ReturnStmt)
				if !ok || len(r.Results) != 1 {
					return false
				}
				rv, ok := info.Types[r.Results[0]]
				return ok && rv.Value != nil && rv.Value.ExactString() == "4294967295"
			}
			for i, st := range fd.Body.List {
				if loopAt >= 0 && i >= loopAt {
					break
				}
				is, ok := st.(*ast.IfStmt)
				if !ok {
					// a statement that already computes with n+1 comes too early
					early := false
					ast.Inspect(st, func(k ast.Node) bool {
						if be, ok := k.(*ast.BinaryExpr); ok && be.Op == token.ADD {
							early = true
						}
						return !early
					})
					if early {
						break
					}
					continue
				}
				cut, p, op := condCutOf(info, is.Cond, nil)
				side := cutSide(p, op)
				if cut == wantCutOrd && cut != wantCut {
					// n >= MAX (or its negation n < MAX) over 64 unsigned bits is n == MAX (n != MAX)
					if side == cutSide(polyAdd(n, maxP, -1), token.GEQ) {
						side = "eq"
					} else {
						side = "ne"
					}
				} else if cut != wantCut {
					continue
				}
				switch side {
				case "eq":
					guard = isSqrtMax(is.Body)
				case "ne":
					// if n != MAX { …the iteration… } ; return 4294967295
					if i == len(fd.Body.List)-2 {
						guard = isSqrtMax(&ast.BlockStmt{List: fd.Body.List[i+1:]})
					}
					if eb, ok := is.Else.(*ast.BlockStmt); ok {
						guard = isSqrtMax(eb)
					}
					if guard && loop == nil {
						for j, st2 := range is.Body.List {
							if f, ok := st2.(*ast.ForStmt); ok && loop == nil {
								loop, loopAt = f, j
							}
						}
					}
				}
			}
		}
		if guard {
			c.ok("IntegerSquareroot.max-guard", fd.Pos(), "n == 2^64-1 answered directly (4294967295) before x+1 is formed")
		} else {
			c.bad("IntegerSquareroot.max-guard", fd.Pos(), "IntegerSquareroot forms (x+1)>>1 with x = n without the spec's `if n == UINT64_MAX: return UINT64_MAX_SQRT`: for n = 2^64-1 the sum wraps to 0, the loop sets x = 0 and `n/x` divides by zero (panic) instead of returning 4294967295")
		}
		// (2) Newton iteration, read symbolically
		key := "IntegerSquareroot.newton"
		newton := func() string {
			if param == nil || loop == nil || loop.Init != nil || loop.Post != nil {
				return "?" + "no `for <cond> { … }` loop over a single parameter"
			}
			parents := parentMap(fd.Body)
			blk, _ := parents[loop].(*ast.BlockStmt)
			if blk == nil {
				return "?" + "loop not in a block"
			}
			var pre, post []ast.Stmt
			for i, st := range blk.List {
				if st == ast.Stmt(loop) {
					post = blk.List[i+1:]
					for _, p := range blk.List[:i] {
						if _, isIf := p.(*ast.IfStmt); !isIf {
							pre = append(pre, p)
						}
					}
				}
			}
			// `for { A; if C { return r }; B }` is `A; for !C { B; A }; return r`: the loop rotated to its exit test
			loop := loop
			viaBreak := false
			if loop.Cond == nil {
				k := -1
				for i, st := range loop.Body.List {
					if is, ok := st.(*ast.IfStmt); ok && is.Init == nil && is.Else == nil && len(is.Body.List) == 1 {
						if r, ok := is.Body.List[0].(*ast.ReturnStmt); ok && len(r.Results) == 1 && k < 0 {
							k = i
						}
						// `if C { break }` with the return after the loop: the same exit
						if br, ok := is.Body.List[0].(*ast.BranchStmt); ok && br.Tok == token.BREAK && br.Label == nil && k < 0 && len(post) > 0 {
							k, viaBreak = i, true
						}
					}
				}
				if k < 0 {
					return "?" + "no `for <cond> { … }` loop over a single parameter"
				}
				exit := loop.Body.List[k].(*ast.IfStmt)
				before, after := loop.Body.List[:k], loop.Body.List[k+1:]
				notC := &ast.UnaryExpr{OpPos: exit.Cond.Pos(), Op: token.NOT, X: exit.Cond}
				info.Types[notC] = info.Types[exit.Cond]
				rot := &ast.ForStmt{For: loop.For, Cond: notC, Body: &ast.BlockStmt{Lbrace: loop.Body.Lbrace, List: append(append([]ast.Stmt{}, after...), before...), Rbrace: loop.Body.Rbrace}}
				pre = append(append([]ast.Stmt{}, pre...), before...)
				if !viaBreak {
					post = []ast.Stmt{exit.Body.List[0]}
				}
				loop = rot
			}
			if len(post) == 0 {
				return "?" + "nothing is returned after the loop"
			}
			ret, ok := post[0].(*ast.ReturnStmt)
			if !ok || len(ret.Results) != 1 {
				return "?" + "the loop is not followed by the return of the root"
			}
			xid, ok := ast.Unparen(ret.Results[0]).(*ast.Ident)
			if !ok {
				return "?" + "the result is not a variable"
			}
			x := info.ObjectOf(xid)
			env0, _, ok := symRun(info, pre, symEnv{})
			if !ok {
				return "?" + "the statements before the loop are not plain assignments"
			}
			// the other variable: assigned in the loop, not x
			var y types.Object
			for _, st := range loop.Body.List {
				if as, ok := st.(*ast.AssignStmt); ok {
					for _, l := range as.Lhs {
						if id, ok := ast.Unparen(l).(*ast.Ident); ok && info.ObjectOf(id) != x {
							if y != nil && y != info.ObjectOf(id) {
								return "?" + "more than two variables change in the loop"
							}
							y = info.ObjectOf(id)
						}
					}
				}
			}
			if y == nil {
				return "?" + "the loop updates one variable only"
			}
			n := polyAtom(param.Name)
			half := func(p Poly) Poly { return polyDiv(p, polyConst(2)) }
			poly := func(e ast.Expr) (Poly, bool) {
				if e == nil {
					return nil, false
				}
				return exprPoly(info, e, nil, nil, 0)
			}
			x0, ok1 := poly(env0[x])
			y0, ok2 := poly(env0[y])
			if !ok1 || !ok2 {
				return "?" + "x and y are not both initialised before the loop"
			}
			if !polyEq(x0, n) {
				return "the iteration starts at x = " + x0.String() + ", not at n"
			}
			if !polyEq(y0, half(polyAdd(n, polyConst(1), 1))) {
				return "y starts at " + y0.String() + ", not at (n+1)/2"
			}
			env1, _, ok := symRun(info, loop.Body.List, symEnv{})
			if !ok {
				return "?" + "the loop body is not a sequence of plain assignments"
			}
			xa, ya := polyAtom(x.Name()), polyAtom(y.Name())
			x1, ok1 := poly(env1[x])
			y1, ok2 := poly(env1[y])
			if !ok1 || !ok2 {
				return "?" + "the loop does not update both x and y"
			}
			if !polyEq(x1, ya) {
				return "the step sets x to " + x1.String() + ", not to y"
			}
			if !polyEq(y1, half(polyAdd(ya, polyDiv(n, ya), 1))) {
				return "the step sets y to " + y1.String() + ", not to (y + n/y)/2 (with x already y)"
			}
			cut, p, op := condCutOf(info, loop.Cond, nil)
			wp := polyAdd(ya, xa, -1)
			if cut != canonCut(wp, token.LSS) || cutSide(p, op) != cutSide(wp, token.LSS) {
				return "the loop runs while `" + types.ExprString(loop.Cond) + "`, not while y < x"
			}
			return ""
		}
		if why := newton(); why == "" {
			c.ok(key, fd.Pos(), "x=n; y=(x+1)/2; while y<x { x, y = y, (y+n/y)/2 }")
		} else if strings.HasPrefix(why, "?") {
			// not written as `init; for y < x { step }; return x`: nothing is read off it
			c.unm(key, fd.Pos(), "IntegerSquareroot is not written in the form this rule reads (%s)", why[1:])
		} else {
			c.bad(key, fd.Pos(), "IntegerSquareroot is not the spec's Newton iteration: %s", why)
		}
	}
	// ---- powers of two
	{
		pk, fd := c.P.mustFunc("eth2/util/math", "NextPowerOfTwo")
		info := pk.TypesInfo
		key := "NextPowerOfTwo.smear"
		var in string
		if len(fd.Type.Params.List) == 1 && len(fd.Type.Params.List[0].Names) == 1 {
			in = fd.Type.Params.List[0].Names[0].Name
		}
		_, ret, ok := symRun(info, fd.Body.List, symEnv{})
		var got Poly
		if ok && ret != nil {
			got, ok = exprPoly(info, ret, nil, nil, 0)
		}
		want := polyAdd(polyAtom(in), polyConst(1), -1)
		for _, k := range []uint{1, 2, 4, 8, 16, 32} {
			want = polyBitOp(token.OR, want, polyDiv(want, polyConst(int64(1)<<k)))
		}
		want = polyAdd(want, polyConst(1), 1)
		switch {
		case !ok || ret == nil || in == "":
			c.unm(key, fd.Pos(), "NextPowerOfTwo is not straight-line code over one parameter")
		case polyEq(got, want):
			c.ok(key, fd.Pos(), "decrement, smear by 1,2,4,8,16,32, increment")
		default:
			c.bad(key, fd.Pos(), "NextPowerOfTwo does not return ((in-1) smeared by >>1, >>2, >>4, >>8, >>16, >>32) + 1: rounding a 64-bit value up needs the decrement, all six shifts, then the increment; it returns %s", truncate(got.String(), 400))
		}
		pk2, fd2 := c.P.mustFunc("eth2/util/math", "IsPowerOfTwo")
		info2 := pk2.TypesInfo
		okPow, txt := false, ""
		if len(fd2.Body.List) == 1 && len(fd2.Type.Params.List) == 1 && len(fd2.Type.Params.List[0].Names) == 1 {
			n := polyAtom(fd2.Type.Params.List[0].Names[0].Name)
			if r, ok := fd2.Body.List[0].(*ast.ReturnStmt); ok && len(r.Results) == 1 {
				txt = types.ExprString(r.Results[0])
				parts := flattenBool(r.Results[0], token.LAND)
				pos, bits := false, false
				for _, p := range parts {
					cut, q, op := condCutOf(info2, p, nil)
					switch {
					case cut == canonCut(n, token.GTR) && cutSide(q, op) == cutSide(n, token.GTR):
						pos = true // n > 0
					case cut == canonCut(n, token.NEQ) && cutSide(q, op) == "ne":
						pos = true // n != 0
					case cut == canonCut(polyBitOp(token.AND, n, polyAdd(n, polyConst(1), -1)), token.EQL) && cutSide(q, op) == "eq":
						bits = true // n & (n-1) == 0
					}
				}
				okPow = len(parts) == 2 && pos && bits
			}
		}
		if okPow {
			c.ok("IsPowerOfTwo", fd2.Pos(), "n > 0 && n&(n-1) == 0")
		} else {
			c.bad("IsPowerOfTwo", fd2.Pos(), "IsPowerOfTwo returns `%s`, want n > 0 && n&(n-1) == 0", txt)
		}
	}
	// ---- Merkle branch
	{
		pk, fd := c.P.mustFunc("eth2/util/merkle", "VerifyMerkleBranch")
		info := pk.TypesInfo
		var params []types.Object
		if fd.Type.Params != nil {
			for _, f := range fd.Type.Params.List {
				for _, n := range f.Names {
					params = append(params, info.Defs[n])
				}
			}
		}
		var probs, unread []string
		if len(params) != 5 {
			probs = append(probs, "expected (leaf, branch, depth, index, root)")
		} else {
			leaf, branch, depth, index, root := params[0], params[1], params[2], params[3], params[4]
			isObj := func(e ast.Expr, o types.Object) bool {
				id, ok := ast.Unparen(e).(*ast.Ident)
				return ok && info.ObjectOf(id) == o
			}
			// the result: <acc> == root
			var acc types.Object
			if r, ok := fd.Body.List[len(fd.Body.List)-1].(*ast.ReturnStmt); ok && len(r.Results) == 1 {
				if be, ok := ast.Unparen(r.Results[0]).(*ast.BinaryExpr); ok && be.Op == token.EQL {
					for _, pr := range [][2]ast.Expr{{be.X, be.Y}, {be.Y, be.X}} {
						if isObj(pr[1], root) {
							if id, ok := ast.Unparen(pr[0]).(*ast.Ident); ok {
								acc = info.ObjectOf(id)
							}
						}
					}
				}
			}
			if acc == nil {
				probs = append(probs, "the result is not `<folded value> == root`")
			}
			var loop *ast.ForStmt
			startsAtLeaf := false
			for _, st := range fd.Body.List {
				if f, ok := st.(*ast.ForStmt); ok {
					loop = f
				}
				if as, ok := st.(*ast.AssignStmt); ok && loop == nil && len(as.Lhs) == 1 && len(as.Rhs) == 1 {
					if acc != nil && isObj(as.Lhs[0], acc) && isObj(as.Rhs[0], leaf) {
						startsAtLeaf = true
					}
				}
			}
			if acc != nil && !startsAtLeaf {
				probs = append(probs, "the fold does not start from the leaf")
			}
			if loop == nil {
				probs = append(probs, "no loop over the depth")
			} else if acc != nil {
				parents := parentMap(fd.Body)
				be, _ := loop.Cond.(*ast.BinaryExpr)
				var iv types.Object
				severalCounters := false
				if as, ok := loop.Init.(*ast.AssignStmt); ok && len(as.Lhs) > 1 {
					severalCounters = true
				}
				if as, ok := loop.Post.(*ast.AssignStmt); ok && len(as.Lhs) > 1 {
					severalCounters = true
				}
				if (be == nil || !countingLoop(info, parents, be)) && severalCounters {
					// `for level, path := 0, index; level < depth; level, path = level+1, path>>1`: a second quantity is
					// carried along with the counter; which bit of the index it holds at each level is not read here
					unread = append(unread, "the loop steps more than one variable (a second quantity carried along with the level): which bit selects the side at each level is not read")
				} else if be == nil || !countingLoop(info, parents, be) {
					probs = append(probs, "the loop is not `for i := 0; i < depth; i++`")
				} else {
					// i < depth, or depth > i
					ivE, bound := be.X, be.Y
					if be.Op == token.GTR {
						ivE, bound = be.Y, be.X
					}
					iv = info.ObjectOf(ast.Unparen(ivE).(*ast.Ident))
					if !isObj(bound, depth) {
						probs = append(probs, "the loop runs to `"+types.ExprString(bound)+"`, not to depth")
					}
				}
				var is *ast.IfStmt
				for _, st := range loop.Body.List {
					if x, ok := st.(*ast.IfStmt); ok {
						is = x
					}
				}
				if is == nil || iv == nil {
					if iv != nil {
						unread = append(unread, "no left/right selection by an if in the loop")
					}
				} else {
					// the condition as a function of bit i of the index
					bitAtom := polyBitOp(token.AND, polyConst(1), polyAtom("shr("+index.Name()+","+iv.Name()+")"))
					// index & (1 << i): zero exactly when the bit is clear (decides tests against zero only)
					maskAtom := polyBitOp(token.AND, polyAtom(index.Name()), polyAtom("shl(1,"+iv.Name()+")"))
					// (a flag defined in the if's own init, or once before it, is read as its definition)
					condE := is.Cond
					neg := false
					for {
						u, ok := ast.Unparen(condE).(*ast.UnaryExpr)
						if !ok || u.Op != token.NOT {
							break
						}
						neg, condE = !neg, u.X
					}
					if cid, ok := ast.Unparen(condE).(*ast.Ident); ok {
						if ia, ok := is.Init.(*ast.AssignStmt); ok && len(ia.Lhs) == 1 && len(ia.Rhs) == 1 {
							if lid, ok := ia.Lhs[0].(*ast.Ident); ok && info.ObjectOf(lid) == info.ObjectOf(cid) {
								condE = ia.Rhs[0]
							}
						} else if d, ok := singleDefs(info, fd.Body)[info.ObjectOf(cid)]; ok && d.pos == 0 && d.rhs != nil {
							condE = d.rhs
						}
					}
					if neg {
						ne := &ast.UnaryExpr{Op: token.NOT, X: condE, OpPos: condE.Pos()}
						info.Types[ne] = info.Types[condE]
						condE = ne
					}
					_, p, op := condCutOf(info, condE, nil)
					holds := func(bit int64) (bool, bool) {
						if p == nil || len(p) > 2 {
							return false, false
						}
						coef, has := int64(0), false
						for a, cf := range p {
							if a == "" {
								continue
							}
							if a == maskAtom.String() && p[""] == 0 {
								coef, has = cf, true
								continue
							}
							if a != bitAtom.String() {
								return false, false
							}
							coef, has = cf, true
						}
						if !has {
							return false, false
						}
						v := coef*bit + p[""]
						switch op {
						case token.EQL:
							return v == 0, true
						case token.NEQ:
							return v != 0, true
						case token.LSS:
							return v < 0, true
						case token.LEQ:
							return v <= 0, true
						case token.GTR:
							return v > 0, true
						case token.GEQ:
							return v >= 0, true
						}
						return false, false
					}
					h1, ok1 := holds(1)
					h0, ok0 := holds(0)
					// what is hashed, left and right, when the selecting condition holds / does not hold: the loop body run
					// symbolically (plain and tuple assignments between the folded value, the branch element of this level
					// and locals; the selecting if taken on the assumed side), up to the store of a two-operand hash call
					// into the folded value
					order := func(assume bool) string {
						env := map[types.Object]string{}
						var kind func(e ast.Expr) string
						kind = func(e ast.Expr) string {
							switch x := ast.Unparen(e).(type) {
							case *ast.SliceExpr:
								return kind(x.X)
							case *ast.UnaryExpr:
								if x.Op == token.AND {
									return kind(x.X)
								}
							case *ast.StarExpr:
								return kind(x.X)
							case *ast.Ident:
								o := info.ObjectOf(x)
								if k, ok := env[o]; ok {
									return k
								}
								if o == acc {
									return "value"
								}
							case *ast.IndexExpr:
								if isObj(x.X, branch) && isObj(x.Index, iv) {
									return "sibling"
								}
							case *ast.CallExpr:
								if isConversion(info, x) && len(x.Args) == 1 {
									return kind(x.Args[0])
								}
							}
							return "?"
						}
						result := ""
						var run func(list []ast.Stmt) bool
						run = func(list []ast.Stmt) bool {
							for _, st := range list {
								switch x := st.(type) {
								case *ast.AssignStmt:
									if len(x.Lhs) != len(x.Rhs) {
										return false
									}
									if len(x.Lhs) == 1 && isObj(x.Lhs[0], acc) {
										// the hash of the two halves: append(a, b...) or a two-argument helper
										var app *ast.CallExpr
										ast.Inspect(x.Rhs[0], func(k ast.Node) bool {
											if cl, ok := k.(*ast.CallExpr); ok && len(cl.Args) == 2 && app == nil {
												if kind(cl.Args[0]) != "?" && kind(cl.Args[1]) != "?" {
													app = cl
												}
											}
											return true
										})
										if app == nil {
											return false
										}
										result = kind(app.Args[0]) + "," + kind(app.Args[1])
										continue
									}
									ks := make([]string, len(x.Rhs))
									for i, r := range x.Rhs {
										ks[i] = kind(r)
									}
									for i, l := range x.Lhs {
										id, ok := ast.Unparen(l).(*ast.Ident)
										if !ok {
											return false
										}
										if o := info.ObjectOf(id); o != nil {
											env[o] = ks[i]
										}
									}
								case *ast.IfStmt:
									if x != is {
										return false
									}
									if assume {
										if !run(x.Body.List) {
											return false
										}
									} else if x.Else != nil {
										eb, ok := x.Else.(*ast.BlockStmt)
										if !ok || !run(eb.List) {
											return false
										}
									}
								case *ast.DeclStmt, *ast.EmptyStmt:
								default:
									return false
								}
							}
							return true
						}
						if !run(loop.Body.List) || result == "" {
							return "?"
						}
						return result
					}
					a, b := order(true), order(false)
					switch {
					case strings.Contains(a+b, "?"):
						unread = append(unread, "what is hashed on the two sides is not written as the node and the branch element of this level")
					case !ok1 || !ok0 || h1 == h0:
						probs = append(probs, "the side is not chosen by bit "+iv.Name()+" of the index (`"+types.ExprString(is.Cond)+"`)")
					case h1 && a == "sibling,value" && b == "value,sibling", h0 && a == "value,sibling" && b == "sibling,value":
					default:
						probs = append(probs, "bit "+iv.Name()+" of the index must put the sibling on the left when set and on the right when clear; found `"+types.ExprString(is.Cond)+"` -> ("+a+") else ("+b+")")
					}
				}
			}
		}
		if len(probs) == 0 && len(unread) > 0 {
			c.unm("VerifyMerkleBranch.fold", fd.Pos(), "VerifyMerkleBranch: %s", strings.Join(unread, "; "))
		} else if len(probs) == 0 {
			c.ok("VerifyMerkleBranch.fold", fd.Pos(), "folds levels 0..depth-1, index bit selects the side, compares with the root")
		} else {
			c.bad("VerifyMerkleBranch.fold", fd.Pos(), "VerifyMerkleBranch: %s", strings.Join(probs, "; "))
		}
	}
	// ---- overflow tests: the helper refuses (error) on the spec's side of the boundary. The guarded quantity is
	// identified by the parameter it is (by position, whatever its name), the other side by nothing: what the limit is
	// is formula.spec's business.
	for _, w := range []struct {
		pkg, fn, guard string
		param          int  // index of the parameter the guard tests; -1: the wrap test below
		p              Poly // param == -1: the reviewed polynomial
		rop            token.Token
		what           string
	}{
		{"eth2/beacon/common", "Spec.TimeAtSlot", "slot >= max", 0, nil, token.GEQ, "slot*SECONDS_PER_SLOT + genesis_time"},
		{"eth2/beacon/common", "Spec.EpochStartSlot", "e != SlotToEpoch(out)", 0, nil, token.NEQ, "epoch*SLOTS_PER_EPOCH"},
		{"eth2/gossipval", "CheckSlotSpan", "slot+span < slot", -1, polyAtom("span"), token.LSS, "slot+span"},
	} {
		pkg, fd := c.P.mustFunc(w.pkg, w.fn)
		key := strings.TrimPrefix(w.fn, "Spec.") + ".overflow-guard"
		var found *cmpSite
		refuses := false
		sites := cmpsIn(pkg, fd, w.fn, nil, nil, nil, nil)
		if w.param >= 0 {
			// the parameter's name today
			var pname string
			k := 0
			for _, f := range fd.Type.Params.List {
				for _, nm := range f.Names {
					if k == w.param {
						pname = nm.Name
					}
					k++
				}
			}
			if pname == "" {
				c.unm(key, fd.Pos(), "%s has no named parameter #%d any more", w.fn, w.param)
				continue
			}
			for i := range sites {
				s := &sites[i]
				for _, q := range []Poly{s.p, s.pr} {
					cf, has := q[pname]
					if !has || (cf != 1 && cf != -1) {
						continue
					}
					op, rop := s.op, s.rop
					kc := q[""]
					if cf < 0 {
						op, rop, kc = flipOp[op], flipOp[rop], -kc
					}
					// q' = param - other + kc, tested `q' op 0`, refusing on `q' rop 0`
					isEq := op == token.EQL || op == token.NEQ
					if (w.rop == token.NEQ) != isEq {
						continue
					}
					if found == nil {
						found = s
					}
					switch {
					case w.rop == token.NEQ && rop == token.NEQ && kc == 0:
						found, refuses = s, true
					case w.rop == token.GEQ && ((rop == token.GEQ && kc == 0) || (rop == token.GTR && kc == 1)):
						found, refuses = s, true
					}
				}
			}
		} else {
			wantCut, wantSide := canonCut(w.p, w.rop), cutSide(w.p, w.rop)
			for i := range sites {
				s := &sites[i]
				for _, q := range []Poly{s.p, s.pr} {
					if canonCut(q, s.op) != wantCut {
						continue
					}
					if found == nil {
						found = s
					}
					if s.rop != 0 && cutSide(q, s.rop) == wantSide {
						found, refuses = s, true
					}
				}
			}
		}
		switch {
		case found == nil:
			c.bad(key, fd.Pos(), "%s no longer tests `%s` before using %s: the helper has an error result and must use it instead of returning a wrapped value", w.fn, w.guard, w.what)
		case !refuses:
			c.bad(key, found.pos, "%s tests `%s` but does not return an error on that side", w.fn, w.guard)
		default:
			c.ok(key, found.pos, "`%s` returns an error before %s is handed out", w.guard, w.what)
		}
	}
}

func blockReturnsError(b *ast.BlockStmt) bool {
	for _, st := range b.List {
		if r, ok := st.(*ast.ReturnStmt); ok && len(r.Results) > 0 {
			last := r.Results[len(r.Results)-1]
			if id, ok := last.(*ast.Ident); ok && id.Name == "nil" {
				return false
			}
			return true
		}
	}
	return false
}

func itoa(k int64) string {
	if k == 0 {
		return "0"
	}
	s := ""
	for n := k; n > 0; n /= 10 {
		s = string(rune('0'+n%10)) + s
	}
	return s
}
