package main

import (
	"go/ast"
	"go/token"
	"go/types"
	"strings"
)

func init() {
	register(&Rule{Name: "numeric.helpers", Floor: 8,
		Doc: "the small numeric helpers have the spec's shape: integer_squareroot special-cases UINT64_MAX before forming x+1 and then runs the Newton iteration x=n; y=(x+1)/2; while y<x {x=y; y=(x+n/x)/2}; NextPowerOfTwo smears all six shift widths between the decrement and the increment; IsPowerOfTwo is n>0 && n&(n-1)==0; VerifyMerkleBranch folds exactly `depth` siblings, bit i of the index choosing sibling-left vs sibling-right, and compares with the root; the overflow tests of TimeAtSlot / EpochStartSlot / CheckSlotSpan come before the value they protect is returned",
		Run: ruleNumericHelpers})
}

func ruleNumericHelpers(c *Ctx) {
	// ---- integer square root
	{
		pk, fd := c.P.mustFunc("eth2/util/math", "IntegerSquareroot")
		info := pk.TypesInfo
		var param types.Object
		if len(fd.Type.Params.List) == 1 && len(fd.Type.Params.List[0].Names) == 1 {
			param = info.Defs[fd.Type.Params.List[0].Names[0]]
		}
		// (1) guard: first statement is `if n == <MaxUint64> { return <c> }`
		guard := false
		if len(fd.Body.List) > 0 && param != nil {
			if is, ok := fd.Body.List[0].(*ast.IfStmt); ok {
				if be, ok := ast.Unparen(is.Cond).(*ast.BinaryExpr); ok && be.Op == token.EQL {
					x, y := be.X, be.Y
					if id, ok := ast.Unparen(y).(*ast.Ident); ok && info.ObjectOf(id) == param {
						x, y = y, x
					}
					if id, ok := ast.Unparen(x).(*ast.Ident); ok && info.ObjectOf(id) == param {
						if tv, ok := info.Types[y]; ok && tv.Value != nil && tv.Value.ExactString() == "18446744073709551615" {
							if len(is.Body.List) == 1 {
								if r, ok := is.Body.List[0].(*ast.ReturnStmt); ok && len(r.Results) == 1 {
									if rv, ok := info.Types[r.Results[0]]; ok && rv.Value != nil && rv.Value.ExactString() == "4294967295" {
										guard = true
									}
								}
							}
						}
					}
				}
			}
		}
		if guard {
			c.ok("IntegerSquareroot.max-guard", fd.Pos(), "n == 2^64-1 answered directly (4294967295) before x+1 is formed")
		} else {
			c.bad("IntegerSquareroot.max-guard", fd.Pos(), "IntegerSquareroot forms (x+1)>>1 with x = n without the spec's `if n == UINT64_MAX: return UINT64_MAX_SQRT`: for n = 2^64-1 the sum wraps to 0, the loop sets x = 0 and `n/x` divides by zero (panic) instead of returning 4294967295")
		}
		// (2) Newton shape
		var forms []string
		var loopCond string
		ast.Inspect(fd.Body, func(n ast.Node) bool {
			switch x := n.(type) {
			case *ast.AssignStmt:
				if len(x.Lhs) == 1 && len(x.Rhs) == 1 {
					if p, ok := exprPoly(info, x.Rhs[0], nil, nil, 0); ok {
						forms = append(forms, types.ExprString(x.Lhs[0])+"="+p.String())
					}
				}
			case *ast.ForStmt:
				if x.Cond != nil {
					loopCond = strings.ReplaceAll(types.ExprString(x.Cond), " ", "")
				}
			}
			return true
		})
		want := []string{"x=n", "y=((1 + x)/(2))", "x=y", "y=((((n)/(x)) + x)/(2))"}
		if strings.Join(forms, ";") == strings.Join(want, ";") && loopCond == "y<x" {
			c.ok("IntegerSquareroot.newton", fd.Pos(), "x=n; y=(x+1)/2; for y<x { x=y; y=(x+n/x)/2 }")
		} else {
			c.bad("IntegerSquareroot.newton", fd.Pos(), "IntegerSquareroot is not the spec's Newton iteration: assignments %v, loop condition %q (want %v under `y<x`)", forms, loopCond, want)
		}
	}
	// ---- powers of two
	{
		pk, fd := c.P.mustFunc("eth2/util/math", "NextPowerOfTwo")
		info := pk.TypesInfo
		var seq []string
		for _, st := range fd.Body.List {
			switch x := st.(type) {
			case *ast.IncDecStmt:
				seq = append(seq, x.Tok.String())
			case *ast.AssignStmt:
				if x.Tok == token.OR_ASSIGN && len(x.Rhs) == 1 {
					if be, ok := ast.Unparen(x.Rhs[0]).(*ast.BinaryExpr); ok && be.Op == token.SHR {
						if k, ok := constantInt(info.Types[be.Y]); ok {
							seq = append(seq, "|>>"+itoa(k))
						}
					}
				}
			}
		}
		if strings.Join(seq, " ") == "-- |>>1 |>>2 |>>4 |>>8 |>>16 |>>32 ++" {
			c.ok("NextPowerOfTwo.smear", fd.Pos(), "decrement, smear by 1,2,4,8,16,32, increment")
		} else {
			c.bad("NextPowerOfTwo.smear", fd.Pos(), "NextPowerOfTwo does `%s`; rounding a 64-bit value up needs the decrement, all of the shifts 1,2,4,8,16,32, then the increment", strings.Join(seq, " "))
		}
		_, fd2 := c.P.mustFunc("eth2/util/math", "IsPowerOfTwo")
		txt := ""
		if len(fd2.Body.List) == 1 {
			if r, ok := fd2.Body.List[0].(*ast.ReturnStmt); ok && len(r.Results) == 1 {
				txt = strings.NewReplacer(" ", "", "(", "", ")", "").Replace(types.ExprString(r.Results[0]))
			}
		}
		okPow := false
		for _, a := range []string{"n>0", "n!=0", "0<n", "0!=n"} {
			for _, b := range []string{"n&n-1==0", "n-1&n==0", "0==n&n-1", "0==n-1&n"} {
				if txt == a+"&&"+b || txt == b+"&&"+a {
					okPow = true
				}
			}
		}
		if okPow {
			c.ok("IsPowerOfTwo", fd2.Pos(), "n > 0 && n&(n-1) == 0")
		} else {
			c.bad("IsPowerOfTwo", fd2.Pos(), "IsPowerOfTwo returns `%s`, want n > 0 && n&(n-1) == 0", txt)
		}
	}
	// ---- Merkle branch
	{
		pk, fd := c.P.mustFunc("eth2/util/merkle", "VerifyMerkleBranch")
		info := pk.TypesInfo
		names := map[string]string{}
		if fd.Type.Params != nil {
			i := 0
			for _, f := range fd.Type.Params.List {
				for _, n := range f.Names {
					names[[]string{"leaf", "branch", "depth", "index", "root"}[minInt(i, 4)]] = n.Name
					i++
				}
			}
		}
		var probs []string
		var loop *ast.ForStmt
		for _, st := range fd.Body.List {
			if f, ok := st.(*ast.ForStmt); ok {
				loop = f
			}
		}
		if loop == nil {
			probs = append(probs, "no loop over the depth")
		} else {
			norm := func(e ast.Node) string { return strings.ReplaceAll(nodeString(c.P.Fset, e), " ", "") }
			init, cond, post := norm(loop.Init), norm(loop.Cond), norm(loop.Post)
			iv := ""
			if as, ok := loop.Init.(*ast.AssignStmt); ok && len(as.Lhs) == 1 {
				iv = types.ExprString(as.Lhs[0])
				if k, ok := constantInt(info.Types[as.Rhs[0]]); !ok || k != 0 {
					probs = append(probs, "the fold does not start at level 0 ("+init+")")
				}
			}
			if cond != iv+"<"+names["depth"] {
				probs = append(probs, "loop condition `"+cond+"` is not `"+iv+" < "+names["depth"]+"`")
			}
			if post != iv+"++" {
				probs = append(probs, "loop step `"+post+"`")
			}
			// if (index>>i)&1 == 1 { value = H(branch[i] ++ value) } else { value = H(value ++ branch[i]) }
			var is *ast.IfStmt
			for _, st := range loop.Body.List {
				if x, ok := st.(*ast.IfStmt); ok {
					is = x
				}
			}
			if is == nil || is.Else == nil {
				probs = append(probs, "no left/right selection")
			} else {
				condS := strings.NewReplacer(" ", "", "(", "", ")", "").Replace(types.ExprString(is.Cond))
				order := func(b ast.Stmt) string {
					blk, _ := b.(*ast.BlockStmt)
					if blk == nil || len(blk.List) != 1 {
						return "?"
					}
					s := norm(blk.List[0])
					bi := strings.Index(s, names["branch"]+"["+iv+"]")
					app := strings.Index(s, "append(")
					if bi < 0 || app < 0 {
						return "?"
					}
					vi := strings.Index(s[app:], "value[:]")
					if vi < 0 {
						return "?"
					}
					if bi < app+vi {
						return "sibling,value"
					}
					return "value,sibling"
				}
				a, b := order(is.Body), order(is.Else)
				bitOne := condS == names["index"]+">>"+iv+"&1==1" || condS == names["index"]+">>"+iv+"&1!=0"
				bitZero := condS == names["index"]+">>"+iv+"&1==0"
				switch {
				case bitOne && a == "sibling,value" && b == "value,sibling", bitZero && a == "value,sibling" && b == "sibling,value":
				default:
					probs = append(probs, "bit "+iv+" of the index must put the sibling on the left when set and on the right when clear; found `"+condS+"` -> ("+a+") else ("+b+")")
				}
			}
		}
		last := fd.Body.List[len(fd.Body.List)-1]
		if r, ok := last.(*ast.ReturnStmt); !ok || len(r.Results) != 1 || strings.ReplaceAll(types.ExprString(r.Results[0]), " ", "") != "value=="+names["root"] {
			probs = append(probs, "the result is not `value == root`")
		}
		if len(probs) == 0 {
			c.ok("VerifyMerkleBranch.fold", fd.Pos(), "folds levels 0..depth-1, index bit selects the side, compares with the root")
		} else {
			c.bad("VerifyMerkleBranch.fold", fd.Pos(), "VerifyMerkleBranch: %s", strings.Join(probs, "; "))
		}
	}
	// ---- overflow tests precede the protected value
	for _, w := range []struct{ pkg, fn, guard, norm, what string }{
		{"eth2/beacon/common", "Spec.TimeAtSlot", "slot >= max", "<= max + -1*slot", "slot*SECONDS_PER_SLOT + genesis_time"},
		{"eth2/beacon/common", "Spec.EpochStartSlot", "e != SlotToEpoch(out)", "!= SlotToEpoch(out) + -1*e", "epoch*SLOTS_PER_EPOCH"},
		{"eth2/gossipval", "CheckSlotSpan", "slot+span < slot", "< span", "slot+span"},
	} {
		_, fd := c.P.mustFunc(w.pkg, w.fn)
		key := strings.TrimPrefix(w.fn, "Spec.") + ".overflow-guard"
		var guardIf *ast.IfStmt
		pkg, _ := c.P.mustFunc(w.pkg, w.fn)
		for _, st := range fd.Body.List {
			if is, ok := st.(*ast.IfStmt); ok && guardIf == nil {
				if be, ok := ast.Unparen(is.Cond).(*ast.BinaryExpr); ok {
					l, ok1 := exprPoly(pkg.TypesInfo, be.X, nil, nil, 0)
					r, ok2 := exprPoly(pkg.TypesInfo, be.Y, nil, nil, 0)
					if ok1 && ok2 && orient(polyAdd(l, r, -1), be.Op) == w.norm {
						guardIf = is
					}
				}
			}
		}
		switch {
		case guardIf == nil:
			c.bad(key, fd.Pos(), "%s no longer tests `%s` before using %s: the helper has an error result and must use it instead of returning a wrapped value", w.fn, w.guard, w.what)
		case !blockReturnsError(guardIf.Body):
			c.bad(key, guardIf.Pos(), "%s tests `%s` but the branch does not return an error", w.fn, w.guard)
		default:
			c.ok(key, guardIf.Pos(), "`%s` returns an error before %s is handed out", w.guard, w.what)
		}
	}
}

func blockReturnsError(b *ast.BlockStmt) bool {
	for _, st := range b.List {
		if r, ok := st.(*ast.ReturnStmt); ok && len(r.Results) > 0 {
			last := r.Results[len(r.Results)-1]
			if id, ok := last.(*ast.Ident); ok && id.Name == "nil" {
				return false
			}
			return true
		}
	}
	return false
}

func itoa(k int64) string {
	return strings.TrimSpace(strings.Replace(types.ExprString(&ast.BasicLit{Kind: token.INT, Value: func() string {
		if k == 0 {
			return "0"
		}
		s := ""
		for n := k; n > 0; n /= 10 {
			s = string(rune('0'+n%10)) + s
		}
		return s
	}()}), " ", "", -1))
}
