package main

import (
	"fmt"
	"go/ast"
	"go/token"
	"go/types"
	"golang.org/x/tools/go/packages"
	"os"
	"sort"
	"strings"
)

// forkPkgs in chronological order.
var forkPkgs = []string{"phase0", "altair", "bellatrix", "capella", "deneb", "electra"}

func init() {
	register(&Rule{Name: "sibling.cmp", Floor: 60,
		Doc: "per-fork copies of one function (same name in phase0/altair/bellatrix/capella/deneb/electra) make the same REFUSING comparisons (those that govern an error, false, REJECT/IGNORE, continue or break: the checks a copy can lose; a comparison that selects a value is formula.spec's) as their nearest predecessor, up to the deltas frozen in siblingDeltas (each a spec change of that fork, with its reason). Comparisons are cuts with a refusal side; two copies' comparisons cancel when they agree once locals and one-line helpers are read through (equal names alone do not cancel: the same name may be defined differently), or when they agree named by type AND resolved; a refusing comparison of one copy also cancels against the same test made without refusing in the other (a `continue` guard hoisted into a condition around the loop); nil/error/boolean-literal tests and plain counting loops over len(x) are left out; a copy that walks a local table of rows is not compared here; a residual that agrees by name and type but involves, in one copy, what a function-valued local returned, or tests over a local the other copy does not have (with the rest of the residual accepted), is undecided. A slip in one copy (operator, constant, field, dropped or added test) changes the difference and is reported with both copies' positions",
		Run: ruleSiblingCmp})
	if len(os.Args) > 1 && os.Args[1] == "siblings" {
		os.Exit(cmdSiblings(os.Args[2:]))
	}
}

func orient(p Poly, op token.Token) string {
	var keys []string
	for k := range p {
		if k != "" {
			keys = append(keys, k)
		}
	}
	sort.Strings(keys)
	if len(keys) > 0 && p[keys[0]] < 0 {
		p = polyMul(p, polyConst(-1))
		op = flipOp[op]
	}
	return op.String() + " " + p.String()
}

func isNilTest(s cmpSite) bool {
	for _, a := range atomsOf(s.p) {
		// nil tests are err.flow's; `b == true` / `b == false` is a boolean condition written out, not a boundary
		if a == "nil" || a == "true" || a == "false" {
			return true
		}
	}
	return false
}

// sibItem: one comparison left over after cancelling a copy against its predecessor, in its three normal forms (cuts:
// insensitive to negation and to < vs <=+1): with operand names, with locals resolved, with locals named by type.
type sibItem struct {
	sign       string // "-" only in the predecessor, "+" only in the later fork
	n, r, a    string
	ra         string // type-named AND resolved: equal for a renamed local, different for a local defined differently
	sn, sr, sa string // the side of each form's cut on which the path is refused or skipped ("" unknown)
	uses       []string
	pos        token.Pos // where the comparison stands (not part of the recorded residual)
	roots      []string  // the variables of its function the comparison is written over (first component of each operand)
	private    bool      // written over a local of its copy that the other copy does not have (and no test of its shape is left there)
	opaque     bool      // read through its locals, the comparison involves what a function-valued LOCAL returned: not readable
}

func (it sibItem) String() string { return it.sign + it.n + "¦" + it.r + "¦" + it.a }

func parseSibItems(s string) []sibItem {
	var out []sibItem
	for _, part := range strings.Split(s, " ; ") {
		if part == "" {
			continue
		}
		f := strings.Split(part[1:], "¦")
		for len(f) < 3 {
			f = append(f, f[0])
		}
		out = append(out, sibItem{sign: part[:1], n: f[0], r: f[1], a: f[2]})
	}
	return out
}

type sibDiff struct {
	name, base, fork string
	unread           []string // comparisons that agree by name and by type but involve an unreadable local on one side
	items            []sibItem
	pos              token.Pos
	n                int
}

func siblingDiffs(all map[string][]cmpSite) []sibDiff {
	fam := map[string]map[string][]cmpSite{}
	other := map[string]map[string][]cmpSite{} // the comparisons of the copy that govern no refusal
	for fn, sites := range all {
		i := strings.Index(fn, ".")
		pkg, name := fn[:i], fn[i+1:]
		ok := false
		for _, f := range forkPkgs {
			if f == pkg {
				ok = true
			}
		}
		if !ok {
			continue
		}
		if fam[name] == nil {
			fam[name] = map[string][]cmpSite{}
		}
		for _, s := range sites {
			// nil tests are err.flow's; the bound of a plain counting loop (i := 0; i < n; i++, i not written in the body)
			// says what `range` over the same thing says, whatever n is called
			// and only comparisons that govern a refusal or a skip (an error, false, REJECT/IGNORE, continue, break)
			// are checks a copy can lose: one that selects a value (a clamp, a flag test before an update, the bound of
			// a reslice) is rewritten freely — as min/max, as &^, as [:min(n, k)] — and is formula.spec's business
			if !isNilTest(s) && !s.full && s.rop != 0 {
				fam[name][pkg] = append(fam[name][pkg], s)
			} else if !isNilTest(s) && !s.full {
				if other[name] == nil {
					other[name] = map[string][]cmpSite{}
				}
				other[name][pkg] = append(other[name][pkg], s)
			}
		}
		if fam[name][pkg] == nil {
			fam[name][pkg] = []cmpSite{}
		}
	}
	var out []sibDiff
	for _, name := range sortedKeys(fam) {
		m := fam[name]
		prev := ""
		for _, f := range forkPkgs {
			if _, ok := m[f]; !ok {
				continue
			}
			if prev == "" {
				prev = f
				continue
			}
			d := sibDiff{name: name, base: prev, fork: f, n: len(m[f])}
			if len(m[f]) > 0 {
				d.pos = m[f][0].pos
			}
			mk := func(ss []cmpSite, sign string) []sibItem {
				var out []sibItem
				pkgOf := map[string]string{"-": prev, "+": f}[sign]
				fvars := localFuncVars(pkgOf + "." + name)
				for _, s := range ss {
					it := sibItem{sign: sign, n: canonCut(s.p, s.cop()), r: canonCut(s.pr, s.cop()), a: canonCutAbs(s.pa, s.cop()), pos: s.pos}
					it.sa = cutSide(lastAbsPoly, s.rop)
					it.ra = canonCutAbs(s.pra, s.cop())
					it.sn, it.sr = cutSide(s.p, s.rop), cutSide(s.pr, s.rop)
					for u := range s.uses {
						it.uses = append(it.uses, u)
					}
					for _, a := range atomsOf(s.p) {
						if strings.HasPrefix(a, "len(") {
							a = a[4:]
						}
						if k := strings.IndexAny(a, ".[()"); k > 0 {
							a = a[:k]
						}
						it.roots = append(it.roots, a)
					}
					for _, a := range atomsOf(s.pr) {
						if k := strings.Index(a, "("); k > 0 && fvars[a[:k]] {
							it.opaque = true
						}
					}
					out = append(out, it)
				}
				return out
			}
			bs, fs := mk(m[prev], "-"), mk(m[f], "+")
			// a pair cancels when a form agrees and the readings (refused/skipped under which operator) do not disagree
			pol := func(a, b string) bool { return a == "" || b == "" || a == b }
			cancel := func(eq func(x, y sibItem) bool) {
				for i := 0; i < len(bs); i++ {
					for j := 0; j < len(fs); j++ {
						if eq(bs[i], fs[j]) {
							bs = append(bs[:i], bs[i+1:]...)
							fs = append(fs[:j], fs[j+1:]...)
							i--
							break
						}
					}
				}
			}
			// equal once locals are resolved (the same test, whatever was put in a local first); equal names alone do
			// not cancel: a local of the same name may be DEFINED differently in the two copies (deneb's churnLimit)
			cancel(func(x, y sibItem) bool { return x.r == y.r && pol(x.sr, y.sr) })
			// renamed locals: equal once locals are named by type — unless the name the predecessor uses is still a
			// variable of this copy, in which case another value of the same type was put in its place
			forkFn := f + "." + name
			cancel(func(x, y sibItem) bool {
				if !(x.a == y.a && x.ra == y.ra && pol(x.sa, y.sa)) {
					return false
				}
				// (still a variable that is visible where this copy makes the comparison)
				stillDeclaredAt = y.pos
				sw := stillDeclaredIn(forkFn, []string{x.n}, append([]string{y.n, y.r}, y.uses...))
				stillDeclaredAt = token.NoPos
				return len(sw) == 0
			})
			// the same test by name and by type, where one copy's operand is what a function-valued local returned
			// (`get := state.Previous…; if c { get = state.Current… }; cp, err := get()`): its definition cannot be
			// read, so neither "the same" nor "defined differently" is known — undecided
			cancel(func(x, y sibItem) bool {
				if x.n == y.n && x.a == y.a && pol(x.sn, y.sn) && (x.opaque || y.opaque) {
					d.unread = append(d.unread, y.n)
					return true
				}
				return false
			})
			// what is left on one side may still be made by the other copy where it governs no refusal there (a
			// `continue` guard hoisted into a condition around the loop, a test that selects instead of skipping)
			drop := func(items []sibItem, pool []cmpSite) []sibItem {
				var keep []sibItem
				for _, it := range items {
					found := false
					for _, s := range pool {
						if canonCut(s.pr, s.cop()) == it.r || canonCutAbs(s.pa, s.cop()) == it.a || canonCutAbs(s.pra, s.cop()) == it.ra {
							found = true
							break
						}
					}
					if !found {
						keep = append(keep, it)
					}
				}
				return keep
			}
			bs = drop(bs, other[name][f])
			fs = drop(fs, other[name][prev])
			// a test left on one side that is written over a LOCAL the other copy does not have (a sentinel index
			// `first` where the other copy keeps a pointer and tests it for nil): it is about state the other copy
			// does not keep, so it is neither a check that copy lost nor one it can be compared with — undecided
			overOwnLocal := func(items, opposite []sibItem, own, otherFn string) []sibItem {
				ownLocals, otherVars := localVarsOf(own, false), localVarsOf(otherFn, true)
				var keep []sibItem
				for _, it := range items {
					private := false
					for _, r := range it.roots {
						if ownLocals[r] && !otherVars[r] {
							private = true
						}
					}
					// (a test of the same shape left on the other side too is the pair "same test, other operand",
					// which is reported or recorded as such)
					for _, o := range opposite {
						if o.a == it.a {
							private = false
						}
					}
					it.private = private
					keep = append(keep, it)
				}
				return keep
			}
			bs0, fs0 := append([]sibItem{}, bs...), append([]sibItem{}, fs...)
			bs = overOwnLocal(bs, fs0, prev+"."+name, f+"."+name)
			fs = overOwnLocal(fs, bs0, f+"."+name, prev+"."+name)
			d.items = append(append(d.items, bs...), fs...)
			sort.Slice(d.items, func(i, j int) bool { return d.items[i].sign+d.items[i].a < d.items[j].sign+d.items[j].a })
			out = append(out, d)
			prev = f
		}
	}
	return out
}

// sig: the residual in full (what the table records); show: the readable form.
func (d sibDiff) sig() string {
	var parts []string
	for _, it := range d.items {
		parts = append(parts, it.String())
	}
	return strings.Join(parts, " ; ")
}

func (d sibDiff) show() string {
	var parts []string
	for _, it := range d.items {
		parts = append(parts, it.sign+it.a)
	}
	return strings.Join(parts, " ; ")
}

// matches: every recorded item is one of the residual items (same side, any of the three forms agreeing) and nothing
// else is left over.
func (d sibDiff) matches(recorded string) bool {
	want := parseSibItems(recorded)
	if len(want) != len(d.items) {
		return false
	}
	used := make([]bool, len(d.items))
	for _, w := range want {
		found := false
		for i, it := range d.items {
			if used[i] || it.sign != w.sign {
				continue
			}
			if it.n == w.n || it.r == w.r || it.a == w.a {
				used[i] = true
				found = true
				break
			}
		}
		if !found {
			return false
		}
	}
	return true
}

func cmdSiblings(args []string) int {
	p, err := load(loadOpts{repo: dumpRepo()})
	if err != nil {
		fmt.Fprintln(os.Stderr, err)
		return 2
	}
	same := 0
	for _, d := range siblingDiffs(collectCmps(p)) {
		if len(d.items) == 0 {
			same++
			continue
		}
		fmt.Printf("%s|%s|%s|%s\n", d.name, d.base, d.fork, d.sig())
	}
	fmt.Println("same:", same)
	return 0
}

func ruleSiblingCmp(c *Ctx) {
	want := map[string]siblingDelta{}
	for _, sd := range siblingDeltas {
		want[sd.name+"|"+sd.base+"|"+sd.fork] = sd
	}
	seen := map[string]bool{}
	for _, d := range siblingDiffs(collectCmps(c.P)) {
		k := d.name + "|" + d.base + "|" + d.fork
		key := d.fork + "." + d.name + "~" + d.base
		seen[k] = true
		w, tabled := want[k]
		got := d.show()
		// the residual without the tests written over a copy-private local (a sentinel index `first` where the other
		// copy keeps a pointer and tests it for nil): they are about state the other copy does not keep — neither
		// checks that copy lost nor ones it can be compared with. Only asked when the full residual is not accepted.
		d2 := d
		d2.items = nil
		var private []string
		for _, it := range d.items {
			if it.private {
				private = append(private, it.n)
			} else {
				d2.items = append(d2.items, it)
			}
		}
		accepted := func(x sibDiff) bool {
			if tabled {
				return w.rewrite || x.matches(w.delta)
			}
			return len(x.items) == 0
		}
		if len(private) > 0 && !accepted(d) && accepted(d2) && !strings.Contains(d.sig(), "§struct{") {
			c.unm(key, d.pos, "%s.%s and %s.%s agree (up to the recorded fork delta) except for %d comparison(s) (%s) written over a local the other copy does not have: not comparable by this rule", d.fork, d.name, d.base, d.name, len(private), strings.Join(private, " ; "))
			continue
		}
		switch {
		case tabled && w.rewrite:
			c.info(key, d.pos, "the %s version is a different algorithm (%s); not compared", d.fork, w.why)
		case strings.Contains(d.sig(), "§struct{"):
			// one copy walks a local table of (what, count, limit) rows: its comparisons are on the row's fields and
			// say nothing comparable; the limits themselves are limits.first's business, which reads such tables
			c.info(key, d.pos, "one of the copies is table-driven (comparisons on the fields of a local row type); not compared here")
		case tabled && d.matches(w.delta):
			c.ok(key, d.pos, "differs from %s exactly by the recorded fork delta (%s)", d.base, w.why)
		case tabled:
			c.bad(key, d.pos, "%s.%s and %s.%s no longer differ by the recorded fork delta (%s).\n      recorded: %s\n      now:      %s", d.fork, d.name, d.base, d.name, w.why, showRecorded(w.delta), got)
		case got == "" && len(d.unread) > 0:
			c.unm(key, d.pos, "%s.%s and %s.%s agree except for %d comparison(s) (%s) that, in one copy, involve the result of a call through a function-valued local or are written over a local the other copy does not have: not comparable by this rule", d.fork, d.name, d.base, d.name, len(d.unread), strings.Join(d.unread, " ; "))
		case got == "":
			c.ok(key, d.pos, "%d comparisons, the same as in %s", d.n, d.base)
		default:
			c.bad(key, d.pos, "%s.%s makes different comparisons than its copy %s.%s and no fork delta is recorded for this pair: %s (- only in %s, + only in %s)", d.fork, d.name, d.base, d.name, got, d.base, d.fork)
		}
	}
	for k, w := range want {
		if !seen[k] {
			c.unm(w.fork+"."+w.name+"~"+w.base, token.NoPos, "recorded sibling pair no longer exists")
		}
	}
}

// ---- sibling call sets -------------------------------------------------------------------------------------------

func collectCalls(p *Prog) map[string][]string {
	out := map[string][]string{}
	isFork := map[string]bool{}
	for _, f := range forkPkgs {
		isFork[f] = true
	}
	p.funcDecls(func(pk *packages.Package, fd *ast.FuncDecl) {
		if fd.Body == nil || !isFork[pkgShort(pk.Types)] {
			return
		}
		fn := pkgShort(pk.Types) + "." + funcName(fd)
		out[fn] = []string{}
		ast.Inspect(fd.Body, func(n ast.Node) bool {
			call, ok := n.(*ast.CallExpr)
			if !ok {
				return true
			}
			f := calleeFunc(pk.TypesInfo, call)
			if f == nil || f.Pkg() == nil {
				return true
			}
			q := qualName(f)
			// a fork package's own symbol is named without the package: the copy calls its own fork's version
			if i := strings.Index(q, "."); i > 0 && isFork[q[:i]] {
				q = "fork" + q[i:]
			}
			out[fn] = append(out[fn], q)
			return true
		})
	})
	return out
}

func cmdSiblingCalls() int {
	p, err := load(loadOpts{repo: dumpRepo()})
	if err != nil {
		fmt.Fprintln(os.Stderr, err)
		return 2
	}
	same := 0
	for _, d := range siblingCallDiffs(collectCalls(p)) {
		if d.sig() == "" {
			same++
			continue
		}
		fmt.Printf("%s|%s|%s|%s\n", d.name, d.base, d.fork, d.show())
	}
	fmt.Println("same:", same)
	return 0
}

func siblingCallDiffs(all map[string][]string) []sibDiff {
	fam := map[string]map[string][]string{}
	for fn, calls := range all {
		i := strings.Index(fn, ".")
		pkg, name := fn[:i], fn[i+1:]
		if fam[name] == nil {
			fam[name] = map[string][]string{}
		}
		fam[name][pkg] = calls
	}
	var out []sibDiff
	for _, name := range sortedKeys(fam) {
		m := fam[name]
		prev := ""
		for _, f := range forkPkgs {
			if _, ok := m[f]; !ok {
				continue
			}
			if prev == "" {
				prev = f
				continue
			}
			d := sibDiff{name: name, base: prev, fork: f, n: len(m[f])}
			cnt := map[string]int{}
			for _, c := range m[prev] {
				cnt[c]--
			}
			for _, c := range m[f] {
				cnt[c]++
			}
			for _, k := range sortedKeys(cnt) {
				switch n := cnt[k]; {
				case n < 0:
					t := fmt.Sprintf("%s x%d", k, -n)
					d.items = append(d.items, sibItem{sign: "-", n: t, r: t, a: t})
				case n > 0:
					t := fmt.Sprintf("%s x%d", k, n)
					d.items = append(d.items, sibItem{sign: "+", n: t, r: t, a: t})
				}
			}
			out = append(out, d)
			prev = f
		}
	}
	return out
}

func init() {
	if len(os.Args) > 1 && os.Args[1] == "siblingcalls" {
		os.Exit(cmdSiblingCalls())
	}
}

// stillDeclaredIn: identifiers mentioned by want but not by got that are still declared as variables in fn.
// stillDeclaredAt: when set, the position at which the passed-over variable would have had to be visible.
var stillDeclaredAt token.Pos

func stillDeclaredIn(fn string, want, got []string) []string {
	d, ok := cmpDecls[fn]
	if !ok {
		return nil
	}
	have := map[string]bool{}
	for _, g := range got {
		for _, t := range identTokRe.FindAllString(g, -1) {
			have[t] = true
		}
	}
	var out []string
	for _, w := range want {
		for _, t := range identTokRe.FindAllString(w, -1) {
			if have[t] {
				continue
			}
			decl := false
			ast.Inspect(d.fd, func(n ast.Node) bool {
				if id, ok := n.(*ast.Ident); ok && id.Name == t && d.pk.TypesInfo.Defs[id] != nil {
					if v, isVar := d.pk.TypesInfo.Defs[id].(*types.Var); isVar {
						// (when the place of the comparison is known) the variable is visible there: one of the same
						// name that lives in another loop or branch could not have been used and was not passed over
						if stillDeclaredAt != token.NoPos && v.Parent() != nil && !(v.Parent().Contains(stillDeclaredAt) && v.Pos() < stillDeclaredAt) {
							return true
						}
						decl = true
					}
				}
				return !decl
			})
			if decl {
				out = append(out, t)
			}
		}
	}
	return out
}

func showRecorded(delta string) string {
	var parts []string
	for _, it := range parseSibItems(delta) {
		parts = append(parts, it.sign+it.a)
	}
	return strings.Join(parts, " ; ")
}

// localFuncVars: the names of the function-typed local variables of fn ("pkg.Name").
func localFuncVars(fn string) map[string]bool {
	out := map[string]bool{}
	d, ok := cmpDecls[fn]
	if !ok || d.fd.Body == nil {
		return out
	}
	ast.Inspect(d.fd.Body, func(n ast.Node) bool {
		if id, ok := n.(*ast.Ident); ok {
			if v, ok := d.pk.TypesInfo.Defs[id].(*types.Var); ok && v != nil {
				if _, isFn := v.Type().Underlying().(*types.Signature); isFn {
					out[id.Name] = true
				}
			}
		}
		return true
	})
	return out
}

// localVarsOf: the names of the variables declared in the body of fn ("pkg.Name"); with params, its parameters, results
// and receiver as well.
func localVarsOf(fn string, params bool) map[string]bool {
	out := map[string]bool{}
	d, ok := cmpDecls[fn]
	if !ok || d.fd.Body == nil {
		return out
	}
	var root ast.Node = d.fd.Body
	if params {
		root = d.fd
	}
	ast.Inspect(root, func(n ast.Node) bool {
		if id, ok := n.(*ast.Ident); ok {
			if v, ok := d.pk.TypesInfo.Defs[id].(*types.Var); ok && v != nil && !v.IsField() {
				out[id.Name] = true
			}
		}
		return true
	})
	return out
}
