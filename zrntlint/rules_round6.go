package main

import (
	"go/ast"
	"go/token"
	"go/types"
	"sort"
	"strings"

	"golang.org/x/tools/go/cfg"
	"golang.org/x/tools/go/packages"
)

func init() {
	register(&Rule{Name: "fc.commit", Floor: 3,
		Doc: "the fork choice takes a new justified/finalized pair as one step: in the function that stores the new justified checkpoint, every path to that store has re-weighted the graph (a call of ApplyScoreChanges — read through the package's own helpers, where it must lie on every path to their success returns: a helper that returns early when no vote is pending does not count) and every path to its success return stores the new balances; and in UpdateJustified every path to the call that prunes has cleared the pin before (a prune that fails half-way would otherwise leave a pin on a node that is gone, and every later update is refused against it)",
		Run: ruleFcCommit})
}

// pathPass answers must-pass-through questions on the control-flow graph of one function of a package, with the
// package's own functions read through: a call of such a function is a mark when inside it every path from entry to a
// success return (or to the end of a function without results) passes a mark.
type pathPass struct {
	p     *Prog
	pk    *packages.Package
	base  func(info *types.Info, n ast.Node) bool // n itself (not its children) is a mark
	memo  map[*ast.FuncDecl]int                   // 1 always passes, 2 does not, 3 in progress
	decls map[*types.Func]*ast.FuncDecl
}

func newPathPass(p *Prog, pk *packages.Package, base func(info *types.Info, n ast.Node) bool) *pathPass {
	pp := &pathPass{p: p, pk: pk, base: base, memo: map[*ast.FuncDecl]int{}, decls: map[*types.Func]*ast.FuncDecl{}}
	for _, file := range pk.Syntax {
		for _, d := range file.Decls {
			if fd, ok := d.(*ast.FuncDecl); ok && fd.Body != nil {
				if f, ok := pk.TypesInfo.Defs[fd.Name].(*types.Func); ok {
					pp.decls[f] = fd
				}
			}
		}
	}
	return pp
}

// marks: the CFG node n contains a mark (function literals are not entered: they run when called).
func (pp *pathPass) marks(n ast.Node) bool {
	info := pp.pk.TypesInfo
	hit := false
	ast.Inspect(n, func(k ast.Node) bool {
		if k == nil || hit {
			return false
		}
		if _, ok := k.(*ast.FuncLit); ok {
			return false
		}
		if pp.base(info, k) {
			hit = true
			return false
		}
		// go/cfg keeps a condition in one piece: what stands right of && or || is evaluated only sometimes
		if be, ok := k.(*ast.BinaryExpr); ok && (be.Op == token.LAND || be.Op == token.LOR) {
			if pp.marks(be.X) {
				hit = true
			}
			return false
		}
		if call, ok := k.(*ast.CallExpr); ok {
			if f := calleeFunc(info, call); f != nil {
				if fd := pp.decls[f]; fd != nil && pp.always(fd) {
					hit = true
					return false
				}
			}
		}
		return true
	})
	return hit
}

// always: every path from fd's entry to a success return (any return, for a function without an error result) passes
// a mark.
func (pp *pathPass) always(fd *ast.FuncDecl) bool {
	switch pp.memo[fd] {
	case 1:
		return true
	case 2, 3:
		return false
	}
	pp.memo[fd] = 3
	ok := pp.before(fd, nil)
	if ok {
		pp.memo[fd] = 1
	} else {
		pp.memo[fd] = 2
	}
	return ok
}

// before: every path from fd's entry to the CFG node that contains target passes a mark first; with target == nil: to
// every success return and to the end of the body.
func (pp *pathPass) before(fd *ast.FuncDecl, target ast.Node) bool {
	info := pp.pk.TypesInfo
	g := cfg.New(fd.Body, func(*ast.CallExpr) bool { return true })
	hasErr := false
	if fd.Type.Results != nil {
		for _, f := range fd.Type.Results.List {
			if isErrorT(info.TypeOf(f.Type)) {
				hasErr = true
			}
		}
	}
	contains := func(root, t ast.Node) bool {
		found := false
		ast.Inspect(root, func(k ast.Node) bool {
			if k == t {
				found = true
			}
			return !found
		})
		return found
	}
	isEnd := func(n ast.Node) bool {
		if target != nil {
			return contains(n, target)
		}
		r, ok := n.(*ast.ReturnStmt)
		if !ok {
			return false
		}
		if !hasErr {
			// a verdict: `return false` and a REJECT/IGNORE result are refusals
			if len(r.Results) > 0 {
				last := ast.Unparen(r.Results[len(r.Results)-1])
				if tv, ok := info.Types[last]; ok && tv.Value != nil && tv.Value.String() == "false" {
					return false
				}
				if nt := namedOf(info.TypeOf(last)); nt != nil && nt.Obj().Name() == "GossipValidatorResult" {
					accept := false
					ast.Inspect(last, func(k ast.Node) bool {
						if id, ok := k.(*ast.Ident); ok && id.Name == "ACCEPT" {
							accept = true
						}
						return true
					})
					return accept
				}
			}
			return true
		}
		if len(r.Results) == 0 {
			return true
		}
		last := ast.Unparen(r.Results[len(r.Results)-1])
		if isNilExpr(info, last) {
			return true
		}
		// `return err` of an error variable, `return f(…)`: may be a success
		if _, isCall := last.(*ast.CallExpr); isCall {
			if f := calleeFunc(info, last.(*ast.CallExpr)); f != nil && f.Pkg() != nil && (f.Pkg().Path() == "errors" || f.Pkg().Path() == "fmt") {
				return false
			}
			return true
		}
		if id, ok := last.(*ast.Ident); ok {
			// an error variable returned right after it was found non-nil is a failure: `if err != nil { return err }`
			if pcs := pathCondsAt(parentMap(fd.Body), r); len(pcs) > 0 {
				for _, pc := range pcs {
					if be, ok := pc.e.(*ast.BinaryExpr); ok && !pc.after {
						x, isX := ast.Unparen(be.X).(*ast.Ident)
						if isX && info.ObjectOf(x) == info.ObjectOf(id) && isNilExpr(info, be.Y) && ((be.Op == token.NEQ && !pc.neg) || (be.Op == token.EQL && pc.neg)) {
							return false
						}
					}
				}
			}
			return true
		}
		return false
	}
	// error variables carried along the path: a test of one against nil that was taken one way is taken the same way
	// at the next test, until the variable is assigned again (`if err == nil { step }; if err == nil { store }`)
	type nilEnv map[types.Object]bool // true: known nil, false: known non-nil
	sig := func(env nilEnv) string {
		var parts []string
		for o, v := range env {
			if v {
				parts = append(parts, o.Name()+"=nil")
			} else {
				parts = append(parts, o.Name()+"!=nil")
			}
		}
		sort.Strings(parts)
		return strings.Join(parts, ",")
	}
	// nilLeaf: e is `v == nil` / `v != nil` for an error variable v
	nilLeaf := func(e ast.Expr) (types.Object, bool, bool) {
		be, ok := ast.Unparen(e).(*ast.BinaryExpr)
		if !ok || (be.Op != token.EQL && be.Op != token.NEQ) {
			return nil, false, false
		}
		x, y := be.X, be.Y
		if isNilExpr(info, x) {
			x, y = y, x
		}
		id, ok := ast.Unparen(x).(*ast.Ident)
		if !ok || !isNilExpr(info, y) || !isErrorT(info.TypeOf(id)) {
			return nil, false, false
		}
		return info.ObjectOf(id), be.Op == token.EQL, true
	}
	var decide func(e ast.Expr, env nilEnv) (bool, bool)
	decide = func(e ast.Expr, env nilEnv) (bool, bool) {
		e = ast.Unparen(e)
		if o, isEq, ok := nilLeaf(e); ok {
			if v, known := env[o]; known {
				return v == isEq, true
			}
			return false, false
		}
		switch x := e.(type) {
		case *ast.UnaryExpr:
			if x.Op == token.NOT {
				if v, ok := decide(x.X, env); ok {
					return !v, true
				}
			}
		case *ast.BinaryExpr:
			if x.Op == token.LAND || x.Op == token.LOR {
				a, okA := decide(x.X, env)
				b, okB := decide(x.Y, env)
				if x.Op == token.LAND {
					if (okA && !a) || (okB && !b) {
						return false, true
					}
					if okA && okB {
						return true, true
					}
				} else {
					if (okA && a) || (okB && b) {
						return true, true
					}
					if okA && okB {
						return false, true
					}
				}
			}
		}
		return false, false
	}
	type visit struct {
		b *cfg.Block
		s string
	}
	seen := map[visit]bool{}
	var walk func(b *cfg.Block, env nilEnv) bool
	walk = func(b *cfg.Block, env nilEnv) bool {
		k := visit{b, sig(env)}
		if seen[k] {
			return true
		}
		seen[k] = true
		for _, n := range b.Nodes {
			// a node that holds both is read mark first only when the mark is not the target itself
			if target == nil && pp.marks(n) {
				return true
			}
			if isEnd(n) {
				if target != nil && pp.marksBeforeIn(n, target) {
					return true
				}
				if target == nil {
					// `return err` with err known non-nil on this path is a failure
					if r, ok := n.(*ast.ReturnStmt); ok && len(r.Results) > 0 {
						if id, ok := ast.Unparen(r.Results[len(r.Results)-1]).(*ast.Ident); ok {
							if v, known := env[info.ObjectOf(id)]; known && !v {
								return true
							}
						}
					}
				}
				return false
			}
			if pp.marks(n) {
				return true
			}
			// an assignment to a carried error variable: its state is open again
			if as, ok := n.(*ast.AssignStmt); ok {
				for _, l := range as.Lhs {
					if id, ok := ast.Unparen(l).(*ast.Ident); ok {
						if o := info.ObjectOf(id); o != nil {
							if _, had := env[o]; had {
								env2 := nilEnv{}
								for k2, v2 := range env {
									if k2 != o {
										env2[k2] = v2
									}
								}
								env = env2
							}
						}
					}
				}
			}
		}
		if len(b.Succs) == 0 {
			// fell off the end (a function without results), or a panic
			if target != nil {
				return true
			}
			if len(b.Nodes) > 0 {
				if es, ok := b.Nodes[len(b.Nodes)-1].(*ast.ExprStmt); ok {
					if call, ok := es.X.(*ast.CallExpr); ok {
						if id, ok := call.Fun.(*ast.Ident); ok && id.Name == "panic" {
							return true
						}
					}
				}
			}
			return fd.Type.Results != nil && len(fd.Type.Results.List) > 0
		}
		if len(b.Succs) == 2 && len(b.Nodes) > 0 {
			if ce, ok := b.Nodes[len(b.Nodes)-1].(ast.Expr); ok {
				if v, known := decide(ce, env); known {
					if v {
						return walk(b.Succs[0], env)
					}
					return walk(b.Succs[1], env)
				}
				// a plain nil test not yet decided: each side learns what it assumes
				if o, isEq, ok := nilLeaf(ce); ok {
					t, f := nilEnv{}, nilEnv{}
					for k2, v2 := range env {
						t[k2], f[k2] = v2, v2
					}
					t[o], f[o] = isEq, !isEq
					return walk(b.Succs[0], t) && walk(b.Succs[1], f)
				}
			}
		}
		for _, s := range b.Succs {
			if !walk(s, env) {
				return false
			}
		}
		return true
	}
	return walk(g.Blocks[0], nilEnv{})
}

// marksBeforeIn: inside the one CFG node n, a mark is evaluated before target (an argument of the target call, say).
func (pp *pathPass) marksBeforeIn(n, target ast.Node) bool {
	hit := false
	ast.Inspect(target, func(k ast.Node) bool {
		if k == nil || hit || k == target {
			return !hit
		}
		if pp.base(pp.pk.TypesInfo, k) {
			hit = true
		}
		return !hit
	})
	return hit
}

func ruleFcCommit(c *Ctx) {
	pk := c.P.Pkg("eth2/forkchoice")
	if pk == nil {
		anchorFail("package eth2/forkchoice not loaded")
	}
	info := pk.TypesInfo
	recvField := func(fd *ast.FuncDecl, e ast.Expr, field string) bool {
		sel, ok := ast.Unparen(e).(*ast.SelectorExpr)
		if !ok || sel.Sel.Name != field || fd.Recv == nil || len(fd.Recv.List) != 1 || len(fd.Recv.List[0].Names) != 1 {
			return false
		}
		id, ok := ast.Unparen(sel.X).(*ast.Ident)
		return ok && info.ObjectOf(id) == info.Defs[fd.Recv.List[0].Names[0]]
	}
	// any receiver of the fork-choice type: helpers have their own receiver variable
	fcField := func(e ast.Expr, field string) bool {
		sel, ok := ast.Unparen(e).(*ast.SelectorExpr)
		if !ok || sel.Sel.Name != field {
			return false
		}
		nt := namedOf(info.TypeOf(sel.X))
		return nt != nil && nt.Obj().Name() == "ProtoForkChoice"
	}
	assignsField := func(n ast.Node, field string, rhsOK func(ast.Expr) bool) bool {
		as, ok := n.(*ast.AssignStmt)
		if !ok || len(as.Lhs) != len(as.Rhs) {
			return false
		}
		for i, l := range as.Lhs {
			if fcField(l, field) && (rhsOK == nil || rhsOK(as.Rhs[i])) {
				return true
			}
		}
		return false
	}
	callNamed := func(inf *types.Info, n ast.Node, name string) bool {
		call, ok := n.(*ast.CallExpr)
		if !ok {
			return false
		}
		f := calleeFunc(inf, call)
		return f != nil && f.Name() == name
	}

	// (1) the commit of the justified checkpoint
	commits := 0
	for _, file := range pk.Syntax {
		for _, d := range file.Decls {
			fd, ok := d.(*ast.FuncDecl)
			if !ok || fd.Body == nil || recvTypeName(fd) != "ProtoForkChoice" {
				continue
			}
			var store *ast.AssignStmt
			ast.Inspect(fd.Body, func(n ast.Node) bool {
				as, ok := n.(*ast.AssignStmt)
				if !ok || len(as.Lhs) != len(as.Rhs) {
					return true
				}
				for i, l := range as.Lhs {
					if recvField(fd, l, "justified") {
						// a new value: not the receiver's own field put back
						if !fcField(as.Rhs[i], "justified") {
							store = as
						}
					}
				}
				return true
			})
			if store == nil {
				continue
			}
			commits++
			fn := funcName(fd)
			pp := newPathPass(c.P, pk, func(inf *types.Info, n ast.Node) bool { return callNamed(inf, n, "ApplyScoreChanges") })
			if pp.before(fd, store) {
				c.ok(fn+".reweigh", store.Pos(), "every path to the store of the new justified checkpoint has called ApplyScoreChanges")
			} else {
				c.bad(fn+".reweigh", store.Pos(), "the new justified checkpoint is stored on a path that has not re-weighted the graph (no ApplyScoreChanges, or only inside a helper that can return early without it): best-child links and viability keep following the old checkpoints and balances")
			}
			pb := newPathPass(c.P, pk, func(inf *types.Info, n ast.Node) bool { return assignsField(n, "balances", nil) })
			if pb.before(fd, nil) {
				c.ok(fn+".balances", store.Pos(), "every successful path stores the balances of the new justified state")
			} else {
				c.bad(fn+".balances", store.Pos(), "a successful path stores the new justified checkpoint but not the balances it was weighed with: the next delta computation subtracts votes at the wrong weight")
			}
		}
	}
	if commits == 0 {
		anchorFail("fc.commit: no ProtoForkChoice method stores a new justified checkpoint")
	}

	// (2) the pin is cleared before pruning
	prunes := 0
	pin := newPathPass(c.P, pk, func(inf *types.Info, n ast.Node) bool {
		return assignsField(n, "pin", func(r ast.Expr) bool { return isNilExpr(info, r) })
	})
	var callersClear func(fd *ast.FuncDecl, depth int) bool
	callersClear = func(fd *ast.FuncDecl, depth int) bool {
		self, _ := info.Defs[fd.Name].(*types.Func)
		if self == nil || self.Exported() || depth > 2 {
			return false
		}
		n, all := 0, true
		for _, file := range pk.Syntax {
			for _, d := range file.Decls {
				fd2, ok := d.(*ast.FuncDecl)
				if !ok || fd2.Body == nil {
					continue
				}
				ast.Inspect(fd2.Body, func(k ast.Node) bool {
					call, ok := k.(*ast.CallExpr)
					if !ok {
						return true
					}
					if g := calleeFunc(info, call); g == self {
						n++
						if !pin.before(fd2, call) && !callersClear(fd2, depth+1) {
							all = false
						}
					}
					return true
				})
			}
		}
		return n > 0 && all
	}
	for _, file := range pk.Syntax {
		for _, d := range file.Decls {
			fd, ok := d.(*ast.FuncDecl)
			if !ok || fd.Body == nil || recvTypeName(fd) != "ProtoForkChoice" {
				continue
			}
			ast.Inspect(fd.Body, func(n ast.Node) bool {
				call, ok := n.(*ast.CallExpr)
				if !ok || !callNamed(info, call, "OnPrune") {
					return true
				}
				prunes++
				key := funcName(fd) + ".pin"
				if pin.before(fd, call) || callersClear(fd, 0) {
					c.ok(key, call.Pos(), "the pin is cleared on every path to the prune")
				} else {
					c.bad(key, call.Pos(), "the prune can be reached with the pin still set: if the prune fails half-way the pin stays on a node that is gone, and every later justified/finalized update is refused against it")
				}
				return true
			})
		}
	}
	if prunes == 0 {
		anchorFail("fc.commit: no ProtoForkChoice method calls OnPrune")
	}
}

func init() {
	register(&Rule{Name: "validator.new", Floor: 12,
		Doc: "each fork's BeaconStateView.AddValidator is add_validator_to_registry(get_validator_from_deposit(pubkey, withdrawal_credentials, amount)): the new Validator takes its pubkey and withdrawal credentials from the parameters of those names' types, has all four lifecycle epochs at FAR_FUTURE_EPOCH, is not slashed, and has an effective balance that is not the raw amount (the formula itself is formula.spec's); the balance appended to the balances list is the amount parameter itself (not the rounded effective balance); from altair on the participation flags and the inactivity score appended for it are zero",
		Run: ruleValidatorNew})
}

func ruleValidatorNew(c *Ctx) {
	for _, fork := range []string{"phase0", "altair", "bellatrix", "capella", "deneb", "electra"} {
		pk, fd := c.P.findFunc("eth2/beacon/"+fork, "BeaconStateView.AddValidator")
		if pk == nil || fd == nil || fd.Body == nil {
			if fork == "electra" {
				continue
			}
			anchorFail("%s.BeaconStateView.AddValidator not found", fork)
		}
		info := pk.TypesInfo
		key := fork + ".AddValidator"
		// parameters by type: the pubkey, the credentials, the amount
		var pubP, credP, balP types.Object
		for _, f := range fd.Type.Params.List {
			for _, nm := range f.Names {
				o := info.Defs[nm]
				nt := namedOf(o.Type())
				if nt == nil {
					continue
				}
				switch nt.Obj().Name() {
				case "BLSPubkey":
					pubP = o
				case "Root":
					credP = o
				case "Gwei":
					balP = o
				}
			}
		}
		if pubP == nil || credP == nil || balP == nil {
			c.unm(key+".params", fd.Pos(), "parameters (pubkey, credentials, amount) not recognised by type")
			continue
		}
		defs := singleDefs(info, fd.Body)
		isParam := func(e ast.Expr, p types.Object) bool {
			id, ok := ast.Unparen(resolveLocal(info, e, defs, 3)).(*ast.Ident)
			return ok && info.ObjectOf(id) == p
		}
		builds := structBuilds(info, fd.Body, "Validator")
		if len(builds) != 1 {
			c.unm(key+".validator", fd.Pos(), "expected one Validator value built in AddValidator, found %d", len(builds))
		} else {
			b := builds[0]
			var wrong []string
			if e := b.fields["Pubkey"]; e == nil || !isParam(e, pubP) {
				wrong = append(wrong, "Pubkey is not the pubkey parameter")
			}
			if e := b.fields["WithdrawalCredentials"]; e == nil || !isParam(e, credP) {
				wrong = append(wrong, "WithdrawalCredentials is not the credentials parameter")
			}
			for _, f := range []string{"ActivationEligibilityEpoch", "ActivationEpoch", "ExitEpoch", "WithdrawableEpoch"} {
				e := b.fields[f]
				good := false
				if e != nil {
					r := ast.Unparen(resolveLocal(info, e, defs, 3))
					switch x := r.(type) {
					case *ast.SelectorExpr:
						good = x.Sel.Name == "FAR_FUTURE_EPOCH"
					case *ast.Ident:
						good = x.Name == "FAR_FUTURE_EPOCH"
					}
				}
				if !good {
					wrong = append(wrong, f+" is not FAR_FUTURE_EPOCH")
				}
			}
			if e := b.fields["Slashed"]; e != nil {
				if tv, ok := info.Types[e]; !ok || tv.Value == nil || tv.Value.String() != "false" {
					wrong = append(wrong, "Slashed is set")
				}
			}
			if e := b.fields["EffectiveBalance"]; e == nil {
				wrong = append(wrong, "EffectiveBalance is not set")
			} else if id, ok := ast.Unparen(stripConv(info, e)).(*ast.Ident); ok && info.ObjectOf(id) == balP {
				wrong = append(wrong, "EffectiveBalance is the raw amount (not rounded down and capped)")
			}
			if len(wrong) > 0 {
				c.bad(key+".validator", b.pos, "the new validator deviates from get_validator_from_deposit: %s", strings.Join(wrong, "; "))
			} else {
				c.ok(key+".validator", b.pos, "pubkey and credentials from the parameters, four epochs FAR_FUTURE_EPOCH, not slashed, effective balance derived")
			}
		}
		// the appended balance, and the zero participation / inactivity entries
		nBal := 0
		ast.Inspect(fd.Body, func(n ast.Node) bool {
			call, ok := n.(*ast.CallExpr)
			if !ok || len(call.Args) != 1 {
				return true
			}
			f := calleeFunc(info, call)
			if f == nil {
				return true
			}
			switch f.Name() {
			case "AppendBalance":
				nBal++
				if isParam(call.Args[0], balP) {
					c.ok(key+".balance", call.Pos(), "the balance appended is the deposited amount")
				} else {
					c.bad(key+".balance", call.Pos(), "the balance appended for the new validator is %s, not the deposited amount (state.balances.append(amount)): the rounded/capped effective balance, say, loses the remainder of the deposit", types.ExprString(call.Args[0]))
				}
			case "Append":
				sel, ok := call.Fun.(*ast.SelectorExpr)
				if !ok {
					return true
				}
				rt := namedOf(info.TypeOf(sel.X))
				if rt == nil || (rt.Obj().Name() != "ParticipationRegistryView" && rt.Obj().Name() != "InactivityScoresView") {
					return true
				}
				what := rt.Obj().Name()
				if rc, ok := ast.Unparen(resolveLocal(info, sel.X, defs, 3)).(*ast.CallExpr); ok {
					if g := calleeFunc(info, rc); g != nil {
						what = g.Name()
					}
				}
				k := key + ".zero[" + what + "]"
				a := ast.Unparen(resolveLocal(info, call.Args[0], defs, 3))
				if tv, ok := info.Types[a]; ok && tv.Value != nil && tv.Value.String() == "0" {
					c.ok(k, call.Pos(), "zero entry appended")
				} else if tv, ok := info.Types[stripConv(info, a)]; ok && tv.Value != nil && tv.Value.String() == "0" {
					c.ok(k, call.Pos(), "zero entry appended")
				} else {
					c.bad(k, call.Pos(), "the entry appended to %s for the new validator is %s, the spec appends 0", types.ExprString(sel.X), types.ExprString(call.Args[0]))
				}
			}
			return true
		})
		if nBal == 0 {
			c.unm(key+".balance", fd.Pos(), "no AppendBalance call in AddValidator")
		}
	}
}

func init() {
	register(&Rule{Name: "loop.every", Floor: 0,
		Doc: "a loop that does something to the elements it passes (a store into a parameter's, the receiver's or a package variable's memory, or a call of a mutator — Set…, Append…, Add…, Increase…, Decrease…, Slash…, Initiate…, Process…, Update…, Delete…, Remove…, Push…, Pop…, Reset…, Apply… — outside the branch that leaves) and can also `break` leaves the remaining elements undone: every such loop is one of the reviewed ones (the bounded sweeps and queue scans of the spec, frozen per function in loopEveryReviewed). A break on an error, and the break that ends a loop without a condition of its own (`for { … }` over an iterator), are not early exits. Running totals kept outside the loop (sum += x, n++, out = append(out, x)) count as acting. Loops without a condition of their own (`for { … }` over an iterator) end by their break and are not meant. A `break` where the spec says 'skip this one' (continue) is the typical slip",
		Run: ruleLoopEvery})
}

// loopEveryReviewed: functions with loops that both act on elements and leave early, each read against the spec.
var loopEveryReviewed = map[string]int{
	// activation queue: the dequeued indices are sorted by eligibility epoch, the first one not yet finalized ends it
	// ("remaining validators all have an activation_eligibility_epoch that is higher anyway")
	"phase0.ProcessEpochRegistryUpdates": 1,
	"deneb.ProcessEpochRegistryUpdates":  1,
}

var mutatorPrefixes = []string{"Set", "Append", "Add", "Increase", "Decrease", "Slash", "Initiate", "Process", "Update", "Delete", "Remove", "Push", "Pop", "Reset", "Apply", "Store", "Insert"}

func ruleLoopEvery(c *Ctx) {
	loops := 0
	seenFn := map[string]int{}
	c.P.funcDecls(func(pk *packages.Package, fd *ast.FuncDecl) {
		if fd.Body == nil || !strings.Contains(pk.PkgPath, "/eth2/") {
			return
		}
		info := pk.TypesInfo
		fn := pkgShort(pk.Types) + "." + funcName(fd)
		parents := parentMap(fd.Body)
		// objects declared inside the function body (locals); everything else is somebody else's memory
		local := map[types.Object]bool{}
		ast.Inspect(fd.Body, func(n ast.Node) bool {
			if id, ok := n.(*ast.Ident); ok {
				if o := info.Defs[id]; o != nil {
					local[o] = true
				}
			}
			return true
		})
		rootObj := func(e ast.Expr) types.Object {
			for {
				switch x := ast.Unparen(e).(type) {
				case *ast.SelectorExpr:
					e = x.X
				case *ast.IndexExpr:
					e = x.X
				case *ast.StarExpr:
					e = x.X
				case *ast.SliceExpr:
					e = x.X
				case *ast.Ident:
					return info.ObjectOf(x)
				default:
					return nil
				}
			}
		}
		// the loop a break leaves
		loopOf := func(br *ast.BranchStmt) ast.Node {
			if br.Label != nil {
				if ls, ok := info.Uses[br.Label].(*types.Label); ok {
					var target ast.Node
					ast.Inspect(fd.Body, func(n ast.Node) bool {
						if l, ok := n.(*ast.LabeledStmt); ok && info.Defs[l.Label] == ls {
							target = l.Stmt
						}
						return true
					})
					return target
				}
				return nil
			}
			for p := parents[br]; p != nil; p = parents[p] {
				switch p.(type) {
				case *ast.ForStmt, *ast.RangeStmt:
					return p
				case *ast.SwitchStmt, *ast.TypeSwitchStmt, *ast.SelectStmt, *ast.FuncLit:
					return nil
				}
			}
			return nil
		}
		type loopInfo struct {
			breaks []*ast.BranchStmt
		}
		found := map[ast.Node]*loopInfo{}
		var order []ast.Node
		ast.Inspect(fd.Body, func(n ast.Node) bool {
			if br, ok := n.(*ast.BranchStmt); ok && br.Tok == token.BREAK {
				if l := loopOf(br); l != nil {
					if found[l] == nil {
						found[l] = &loopInfo{}
						order = append(order, l)
					}
					found[l].breaks = append(found[l].breaks, br)
				}
			}
			return true
		})
		for _, l := range order {
			li := found[l]
			var body *ast.BlockStmt
			switch x := l.(type) {
			case *ast.ForStmt:
				body = x.Body
			case *ast.RangeStmt:
				body = x.Body
			}
			if body == nil {
				continue
			}
			// a loop without a condition of its own ends by its break (an iterator that ran out, the last round): that
			// is its end, not an early exit
			if fs, ok := l.(*ast.ForStmt); ok {
				if fs.Cond == nil {
					continue
				}
				if tv, ok := info.Types[fs.Cond]; ok && tv.Value != nil {
					continue
				}
			}
			// the outermost statement of the loop body that holds a break: effects inside it are on the way out
			onBreakPath := func(n ast.Node) bool {
				for _, br := range li.breaks {
					var top ast.Node = br
					for p := parents[br]; p != nil && p != ast.Node(body); p = parents[p] {
						top = p
					}
					if is, ok := top.(*ast.IfStmt); ok {
						// only the branch that holds the break
						var branch ast.Node = is.Body
						if !(br.Pos() >= is.Body.Pos() && br.End() <= is.Body.End()) && is.Else != nil {
							branch = is.Else
						}
						if n.Pos() >= branch.Pos() && n.End() <= branch.End() {
							return true
						}
					} else if n.Pos() >= top.Pos() && n.End() <= top.End() {
						return true
					}
				}
				return false
			}
			// a break taken when an iterator stepped in this round (a call without arguments: it.Next(), next()) says there is nothing more is the
			// end of the loop, whatever its header says
			exhausted := func(br *ast.BranchStmt) bool {
				is, ok := parents[parents[br]].(*ast.IfStmt)
				if !ok {
					return false
				}
				cnd := ast.Unparen(is.Cond)
				// giving up on an error is not an early exit either (whatever else the branch does with the error)
				if be, ok := cnd.(*ast.BinaryExpr); ok && be.Op == token.NEQ && isNilExpr(info, be.Y) && isErrorT(info.TypeOf(be.X)) {
					return true
				}
				if len(is.Body.List) != 1 || is.Body.List[0] != ast.Stmt(br) {
					return false
				}
				if u, ok := cnd.(*ast.UnaryExpr); ok && u.Op == token.NOT {
					cnd = ast.Unparen(u.X)
				}
				id, ok := cnd.(*ast.Ident)
				if !ok {
					return false
				}
				o := info.ObjectOf(id)
				def := false
				ast.Inspect(body, func(k ast.Node) bool {
					if as, ok := k.(*ast.AssignStmt); ok && len(as.Rhs) == 1 && len(as.Lhs) >= 2 {
						// an iterator step takes no arguments: it.Next(), next()
						if call, isCall := ast.Unparen(as.Rhs[0]).(*ast.CallExpr); isCall && len(call.Args) == 0 {
							for _, l := range as.Lhs {
								if lid, ok := l.(*ast.Ident); ok && info.ObjectOf(lid) == o {
									def = true
								}
							}
						}
					}
					return true
				})
				return def
			}
			early := li.breaks[:0:0]
			for _, br := range li.breaks {
				if !exhausted(br) {
					early = append(early, br)
				}
			}
			if len(early) == 0 {
				continue
			}
			li.breaks = early
			// variables the loop steers by: read in its own condition or in the test that guards a break (a position, a
			// count against a limit). Stepping those is how the loop runs, not what it does to its elements.
			steering := map[types.Object]bool{}
			note := func(e ast.Node) {
				if e == nil {
					return
				}
				ast.Inspect(e, func(k ast.Node) bool {
					if id, ok := k.(*ast.Ident); ok {
						if o := info.ObjectOf(id); o != nil {
							steering[o] = true
						}
					}
					return true
				})
			}
			if fs, ok := l.(*ast.ForStmt); ok {
				note(fs.Cond)
			}
			for _, br := range li.breaks {
				for p := parents[br]; p != nil && p != ast.Node(body); p = parents[p] {
					if is, ok := p.(*ast.IfStmt); ok {
						note(is.Cond)
					}
				}
			}
			var effects []string
			ast.Inspect(body, func(n ast.Node) bool {
				switch x := n.(type) {
				case *ast.FuncLit:
					return false
				case *ast.AssignStmt:
					for _, lhs := range x.Lhs {
						if _, plain := ast.Unparen(lhs).(*ast.Ident); plain {
							// a running total kept outside the loop (sum += x, n++ is below, out = append(out, x))
							if o := rootObj(lhs); o != nil && !steering[o] && !(o.Pos() >= body.Pos() && o.Pos() <= body.End()) && !onBreakPath(x) {
								acc := x.Tok != token.ASSIGN && x.Tok != token.DEFINE
								if !acc && len(x.Rhs) == len(x.Lhs) {
									for _, r := range x.Rhs {
										if cl, ok := ast.Unparen(r).(*ast.CallExpr); ok {
											if fid, ok := cl.Fun.(*ast.Ident); ok && fid.Name == "append" && len(cl.Args) > 0 && rootObj(cl.Args[0]) == o {
												acc = true
											}
										}
									}
								}
								if acc {
									effects = append(effects, types.ExprString(lhs)+" accumulates")
								}
							}
							continue
						}
						if o := rootObj(lhs); o != nil && !local[o] && !onBreakPath(x) {
							effects = append(effects, types.ExprString(lhs)+" = …")
						} else if o != nil && local[o] && !(o.Pos() >= body.Pos() && o.Pos() <= body.End()) && !onBreakPath(x) && x.Tok != token.ASSIGN && x.Tok != token.DEFINE {
							effects = append(effects, types.ExprString(lhs)+" accumulates")
						} else if o != nil && local[o] && !onBreakPath(x) {
							// a local that is a map or a pointer to somebody else's memory
							if _, isMap := o.Type().Underlying().(*types.Map); isMap {
								if ix, ok := ast.Unparen(lhs).(*ast.IndexExpr); ok && rootObj(ix.X) == o {
									continue // the function's own map
								}
							}
						}
					}
				case *ast.IncDecStmt:
					if _, plain := ast.Unparen(x.X).(*ast.Ident); !plain {
						if o := rootObj(x.X); o != nil && !local[o] && !onBreakPath(x) {
							effects = append(effects, types.ExprString(x.X)+"++")
						}
					} else if o := rootObj(x.X); o != nil && !steering[o] && !(o.Pos() >= l.Pos() && o.Pos() <= l.End()) && !onBreakPath(x) {
						effects = append(effects, types.ExprString(x.X)+"++ accumulates")
					}
				case *ast.CallExpr:
					f := calleeFunc(info, x)
					if f == nil || !isZrntOrZtyp(f) || onBreakPath(x) {
						return true
					}
					for _, p := range mutatorPrefixes {
						if strings.HasPrefix(f.Name(), p) {
							effects = append(effects, f.Name()+"(…)")
							break
						}
					}
				}
				return true
			})
			if len(effects) == 0 {
				continue
			}
			loops++
			// (a reviewed loop moved into an unexported function that only the reviewed one calls is the same loop)
			rfn := ownerOrSelf(fn)
			seenFn[rfn]++
			key := fn + "#" + itoa(int64(seenFn[rfn]))
			if seenFn[rfn] <= loopEveryReviewed[rfn] {
				c.ok(key, l.Pos(), "reviewed: acts on elements (%s) and leaves early as the spec does", strings.Join(uniqStrings(effects), ", "))
			} else {
				c.bad(key, li.breaks[0].Pos(), "this loop acts on the elements it passes (%s) and can `break`: the elements after the break are left undone, and no such loop is recorded for %s (where the spec skips an element the loop must `continue`)", strings.Join(uniqStrings(effects), ", "), fn)
			}
		}
	})
	for fn, n := range loopEveryReviewed {
		if seenFn[fn] < n {
			c.info(fn, token.NoPos, "recorded loop no longer found (%d of %d)", seenFn[fn], n)
		}
	}
	c.ok("zrnt", token.NoPos, "%d loops act on their elements and can leave early, all recorded", loops)
	c.stat("loops_acting_and_leaving", loops)
}

func uniqStrings(in []string) []string {
	seen := map[string]bool{}
	var out []string
	for _, s := range in {
		if !seen[s] {
			seen[s] = true
			out = append(out, s)
		}
	}
	return out
}

func isZrntOrZtyp(f *types.Func) bool {
	return f.Pkg() != nil && (strings.Contains(f.Pkg().Path(), "protolambda/zrnt") || strings.Contains(f.Pkg().Path(), "protolambda/ztyp"))
}

func init() {
	register(&Rule{Name: "text.hex", Floor: 12,
		Doc: "the text form of a fixed-size byte type round-trips: UnmarshalText of a [N]byte type decodes into the whole receiver (p[:], no bounds) with hex.Decode after checking the text length against exactly 2*N, or hands p[:] to ztyp's FixedBytesUnmarshalText; an optional prefix is removed as a prefix (text[2:] under a test of text[0] == '0' and text[1] == 'x'/'X', or TrimPrefix) and never with a cut-set function (Trim/TrimLeft/TrimRight strip any run of those characters, so leading zero digits of the value go with the prefix); MarshalText encodes the whole value (p[:])",
		Run: ruleTextHex})
}

func ruleTextHex(c *Ctx) {
	c.P.funcDecls(func(pk *packages.Package, fd *ast.FuncDecl) {
		if fd.Body == nil || fd.Recv == nil || !strings.Contains(pk.PkgPath, "/eth2/") || len(fd.Recv.List) != 1 {
			return
		}
		if fd.Name.Name != "UnmarshalText" && fd.Name.Name != "MarshalText" {
			return
		}
		info := pk.TypesInfo
		var recv types.Object
		if len(fd.Recv.List[0].Names) == 1 {
			recv = info.Defs[fd.Recv.List[0].Names[0]]
		}
		if recv == nil {
			return
		}
		rt := recv.Type()
		if p, ok := rt.(*types.Pointer); ok {
			rt = p.Elem()
		}
		arr, ok := rt.Underlying().(*types.Array)
		if !ok {
			return
		}
		if b, ok := arr.Elem().Underlying().(*types.Basic); !ok || (b.Kind() != types.Uint8 && b.Kind() != types.Byte) {
			return
		}
		n := arr.Len()
		key := pkgShort(pk.Types) + "." + funcName(fd)
		// p[:] / (*p)[:] of the receiver, unbounded
		var wholeRecv func(e ast.Expr) (whole bool, ofRecv bool)
		wholeRecv = func(e ast.Expr) (whole bool, ofRecv bool) {
			sl, ok := ast.Unparen(e).(*ast.SliceExpr)
			if !ok {
				return false, false
			}
			x := ast.Unparen(sl.X)
			if st, ok := x.(*ast.StarExpr); ok {
				x = ast.Unparen(st.X)
			}
			id, ok := x.(*ast.Ident)
			if !ok || info.ObjectOf(id) != recv {
				return false, false
			}
			return sl.Low == nil && sl.High == nil && sl.Max == nil, true
		}
		var problems []string
		decoded, encoded := false, false
		usesHexDecode := false
		// the work handed to a function of the package with the whole receiver (decodeFixedHex(p[:], text)): that
		// function is read with its slice parameter standing for the receiver, and 2*len(dst) for 2*N
		body := fd.Body
		var dstParam types.Object
		ast.Inspect(fd.Body, func(k ast.Node) bool {
			call, ok := k.(*ast.CallExpr)
			if !ok || dstParam != nil {
				return true
			}
			f := calleeFunc(info, call)
			if f == nil || f.Pkg() != pk.Types {
				return true
			}
			for ai, a := range call.Args {
				if whole, of := wholeRecv(a); of && whole {
					if hd := declOfFunc(pk, f); hd != nil && hd.Body != nil && hd.Recv == nil {
						i := 0
						for _, fl := range hd.Type.Params.List {
							for _, nm := range fl.Names {
								if i == ai {
									dstParam = info.Defs[nm]
									body = hd.Body
								}
								i++
							}
						}
					}
				}
			}
			return true
		})
		if dstParam != nil {
			inner := wholeRecv
			wholeRecv = func(e ast.Expr) (bool, bool) {
				if id, ok := ast.Unparen(e).(*ast.Ident); ok && info.ObjectOf(id) == dstParam {
					return true, true
				}
				if sl, ok := ast.Unparen(e).(*ast.SliceExpr); ok {
					if id, ok := ast.Unparen(sl.X).(*ast.Ident); ok && info.ObjectOf(id) == dstParam {
						return sl.Low == nil && sl.High == nil && sl.Max == nil, true
					}
				}
				return inner(e)
			}
		}
		ast.Inspect(body, func(k ast.Node) bool {
			call, ok := k.(*ast.CallExpr)
			if !ok {
				return true
			}
			f := calleeFunc(info, call)
			if f == nil || f.Pkg() == nil {
				return true
			}
			path, name := f.Pkg().Path(), f.Name()
			switch {
			case path == "encoding/hex" && name == "Decode" && len(call.Args) == 2,
				strings.HasSuffix(path, "ztyp/conv") && name == "FixedBytesUnmarshalText" && len(call.Args) == 2:
				if whole, of := wholeRecv(call.Args[0]); of {
					decoded = true
					if name == "Decode" {
						usesHexDecode = true
					}
					if !whole {
						problems = append(problems, "decodes into "+types.ExprString(call.Args[0])+", not the whole value")
					}
				}
			case path == "encoding/hex" && (name == "EncodeToString" || name == "Encode"),
				strings.HasSuffix(path, "ztyp/conv") && name == "BytesMarshalText":
				for _, a := range call.Args {
					if whole, of := wholeRecv(a); of {
						encoded = true
						if !whole {
							problems = append(problems, "encodes "+types.ExprString(a)+", not the whole value")
						}
					}
				}
			case (path == "strings" || path == "bytes") && (name == "Trim" || name == "TrimLeft" || name == "TrimRight" || name == "TrimFunc" || name == "TrimLeftFunc"):
				problems = append(problems, path+"."+name+" removes any run of the characters of its cut-set, not a prefix: digits of the value that are in the set go with it")
			}
			return true
		})
		if fd.Name.Name == "MarshalText" {
			switch {
			case len(problems) > 0:
				c.bad(key, fd.Pos(), "%s", strings.Join(problems, "; "))
			case encoded:
				c.ok(key, fd.Pos(), "encodes the whole %d-byte value", n)
			default:
				c.unm(key, fd.Pos(), "no hex encoding of the receiver found")
			}
			return
		}
		if usesHexDecode {
			// the length test: len(text) against a constant, which must be 2*N
			found := false
			ast.Inspect(body, func(k ast.Node) bool {
				be, ok := k.(*ast.BinaryExpr)
				if !ok {
					return true
				}
				switch be.Op {
				case token.EQL, token.NEQ, token.LSS, token.GTR, token.LEQ, token.GEQ:
				default:
					return true
				}
				// in a helper: len(text) against 2*len(dst)
				if dstParam != nil && (be.Op == token.EQL || be.Op == token.NEQ) {
					hdefs := singleDefs(info, body)
					l, okL := exprPoly(info, be.X, hdefs, nil, 0)
					r, okR := exprPoly(info, be.Y, hdefs, nil, 0)
					if okL && okR {
						d := polyAdd(l, r, -1)
						want := "len(" + dstParam.Name() + ")"
						if len(d) == 2 {
							var other string
							for a := range d {
								if a != want {
									other = a
								}
							}
							if strings.HasPrefix(other, "len(") && d[want] != 0 {
								found = true
								if !(d[want] == -2*d[other]) {
									problems = append(problems, "the text length is tested with `"+types.ExprString(be)+"`, a value of n bytes has exactly 2n hex digits")
								}
								return true
							}
						}
					}
				}
				for _, pair := range [][2]ast.Expr{{be.X, be.Y}, {be.Y, be.X}} {
					call, ok := ast.Unparen(pair[0]).(*ast.CallExpr)
					if !ok {
						continue
					}
					if id, ok := call.Fun.(*ast.Ident); !ok || id.Name != "len" || len(call.Args) != 1 {
						continue
					}
					if _, isSlice := info.TypeOf(call.Args[0]).Underlying().(*types.Slice); !isSlice {
						continue
					}
					tv, ok := info.Types[pair[1]]
					if !ok || tv.Value == nil {
						continue
					}
					kv, okK := constantInt(tv)
					if !okK || (kv <= 2 && be.Op != token.NEQ && be.Op != token.EQL) {
						continue // the prefix test (len(text) >= 2)
					}
					found = true
					if kv != 2*n || (be.Op != token.NEQ && be.Op != token.EQL) {
						problems = append(problems, "the text length is tested with `"+types.ExprString(be)+"`, a "+itoa(n)+"-byte value has exactly "+itoa(2*n)+" hex digits")
					}
				}
				return true
			})
			if !found {
				problems = append(problems, "no test of the text length against "+itoa(2*n)+" before hex.Decode (a shorter text leaves the tail of the value as it was)")
			}
		}
		// a manual prefix strip: text[k:] with k == 2, under a test of the first two characters
		ast.Inspect(body, func(k ast.Node) bool {
			as, ok := k.(*ast.AssignStmt)
			if !ok || len(as.Lhs) != 1 || len(as.Rhs) != 1 {
				return true
			}
			sl, ok := ast.Unparen(as.Rhs[0]).(*ast.SliceExpr)
			if !ok || sl.Low == nil || sl.High != nil {
				return true
			}
			if types.ExprString(as.Lhs[0]) != types.ExprString(sl.X) {
				return true
			}
			tv, ok := info.Types[sl.Low]
			if !ok || tv.Value == nil {
				return true
			}
			if kv, okK := constantInt(tv); !okK || kv != 2 {
				problems = append(problems, "the prefix removed is "+types.ExprString(as.Rhs[0])+", `0x` has two characters")
			}
			return true
		})
		switch {
		case len(problems) > 0:
			c.bad(key, fd.Pos(), "%s", strings.Join(uniqStrings(problems), "; "))
		case decoded:
			c.ok(key, fd.Pos(), "decodes %d hex digits into the whole %d-byte value", 2*n, n)
		default:
			c.unm(key, fd.Pos(), "no hex decoding into the receiver found")
		}
	})
}

func init() {
	register(&Rule{Name: "lock.escape", Floor: 0,
		Doc: "a method that takes its structure's lock and gives it up before it returns does not hand out a pointer into the guarded state: no result type reaches (through slices, maps, struct fields) a pointer type *T that the guarded fields also reach and that the package goes on writing after it was built (a value never written again, or one that brings its own mutex/atomic, can be read by anybody), unless the method builds the pointed-to value itself (a literal or new(T) in the method or the helpers it calls). A caller that walks such a pointer afterwards reads the state without the lock while a writer appends to it",
		Run: ruleLockEscape})
}

// ptrTargets: the named struct types T such that t reaches *T through slices, arrays, maps, pointers and struct fields.
func ptrTargets(t types.Type, out map[*types.Named]bool, seen map[types.Type]bool, depth int) {
	if t == nil || seen[t] || depth > 6 {
		return
	}
	seen[t] = true
	switch x := t.(type) {
	case *types.Pointer:
		if nt, ok := x.Elem().(*types.Named); ok {
			if _, isStruct := nt.Underlying().(*types.Struct); isStruct {
				out[nt] = true
			}
		}
		ptrTargets(x.Elem(), out, seen, depth+1)
	case *types.Slice:
		ptrTargets(x.Elem(), out, seen, depth+1)
	case *types.Array:
		ptrTargets(x.Elem(), out, seen, depth+1)
	case *types.Map:
		ptrTargets(x.Key(), out, seen, depth+1)
		ptrTargets(x.Elem(), out, seen, depth+1)
	case *types.Named:
		ptrTargets(x.Underlying(), out, seen, depth+1)
	case *types.Struct:
		for i := 0; i < x.NumFields(); i++ {
			ptrTargets(x.Field(i).Type(), out, seen, depth+1)
		}
	}
}

func ruleLockEscape(c *Ctx) {
	shared := sharedSetup(c)
	n := 0
	for _, s := range shared {
		guarded := map[*types.Named]bool{}
		for i := 0; i < s.st.NumFields(); i++ {
			f := s.st.Field(i)
			if isMutexFieldName(s, f.Name()) {
				continue
			}
			if is, _ := isSyncMutex(f.Type()); is {
				continue
			}
			ptrTargets(f.Type(), guarded, map[types.Type]bool{}, 0)
		}
		if len(guarded) == 0 {
			continue
		}
		info := s.pk.TypesInfo
		// of those, the ones the package goes on writing after they were built (a field stored, appended to, deleted
		// from, through a value that is not a fresh local): a value that is never written again can be read by anybody.
		// A type that brings its own mutex or atomic synchronises itself.
		written := map[*types.Named]bool{}
		for _, file := range s.pk.Syntax {
			for _, d := range file.Decls {
				fd, ok := d.(*ast.FuncDecl)
				if !ok || fd.Body == nil {
					continue
				}
				forEachStore(info, fd.Body, func(sel *ast.SelectorExpr, what string) {
					if what == "address-taken" {
						return
					}
					nt := namedOf(info.TypeOf(sel.X))
					if nt == nil || !guarded[nt] {
						return
					}
					if id, ok := ast.Unparen(sel.X).(*ast.Ident); ok {
						if freshLocals(info, fd, nt)[info.ObjectOf(id)] {
							return
						}
					}
					written[nt] = true
				})
			}
		}
		selfSync := func(nt *types.Named) bool {
			st, ok := nt.Underlying().(*types.Struct)
			if !ok {
				return false
			}
			for i := 0; i < st.NumFields(); i++ {
				if is, _ := isSyncMutex(st.Field(i).Type()); is {
					return true
				}
				if fn := namedOf(st.Field(i).Type()); fn != nil && fn.Obj().Pkg() != nil && (fn.Obj().Pkg().Path() == "sync/atomic" || fn.Obj().Pkg().Path() == "sync") {
					return true
				}
			}
			return false
		}
		for _, mn := range sortedKeys(s.methods) {
			m := s.methods[mn]
			if !m.acquires || m.fd.Type.Results == nil {
				continue
			}
			res := map[*types.Named]bool{}
			for _, f := range m.fd.Type.Results.List {
				ptrTargets(info.TypeOf(f.Type), res, map[types.Type]bool{}, 0)
			}
			for _, nt := range sortedNamed(res) {
				if !guarded[nt] || !written[nt] || selfSync(nt) {
					continue
				}
				n++
				key := s.name + "." + mn + "->*" + nt.Obj().Name()
				// built here: a literal or new(T) of that type in the method (or the functions of the package it calls)
				if buildsOwn(c.P, s.pk, m.fd, nt, 0, map[*ast.FuncDecl]bool{}) {
					c.ok(key, m.fd.Pos(), "the *%s handed out are built by the method itself", nt.Obj().Name())
				} else {
					c.bad(key, m.fd.Pos(), "%s.%s takes the lock, gives it up and returns values through which a *%s of the guarded state can be reached: whoever walks it afterwards reads that state without the lock", s.name, mn, nt.Obj().Name())
				}
			}
		}
	}
	c.ok("zrnt", token.NoPos, "%d results of locking methods could reach guarded pointers by type; each looked at", n)
}

func sortedNamed(m map[*types.Named]bool) []*types.Named {
	var out []*types.Named
	for k := range m {
		out = append(out, k)
	}
	sort.Slice(out, func(i, j int) bool { return out[i].Obj().Name() < out[j].Obj().Name() })
	return out
}

// buildsOwn: fd (or a function of the package it calls, three levels) contains a composite literal or new() of nt.
func buildsOwn(p *Prog, pk *packages.Package, fd *ast.FuncDecl, nt *types.Named, depth int, seen map[*ast.FuncDecl]bool) bool {
	if fd == nil || fd.Body == nil || seen[fd] || depth > 3 {
		return false
	}
	seen[fd] = true
	info := pk.TypesInfo
	found := false
	ast.Inspect(fd.Body, func(k ast.Node) bool {
		if found {
			return false
		}
		switch x := k.(type) {
		case *ast.CompositeLit:
			if t := namedOf(info.TypeOf(x)); t != nil && t.Obj() == nt.Obj() {
				found = true
			}
		case *ast.CallExpr:
			if id, ok := x.Fun.(*ast.Ident); ok && id.Name == "new" && len(x.Args) == 1 {
				if t := namedOf(info.TypeOf(x.Args[0])); t != nil && t.Obj() == nt.Obj() {
					found = true
				}
			}
			if f := calleeFunc(info, x); f != nil && f.Pkg() == pk.Types {
				if buildsOwn(p, pk, declOfFunc(pk, f), nt, depth+1, seen) {
					found = true
				}
			}
		}
		return !found
	})
	return found
}

func init() {
	register(&Rule{Name: "loop.stale", Floor: 0,
		Doc: "a local computed once before a loop from a variable that the loop goes on changing, and read inside the loop after such a change, is a snapshot: it holds what the variable was worth before the first round (withdrawable = exit_end + delay hoisted out of a loop that advances exit_end). Every such snapshot on today's tree is one of the reviewed ones (loopStaleReviewed: the value is meant to be the one from before the loop); a new one is reported",
		Run: ruleLoopStale})
}

// loopStaleReviewed: function -> snapshot locals that are meant to keep the value from before the loop.
var loopStaleReviewed = map[string]map[string]string{}

func ruleLoopStale(c *Ctx) {
	n := 0
	c.P.funcDecls(func(pk *packages.Package, fd *ast.FuncDecl) {
		if fd.Body == nil || !strings.Contains(pk.PkgPath, "/eth2/") {
			return
		}
		info := pk.TypesInfo
		fn := pkgShort(pk.Types) + "." + funcName(fd)
		defs := singleDefs(info, fd.Body)
		parents := parentMap(fd.Body)
		ast.Inspect(fd.Body, func(k ast.Node) bool {
			var body *ast.BlockStmt
			var loop ast.Node
			switch x := k.(type) {
			case *ast.ForStmt:
				body, loop = x.Body, x
			case *ast.RangeStmt:
				body, loop = x.Body, x
			}
			if body == nil {
				return true
			}
			// variables the loop assigns (plain locals and parameters; not the loop's own counters)
			changed := map[types.Object]token.Pos{}
			ast.Inspect(body, func(m ast.Node) bool {
				switch x := m.(type) {
				case *ast.FuncLit:
					return false
				case *ast.AssignStmt:
					if x.Tok == token.DEFINE {
						return true
					}
					for _, l := range x.Lhs {
						if id, ok := ast.Unparen(l).(*ast.Ident); ok {
							if o, ok := info.ObjectOf(id).(*types.Var); ok && !(o.Pos() >= loop.Pos() && o.Pos() <= loop.End()) {
								if _, seen := changed[o]; !seen {
									changed[o] = x.Pos()
								}
							}
						}
					}
				case *ast.IncDecStmt:
					if id, ok := ast.Unparen(x.X).(*ast.Ident); ok {
						if o, ok := info.ObjectOf(id).(*types.Var); ok && !(o.Pos() >= loop.Pos() && o.Pos() <= loop.End()) {
							if _, seen := changed[o]; !seen {
								changed[o] = x.Pos()
							}
						}
					}
				}
				return true
			})
			if len(changed) == 0 {
				return true
			}
			// locals defined once, before the loop, from an expression over such a variable, and read in the loop
			reported := map[types.Object]bool{}
			ast.Inspect(body, func(m ast.Node) bool {
				if _, ok := m.(*ast.FuncLit); ok {
					return false
				}
				id, ok := m.(*ast.Ident)
				if !ok {
					return true
				}
				l, ok := info.Uses[id].(*types.Var)
				if !ok || reported[l] {
					return true
				}
				d, ok := defs[l]
				if !ok || d.rhs == nil || d.pos != 0 || !(d.rhs.End() < loop.Pos()) {
					return true
				}
				// the snapshot is arithmetic over the variable (a plain copy `old := v` says what it is)
				if _, plain := ast.Unparen(stripConv(info, d.rhs)).(*ast.Ident); plain || !hasArith(d.rhs) {
					return true
				}
				// the definition stands in a block that encloses the loop
				var over types.Object
				ast.Inspect(d.rhs, func(q ast.Node) bool {
					if qid, ok := q.(*ast.Ident); ok {
						if o := info.ObjectOf(qid); o != nil {
							if _, isChanged := changed[o]; isChanged && over == nil {
								over = o
							}
						}
					}
					return true
				})
				if over == nil {
					return true
				}
				reported[l] = true
				n++
				key := fn + ":" + l.Name() + "<-" + over.Name()
				if why, ok := loopStaleReviewed[fn][l.Name()]; ok {
					c.ok(key, id.Pos(), "reviewed: %s", why)
				} else {
					c.bad(key, id.Pos(), "%s is computed once before the loop from %s (`%s`), the loop changes %s and goes on reading %s: from the second round on it holds a value that no longer follows %s", l.Name(), over.Name(), truncate(types.ExprString(d.rhs), 60), over.Name(), l.Name(), over.Name())
				}
				_ = parents
				return true
			})
			return true
		})
	})
	c.ok("zrnt", token.NoPos, "%d locals are computed before a loop from a variable the loop changes and read inside it; all reviewed", n)
}
