package main

import (
	"fmt"
	"go/ast"
	"go/token"
	"go/types"
	"sort"
	"strings"

	"golang.org/x/tools/go/cfg"
	"golang.org/x/tools/go/packages"
)

func init() {
	register(&Rule{Name: "link.kind", Floor: 6,
		Doc: "the proto-array has two parent links per node: walks of the chain (CanonicalChain, CanonAtSlot, inSubtree) step through TransitionParent (every slot node and block node in order), weight propagation and best-child maintenance (ApplyScoreChanges, updateConnections) use ForkchoiceParent. A walk that steps through ForkchoiceParent skips the empty-slot nodes between two blocks; propagating along TransitionParent counts a block's weight under the wrong node",
		Run: ruleLinkKind})
	register(&Rule{Name: "insert.together", Floor: 1,
		Doc: "ProcessBlock records a block root in blockSlots only on paths that also create its node and index entry: after the write to blockSlots no path returns before indices is written (every reader relies on `blockSlots[r] = s  =>  indices[{r, s}] exists`); a refusal in between leaves a root that answers GetSlot/ClosestToSlot although it was never inserted and blocks its later re-delivery",
		Run: ruleInsertTogether})
	register(&Rule{Name: "finality.pairing", Floor: 1,
		Doc: "process_justification_and_finalization: each finality rule tests the epoch of one of the two old justified checkpoints against the current epoch and finalizes THAT checkpoint (`oldX.Epoch + k == currentEpoch` => `toFinalize = &oldX`); the four rules are bits[1:4]/prev+3, bits[1:3]/prev+2, bits[0:3]/cur+2, bits[0:2]/cur+1 (rules written some other way — a table walked by a loop — are reported as undecided, not as a deviation)",
		Run: ruleFinalityPairing})
	register(&Rule{Name: "make.append", Floor: 20,
		Doc: "a slice created with make(T, n) (length n, not zero) is filled by index; a slice that is filled with append is created with length 0 (make(T, 0, n)). make(T, n) followed only by appends yields n zero values in front of the data",
		Run: ruleMakeAppend})
	register(&Rule{Name: "sibling.index", Floor: 60,
		Doc: "per-fork copies of a BeaconStateView method address the same fields: the sequence of index constants passed to Get/Set (by name: _stateSlot, _nextSyncCommittee, ...) equals that of the nearest predecessor fork's copy. (view.index decides accessors named after their field; this covers methods such as RotateSyncCommittee whose name does not say which field they read)",
		Run: ruleSiblingIndex})
	register(&Rule{Name: "epc.source", Floor: 3,
		Doc: "the cached sync committees of the epochs context are hydrated from the state field of the same name (epc.CurrentSyncCommittee <- state.CurrentSyncCommittee(), epc.NextSyncCommittee <- state.NextSyncCommittee()), or moved from epc.NextSyncCommittee on rotation; values returned by the context's committee getters are shared cache entries and are never handed to a function that writes through its slice parameter, itself or by handing it on to one that does",
		Run: ruleEpcSource})
}

// ---------------------------------------------------------------------------------------------------------------

func ruleLinkKind(c *Ctx) {
	pk := c.P.Pkg("eth2/forkchoice/proto")
	if pk == nil {
		anchorFail("link.kind: package eth2/forkchoice/proto not loaded")
	}
	info := pk.TypesInfo
	want := map[string]string{
		"ProtoArray.CanonicalChain": "TransitionParent", "ProtoArray.CanonAtSlot": "TransitionParent", "ProtoArray.inSubtree": "TransitionParent",
		"ProtoArray.ApplyScoreChanges": "ForkchoiceParent", "ProtoArray.updateConnections": "ForkchoiceParent",
	}
	seen := map[string]int{}
	// a function answers for the unexported helpers of the package it calls (two levels), unless a helper has a
	// link of its own to answer for
	decls := map[string]*ast.FuncDecl{}
	c.P.funcDecls(func(p *packages.Package, fd *ast.FuncDecl) {
		if p == pk && fd.Body != nil {
			decls["proto."+funcName(fd)] = fd
		}
	})
	_, closure := helperClosure(c.P)
	type unit struct {
		owner string
		fd    *ast.FuncDecl
	}
	var units []unit
	for _, fn := range sortedKeys(want) {
		fd := decls["proto."+fn]
		if fd == nil {
			continue
		}
		units = append(units, unit{fn, fd})
		for _, h := range closure["proto."+fn] {
			if _, own := want[strings.TrimPrefix(h, "proto.")]; own {
				continue
			}
			if hd := decls[h]; hd != nil {
				units = append(units, unit{fn, hd})
			}
		}
	}
	for _, u := range units {
		fd := u.fd
		w := want[u.owner]
		fname := "proto." + u.owner
		ownerName := u.owner
		ast.Inspect(fd.Body, func(n ast.Node) bool {
			sel, ok := n.(*ast.SelectorExpr)
			if !ok || (sel.Sel.Name != "TransitionParent" && sel.Sel.Name != "ForkchoiceParent") {
				return true
			}
			if nt := namedOf(info.TypeOf(sel.X)); nt == nil || nt.Obj().Name() != "ProtoNode" {
				return true
			}
			seen[ownerName]++
			key := fmt.Sprintf("%s@%s#%d", fname, w, seen[ownerName])
			if sel.Sel.Name == w {
				c.ok(key, sel.Pos(), "uses %s", w)
			} else {
				c.bad(key, sel.Pos(), "%s follows %s where it must follow %s: %s", fname, sel.Sel.Name, w, map[string]string{
					"TransitionParent": "a chain walk through ForkchoiceParent jumps from a block straight to its parent block and never visits the empty-slot nodes in between",
					"ForkchoiceParent": "weights and best-child links are defined over the fork-choice parent (the node the block builds on), not the previous slot node",
				}[w])
			}
			return true
		})
	}
	for fn := range want {
		if seen[fn] == 0 {
			anchorFail("link.kind: %s uses neither parent link (function renamed or rewritten?)", fn)
		}
	}
}

// ---------------------------------------------------------------------------------------------------------------

func ruleInsertTogether(c *Ctx) {
	pk, top := c.P.mustFunc("eth2/forkchoice/proto", "ProtoArray.ProcessBlock")
	info := pk.TypesInfo
	// ProcessBlock and the unexported methods of the array it calls: whichever of them writes blockSlots is judged
	cands := []*ast.FuncDecl{top}
	{
		_, closure := helperClosure(c.P)
		for _, h := range closure["proto.ProtoArray.ProcessBlock"] {
			c.P.funcDecls(func(p2 *packages.Package, f2 *ast.FuncDecl) {
				if p2 == pk && f2.Body != nil && "proto."+funcName(f2) == h && f2.Recv != nil && len(f2.Recv.List) == 1 && len(f2.Recv.List[0].Names) == 1 {
					cands = append(cands, f2)
				}
			})
		}
	}
	found := false
	for _, fd := range cands {
		recv := info.Defs[fd.Recv.List[0].Names[0]]
		g := cfg.New(fd.Body, func(*ast.CallExpr) bool { return true })
		writes := func(n ast.Node, field string) bool {
			as, ok := n.(*ast.AssignStmt)
			if !ok || len(as.Lhs) != 1 {
				return false
			}
			ix, ok := ast.Unparen(as.Lhs[0]).(*ast.IndexExpr)
			return ok && isRecvField(info, ix.X, recv, field)
		}
		for _, b := range g.Blocks {
			if !b.Live {
				continue
			}
			for i, n := range b.Nodes {
				if !writes(n, "blockSlots") {
					continue
				}
				found = true
				// every path from here to an exit passes a write to indices; also accept an indices write earlier in the same block
				done := false
				for _, m := range b.Nodes[:i] {
					if writes(m, "indices") {
						done = true
					}
				}
				for _, m := range b.Nodes[i+1:] {
					if writes(m, "indices") {
						done = true
					}
				}
				var leak *cfg.Block
				if !done {
					seen := map[*cfg.Block]bool{}
					var walk func(x *cfg.Block)
					walk = func(x *cfg.Block) {
						if seen[x] || leak != nil {
							return
						}
						seen[x] = true
						for _, m := range x.Nodes {
							if writes(m, "indices") {
								return
							}
						}
						if len(x.Succs) == 0 {
							leak = x
							return
						}
						for _, s := range x.Succs {
							walk(s)
						}
					}
					for _, s := range b.Succs {
						walk(s)
					}
					if len(b.Succs) == 0 {
						leak = b
					}
				}
				if leak != nil {
					pos := n.Pos()
					if len(leak.Nodes) > 0 {
						pos = leak.Nodes[len(leak.Nodes)-1].Pos()
					}
					c.bad("ProcessBlock.blockSlots", pos, "ProcessBlock records the root in blockSlots and can then return (here) without creating the node and its indices entry: the refused block's root answers GetSlot/ClosestToSlot as if inserted, and its later re-delivery is taken for a known block")
				} else {
					c.ok("ProcessBlock.blockSlots", n.Pos(), "the root is recorded only together with its node and index entry")
				}
			}
		}
	}
	if !found {
		anchorFail("insert.together: ProcessBlock no longer writes blockSlots")
	}
}

// ---------------------------------------------------------------------------------------------------------------

func ruleFinalityPairing(c *Ctx) {
	pk, fd := c.P.mustFunc("eth2/beacon/phase0", "ProcessEpochJustification")
	info := pk.TypesInfo
	n := 0
	var offsets []string
	ast.Inspect(fd.Body, func(nd ast.Node) bool {
		is, ok := nd.(*ast.IfStmt)
		if !ok {
			return true
		}
		// find `X.Epoch + k == currentEpoch` among the conjuncts, in any spelling: the difference of the two sides is
		// +-(X.Epoch + k - <one other operand>)
		who := ""
		var k int64 = -1
		for _, leaf := range flattenBool(is.Cond, token.LAND) {
			be, ok := ast.Unparen(leaf).(*ast.BinaryExpr)
			if !ok || be.Op != token.EQL {
				continue
			}
			l, ok1 := exprPoly(info, be.X, nil, nil, 0)
			r, ok2 := exprPoly(info, be.Y, nil, nil, 0)
			if !ok1 || !ok2 {
				continue
			}
			p := polyAdd(l, r, -1)
			var ep, other string
			n := 0
			for a := range p {
				if a == "" {
					continue
				}
				n++
				if strings.HasSuffix(a, ".Epoch") && strings.Count(a, ".") == 1 {
					ep = a
				} else {
					other = a
				}
			}
			if n != 2 || ep == "" || other == "" || p[ep]*p[other] != -1 {
				continue
			}
			kk := p[""] * p[ep]
			if kk >= 0 {
				who, k = strings.TrimSuffix(ep, ".Epoch"), kk
			}
		}
		if who == "" {
			return true
		}
		// the body assigns toFinalize = &Y
		for _, st := range is.Body.List {
			as, ok := st.(*ast.AssignStmt)
			if !ok || len(as.Lhs) != 1 || len(as.Rhs) != 1 {
				continue
			}
			ue, ok := ast.Unparen(as.Rhs[0]).(*ast.UnaryExpr)
			if !ok || ue.Op != token.AND {
				continue
			}
			y, ok := ast.Unparen(ue.X).(*ast.Ident)
			if !ok {
				continue
			}
			n++
			key := fmt.Sprintf("ProcessEpochJustification.rule[%s+%d]", who, k)
			offsets = append(offsets, fmt.Sprintf("%s+%d", who, k))
			if y.Name == who {
				c.ok(key, is.Pos(), "tests %s.Epoch and finalizes %s", who, y.Name)
			} else {
				c.bad(key, as.Pos(), "this finality rule tests `%s.Epoch + %d == current_epoch` but finalizes %s: the spec finalizes the checkpoint whose epoch it tested (a newer checkpoint that no justified successor used as source would be finalized)", who, k, y.Name)
			}
		}
		return true
	})
	switch {
	case n == 4:
		c.ok("ProcessEpochJustification.rules", fd.Pos(), "the spec's four finality rules: %v", offsets)
	case n == 0:
		// written some other way (a table of rules walked by a loop): nothing here to pair
		c.unm("ProcessEpochJustification.rules", fd.Pos(), "the finality rules are not written as tests of `<old checkpoint>.Epoch + k == current epoch` that this rule can pair with what they finalize")
	default:
		c.bad("ProcessEpochJustification.rules", fd.Pos(), "expected the spec's four finality rules (prev+3, prev+2, cur+2, cur+1), found %d: %v", n, offsets)
	}
}

// ---------------------------------------------------------------------------------------------------------------

func ruleMakeAppend(c *Ctx) {
	n := 0
	c.P.funcDecls(func(pk *packages.Package, fd *ast.FuncDecl) {
		if fd.Body == nil || !strings.Contains(pk.PkgPath, "/eth2/") {
			return
		}
		info := pk.TypesInfo
		fname := pkgShort(pk.Types) + "." + funcName(fd)
		ast.Inspect(fd.Body, func(nd ast.Node) bool {
			as, ok := nd.(*ast.AssignStmt)
			if !ok || len(as.Lhs) != 1 || len(as.Rhs) != 1 {
				return true
			}
			id, ok := as.Lhs[0].(*ast.Ident)
			if !ok {
				return true
			}
			call, ok := ast.Unparen(as.Rhs[0]).(*ast.CallExpr)
			if !ok {
				return true
			}
			fid, ok := call.Fun.(*ast.Ident)
			if !ok || fid.Name != "make" || len(call.Args) < 2 {
				return true
			}
			t0 := info.TypeOf(call.Args[0])
			if t0 == nil {
				return true
			}
			if _, isSlice := t0.Underlying().(*types.Slice); !isSlice {
				return true
			}
			obj := info.ObjectOf(id)
			if obj == nil {
				return true
			}
			n++
			lenZero := false
			if tv, ok := info.Types[call.Args[1]]; ok && tv.Value != nil {
				if v, ok := constantInt(tv); ok && v == 0 {
					lenZero = true
				}
			}
			// how is it filled afterwards?
			appended, indexed := false, false
			ast.Inspect(fd.Body, func(m ast.Node) bool {
				switch x := m.(type) {
				case *ast.AssignStmt:
					for i, l := range x.Lhs {
						if ix, ok := ast.Unparen(l).(*ast.IndexExpr); ok {
							if lid, ok := ast.Unparen(ix.X).(*ast.Ident); ok && info.ObjectOf(lid) == obj {
								indexed = true
							}
						}
						if lid, ok := ast.Unparen(l).(*ast.Ident); ok && info.ObjectOf(lid) == obj && i < len(x.Rhs) && x.Pos() > as.Pos() {
							if cl, ok := ast.Unparen(x.Rhs[i]).(*ast.CallExpr); ok {
								if f, ok := cl.Fun.(*ast.Ident); ok && f.Name == "append" && len(cl.Args) > 0 {
									if a0, ok := ast.Unparen(cl.Args[0]).(*ast.Ident); ok && info.ObjectOf(a0) == obj {
										appended = true
									}
								}
							}
						}
					}
				case *ast.CallExpr:
					// copy(x, ...), x passed on, &x[i], x[i].field = ... all count as "filled by position"
					if f, ok := x.Fun.(*ast.Ident); ok && f.Name == "copy" && len(x.Args) == 2 {
						if mentionsObj(info, x.Args[0], obj) {
							indexed = true
						}
					}
				case *ast.UnaryExpr:
					if x.Op == token.AND {
						if ix, ok := ast.Unparen(x.X).(*ast.IndexExpr); ok && mentionsObj(info, ix.X, obj) {
							indexed = true
						}
					}
				case *ast.RangeStmt:
					if rid, ok := ast.Unparen(x.X).(*ast.Ident); ok && info.ObjectOf(rid) == obj {
						indexed = true // ranged over with its zero values: deliberate
					}
				}
				return true
			})
			key := fmt.Sprintf("%s:%s", fname, id.Name)
			switch {
			case !lenZero && appended && !indexed:
				c.bad(key, as.Pos(), "%s creates %s with make(%s, %s) — length, not capacity — and then only appends to it: the result starts with that many zero values followed by the data", fname, id.Name, types.ExprString(call.Args[0]), types.ExprString(call.Args[1]))
			default:
				c.ok(key, as.Pos(), "length and fill style agree")
			}
			return true
		})
	})
	c.stat("make_sites", n)
}

// ---------------------------------------------------------------------------------------------------------------

// siblingIndexDeltas: the pairs of per-fork copies that legitimately address different fields (helpers read in place),
// each reviewed against the spec's per-fork changes.
var siblingIndexDeltas = map[string]string{
	"altair.BeaconStateView.AddValidator~phase0":     "+Get(_inactivityScores) +Get(_stateCurrentEpochParticipation) +Get(_statePreviousEpochParticipation)", // altair: a new validator also gets participation flags and an inactivity score
	"altair.BeaconStateView.ProcessBlock~phase0":     "-Get(_stateSlot)",                                                                                     // phase0 reads the slot from the state, later forks take it from the block envelope
	"bellatrix.BeaconStateView.ProcessBlock~altair":  "+Get(_latestExecutionPayloadHeader)",                                                                  // bellatrix: is_execution_enabled looks at the latest payload header
	"capella.BeaconStateView.ProcessBlock~bellatrix": "-Get(_latestExecutionPayloadHeader)",                                                                  // capella: the payload is always processed
	"electra.BeaconStateView.ProcessEpoch~deneb":     "-Get(_stateValidators)",                                                                               // electra's epoch processing is a stub in this code base
}

func ruleSiblingIndex(c *Ctx) {
	type seq struct {
		names []string
		pos   token.Pos
	}
	fam := map[string]map[string]seq{}
	isFork := map[string]bool{}
	for _, f := range forkPkgs {
		isFork[f] = true
	}
	// every method is read with the same-package methods and functions it calls written out in place (a typed getter and
	// its inlined body, a helper taking the field index as a parameter, a loop over a written-out table of fields are all
	// the same accesses); the field is the constant the index argument resolves to through locals and parameters
	c.P.funcDecls(func(pk *packages.Package, fd *ast.FuncDecl) {
		if fd.Body == nil || !isFork[pkgShort(pk.Types)] || recvTypeName(fd) != "BeaconStateView" {
			return
		}
		info := pk.TypesInfo
		var names []string
		top := newInlEnv(info, fd.Body, nil, nil, nil, nil)
		n := 0
		inlMaxDepth = 6
		defer func() { inlMaxDepth = 3 }()
		walkInlined(c.P, pk, top, 0, map[*ast.BlockStmt]bool{}, &n, func(st inlSite) {
			if (st.f.Name() != "Get" && st.f.Name() != "Set") || len(st.call.Args) < 1 {
				return
			}
			sel, isSel := ast.Unparen(st.call.Fun).(*ast.SelectorExpr)
			if !isSel {
				// called through a local that holds the method value (store := state.Set)
				if id, ok := ast.Unparen(st.call.Fun).(*ast.Ident); ok {
					if lv, ok := localFuncValues[st.env.info.ObjectOf(id)]; ok && lv.sel != nil {
						sel, isSel = lv.sel, true
					}
				}
			}
			if !isSel {
				return
			}
			// only what the method does to its own receiver, directly or through other methods called on that same
			// receiver (what package functions do with a state they are handed is theirs to answer for)
			var recvObj types.Object
			if fd.Recv != nil && len(fd.Recv.List) == 1 && len(fd.Recv.List[0].Names) == 1 {
				recvObj = info.Defs[fd.Recv.List[0].Names[0]]
			}
			// (the state the access is made on is, through every frame, this method's own receiver)
			root := sel.X
			for {
				if in, ok := ast.Unparen(root).(*ast.SelectorExpr); ok {
					root = in.X
					continue
				}
				break
			}
			if recvObj == nil || st.env.objOf(root) != recvObj {
				return
			}
			x, fr := st.env.resolve(st.call.Args[0])
			if id, ok := x.(*ast.Ident); ok {
				if _, isConst := fr.info.ObjectOf(id).(*types.Const); isConst {
					names = append(names, st.f.Name()+"("+id.Name+")")
				}
			}
		})
		// (neither the order in which independent fields are read nor how often one is read is part of the agreement)
		sort.Strings(names)
		{
			var uniq []string
			for i, x := range names {
				if i == 0 || x != names[i-1] {
					uniq = append(uniq, x)
				}
			}
			names = uniq
		}
		name := funcName(fd)
		if fam[name] == nil {
			fam[name] = map[string]seq{}
		}
		fam[name][pkgShort(pk.Types)] = seq{names, fd.Pos()}
	})
	for _, name := range sortedKeys(fam) {
		m := fam[name]
		prev := ""
		for _, f := range forkPkgs {
			s, ok := m[f]
			if !ok {
				continue
			}
			if prev == "" {
				prev = f
				continue
			}
			key := f + "." + name + "~" + prev
			a, b := strings.Join(m[prev].names, " "), strings.Join(s.names, " ")
			// what this copy has more (+) and less (-) than its predecessor
			cnt := map[string]int{}
			for _, x := range s.names {
				cnt[x]++
			}
			for _, x := range m[prev].names {
				cnt[x]--
			}
			var delta []string
			for _, x := range sortedKeys(cnt) {
				for k := 0; k < cnt[x]; k++ {
					delta = append(delta, "+"+x)
				}
				for k := 0; k < -cnt[x]; k++ {
					delta = append(delta, "-"+x)
				}
			}
			if want, isDelta := siblingIndexDeltas[key]; isDelta {
				if strings.Join(delta, " ") == want {
					c.ok(key, s.pos, "differs from %s's copy by the reviewed fork delta %s", prev, want)
				} else {
					c.bad(key, s.pos, "%s.%s differs from its copy in %s by [%s]; the reviewed fork delta for this pair is [%s]", f, name, prev, strings.Join(delta, " "), want)
				}
				prev = f
				continue
			}
			if a == b {
				c.ok(key, s.pos, "same fields as %s's copy (%d accesses)", prev, len(s.names))
			} else {
				c.bad(key, s.pos, "%s.%s addresses [%s] where its copy in %s addresses [%s]: per-fork copies of a state method read and write the same fields", f, name, b, prev, a)
			}
			prev = f
		}
	}
}

// ---------------------------------------------------------------------------------------------------------------

func ruleEpcSource(c *Ctx) {
	pk := c.P.Pkg("eth2/beacon/common")
	if pk == nil {
		anchorFail("epc.source: package common not loaded")
	}
	info := pk.TypesInfo
	n := 0
	// (a) hydration sources
	c.P.funcDecls(func(p *packages.Package, fd *ast.FuncDecl) {
		if p != pk || fd.Body == nil {
			return
		}
		fname := "common." + funcName(fd)
		defs := singleDefs(info, fd.Body)
		ast.Inspect(fd.Body, func(nd ast.Node) bool {
			as, ok := nd.(*ast.AssignStmt)
			if !ok || len(as.Lhs) < 1 || len(as.Rhs) != 1 {
				return true
			}
			sel, ok := ast.Unparen(as.Lhs[0]).(*ast.SelectorExpr)
			if !ok || (sel.Sel.Name != "CurrentSyncCommittee" && sel.Sel.Name != "NextSyncCommittee") {
				return true
			}
			if nt := namedOf(info.TypeOf(sel.X)); nt == nil || nt.Obj().Name() != "EpochsContext" {
				return true
			}
			n++
			key := fmt.Sprintf("%s:%s#%d", fname, sel.Sel.Name, n)
			rhs := ast.Unparen(as.Rhs[0])
			// moved from the other cached field (rotation) or nil
			if rs, ok := rhs.(*ast.SelectorExpr); ok {
				if rs.Sel.Name == "NextSyncCommittee" && sel.Sel.Name == "CurrentSyncCommittee" {
					c.ok(key, as.Pos(), "rotation: current <- next")
					return true
				}
			}
			if id, ok := rhs.(*ast.Ident); ok && id.Name == "nil" {
				c.ok(key, as.Pos(), "cleared")
				return true
			}
			// hydrate(x) where x derives from state.<Name>()
			src := ""
			ast.Inspect(rhs, func(k ast.Node) bool {
				id, ok := k.(*ast.Ident)
				if !ok {
					return true
				}
				e := resolveLocal(info, id, defs, 3)
				if d, ok := defs[info.ObjectOf(id)]; ok && d.rhs != nil {
					e = ast.Unparen(d.rhs)
				}
				if call, ok := e.(*ast.CallExpr); ok {
					if f := calleeFunc(info, call); f != nil && (f.Name() == "CurrentSyncCommittee" || f.Name() == "NextSyncCommittee") {
						src = f.Name()
					}
				}
				return true
			})
			switch {
			case src == "":
				c.unm(key, as.Pos(), "source of the hydrated committee not recognised")
			case src != sel.Sel.Name:
				c.bad(key, as.Pos(), "%s fills epc.%s from state.%s(): a context built from this state reports the wrong committee from the next period boundary on (it agrees only while current == next)", fname, sel.Sel.Name, src)
			default:
				c.ok(key, as.Pos(), "epc.%s <- state.%s()", sel.Sel.Name, src)
			}
			return true
		})
	})
	if n < 3 {
		anchorFail("epc.source: expected >=3 assignments to the cached sync committees, found %d", n)
	}
	// (b) cached committees are not handed to slice-mutating functions
	mutators := map[*types.Func]bool{}
	c.P.funcDecls(func(p *packages.Package, fd *ast.FuncDecl) {
		if fd.Body == nil || fd.Type.Params == nil {
			return
		}
		inf := p.TypesInfo
		f, _ := inf.Defs[fd.Name].(*types.Func)
		if f == nil {
			return
		}
		for _, fld := range fd.Type.Params.List {
			ft := inf.TypeOf(fld.Type)
			if ft == nil {
				continue
			}
			if _, isSlice := ft.Underlying().(*types.Slice); !isSlice {
				continue
			}
			for _, nm := range fld.Names {
				pobj := inf.Defs[nm]
				// the parameter and the locals that are (on some path) just another name for it: x := p, x = p
				alias := map[types.Object]bool{pobj: true}
				for round := 0; round < 2; round++ {
					ast.Inspect(fd.Body, func(k ast.Node) bool {
						if as, ok := k.(*ast.AssignStmt); ok && len(as.Lhs) == len(as.Rhs) {
							for i, r := range as.Rhs {
								if rid, ok := ast.Unparen(r).(*ast.Ident); ok && alias[inf.ObjectOf(rid)] {
									if lid, ok := ast.Unparen(as.Lhs[i]).(*ast.Ident); ok && inf.ObjectOf(lid) != nil {
										alias[inf.ObjectOf(lid)] = true
									}
								}
							}
						}
						return true
					})
				}
				isP := func(o types.Object) bool { return alias[o] }
				var obj types.Object = pobj
				_ = obj
				ast.Inspect(fd.Body, func(k ast.Node) bool {
					switch x := k.(type) {
					case *ast.CallExpr:
						// sorting (or any sort-package / slices-package in-place routine) the parameter or an alias of it
						if cf := calleeFunc(inf, x); cf != nil && cf.Pkg() != nil && (cf.Pkg().Path() == "sort" || cf.Pkg().Path() == "slices") && len(x.Args) >= 1 {
							switch cf.Name() {
							case "Slice", "SliceStable", "Sort", "Stable", "SortFunc", "SortStableFunc", "Reverse":
								arg := ast.Unparen(x.Args[0])
								if cv, ok := arg.(*ast.CallExpr); ok && len(cv.Args) == 1 {
									arg = ast.Unparen(cv.Args[0]) // sort.Sort(ValidatorSet(p))
								}
								if id, ok := arg.(*ast.Ident); ok && isP(inf.ObjectOf(id)) {
									mutators[f] = true
								}
							}
						}
					case *ast.AssignStmt:
						for _, l := range x.Lhs {
							if ix, ok := ast.Unparen(l).(*ast.IndexExpr); ok {
								if id, ok := ast.Unparen(ix.X).(*ast.Ident); ok && isP(inf.ObjectOf(id)) {
									mutators[f] = true
								}
							}
						}
						// out := p[:0]; out = append(out, ...)  (in-place filter)
						for i, r := range x.Rhs {
							if se, ok := ast.Unparen(r).(*ast.SliceExpr); ok && i < len(x.Lhs) {
								if id, ok := ast.Unparen(se.X).(*ast.Ident); ok && isP(inf.ObjectOf(id)) {
									if se.High != nil {
										if tv, ok := inf.Types[se.High]; ok && tv.Value != nil {
											if hv, ok := constantInt(tv); ok && hv == 0 {
												mutators[f] = true
											}
										}
									}
								}
							}
						}
					}
					return true
				})
			}
		}
	})
	// a function that hands its slice parameter on to one that writes through it writes through it as well
	for round := 0; round < 3; round++ {
		c.P.funcDecls(func(p *packages.Package, fd *ast.FuncDecl) {
			if fd.Body == nil || fd.Type.Params == nil {
				return
			}
			inf := p.TypesInfo
			f, _ := inf.Defs[fd.Name].(*types.Func)
			if f == nil || mutators[f] {
				return
			}
			params := map[types.Object]bool{}
			for _, fld := range fd.Type.Params.List {
				if ft := inf.TypeOf(fld.Type); ft != nil {
					if _, isSlice := ft.Underlying().(*types.Slice); isSlice {
						for _, nm := range fld.Names {
							params[inf.Defs[nm]] = true
						}
					}
				}
			}
			if len(params) == 0 {
				return
			}
			ast.Inspect(fd.Body, func(k ast.Node) bool {
				call, ok := k.(*ast.CallExpr)
				if !ok {
					return true
				}
				if g := calleeFunc(inf, call); g != nil && mutators[g] {
					for _, a := range call.Args {
						if id, ok := ast.Unparen(a).(*ast.Ident); ok && params[inf.ObjectOf(id)] {
							mutators[f] = true
						}
					}
				}
				return true
			})
		})
	}
	m := 0
	c.P.funcDecls(func(p *packages.Package, fd *ast.FuncDecl) {
		if fd.Body == nil || !strings.Contains(p.PkgPath, "/eth2/") {
			return
		}
		inf := p.TypesInfo
		fname := pkgShort(p.Types) + "." + funcName(fd)
		defs := singleDefs(inf, fd.Body)
		fromCache := func(e ast.Expr) bool {
			e = resolveLocal(inf, e, defs, 3)
			if id, ok := ast.Unparen(e).(*ast.Ident); ok {
				if d, ok := defs[inf.ObjectOf(id)]; ok && d.rhs != nil {
					e = d.rhs
				}
			}
			call, ok := ast.Unparen(e).(*ast.CallExpr)
			if !ok {
				return false
			}
			f := calleeFunc(inf, call)
			return f != nil && (f.Name() == "GetBeaconCommittee" || f.Name() == "GetShardCommittee") && strings.Contains(qualName(f), "EpochsContext")
		}
		ast.Inspect(fd.Body, func(k ast.Node) bool {
			call, ok := k.(*ast.CallExpr)
			if !ok {
				return true
			}
			f := calleeFunc(inf, call)
			if f == nil || !mutators[f] {
				return true
			}
			for _, a := range call.Args {
				at := inf.TypeOf(a)
				if at == nil {
					continue
				}
				if _, isSlice := at.Underlying().(*types.Slice); !isSlice {
					continue
				}
				m++
				key := fmt.Sprintf("%s->%s#%d", fname, f.Name(), m)
				if fromCache(a) {
					c.bad(key, call.Pos(), "%s hands the committee returned by the epochs context (a slice of the cached shuffling) to %s, which rewrites its argument in place: the cached committees of that epoch are corrupted for every later reader (copy first)", fname, f.Name())
				} else {
					c.ok(key, call.Pos(), "argument is not a cached committee")
				}
			}
			return true
		})
	})
}
