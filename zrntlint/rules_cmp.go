package main

import (
	"fmt"
	"go/ast"
	"go/token"
	"go/types"
	"os"
	"regexp"
	"sort"
	"strings"

	"golang.org/x/tools/go/packages"
)

// A comparison, normalised: P = lhs - rhs as a polynomial over leaf names (no local resolution), and the operator.
type cmpSite struct {
	fn   string
	pos  token.Pos
	op   token.Token
	p    Poly
	text string
	lt   types.Type
	pa   Poly // the same polynomial with locals/parameters named by their type (alpha-invariant)
}

var flipOp = map[token.Token]token.Token{token.LSS: token.GTR, token.LEQ: token.GEQ, token.GTR: token.LSS, token.GEQ: token.LEQ, token.EQL: token.EQL, token.NEQ: token.NEQ}

type cmpDecl struct {
	pk *packages.Package
	fd *ast.FuncDecl
}

var cmpDecls = map[string]cmpDecl{}

func collectCmps(p *Prog) map[string][]cmpSite {
	out := map[string][]cmpSite{}
	cmpDecls = map[string]cmpDecl{}
	p.funcDecls(func(pk *packages.Package, fd *ast.FuncDecl) {
		info := pk.TypesInfo
		fn := pkgShort(pk.Types) + "." + funcName(fd)
		cmpDecls[fn] = cmpDecl{pk, fd}
		ast.Inspect(fd.Body, func(n ast.Node) bool {
			be, ok := n.(*ast.BinaryExpr)
			if !ok {
				return true
			}
			switch be.Op {
			case token.LSS, token.LEQ, token.GTR, token.GEQ, token.EQL, token.NEQ:
			default:
				return true
			}
			l, ok1 := exprPoly(info, be.X, nil, nil, 0)
			r, ok2 := exprPoly(info, be.Y, nil, nil, 0)
			if !ok1 || !ok2 {
				// non-arithmetic operands (structs, roots, nil): keep with opaque atoms
				l = polyAtom(strings.ReplaceAll(types.ExprString(be.X), " ", ""))
				r = polyAtom(strings.ReplaceAll(types.ExprString(be.Y), " ", ""))
			}
			polyAbstract = true
			polyAbsSeen = nil
			la, oka := exprPoly(info, be.X, nil, nil, 0)
			ra, okb := exprPoly(info, be.Y, nil, nil, 0)
			polyAbstract = false
			if !oka || !okb {
				la = polyAtom(absName(info, be.X))
				ra = polyAtom(absName(info, be.Y))
			}
			out[fn] = append(out[fn], cmpSite{fn, be.Pos(), be.Op, polyAdd(l, r, -1), types.ExprString(be), info.TypeOf(be.X), polyAdd(la, ra, -1)})
			return true
		})
	})
	return out
}

// cmpSpec is one boundary comparison of the consensus / p2p specification, located in zrnt by function and operand leaves.
type cmpSpec struct {
	fn    string   // pkg.Func or pkg.Recv.Func
	atoms []string // regexes; each must match some atom of P; atoms[0] fixes the orientation (its coefficient is made positive)
	op    string   // required operator in that orientation
	k     int64    // required constant term of P in that orientation
	coefs []int64  // required coefficients of the atoms matched by atoms[i] (nil = all +-1 unchecked beyond sign of atoms[0])
	count int      // expected number of matching comparisons (0 = 1)
	typ   string   // optional: operand type name (e.g. "Checkpoint") instead of atoms
	spec  string   // the spec's formulation
}

func atomsOf(p Poly) []string {
	seen := map[string]bool{}
	for k := range p {
		if k == "" {
			continue
		}
		for _, a := range strings.Split(k, "*") {
			seen[a] = true
		}
	}
	var out []string
	for a := range seen {
		out = append(out, a)
	}
	sort.Strings(out)
	return out
}

func coefOfAtom(p Poly, re *regexp.Regexp) (int64, bool) {
	for k, c := range p {
		if k == "" {
			continue
		}
		for _, a := range strings.Split(k, "*") {
			if re.MatchString(a) {
				return c, true
			}
		}
	}
	return 0, false
}

func init() {
	register(&Rule{Name: "cmp.spec", Floor: 40,
		Doc: "each boundary comparison of the specification that zrnt implements (listed in the checker with the spec's formulation) is present in its function with the spec's operator and the spec's integer offset, after normalising both sides to `lhs - rhs` over the operand leaves (so `a+1 < b`, `a < b-1` and `b-1 > a` are the same comparison, while `<` vs `<=` or a dropped `+1` is not)",
		Run: ruleCmpSpec})
	if len(os.Args) > 1 && os.Args[1] == "cmps" {
		p, err := load(loadOpts{repo: dumpRepo()})
		if err != nil {
			fmt.Println(err)
			os.Exit(2)
		}
		all := collectCmps(p)
		for _, fn := range sortedKeys(all) {
			if len(os.Args) > 2 && !strings.Contains(fn, os.Args[2]) {
				continue
			}
			for _, s := range all[fn] {
				fmt.Printf("%-55s %-2s  P=%-60s  // %s\n", fn, s.op, s.p.String(), s.text)
			}
		}
		os.Exit(0)
	}
}

func ruleCmpSpec(c *Ctx) {
	all := collectCmps(c.P)
	// group entries that talk about the same operands in the same function: the set of (operator, offset) pairs found
	// must equal the set the spec prescribes
	type group struct {
		fn      string
		atoms   []string
		entries []cmpSpec
	}
	var order []string
	groups := map[string]*group{}
	for _, cs := range cmpTable {
		if cs.typ != "" {
			key := fmt.Sprintf("%s[type %s %s]", cs.fn, cs.typ, cs.op)
			sites := all[cs.fn]
			n := 0
			var first token.Pos
			for _, s := range sites {
				if nt := namedOf(s.lt); nt != nil && nt.Obj().Name() == cs.typ && s.op.String() == cs.op {
					n++
					if first == token.NoPos {
						first = s.pos
					}
				}
			}
			switch {
			case len(sites) == 0:
				c.unm(key, token.NoPos, "function %s not found", cs.fn)
			case n != cs.count:
				c.bad(key, sites[0].pos, "%s: expected %d comparisons (%s) of whole %s values, found %d — %s", cs.fn, cs.count, cs.op, cs.typ, n, cs.spec)
			default:
				c.ok(key, first, "%d whole-%s comparisons (%s)", n, cs.typ, cs.spec)
			}
			continue
		}
		sorted := append([]string{}, cs.atoms...)
		sort.Strings(sorted)
		gk := cs.fn + "|" + strings.Join(sorted, "|") + fmt.Sprintf("|ord=%v", isOrdering(cs.op))
		g := groups[gk]
		if g == nil {
			g = &group{fn: cs.fn, atoms: cs.atoms}
			groups[gk] = g
			order = append(order, gk)
		}
		g.entries = append(g.entries, cs)
	}
	// pre-pass: comparisons that some entry accounts for are never near-miss candidates of another entry
	claimed := map[token.Pos]bool{}
	for _, gk := range order {
		g := groups[gk]
		for _, s := range all[g.fn] {
			okAll := true
			for _, a := range g.atoms {
				if _, ok := coefOfAtom(s.p, regexp.MustCompile(a)); !ok {
					okAll = false
				}
			}
			if okAll && len(atomsOf(s.p)) == len(g.atoms) {
				claimed[s.pos] = true
			}
		}
	}
	for _, gk := range order {
		g := groups[gk]
		key := fmt.Sprintf("%s[%s]", g.fn, strings.Join(g.atoms, ","))
		sites, ok := all[g.fn]
		if !ok {
			c.unm(key, token.NoPos, "function %s not found (or has no comparisons)", g.fn)
			continue
		}
		var res []*regexp.Regexp
		for _, a := range g.atoms {
			res = append(res, regexp.MustCompile(a))
		}
		var matched, otherClass []cmpSite
		for _, s := range sites {
			okAll := true
			for _, re := range res {
				if _, ok := coefOfAtom(s.p, re); !ok {
					okAll = false
				}
			}
			// the comparison is about exactly these operands (no further atoms) and of the same class as the spec's
			// (ordering vs equality): an equality test over the same operands is a different condition
			if okAll && len(atomsOf(s.p)) == len(res) {
				if isOrdering(s.op.String()) == isOrdering(g.entries[0].op) {
					matched = append(matched, s)
				} else {
					otherClass = append(otherClass, s)
				}
			}
		}
		var specs []string
		for _, e := range g.entries {
			specs = append(specs, e.spec)
		}
		specStr := strings.Join(specs, " / ")
		if len(matched) == 0 && len(otherClass) > 0 {
			// the same operands are still compared, but an equality became an ordering test or the reverse
			c.bad(key, otherClass[0].pos, "%s compares these operands with %s where the rule is %s (%s)", g.fn, otherClass[0].op, g.entries[0].op, specStr)
			continue
		}
		if len(matched) == 0 {
			nm, why := cmpNearMiss(g.fn, g.atoms, res, sites, isOrdering(g.entries[0].op), claimed)
			if nm == nil {
				// fallback: the replacement may also have changed the class (an equality turned into an ordering test)
				nm, why = cmpNearMiss(g.fn, g.atoms, res, sites, !isOrdering(g.entries[0].op), claimed)
			}
			if nm != nil {
				c.bad(key, nm.pos, "%s: the spec's comparison (%s) is not made; instead `%s` compares %s", g.fn, specStr, nm.text, why)
				continue
			}
			c.unm(key, sites[0].pos, "comparison not found in %s (spec: %s)", g.fn, specStr)
			continue
		}
		// expected and found multisets of "op k coefs"
		sig := func(op string, k int64, coefs []int64) string { return fmt.Sprintf("%s %+d %v", op, k, coefs) }
		want := map[string]int{}
		for _, e := range g.entries {
			n := e.count
			if n == 0 {
				n = 1
			}
			want[sig(e.op, e.k, e.coefs)] += n
		}
		got := map[string]int{}
		gotText := map[string]string{}
		for _, s := range matched {
			p := s.p
			op := s.op
			if co, _ := coefOfAtom(p, res[0]); co < 0 {
				p = polyMul(p, polyConst(-1))
				op = flipOp[op]
			}
			var coefs []int64
			for _, re := range res {
				co, _ := coefOfAtom(p, re)
				coefs = append(coefs, co)
			}
			sg := sig(op.String(), p[""], coefs)
			got[sg]++
			gotText[sg] = s.text
		}
		bad := false
		for sg, n := range got {
			if want[sg] != n {
				bad = true
				c.bad(key, matched[0].pos, "`%s` normalises to operator/offset/coefficients (%s) x%d; the spec prescribes {%s} here: %s (an off-by-one or a flipped operator at this boundary accepts or rejects exactly the edge case)", gotText[sg], sg, n, fmtWant(want), specStr)
				break
			}
		}
		if !bad {
			for sg, n := range want {
				if got[sg] != n {
					bad = true
					c.bad(key, matched[0].pos, "the spec's comparison (%s) x%d is missing in %s; found {%s}: %s", sg, n, g.fn, fmtWant(got), specStr)
					break
				}
			}
		}
		if !bad {
			c.ok(key, matched[0].pos, "%s", specStr)
		}
	}
}

func fmtWant(m map[string]int) string {
	var ks []string
	for k, n := range m {
		ks = append(ks, fmt.Sprintf("(%s)x%d", k, n))
	}
	sort.Strings(ks)
	return strings.Join(ks, ", ")
}

func isOrdering(op string) bool { return op == "<" || op == "<=" || op == ">" || op == ">=" }

// atomLiteral recovers the operand text from a table pattern ((?i)^a\.b$ or (?i)(^|\.)a\.b\.c$).
func atomLiteral(pat string) string {
	pat = strings.TrimPrefix(pat, "(?i)")
	pat = strings.TrimPrefix(pat, "(^|\\.)")
	pat = strings.TrimPrefix(pat, "^")
	pat = strings.TrimSuffix(pat, "$")
	return strings.ReplaceAll(pat, "\\", "")
}

// cmpNearMiss: the tabled comparison is gone; is there a comparison of the same class and arity that keeps all but one
// of its operands? If the missing operand still exists in the function (a local/parameter of that name is still
// declared; a field of that name is still selected somewhere in the package), the comparison was pointed at another
// value - a violation. If it no longer exists anywhere it was renamed and the checker cannot tell (nil => unmodelled).
func cmpNearMiss(fn string, atoms []string, res []*regexp.Regexp, sites []cmpSite, ordering bool, claimed map[token.Pos]bool) (*cmpSite, string) {
	d, ok := cmpDecls[fn]
	if !ok {
		return nil, ""
	}
	if len(res) == 1 {
		// `x % m == k`: one opaque atom mod(x,m). Same modulus with another dividend is an operand replacement.
		lit := atomLiteral(atoms[0])
		if !strings.HasPrefix(lit, "mod(") || !strings.Contains(lit, ",") {
			return nil, ""
		}
		modulus := lit[strings.LastIndex(lit, ","):]
		for i := range sites {
			s := &sites[i]
			as := atomsOf(s.p)
			if claimed[s.pos] || isOrdering(s.op.String()) != ordering || len(as) != 1 || !strings.HasPrefix(as[0], "mod(") {
				continue
			}
			if strings.EqualFold(as[0][strings.LastIndex(as[0], ","):], modulus) && !strings.EqualFold(as[0], lit) {
				return s, fmt.Sprintf("`%s` where the spec's operand is `%s`", as[0], lit)
			}
		}
		return nil, ""
	}
	for i := range sites {
		s := &sites[i]
		if isOrdering(s.op.String()) != ordering || len(atomsOf(s.p)) != len(res) || claimed[s.pos] {
			continue
		}
		missing := -1
		n := 0
		for j, re := range res {
			if _, ok := coefOfAtom(s.p, re); ok {
				n++
			} else {
				missing = j
			}
		}
		if n != len(res)-1 || missing < 0 {
			continue
		}
		lit := atomLiteral(atoms[missing])
		// operand text -> the identifier or field that must still exist
		leaf := lit
		if strings.HasPrefix(leaf, "len(") {
			leaf = strings.TrimSuffix(strings.TrimPrefix(leaf, "len("), ")")
		}
		isPath := strings.Contains(leaf, ".")
		if isPath {
			leaf = leaf[strings.LastIndex(leaf, ".")+1:]
		}
		if i := strings.Index(leaf, "("); i >= 0 {
			leaf = leaf[:i]
		}
		var other string
		for _, a := range atomsOf(s.p) {
			hit := false
			for _, re := range res {
				if re.MatchString(a) {
					hit = true
				}
			}
			if !hit {
				other = a
			}
		}
		declared := func(name string) bool {
			found := false
			ast.Inspect(d.fd, func(n ast.Node) bool {
				if id, ok := n.(*ast.Ident); ok && strings.EqualFold(id.Name, name) && d.pk.TypesInfo.Defs[id] != nil {
					found = true
				}
				return !found
			})
			return found
		}
		if isPath && strings.Contains(other, ".") {
			// same field path under another base identifier whose old name is gone: the base was renamed
			lb, ob := lit[:strings.Index(lit, ".")], other[:strings.Index(other, ".")]
			if strings.EqualFold(lit[len(lb):], other[len(ob):]) && !declared(lb) {
				continue
			}
		}
		still := false
		if strings.HasPrefix(lit, "const") && strings.Trim(lit[5:], "0123456789") == "" {
			still = true // a numeric constant cannot have been "renamed away": the operand was replaced
		} else if !isPath {
			ast.Inspect(d.fd, func(n ast.Node) bool {
				if id, ok := n.(*ast.Ident); ok && strings.EqualFold(id.Name, leaf) && d.pk.TypesInfo.Defs[id] != nil {
					still = true
				}
				return !still
			})
			// spec constants are written spec.X / epc.Spec.X and appear as the bare atom X: the field still being
			// selected anywhere in the package means it was not renamed
			if !still && leaf == strings.ToUpper(leaf) {
				for _, f := range d.pk.Syntax {
					ast.Inspect(f, func(n ast.Node) bool {
						if se, ok := n.(*ast.SelectorExpr); ok && se.Sel.Name == leaf {
							still = true
						}
						return !still
					})
				}
			}
		} else {
			for _, f := range d.pk.Syntax {
				ast.Inspect(f, func(n ast.Node) bool {
					if se, ok := n.(*ast.SelectorExpr); ok && strings.EqualFold(se.Sel.Name, leaf) {
						still = true
					}
					return !still
				})
			}
		}
		if !still {
			continue
		}
		return s, fmt.Sprintf("`%s` where the spec's operand is `%s` (which still exists here, so this is not a rename)", other, lit)
	}
	return nil, ""
}
