package main

import (
	"fmt"
	"go/ast"
	"go/token"
	"go/types"
	"os"
	"regexp"
	"sort"
	"strings"

	"golang.org/x/tools/go/packages"
)

// A comparison, normalised: P = lhs - rhs as a polynomial over leaf names (no local resolution), and the operator.
type cmpSite struct {
	fn     string
	pos    token.Pos
	op     token.Token
	p      Poly
	text   string
	lt     types.Type
	pa     Poly              // the same polynomial with locals/parameters named by their type (alpha-invariant)
	pr     Poly              // the named polynomial with single-definition locals substituted (hoisted or inlined locals are immaterial)
	pra    Poly              // the type-named polynomial with locals substituted (renamed AND moved)
	from   string            // the function the comparison is written in, when it was reached through an unexported helper
	uses   map[string]bool   // identifiers the comparison depends on, directly or through the single-definition locals it mentions
	full   bool              // the condition of a plain counting loop `for i := 0; i < E; i++` (the same as ranging over E)
	tn, en map[string]bool   // fields, functions and constants mentioned by the branch taken when the governing `if` holds / does not hold
	negc   bool              // the comparison stands under a `!` in that condition
	alias  map[string]string // operand written as a local -> the single value that local names (resolved)
	mult   int               // for a comparison read through a helper: at how many call sites of the helper it reads the same
	rop    token.Token       // the operator under which the path is REFUSED (error / false / non-ACCEPT / continue / break), when the comparison governs such a branch; 0 otherwise
	multi  bool              // the comparison defines a flag that several conditions test: made more than once, on no one side
	differ bool              // the two sides are known to differ here (the else of `a == b`): `>=` and `>` say the same, `<` and `<=` too
}

// opNZHi / opNZLo: `p > 0` / `p < 0` where p is known not to be 0. All four written inequalities then make ONE cut
// (which of the two adjacent ones a writing names is an accident of `<` vs `<=`, of `!` and of branch order); canonCut
// gives it one form whichever way the polynomial is oriented.
const (
	opNZHi = token.Token(-1)
	opNZLo = token.Token(-2)
)

// cop: the operator to hand to canonCut / canonCutAbs for this comparison.
func (s cmpSite) cop() token.Token {
	if !s.differ {
		return s.op
	}
	switch s.op {
	case token.GTR, token.GEQ:
		return opNZHi
	case token.LSS, token.LEQ:
		return opNZLo
	}
	return s.op
}

// neverNegative: an unsigned value, a length or capacity (also converted), or a constant >= 0.
func neverNegative(info *types.Info, e ast.Expr) bool {
	if isUnsignedExpr(info, e) {
		return true
	}
	if tv, ok := info.Types[e]; ok && tv.Value != nil {
		if v, ok := constantInt(tv); ok {
			return v >= 0
		}
		return false
	}
	x := ast.Unparen(stripConv(info, ast.Unparen(e)))
	if call, ok := x.(*ast.CallExpr); ok {
		if id, ok := call.Fun.(*ast.Ident); ok && (id.Name == "len" || id.Name == "cap") {
			_, isB := info.ObjectOf(id).(*types.Builtin)
			return isB
		}
	}
	return false
}

func isUnsignedExpr(info *types.Info, e ast.Expr) bool {
	t := info.TypeOf(e)
	if t == nil {
		return false
	}
	b, ok := t.Underlying().(*types.Basic)
	return ok && b.Info()&types.IsUnsigned != 0
}

// unsignedZeroTest: p = ±u + k compared with 0 under op, u one opaque unsigned value: when that is the test
// u < 1 / u <= 0 (u == 0) or u > 0 / u >= 1 (u != 0), the equality operator, and k and the sign of u in p.
// lenAtomOnly: p is ±len(…) plus a constant.
func lenAtomOnly(p Poly) bool {
	n := 0
	for a, cf := range p {
		if a == "" {
			continue
		}
		n++
		if !strings.HasPrefix(a, "len(") || (cf != 1 && cf != -1) {
			return false
		}
	}
	return n == 1
}

func unsignedZeroTest(p Poly, op token.Token) (token.Token, int64, int64, bool) {
	var atom string
	n := 0
	for a := range p {
		if a != "" {
			atom = a
			n++
		}
	}
	if n != 1 || (p[atom] != 1 && p[atom] != -1) {
		return 0, 0, 0, false
	}
	sign, k := p[atom], p[""]
	t := -k
	if sign < 0 {
		t, op = k, flipOp[op]
	}
	switch {
	case op == token.LSS && t == 1, op == token.LEQ && t == 0:
		return token.EQL, k, sign, true
	case op == token.GTR && t == 0, op == token.GEQ && t == 1:
		return token.NEQ, k, sign, true
	}
	return 0, 0, 0, false
}

var flipOp = map[token.Token]token.Token{opNZHi: opNZLo, opNZLo: opNZHi, token.LSS: token.GTR, token.LEQ: token.GEQ, token.GTR: token.LSS, token.GEQ: token.LEQ, token.EQL: token.EQL, token.NEQ: token.NEQ}

type cmpDecl struct {
	pk *packages.Package
	fd *ast.FuncDecl
}

var cmpDecls = map[string]cmpDecl{}

// cmpsIn collects the comparisons written in one function. With subst (parameter -> the argument of one call site)
// the function is read as it would be if inlined at that call: a check moved into a parametrised helper stays the same
// check. callerRecv is the calling method's receiver (also written `recv`), callerDefs its single-definition locals.
func cmpsIn(pk *packages.Package, fd *ast.FuncDecl, fn string, subst map[types.Object]ast.Expr, callerRecv types.Object, callerDefs map[types.Object]localDef, callerReach *reachInfo) []cmpSite {
	var out []cmpSite
	info := pk.TypesInfo
	polyRecv, polyRecv2, polyArgs = nil, callerRecv, subst
	if fd.Recv != nil && len(fd.Recv.List) == 1 && len(fd.Recv.List[0].Names) == 1 {
		polyRecv = info.Defs[fd.Recv.List[0].Names[0]]
	}
	polyReach, polyPaths = reachingDefs(info, fd.Body), true
	if callerReach != nil {
		for o, ds := range callerReach.defs {
			if _, dup := polyReach.defs[o]; !dup {
				polyReach.defs[o] = ds
			}
		}
		for n, p := range callerReach.parents {
			polyReach.parents[n] = p
		}
		for o := range callerReach.addr {
			polyReach.addr[o] = true
		}
	}
	defer func() { polyRecv, polyRecv2, polyArgs, polyReach, polyPaths = nil, nil, nil, nil, false }()
	fdefs := withRangeValues(info, fd.Body, singleDefs(info, fd.Body))
	for o, d := range callerDefs {
		if _, dup := fdefs[o]; !dup {
			fdefs[o] = d
		}
	}
	fparents := parentMap(fd.Body)
	rangedOver := map[types.Object]ast.Expr{}
	ast.Inspect(fd.Body, func(n ast.Node) bool {
		if rs, ok := n.(*ast.RangeStmt); ok {
			for _, e := range []ast.Expr{rs.Key, rs.Value} {
				if id, ok := e.(*ast.Ident); ok && id.Name != "_" {
					if o := info.ObjectOf(id); o != nil {
						rangedOver[o] = rs.X
					}
				}
			}
		}
		return true
	})
	ast.Inspect(fd.Body, func(n ast.Node) bool {
		be, ok := n.(*ast.BinaryExpr)
		if !ok {
			return true
		}
		switch be.Op {
		case token.LSS, token.LEQ, token.GTR, token.GEQ, token.EQL, token.NEQ:
		default:
			return true
		}
		l, ok1 := exprPoly(info, be.X, nil, nil, 0)
		r, ok2 := exprPoly(info, be.Y, nil, nil, 0)
		if !ok1 || !ok2 {
			// non-arithmetic operands (structs, roots, nil): keep with opaque atoms
			l = polyAtom(strings.ReplaceAll(exprText(info, be.X), " ", ""))
			r = polyAtom(strings.ReplaceAll(exprText(info, be.Y), " ", ""))
		}
		polyAbstract = true
		polyAbsSeen = nil
		la, oka := exprPoly(info, be.X, nil, nil, 0)
		ra, okb := exprPoly(info, be.Y, nil, nil, 0)
		polyAbstract = false
		if !oka || !okb {
			la = polyAtom(absName(info, be.X))
			ra = polyAtom(absName(info, be.Y))
		}
		pr := polyAdd(l, r, -1)
		if lr, ok := exprPoly(info, be.X, fdefs, nil, 0); ok {
			if rr, ok := exprPoly(info, be.Y, fdefs, nil, 0); ok {
				pr = polyAdd(lr, rr, -1)
			}
		}
		pra := polyAdd(la, ra, -1)
		polyAbstract = true
		polyAbsSeen = nil
		if lr, ok := exprPoly(info, be.X, fdefs, nil, 0); ok {
			if rr, ok := exprPoly(info, be.Y, fdefs, nil, 0); ok {
				pra = polyAdd(lr, rr, -1)
			}
		}
		polyAbstract = false
		uses := map[string]bool{}
		var collectUses func(e ast.Node, depth int)
		collectUses = func(e ast.Node, depth int) {
			if e == nil || depth > 8 {
				return
			}
			ast.Inspect(e, func(k ast.Node) bool {
				if id, ok := k.(*ast.Ident); ok && !uses[id.Name] {
					uses[id.Name] = true
					o := info.ObjectOf(id)
					if d, ok := fdefs[o]; ok && d.rhs != nil {
						collectUses(d.rhs, depth+1)
					}
					if rx, ok := rangedOver[o]; ok {
						collectUses(rx, depth+1) // the key/value of `range xs` stands for xs[…]
					}
					if a, ok := subst[o]; ok {
						collectUses(a, depth+1)
					}
				}
				return true
			})
		}
		collectUses(be, 0)
		// a local that merely names a value the comparison spells out (index := xs[k]; … flats[xs[k]] …) is used too
		prs := pr.String()
		for o, d := range fdefs {
			if d.rhs == nil || d.pos != 0 || d.n != 1 || uses[o.Name()] {
				continue
			}
			if rp, ok := exprPoly(info, d.rhs, fdefs, nil, 0); ok && len(rp) == 1 {
				for a, cf := range rp {
					if a != "" && cf == 1 && len(a) > 3 && strings.Contains(prs, a) {
						uses[o.Name()] = true
					}
				}
			}
		}
		site := cmpSite{fn: fn, pos: be.Pos(), op: be.Op, p: polyAdd(l, r, -1), text: types.ExprString(be), lt: info.TypeOf(be.X), pa: polyAdd(la, ra, -1), pr: pr, pra: pra, uses: uses, full: countingLoop(info, fparents, be), rop: refusalOp(info, fd, fparents, be)}
		// an unsigned value tested against the bottom of its range: u < 1, u <= 0 are u == 0; u > 0, u >= 1 are u != 0
		if neverNegative(info, be.X) && neverNegative(info, be.Y) {
			if nop, k, sign, ok := unsignedZeroTest(site.p, site.op); ok {
				shift := func(q Poly) Poly {
					q = polyAdd(q, polyConst(k), -1)
					if sign < 0 {
						q = polyAdd(Poly{}, q, -1)
					}
					return q
				}
				if site.rop != 0 {
					if rop, _, _, ok := unsignedZeroTest(site.p, site.rop); ok {
						site.rop = rop
					}
				}
				site.op, site.p, site.pa, site.pr, site.pra = nop, shift(site.p), shift(site.pa), shift(site.pr), shift(site.pra)
			}
		}
		// where the two sides are known to differ (the else of `a == b`, a case after `a != b`), `a >= b` is `a > b`: the
		// boundary is not reachable there, and the comparison is read in its strict form whichever way it was written
		if site.op == token.GEQ || site.op == token.LEQ || site.op == token.GTR || site.op == token.LSS {
			eqForm := canonCut(site.p, token.EQL)
			for _, f := range pathFactsAt(fparents, be) {
				if f.be.Op != token.EQL && f.be.Op != token.NEQ {
					continue
				}
				fl, ok1 := exprPoly(info, f.be.X, nil, nil, 0)
				fr, ok2 := exprPoly(info, f.be.Y, nil, nil, 0)
				if !ok1 || !ok2 || canonCut(polyAdd(fl, fr, -1), token.EQL) != eqForm {
					continue
				}
				if (f.be.Op == token.NEQ) != f.neg {
					site.differ = true
					strict := map[token.Token]token.Token{token.GEQ: token.GTR, token.LEQ: token.LSS}
					// each of the two readings — the test as written, and the side that refuses — in its strict form
					if r, ok := strict[site.op]; ok {
						site.op = r
					}
					if r, ok := strict[site.rop]; ok {
						site.rop = r
					}
					break
				}
			}
		}
		// the same through a local: `last := len(xs) - 1; last >= 0` is len(xs) >= 1, a length tested against zero. Read
		// off the resolved form (one len(…) atom): the resolved and type-named-resolved forms and the operator follow,
		// the forms over the names as written stay what they are
		if lenAtomOnly(site.pr) && !(neverNegative(info, be.X) && neverNegative(info, be.Y)) {
			if nop, k, sign, ok := unsignedZeroTest(site.pr, site.op); ok {
				shift := func(q Poly) Poly {
					q = polyAdd(q, polyConst(k), -1)
					if sign < 0 {
						q = polyAdd(Poly{}, q, -1)
					}
					return q
				}
				if site.rop != 0 {
					if rop, _, _, ok := unsignedZeroTest(site.pr, site.rop); ok {
						site.rop = rop
					}
				}
				site.op, site.pr, site.pra = nop, shift(site.pr), shift(site.pra)
				// the named forms: the local stands for the length now (its definition absorbed the offset)
				if len(site.p) <= 2 {
					pn, pan := Poly{}, Poly{}
					for a, cf := range site.p {
						if a != "" {
							pn[a] = cf
						}
					}
					for a, cf := range site.pa {
						if a != "" {
							pan[a] = cf
						}
					}
					site.p, site.pa = pn, pan
				}
			}
		}
		site.tn, site.en, site.negc = branchNamesOf(info, fparents, be)
		// a local that merely names one value (m := spec.MAX…; x != m): the comparison read with that one local spelled
		// out and the others as written
		ast.Inspect(be, func(k ast.Node) bool {
			id, ok := k.(*ast.Ident)
			if !ok {
				return true
			}
			if _, isAtom := site.p[id.Name]; !isAtom {
				return true
			}
			if rp, ok := exprPoly(info, id, fdefs, nil, 0); ok && len(rp) == 1 {
				for a, cf := range rp {
					if a != "" && a != id.Name && cf == 1 {
						if site.alias == nil {
							site.alias = map[string]string{}
						}
						site.alias[id.Name] = a
					}
				}
			}
			return true
		})
		// a comparison kept in a flag that several conditions test (`isEmpty := a == b; if w || isEmpty {…}; if w &&
		// isEmpty {…}`) is made once per test, each with its own side: it stands for as many comparisons as the reviewed code
		// wrote out, and has no one side (not the side a stored boolean has by convention)
		if flagTests := cmpFlagUses(info, fd, fparents, be); len(flagTests) >= 2 {
			site.multi, site.rop = true, 0
		}
		out = append(out, site)
		return true
	})
	return out
}

var cmpMemo = map[*Prog]map[string][]cmpSite{}
var cmpDeclsMemo = map[*Prog]map[string]cmpDecl{}

// collectCmps is computed once per loaded program (several rules read it).
func collectCmps(p *Prog) map[string][]cmpSite {
	if m, ok := cmpMemo[p]; ok {
		cmpDecls = cmpDeclsMemo[p]
		return m
	}
	m := collectCmps1(p)
	cmpMemo[p] = m
	cmpDeclsMemo[p] = cmpDecls
	return m
}

func collectCmps1(p *Prog) map[string][]cmpSite {
	polyInline = inlinableFuncs(p)
	polyInlineNamed = true
	defer func() { polyInline, polyInlineNamed = nil, false }()
	out := map[string][]cmpSite{}
	cmpDecls = map[string]cmpDecl{}
	p.funcDecls(func(pk *packages.Package, fd *ast.FuncDecl) {
		fn := pkgShort(pk.Types) + "." + funcName(fd)
		cmpDecls[fn] = cmpDecl{pk, fd}
		out[fn] = cmpsIn(pk, fd, fn, nil, nil, nil, nil)
	})
	// a function stands for itself and the unexported helpers of its package it calls (two levels): moving a check
	// into a helper, or inlining one, does not move it out of the function's obligations. A helper called directly is
	// read once per call site with its parameters replaced by that call's arguments.
	own := map[string][]cmpSite{}
	for fn, ss := range out {
		own[fn] = ss
	}
	direct, closure := helperClosure(p)
	for fn, hs := range closure {
		seen := map[string]int{}
		add := func(s cmpSite, h string) {
			k := fmt.Sprint(s.pos, "|", s.p.String(), "|", s.pr.String())
			if at, dup := seen[k]; dup {
				// the same comparison read at another call site of the helper: made once more
				out[fn][at].mult++
				for nm := range s.tn {
					out[fn][at].tn[nm] = true
				}
				return
			}
			seen[k] = len(out[fn])
			s.from = h
			s.fn = fn
			s.mult = 1
			if s.tn == nil {
				s.tn = map[string]bool{}
			}
			out[fn] = append(out[fn], s)
		}
		caller := cmpDecls[fn]
		var callerRecv types.Object
		if fd := caller.fd; fd != nil && fd.Recv != nil && len(fd.Recv.List) == 1 && len(fd.Recv.List[0].Names) == 1 {
			callerRecv = caller.pk.TypesInfo.Defs[fd.Recv.List[0].Names[0]]
		}
		var callerDefs map[types.Object]localDef
		var callerReach *reachInfo
		if caller.fd != nil && caller.fd.Body != nil {
			callerDefs = withRangeValues(caller.pk.TypesInfo, caller.fd.Body, singleDefs(caller.pk.TypesInfo, caller.fd.Body))
			callerReach = reachingDefs(caller.pk.TypesInfo, caller.fd.Body)
		}
		isDirect := map[string]bool{}
		for _, hc := range direct[fn] {
			isDirect[hc.h] = true
			hd := cmpDecls[hc.h]
			if hd.fd == nil || hd.fd.Body == nil {
				continue
			}
			subst := map[types.Object]ast.Expr{}
			i := 0
			variadic := false
			if sig, ok := hd.pk.TypesInfo.Defs[hd.fd.Name].Type().(*types.Signature); ok {
				variadic = sig.Variadic()
			}
			if !variadic {
				for _, f := range hd.fd.Type.Params.List {
					for _, nm := range f.Names {
						if i < len(hc.call.Args) {
							if o := hd.pk.TypesInfo.Defs[nm]; o != nil && substitutable(hc.call.Args[i]) && !assignedIn(hd.pk.TypesInfo, hd.fd.Body, o) {
								subst[o] = hc.call.Args[i]
							}
						}
						i++
					}
				}
			}
			// the helper's receiver, when called on the caller's own receiver, is the same `recv`; called on another
			// value (v.activeAt(e) with v a local or an element), it is that value
			recvArg(hd, hc.call, callerRecv, caller.pk.TypesInfo, subst)
			for _, s := range cmpsIn(hd.pk, hd.fd, hc.h, subst, callerRecv, callerDefs, callerReach) {
				add(s, hc.h)
			}
		}
		for _, h := range hs {
			if isDirect[h] {
				continue
			}
			for _, s := range own[h] {
				add(s, h)
			}
		}
	}
	return out
}

// substitutable: arguments that can stand for a parameter in a normal form (names, fields, constants, conversions and
// arithmetic of those); calls with effects are left as the parameter's name.
func substitutable(e ast.Expr) bool {
	// a struct value written out with keyed fields that are themselves substitutable: its fields can be read
	lit := ast.Unparen(e)
	if u, isU := lit.(*ast.UnaryExpr); isU && u.Op == token.AND {
		lit = ast.Unparen(u.X)
	}
	if cl, isLit := lit.(*ast.CompositeLit); isLit && len(cl.Elts) > 0 {
		for _, el := range cl.Elts {
			kv, isKV := el.(*ast.KeyValueExpr)
			if !isKV {
				return false
			}
			if _, isId := kv.Key.(*ast.Ident); !isId || !substitutable(kv.Value) {
				return false
			}
			if _, nested := ast.Unparen(kv.Value).(*ast.CompositeLit); nested {
				return false
			}
		}
		return true
	}
	ok := true
	ast.Inspect(e, func(n ast.Node) bool {
		switch n.(type) {
		case *ast.FuncLit, *ast.CompositeLit:
			ok = false
		}
		return ok
	})
	return ok
}

func assignedIn(info *types.Info, body *ast.BlockStmt, o types.Object) bool {
	found := false
	ast.Inspect(body, func(n ast.Node) bool {
		switch x := n.(type) {
		case *ast.AssignStmt:
			for _, l := range x.Lhs {
				if id, ok := ast.Unparen(l).(*ast.Ident); ok && info.ObjectOf(id) == o {
					found = true
				}
			}
		case *ast.IncDecStmt:
			if id, ok := ast.Unparen(x.X).(*ast.Ident); ok && info.ObjectOf(id) == o {
				found = true
			}
		case *ast.UnaryExpr:
			if x.Op == token.AND {
				if id, ok := ast.Unparen(x.X).(*ast.Ident); ok && info.ObjectOf(id) == o {
					found = true
				}
			}
		}
		return !found
	})
	return found
}

type helperCall struct {
	h    string
	call *ast.CallExpr
}

// helperClosure: function -> the unexported functions/methods of the same package it (transitively, depth 2) calls.
func helperClosure(p *Prog) (map[string][]helperCall, map[string][]string) {
	name := map[*types.Func]string{}
	p.funcDecls(func(pk *packages.Package, fd *ast.FuncDecl) {
		if f, ok := pk.TypesInfo.Defs[fd.Name].(*types.Func); ok {
			name[f] = pkgShort(pk.Types) + "." + funcName(fd)
		}
	})
	direct := map[string][]string{}
	calls := map[string][]helperCall{}
	p.funcDecls(func(pk *packages.Package, fd *ast.FuncDecl) {
		if fd.Body == nil {
			return
		}
		fn := pkgShort(pk.Types) + "." + funcName(fd)
		seen := map[string]bool{}
		ast.Inspect(fd.Body, func(n ast.Node) bool {
			call, ok := n.(*ast.CallExpr)
			if !ok {
				return true
			}
			f := calleeFunc(pk.TypesInfo, call)
			if f == nil || f.Pkg() != pk.Types || f.Exported() {
				return true
			}
			if h, ok := name[f]; ok && h != fn {
				calls[fn] = append(calls[fn], helperCall{h, call})
				if !seen[h] {
					seen[h] = true
					direct[fn] = append(direct[fn], h)
				}
			}
			return true
		})
	})
	out := map[string][]string{}
	for fn, hs := range direct {
		seen := map[string]bool{fn: true}
		var add func(h string, depth int)
		add = func(h string, depth int) {
			if seen[h] || depth > 2 {
				return
			}
			seen[h] = true
			out[fn] = append(out[fn], h)
			for _, hh := range direct[h] {
				add(hh, depth+1)
			}
		}
		for _, h := range hs {
			add(h, 1)
		}
	}
	return calls, out
}

// cmpSpec is one boundary comparison of the consensus / p2p specification, located in zrnt by function and operand leaves.
type cmpSpec struct {
	fn    string   // pkg.Func or pkg.Recv.Func
	atoms []string // regexes; each must match some atom of P; atoms[0] fixes the orientation (its coefficient is made positive)
	op    string   // required operator in that orientation
	k     int64    // required constant term of P in that orientation
	coefs []int64  // required coefficients of the atoms matched by atoms[i] (nil = all +-1 unchecked beyond sign of atoms[0])
	count int      // expected number of matching comparisons (0 = 1)
	abs   string   // the comparison with locals named by type, canonical (canonCutAbs): finds it again after a rename
	res   string   // the comparison with single-definition locals substituted, canonical (canonCut): finds it again after a local was introduced or inlined
	ra    string   // type-named AND resolved: a renamed local keeps it, a local defined from something else does not
	rop   string   // the operator under which the path is refused (refusalOp), "" when the comparison governs no refusal
	mk    string   // when rop was read off an ACTION: the field/function/constant of that action it was read from (see markRop)
	typ   string   // optional: operand type name (e.g. "Checkpoint") instead of atoms
	spec  string   // the spec's formulation
}

func atomsOf(p Poly) []string {
	seen := map[string]bool{}
	for k := range p {
		if k == "" {
			continue
		}
		for _, a := range strings.Split(k, "*") {
			seen[a] = true
		}
	}
	var out []string
	for a := range seen {
		out = append(out, a)
	}
	sort.Strings(out)
	return out
}

func coefOfAtom(p Poly, re *regexp.Regexp) (int64, bool) {
	for k, c := range p {
		if k == "" {
			continue
		}
		for _, a := range strings.Split(k, "*") {
			if re.MatchString(a) {
				return c, true
			}
		}
	}
	return 0, false
}

func init() {
	register(&Rule{Name: "cmp.spec", Floor: 40,
		Doc: "each boundary comparison of the specification that zrnt implements (252 reviewed entries: function, operands, operator, integer offset, the spec's wording) is made in its function — or in an unexported helper it calls, read at the call site with the arguments in place of the parameters — with the spec's CUT (`a < b`, `b > a`, `!(a >= b)`, `a <= b-1` are one cut; `<` for `<=` or a dropped +1 is another; where the two sides are known to differ — the else of `a == b` — the boundary cannot be reached and all four inequalities are one cut) and, where a branch refuses or skips, on the spec's SIDE of it (an inverted test with swapped branches keeps the side, a flipped operator does not; comparisons that only govern actions are read through one recorded field/function/constant of the governed action). Operands are matched by name, failing that in resolved form (locals, alias paths and one-line helpers read through) or type-named resolved form; the reviewed shape over ANOTHER value of the same type is a violation. A comparison kept in a flag that several conditions test stands for as many comparisons as were reviewed, on no one side. In five proto-array query functions coverage is closed: a refusing or skipping comparison that no entry accounts for is reported (undecided when a reviewed comparison of the same shape was not found in that function)",
		Run: ruleCmpSpec})
	if len(os.Args) > 1 && os.Args[1] == "cmps" {
		p, err := load(loadOpts{repo: dumpRepo()})
		if err != nil {
			fmt.Println(err)
			os.Exit(2)
		}
		all := collectCmps(p)
		for _, fn := range sortedKeys(all) {
			if len(os.Args) > 2 && !strings.Contains(fn, os.Args[2]) {
				continue
			}
			for _, s := range all[fn] {
				ropS, mkS := "", ""
				if s.rop != 0 {
					ropS = s.rop.String()
				} else if mk := pickMark(s); mk != "" {
					if r := markRop(s, mk); r != 0 {
						ropS, mkS = r.String(), mk
					}
				}
				fmt.Printf("%-55s %-2s  P=%-60s  // %s\t%s\t%s\t%s\t%s\t%s\n", fn, s.op, s.p.String(), s.text, canonCutAbs(s.pa, s.cop()), canonCut(s.pr, s.cop()), ropS, mkS, canonCutAbs(s.pra, s.cop())+map[bool]string{true: "\tnz", false: ""}[s.differ])
			}
		}
		os.Exit(0)
	}
}

func ruleCmpSpec(c *Ctx) {
	all := collectCmps(c.P)
	notFoundShapes := map[string][]string{} // per function: the shapes of the reviewed comparisons that were not found
	// group entries that talk about the same operands in the same function: the set of (operator, offset) pairs found
	// must equal the set the spec prescribes
	type group struct {
		fn      string
		atoms   []string
		entries []cmpSpec
	}
	var order []string
	groups := map[string]*group{}
	for _, cs := range cmpTable {
		if cs.typ != "" {
			key := fmt.Sprintf("%s[type %s %s]", cs.fn, cs.typ, cs.op)
			sites := all[cs.fn]
			n := 0
			looped := false
			var first token.Pos
			for _, s := range sites {
				// the operator under which the governed code runs: `!(a == b)` and `if a == b { continue }` are a != b
				eff := s.op
				if s.op == token.EQL || s.op == token.NEQ {
					flip := map[token.Token]token.Token{token.EQL: token.NEQ, token.NEQ: token.EQL}
					if s.negc {
						eff = flip[eff]
					} else if s.op == token.EQL && len(s.tn) == 0 && len(s.en) > 0 {
						eff = token.NEQ // nothing is done when they are equal, the work is on the other side
					}
				}
				if nt := namedOf(s.lt); nt != nil && nt.Obj().Name() == cs.typ && eff.String() == cs.op {
					n++
					if first == token.NoPos {
						first = s.pos
					}
					in := cs.fn
					if s.from != "" {
						in = s.from
					}
					if cmpInLoop(in, s.pos) {
						looped = true
					}
				}
			}
			switch {
			case len(sites) == 0:
				c.unm(key, token.NoPos, "function %s not found", cs.fn)
			case n > 0 && n < cs.count && looped:
				// fewer comparisons written, one of them in a loop (the twin checks now walk a table of rows): how many
				// are MADE is the number of rows, which this count does not read
				c.unm(key, first, "%s: %d comparison(s) (%s) of whole %s values are written where %d were reviewed, one of them inside a loop: how many are made depends on what the loop walks — %s", cs.fn, n, cs.op, cs.typ, cs.count, cs.spec)
			case n != cs.count:
				c.bad(key, sites[0].pos, "%s: expected %d comparisons (%s) of whole %s values, found %d — %s", cs.fn, cs.count, cs.op, cs.typ, n, cs.spec)
			default:
				c.ok(key, first, "%d whole-%s comparisons (%s)", n, cs.typ, cs.spec)
			}
			continue
		}
		sorted := append([]string{}, cs.atoms...)
		sort.Strings(sorted)
		gk := cs.fn + "|" + strings.Join(sorted, "|") + fmt.Sprintf("|ord=%v", isOrdering(cs.op))
		g := groups[gk]
		if g == nil {
			g = &group{fn: cs.fn, atoms: cs.atoms}
			groups[gk] = g
			order = append(order, gk)
		}
		g.entries = append(g.entries, cs)
	}
	// pre-pass: comparisons that some entry accounts for are never near-miss candidates of another entry
	claimed := map[token.Pos]bool{}
	accounted := map[token.Pos]bool{}  // sites an entry settled on through the renamed / resolved fallback
	claimedOwn := map[token.Pos]bool{} // accounted for by an entry of the function the comparison is written in
	claimedByOther := map[token.Pos]bool{}
	for _, gk := range order {
		g := groups[gk]
		var gres []*regexp.Regexp
		for _, a := range g.atoms {
			gres = append(gres, regexp.MustCompile(a))
		}
		for _, s := range all[g.fn] {
			if _, ok := cmpForm(s, gres); ok {
				claimed[s.pos] = true
				if s.from == "" {
					claimedOwn[s.pos] = true
				}
				if isOrdering(s.op.String()) == isOrdering(g.entries[0].op) {
					claimedByOther[s.pos] = true // some entry asks for exactly this class of comparison over these operands
				}
			}
		}
	}
	for _, gk := range order {
		g := groups[gk]
		key := fmt.Sprintf("%s[%s]", g.fn, strings.Join(g.atoms, ","))
		sites, ok := all[g.fn]
		if !ok {
			c.unm(key, token.NoPos, "function %s not found (or has no comparisons)", g.fn)
			continue
		}
		var res []*regexp.Regexp
		for _, a := range g.atoms {
			res = append(res, regexp.MustCompile(a))
		}
		var matched, otherClass []cmpSite
		for _, s := range sites {
			if s.from != "" && claimedOwn[s.pos] {
				continue // a helper's comparison that the helper's own entries account for
			}
			// the comparison is about exactly these operands (no further atoms), written directly or through
			// single-definition locals, and of the same class as the spec's (ordering vs equality): an equality test
			// over the same operands is a different condition
			if form, ok := cmpForm(s, res); ok {
				s.p = form
				if isOrdering(s.op.String()) == isOrdering(g.entries[0].op) {
					matched = append(matched, s)
				} else {
					otherClass = append(otherClass, s)
				}
			}
		}
		var specs []string
		for _, e := range g.entries {
			specs = append(specs, e.spec)
		}
		specStr := strings.Join(specs, " / ")
		if len(matched) == 0 {
			// renamed operands / a local introduced or inlined: the same comparison once locals are named by type or
			// substituted, not accounted for by another entry
			if ok, verdict, pos := cmpAbsMatch(g.fn, g.entries, g.atoms, sites, claimed); ok {
				for _, hp := range cmpAbsHits {
					accounted[hp] = true
				}
				if verdict == "" {
					c.ok(key, pos, "%s (operands renamed or routed through a local)", specStr)
				} else {
					c.bad(key, pos, "%s: %s — spec: %s", g.fn, verdict, specStr)
				}
				continue
			}
			// the same operands are still compared, but an equality became an ordering test or the reverse (and no other
			// entry asks for that comparison)
			var oc *cmpSite
			for i := range otherClass {
				if !claimedByOther[otherClass[i].pos] {
					oc = &otherClass[i]
					break
				}
			}
			if oc != nil {
				c.bad(key, oc.pos, "%s compares these operands with %s where the rule is %s (%s)", g.fn, oc.op, g.entries[0].op, specStr)
				continue
			}
			nearMissReviewedRes = g.entries[0].res
			nearMissReviewedAbs = g.entries[0].abs
			nm, why := cmpNearMiss(g.fn, g.atoms, res, sites, isOrdering(g.entries[0].op), claimed)
			if nm == nil {
				// fallback: the replacement may also have changed the class (an equality turned into an ordering test)
				nm, why = cmpNearMiss(g.fn, g.atoms, res, sites, !isOrdering(g.entries[0].op), claimed)
			}
			if nm != nil {
				c.bad(key, nm.pos, "%s: the spec's comparison (%s) is not made; instead `%s` compares %s", g.fn, specStr, nm.text, why)
				continue
			}
			// the reviewed shape is there (same types, same constants) on an unaccounted comparison, but read through
			// its locals it compares something else: a same-typed value was put in the operand's place
			var shape *cmpSite
			for i := range sites {
				if claimed[sites[i].pos] || sites[i].from != "" || sites[i].full {
					continue // (the bound of a plain counting loop is nobody's operand)
				}
				for _, e := range g.entries {
					if e.abs != "" && canonCutAbs(sites[i].pa, sites[i].cop()) == e.abs && e.ra != "" && canonCutAbs(sites[i].pra, sites[i].cop()) != e.ra {
						shape = &sites[i]
					}
				}
			}
			if shape != nil && valueOfOwnHelper(g.fn, shape.pr) {
				// the other value is what an unexported helper of the package hands back (code moved into a helper, a
				// loop-carried local): not a different field or getter put in the operand's place — undecided
				c.unm(key, shape.pos, "%s: `%s` has the reviewed shape; read through its locals it compares %s (a value computed by a helper of the package), which this rule cannot relate to the reviewed %s — spec: %s", g.fn, shape.text, canonCut(shape.pr, shape.cop()), g.entries[0].res, specStr)
				continue
			}
			if shape != nil && cmpOnLiteralParam(g.fn, shape.pos) {
				// the comparison stands in a function literal and tests the literal's own parameter (isMajority :=
				// func(n uint64) bool { return n<<1 > period }): what it compares is decided where the literal is called
				c.unm(key, shape.pos, "%s: `%s` has the reviewed shape but stands in a function literal and tests its parameter: what is compared is decided at its call sites, which this rule does not follow — spec: %s", g.fn, shape.text, specStr)
				continue
			}
			if shape != nil {
				c.bad(key, shape.pos, "%s: the spec's comparison (%s) is not made; `%s` has its shape but, read through its locals, compares %s where the reviewed code compares %s: another value of the same type was put in an operand's place", g.fn, specStr, shape.text, canonCut(shape.pr, shape.cop()), g.entries[0].res)
				continue
			}
			for _, e := range g.entries {
				notFoundShapes[g.fn] = append(notFoundShapes[g.fn], blindShape(e.coefs, e.k, e.op))
			}
			c.unm(key, sites[0].pos, "comparison not found in %s (spec: %s)", g.fn, specStr)
			continue
		}
		// expected and found multisets of "op k coefs"
		sig := func(op string, k int64, coefs []int64) string {
			// What is checked is the CUT the comparison makes in the integers, not which side of it the code calls
			// "true": with L the linear part, `L+k <= 0` and its negation `L+k > 0` both separate {L <= -k} from
			// {L >= -k+1}; `L+k < 0` and `L+k >= 0` separate {L <= -k-1} from {L >= -k}. An inverted condition with
			// swapped branches, !(a <= b) for a > b, a < b+1 for a <= b are all the same cut; `<` for `<=` is not.
			switch op {
			case "<=", ">":
				return fmt.Sprintf("cut L<=%d %v", -k, coefs)
			case "<", ">=":
				return fmt.Sprintf("cut L<=%d %v", -k-1, coefs)
			case "==", "!=":
				return fmt.Sprintf("eq L=%d %v", -k, coefs)
			}
			return fmt.Sprintf("%s %+d %v", op, k, coefs)
		}
		// polarity: when every entry of the group and every matched comparison governs a refusal, compare the
		// operator under which the refusal happens (an inverted test is then a violation, an inverted test with
		// swapped branches is not); otherwise compare cuts only
		polar := true
		for _, e := range g.entries {
			if e.rop == "" {
				polar = false
			}
		}
		siteRop := func(s cmpSite) token.Token {
			if s.rop != 0 {
				return s.rop
			}
			for _, e := range g.entries {
				if e.mk != "" {
					if r := markRop(s, e.mk); r != 0 {
						return r
					}
				}
			}
			return 0
		}
		for _, s := range matched {
			if siteRop(s) == 0 {
				polar = false
			}
		}
		psig := func(op string, k int64, coefs []int64) string {
			switch op {
			case "<":
				op, k = "<=", k+1
			case ">":
				op, k = ">=", k-1
			}
			return fmt.Sprintf("refused when L%+d %s 0 %v", k, op, coefs)
		}
		want := map[string]int{}
		for _, e := range g.entries {
			n := e.count
			if n == 0 {
				n = 1
			}
			if polar {
				want[psig(e.rop, e.k, e.coefs)] += n
			} else {
				want[sig(e.op, e.k, e.coefs)] += n
			}
		}
		got := map[string]int{}
		multiSg := map[string]bool{}
		perOrigin := map[string]map[string]int{}
		gotText := map[string]string{}
		originSeen := map[string]bool{}
		for _, s := range matched {
			p := s.p
			op := s.op
			rop := siteRop(s)
			if co, _ := coefOfAtom(p, res[0]); co < 0 {
				p = polyMul(p, polyConst(-1))
				op = flipOp[op]
				if rop != 0 {
					rop = flipOp[rop]
				}
			}
			if s.differ {
				// the sides are known to differ: one writing per truth side, in the entry's orientation
				nz := map[token.Token]token.Token{token.GEQ: token.GTR, token.LSS: token.LEQ}
				if r, ok := nz[op]; ok {
					op = r
				}
				if r, ok := nz[rop]; ok {
					rop = r
				}
			}
			var coefs []int64
			for _, re := range res {
				co, _ := coefOfAtom(p, re)
				coefs = append(coefs, co)
			}
			sg := sig(op.String(), p[""], coefs)
			if polar {
				sg = psig(rop.String(), p[""], coefs)
			}
			got[sg]++
			if s.multi {
				multiSg[sg] = true
			}
			gotText[sg] = s.text
			if perOrigin[sg] == nil {
				perOrigin[sg] = map[string]int{}
			}
			// instantiations of one comparison written once in a helper (the helper called for the previous and for the
			// current epoch) are one comparison of that origin
			if s.from == "" || !originSeen[sg+"|"+s.from+"|"+fmt.Sprint(s.pos)] {
				perOrigin[sg][s.from]++
			}
			originSeen[sg+"|"+s.from+"|"+fmt.Sprint(s.pos)] = true
		}
		bad := false
		for sg, n := range got {
			// the same comparison made more often than reviewed is harmless (a check repeated in two helpers);
			// one the spec does not prescribe here, or one made less often, is not
			over := false
			for _, k := range perOrigin[sg] {
				if k > want[sg] {
					over = true // more often within ONE function than reviewed: not a repeated helper, a changed test
				}
			}
			if want[sg] == 0 || (n < want[sg] && !multiSg[sg]) || over {
				bad = true
				c.bad(key, matched[0].pos, "`%s` normalises to operator/offset/coefficients (%s) x%d; the spec prescribes {%s} here: %s (an off-by-one or a flipped operator at this boundary accepts or rejects exactly the edge case)", gotText[sg], sg, n, fmtWant(want), specStr)
				break
			}
		}
		if !bad {
			for sg, n := range want {
				if got[sg] < n && !multiSg[sg] {
					bad = true
					c.bad(key, matched[0].pos, "the spec's comparison (%s) x%d is missing in %s; found {%s}: %s", sg, n, g.fn, fmtWant(got), specStr)
					break
				}
			}
		}
		if !bad {
			c.ok(key, matched[0].pos, "%s", specStr)
		}
	}
	// closed coverage: in the functions of cmpClosed every comparison that governs a refusal or a skip (and is not a
	// nil / error / boolean-literal test or a plain counting loop) must be accounted for by an entry. An added early
	// exit (`if node.Slot <= anchor.Slot { continue }`) is then an unreviewed refusal, whatever it compares.
	for _, fn := range sortedKeys(cmpClosed) {
		sites, ok := all[fn]
		if !ok {
			c.unm(fn+"[closed]", token.NoPos, "function %s (closed coverage) not found", fn)
			continue
		}
		extra := 0
		for _, s := range sites {
			if s.from != "" || s.rop == 0 || s.full || claimed[s.pos] || accounted[s.pos] {
				continue
			}
			nilish := false
			for _, a := range atomsOf(s.p) {
				if a == "nil" || a == "true" || a == "false" {
					nilish = true
				}
			}
			if nilish {
				continue
			}
			extra++
			// a reviewed comparison of this function was not found and this one has its shape (same coefficients, offset
			// and cut over other names): it may be that comparison rewritten over other variables — undecided
			{
				var coefs []int64
				for _, a := range atomsOf(s.p) {
					coefs = append(coefs, s.p[a])
				}
				shape, same := blindShape(coefs, s.p[""], s.op.String()), -1
				for k, w := range notFoundShapes[fn] {
					if w == shape && same < 0 {
						same = k
					}
				}
				if same >= 0 {
					notFoundShapes[fn] = append(notFoundShapes[fn][:same:same], notFoundShapes[fn][same+1:]...)
					c.unm(fmt.Sprintf("%s[closed]#%d", fn, extra), s.pos, "%s refuses or skips on `%s`, which no reviewed entry accounts for by name, resolved form or type; a reviewed comparison of the same shape was not found in the function, so this may be that comparison over other variables: not decided", fn, s.text)
					continue
				}
			}
			c.bad(fmt.Sprintf("%s[closed]#%d", fn, extra), s.pos, "%s refuses or skips on `%s`, a comparison no reviewed entry accounts for: every early exit of this function was read against what the query must return, this one was not (an added pre-filter or guard changes which nodes are answered)", fn, s.text)
		}
		if extra == 0 {
			c.ok(fn+"[closed]", sites[0].pos, "every refusing / skipping comparison of %s is a reviewed one", fn)
		}
	}

}

// cmpFlagUses: be is the whole right side of `flag := <be>`, flag a local that is never assigned again: the places where
// flag is read inside the condition of an if / for / case (nil when it is read anywhere else as well).
func cmpFlagUses(info *types.Info, fd *ast.FuncDecl, parents map[ast.Node]ast.Node, be *ast.BinaryExpr) []ast.Node {
	var cur ast.Node = be
	for {
		if pe, ok := parents[cur].(*ast.ParenExpr); ok {
			cur = pe
			continue
		}
		break
	}
	as, ok := parents[cur].(*ast.AssignStmt)
	if !ok || as.Tok != token.DEFINE || len(as.Lhs) != 1 || len(as.Rhs) != 1 || as.Rhs[0] != cur {
		return nil
	}
	fid, ok := as.Lhs[0].(*ast.Ident)
	if !ok || info.Defs[fid] == nil {
		return nil
	}
	o := info.Defs[fid]
	var uses []ast.Node
	fine := true
	ast.Inspect(fd.Body, func(k ast.Node) bool {
		switch x := k.(type) {
		case *ast.AssignStmt:
			if x != as {
				for _, l := range x.Lhs {
					if lid, ok := ast.Unparen(l).(*ast.Ident); ok && info.ObjectOf(lid) == o {
						fine = false
					}
				}
			}
		case *ast.Ident:
			if info.Uses[x] != o {
				return true
			}
			// inside a condition?
			var c ast.Node = x
			for {
				up := parents[c]
				switch u := up.(type) {
				case *ast.ParenExpr:
					c = u
					continue
				case *ast.UnaryExpr:
					if u.Op == token.NOT {
						c = u
						continue
					}
				case *ast.BinaryExpr:
					if u.Op == token.LAND || u.Op == token.LOR {
						c = u
						continue
					}
				case *ast.IfStmt:
					if u.Cond == c {
						uses = append(uses, x)
						return true
					}
				case *ast.ForStmt:
					if u.Cond == c {
						uses = append(uses, x)
						return true
					}
				case *ast.CaseClause:
					uses = append(uses, x)
					return true
				}
				break
			}
			fine = false
		}
		return fine
	})
	if !fine {
		return nil
	}
	return uses
}

// blindShape: a comparison without its operands' names: the coefficients, the offset and the cut, in the orientation
// that gives the smaller text (a - b - 1 > 0 and b - a + 1 < 0 are one shape).
func blindShape(coefs []int64, k int64, op string) string {
	render := func(cs []int64, k int64, op string) string {
		cs = append([]int64{}, cs...)
		sort.Slice(cs, func(i, j int) bool { return cs[i] < cs[j] })
		cut := ""
		switch op {
		case "<=", ">":
			cut = fmt.Sprintf("cut L<=%d", -k)
		case "<", ">=":
			cut = fmt.Sprintf("cut L<=%d", -k-1)
		default:
			cut = fmt.Sprintf("eq L=%d", -k)
		}
		return fmt.Sprintf("%v %s", cs, cut)
	}
	flip := map[string]string{"<": ">", "<=": ">=", ">": "<", ">=": "<=", "==": "==", "!=": "!="}
	neg := make([]int64, len(coefs))
	for i, c := range coefs {
		neg[i] = -c
	}
	a, b := render(coefs, k, op), render(neg, -k, flip[op])
	if b < a {
		return b
	}
	return a
}

// cmpInLoop: pos stands in the body of a for / range statement of fn.
func cmpInLoop(fn string, pos token.Pos) bool {
	d, ok := cmpDecls[fn]
	if !ok || d.fd.Body == nil {
		return false
	}
	in := false
	ast.Inspect(d.fd.Body, func(n ast.Node) bool {
		var body *ast.BlockStmt
		switch x := n.(type) {
		case *ast.ForStmt:
			body = x.Body
		case *ast.RangeStmt:
			body = x.Body
		}
		if body != nil && body.Pos() <= pos && pos < body.End() {
			in = true
		}
		return !in
	})
	return in
}

func fmtWant(m map[string]int) string {
	var ks []string
	for k, n := range m {
		ks = append(ks, fmt.Sprintf("(%s)x%d", k, n))
	}
	sort.Strings(ks)
	return strings.Join(ks, ", ")
}

func isOrdering(op string) bool { return op == "<" || op == "<=" || op == ">" || op == ">=" }

// atomLiteral recovers the operand text from a table pattern ((?i)^a\.b$ or (?i)(^|\.)a\.b\.c$).
func atomLiteral(pat string) string {
	pat = strings.TrimPrefix(pat, "(?i)")
	pat = strings.TrimPrefix(pat, "(^|\\.)")
	pat = strings.TrimPrefix(pat, "^")
	pat = strings.TrimSuffix(pat, "$")
	return strings.ReplaceAll(pat, "\\", "")
}

// specHasField: the Spec type (as seen from pk) has a field of that name, directly or through its embedded presets.
func specHasField(pk *packages.Package, name string) bool {
	var common *types.Package
	if pk.Types.Name() == "common" && strings.HasSuffix(pk.Types.Path(), "eth2/beacon/common") {
		common = pk.Types
	}
	for _, imp := range pk.Types.Imports() {
		if strings.HasSuffix(imp.Path(), "eth2/beacon/common") {
			common = imp
		}
	}
	if common == nil {
		return false
	}
	tn, ok := common.Scope().Lookup("Spec").(*types.TypeName)
	if !ok {
		return false
	}
	obj, _, _ := types.LookupFieldOrMethod(tn.Type(), true, common, name)
	_, isField := obj.(*types.Var)
	return isField
}

// cmpNearMiss: the tabled comparison is gone; is there a comparison of the same class and arity that keeps all but one
// of its operands? If the missing operand still exists in the function (a local/parameter of that name is still
// declared; a field of that name is still selected somewhere in the package), the comparison was pointed at another
// value - a violation. If it no longer exists anywhere it was renamed and the checker cannot tell (nil => unmodelled).
// nearMissReviewedRes: the resolved form of the reviewed comparison cmpNearMiss is asked about (set by the caller).
var nearMissReviewedRes string
var nearMissReviewedAbs string

// byNumberNear: the candidate has one operand fewer than the reviewed comparison (an operand replaced by a number: the
// type-named forms cannot be equal then).
func byNumberNear(s *cmpSite, res []*regexp.Regexp) bool { return len(atomsOf(s.p)) == len(res)-1 }

func cmpNearMiss(fn string, atoms []string, res []*regexp.Regexp, sites []cmpSite, ordering bool, claimed map[token.Pos]bool) (*cmpSite, string) {
	d, ok := cmpDecls[fn]
	if !ok {
		return nil, ""
	}
	if len(res) == 1 {
		// `x % m == k`: one opaque atom mod(x,m). Same modulus with another dividend is an operand replacement.
		lit := atomLiteral(atoms[0])
		if !strings.HasPrefix(lit, "mod(") || !strings.Contains(lit, ",") {
			return nil, ""
		}
		modulus := lit[strings.LastIndex(lit, ","):]
		for i := range sites {
			s := &sites[i]
			as := atomsOf(s.p)
			if claimed[s.pos] || isOrdering(s.op.String()) != ordering || len(as) != 1 || !strings.HasPrefix(as[0], "mod(") {
				continue
			}
			if strings.EqualFold(as[0][strings.LastIndex(as[0], ","):], modulus) && !strings.EqualFold(as[0], lit) {
				return s, fmt.Sprintf("`%s` where the spec's operand is `%s`", as[0], lit)
			}
		}
		return nil, ""
	}
	for i := range sites {
		s := &sites[i]
		// same arity, or one operand fewer (the spec's operand replaced by a plain number)
		if isOrdering(s.op.String()) != ordering || (len(atomsOf(s.p)) != len(res) && len(atomsOf(s.p)) != len(res)-1) || len(atomsOf(s.p)) == 0 || claimed[s.pos] {
			continue
		}
		missing := -1
		n := 0
		for j, re := range res {
			if _, ok := coefOfAtom(s.p, re); ok {
				n++
			} else {
				missing = j
			}
		}
		if n != len(res)-1 || missing < 0 {
			continue
		}
		byNumber := len(atomsOf(s.p)) == len(res)-1
		lit := atomLiteral(atoms[missing])
		// operand text -> the identifier or field that must still exist
		leaf := lit
		if strings.HasPrefix(leaf, "len(") {
			leaf = strings.TrimSuffix(strings.TrimPrefix(leaf, "len("), ")")
		}
		isPath := strings.Contains(leaf, ".")
		if isPath {
			leaf = leaf[strings.LastIndex(leaf, ".")+1:]
		}
		if i := strings.Index(leaf, "("); i >= 0 {
			leaf = leaf[:i]
		}
		var other string
		for _, a := range atomsOf(s.p) {
			hit := false
			for _, re := range res {
				if re.MatchString(a) {
					hit = true
				}
			}
			if !hit {
				other = a
			}
		}
		// the value in the operand's place hangs off a local the reviewed function did not have (`change.to.Epoch`, a
		// row of a table the checks now loop over): what it holds is decided by how that local is filled, which this
		// rule does not follow — not "another value put in the operand's place"
		if other != "" {
			root := other
			if strings.HasPrefix(root, "len(") {
				root = strings.TrimSuffix(strings.TrimPrefix(root, "len("), ")")
			}
			if k := strings.IndexAny(root, ".[("); k > 0 {
				root = root[:k]
			}
			known := false
			for t := range reviewedTokens(fn) {
				tr := t
				if k := strings.IndexAny(tr, ".[("); k > 0 {
					tr = tr[:k]
				}
				if strings.EqualFold(tr, root) {
					known = true
				}
			}
			if !known && root != "" && root != "recv" {
				isLocal := false
				if dd, ok := cmpDecls[fn]; ok && dd.fd.Body != nil {
					ast.Inspect(dd.fd.Body, func(n ast.Node) bool {
						if id, ok := n.(*ast.Ident); ok && id.Name == root {
							if _, isVar := dd.pk.TypesInfo.Defs[id].(*types.Var); isVar {
								isLocal = true
							}
						}
						return !isLocal
					})
				}
				if isLocal {
					continue
				}
			}
		}
		// an operand replaced by another value leaves the types of the comparison what they were: a comparison over
		// other types that merely shares a local's name (a loop counter `i`) is another comparison
		if nearMissReviewedAbs != "" && !byNumberNear(s, res) {
			want, got := absTokRe.FindAllString(nearMissReviewedAbs, -1), absTokRe.FindAllString(canonCutAbs(s.pa, s.cop()), -1)
			ty := func(t string) string { return t[:strings.LastIndex(t, "#")] }
			pool := map[string]int{}
			for _, t := range got {
				pool[ty(t)]++
			}
			shared := 0
			for _, t := range want {
				if pool[ty(t)] > 0 {
					pool[ty(t)]--
					shared++
				}
			}
			if len(want) >= 2 && shared < len(want)-1 {
				continue
			}
		}
		// the operand in its place was computed FROM the reviewed operand (count := anchorIndex - offset; i < count):
		// read through its locals the comparison still involves it — nothing was put in its place
		if s.pr != nil {
			derived := false
			if _, ok := coefOfAtom(s.pr, res[missing]); ok {
				derived = true
			}
			for _, a := range atomsOf(s.pr) {
				if strings.Contains(strings.ToLower(a), strings.ToLower(lit)) {
					derived = true
				}
			}
			// … or all the operands of the reviewed comparison, read through ITS locals
			if nearMissReviewedRes != "" && !derived {
				body := nearMissReviewedRes
				if i := strings.Index(body, " "); i >= 0 {
					body = body[i+1:]
				}
				have := map[string]bool{}
				for _, a := range atomsOf(s.pr) {
					have[a] = true
				}
				all, n := true, 0
				for _, term := range strings.Split(body, " + ") {
					if k := strings.Index(term, "*"); k > 0 && strings.Trim(term[:k], "-0123456789") == "" {
						term = term[k+1:]
					}
					if strings.Trim(term, "-0123456789") == "" {
						continue
					}
					n++
					if !have[term] {
						all = false
					}
				}
				if all && n > 0 {
					derived = true
				}
			}
			if derived {
				continue
			}
		}
		declared := func(name string) bool {
			found := false
			ast.Inspect(d.fd, func(n ast.Node) bool {
				if id, ok := n.(*ast.Ident); ok && strings.EqualFold(id.Name, name) && d.pk.TypesInfo.Defs[id] != nil {
					found = true
				}
				return !found
			})
			return found
		}
		if isPath && strings.Contains(other, ".") {
			// same field path under another base identifier whose old name is gone: the base was renamed
			lb, ob := lit[:strings.Index(lit, ".")], other[:strings.Index(other, ".")]
			if strings.EqualFold(lit[len(lb):], other[len(ob):]) && !declared(lb) {
				continue
			}
		}
		still := false
		if strings.HasPrefix(lit, "const") && strings.Trim(lit[5:], "0123456789") == "" {
			still = true // a numeric constant cannot have been "renamed away": the operand was replaced
		} else if !isPath {
			ast.Inspect(d.fd, func(n ast.Node) bool {
				if id, ok := n.(*ast.Ident); ok && strings.EqualFold(id.Name, leaf) && d.pk.TypesInfo.Defs[id] != nil {
					still = true
				}
				return !still
			})
			// spec constants are written spec.X / epc.Spec.X and appear as the bare atom X: the field still being
			// a field of the Spec type, or selected anywhere in the package, means it was not renamed
			if !still && leaf == strings.ToUpper(leaf) {
				still = specHasField(d.pk, leaf)
			}
			if !still && leaf == strings.ToUpper(leaf) {
				for _, f := range d.pk.Syntax {
					ast.Inspect(f, func(n ast.Node) bool {
						if se, ok := n.(*ast.SelectorExpr); ok && se.Sel.Name == leaf {
							still = true
						}
						return !still
					})
				}
			}
		} else {
			for _, f := range d.pk.Syntax {
				ast.Inspect(f, func(n ast.Node) bool {
					if se, ok := n.(*ast.SelectorExpr); ok && strings.EqualFold(se.Sel.Name, leaf) {
						still = true
					}
					return !still
				})
			}
		}
		if !still {
			continue
		}
		if byNumber {
			return s, fmt.Sprintf("a plain number where the spec's operand is `%s` (which still exists, so this is not a rename)", lit)
		}
		return s, fmt.Sprintf("`%s` where the spec's operand is `%s` (which still exists here, so this is not a rename)", other, lit)
	}
	return nil, ""
}

// canonCmp: "<op> <polynomial>" oriented on the first monomial, strict orderings turned into non-strict ones.
func canonCmp(p Poly, op token.Token) string {
	var keys []string
	for k := range p {
		if k != "" {
			keys = append(keys, k)
		}
	}
	sort.Strings(keys)
	if len(keys) > 0 && p[keys[0]] < 0 {
		p = polyMul(p, polyConst(-1))
		op = flipOp[op]
	}
	switch op {
	case token.LSS:
		p = polyAdd(p, polyConst(1), 1)
		op = token.LEQ
	case token.GTR:
		p = polyAdd(p, polyConst(1), -1)
		op = token.GEQ
	}
	return op.String() + " " + p.String()
}

// cmpAbsMatch: every entry of the group has a comparison with the same type-named canonical form among the sites no
// other entry accounts for. verdict "" = renamed; otherwise the description of a replaced operand.
// cmpAbsHits: the sites the last successful cmpAbsMatch settled on (for the closed-coverage accounting).
var cmpAbsHits []token.Pos

func cmpAbsMatch(fn string, entries []cmpSpec, atoms []string, sites []cmpSite, claimed map[token.Pos]bool) (bool, string, token.Pos) {
	cmpAbsHits = nil
	allByValue := true
	used := map[int]int{}
	var first token.Pos
	var gotNamed []string
	viaHelper := false
	for _, e := range entries {
		if e.abs == "" {
			return false, "", token.NoPos
		}
		n := e.count
		if n == 0 {
			n = 1
		}
		for ; n > 0; n-- {
			hit := -1
			for i := range sites {
				if (used[i] >= 1 && used[i] >= sites[i].mult) || claimed[sites[i].pos] {
					continue
				}
				// a renamed local (same shape by type, and the same once locals are read through), or the same
				// comparison with a value moved into / out of a local
				sameRA := e.ra != "" && canonCutAbs(sites[i].pra, sites[i].cop()) == e.ra
				sameRes := e.res != "" && canonCut(sites[i].pr, sites[i].cop()) == e.res
				if sameRA || (e.ra == "" && canonCutAbs(sites[i].pa, sites[i].cop()) == e.abs) || sameRes {
					hit = i
					if !sameRes {
						allByValue = false
					}
					break
				}
			}
			if hit < 0 {
				return false, "", token.NoPos
			}
			used[hit]++
			cmpAbsHits = append(cmpAbsHits, sites[hit].pos)
			if first == token.NoPos {
				first = sites[hit].pos
			}
			if sites[hit].from != "" {
				viaHelper = true
			}
			gotNamed = append(gotNamed, sites[hit].p.String(), sites[hit].pr.String())
			for u := range sites[hit].uses {
				gotNamed = append(gotNamed, u)
			}
		}
	}
	// renamed, or another variable of the same type put in its place?
	var want []string
	for _, a := range atoms {
		want = append(want, atomLiteral(a))
	}
	if viaHelper {
		// the comparison now lives in a helper with its own parameter names: nothing to compare names against
		return true, "", first
	}
	if allByValue {
		// every comparison was found by its resolved form (locals read through to the values they hold): it compares
		// the reviewed values, whatever the locals are called now and whatever else goes by the old names
		return true, "", first
	}
	stillDeclaredAt = first
	sw := stillDeclaredIn(fn, want, gotNamed)
	stillDeclaredAt = token.NoPos
	if len(sw) > 0 {
		return true, fmt.Sprintf("the comparison has the reviewed shape but no longer uses %v, which still exist(s) in the function: another value of the same type was put in its place", sw), first
	}
	return true, "", first
}

// valueOfOwnHelper: an operand of p is the result of a call of an unexported function of fn's package.
func valueOfOwnHelper(fn string, p Poly) bool {
	pkg := fn
	if i := strings.Index(fn, "."); i >= 0 {
		pkg = fn[:i]
	}
	for a := range p {
		i := strings.Index(a, "(")
		if i <= 0 {
			continue
		}
		name := a[:i]
		if name == "" || !(name[0] >= 'a' && name[0] <= 'z') || strings.ContainsAny(name, ".[") {
			continue
		}
		if _, ok := cmpDecls[pkg+"."+name]; ok {
			return true
		}
	}
	return false
}

// cmpForm: the form of the comparison (as written, or with single-definition locals substituted) that mentions
// exactly the given operands.
func cmpForm(s cmpSite, res []*regexp.Regexp) (Poly, bool) {
	forms := []Poly{s.p, s.pr}
	// each naming local spelled out on its own, and all of them together
	if len(s.alias) > 0 {
		all := Poly{}
		for a, cf := range s.p {
			if to, ok := s.alias[a]; ok {
				all[to] += cf
			} else {
				all[a] += cf
			}
		}
		forms = append(forms, all)
		for from, to := range s.alias {
			one := Poly{}
			for a, cf := range s.p {
				if a == from {
					one[to] += cf
				} else {
					one[a] += cf
				}
			}
			forms = append(forms, one)
		}
	}
	for _, form := range forms {
		if form == nil {
			continue
		}
		okAll := true
		for _, re := range res {
			if _, ok := coefOfAtom(form, re); !ok {
				okAll = false
			}
		}
		if okAll && len(atomsOf(form)) == len(res) {
			return form, true
		}
	}
	return nil, false
}

// canonCut: the cut a comparison makes, independent of which side the code calls true (see sig in ruleCmpSpec):
// "cut <P>" stands for {P <= 0 | P >= 1}, "eq <P>" for {P == 0 | P != 0}; P oriented on its first monomial.
func canonCut(p Poly, op token.Token) string {
	if p == nil {
		return ""
	}
	var keys []string
	for k := range p {
		if k != "" {
			keys = append(keys, k)
		}
	}
	sort.Strings(keys)
	if len(keys) > 0 && p[keys[0]] < 0 {
		p = polyMul(p, polyConst(-1))
		op = flipOp[op]
	}
	switch op {
	case token.LEQ, token.GTR, opNZHi, opNZLo:
		return "cut " + p.String()
	case token.LSS, token.GEQ:
		return "cut " + polyAdd(p, polyConst(1), 1).String()
	}
	return "eq " + p.String()
}

var absTokRe = regexp.MustCompile("\u00a7[^#*()\\[\\],;+ ]+#[0-9]+")

// canonCutAbs: canonCut over the type-named form, made independent of the order in which the locals were met: the
// numbering of same-typed locals is chosen so that the resulting text is smallest.
// lastAbsPoly: the (relabelled) polynomial canonCutAbs settled on, for callers that need its orientation.
var lastAbsPoly Poly

func canonCutAbs(p Poly, op token.Token) string {
	lastAbsPoly = p
	base := canonCut(p, op)
	toks := map[string][]string{} // type -> distinct placeholders
	seen := map[string]bool{}
	for _, t := range absTokRe.FindAllString(base, -1) {
		if !seen[t] {
			seen[t] = true
			ty := t[:strings.LastIndex(t, "#")]
			toks[ty] = append(toks[ty], t)
		}
	}
	multi := false
	for _, ts := range toks {
		if len(ts) > 1 {
			multi = true
		}
		if len(ts) > 4 {
			return base
		}
	}
	if !multi {
		return base
	}
	best := ""
	var types []string
	for ty := range toks {
		types = append(types, ty)
	}
	sort.Strings(types)
	var rec func(i int, ren map[string]string)
	rec = func(i int, ren map[string]string) {
		if i == len(types) {
			q := Poly{}
			for k, c := range p {
				nk := k
				if k != "" {
					parts := strings.Split(k, "*")
					for j, a := range parts {
						parts[j] = absTokRe.ReplaceAllStringFunc(a, func(t string) string {
							if r, ok := ren[t]; ok {
								return r
							}
							return t
						})
					}
					sort.Strings(parts)
					nk = strings.Join(parts, "*")
				}
				q[nk] += c
			}
			if s := canonCut(q, op); best == "" || s < best {
				best = s
				lastAbsPoly = q
			}
			return
		}
		ts := toks[types[i]]
		perm := make([]int, len(ts))
		for j := range perm {
			perm[j] = j
		}
		var permute func(k int)
		permute = func(k int) {
			if k == len(perm) {
				r2 := map[string]string{}
				for a, b := range ren {
					r2[a] = b
				}
				for j, t := range ts {
					r2[t] = fmt.Sprintf("%s#%d", types[i], perm[j]+1)
				}
				rec(i+1, r2)
				return
			}
			for j := k; j < len(perm); j++ {
				perm[k], perm[j] = perm[j], perm[k]
				permute(k + 1)
				perm[k], perm[j] = perm[j], perm[k]
			}
		}
		permute(0)
	}
	rec(0, map[string]string{})
	return best
}

var negOp = map[token.Token]token.Token{token.LSS: token.GEQ, token.GEQ: token.LSS, token.GTR: token.LEQ, token.LEQ: token.GTR, token.EQL: token.NEQ, token.NEQ: token.EQL}

// refusalOp: if the comparison (possibly under !, &&, ||, parentheses) is the condition of an if one of whose outcomes
// refuses — returns an error / false / a non-ACCEPT verdict, or skips the element with continue/break — the operator
// under which the refusal happens. An inverted condition with swapped branches, `if !(a == b)`, an early `return nil`
// on the good case followed by the error all give the same answer. 0 when the comparison does not govern a refusal.
func refusalOp(info *types.Info, fd *ast.FuncDecl, parents map[ast.Node]ast.Node, be *ast.BinaryExpr) token.Token {
	return refusalOpFrom(info, fd, parents, be, be, false, 0)
}

// refusalOpFrom climbs from cur (a node that stands for the comparison be, under neg negations so far).
func refusalOpFrom(info *types.Info, fd *ast.FuncDecl, parents map[ast.Node]ast.Node, be *ast.BinaryExpr, cur ast.Node, neg bool, depth int) token.Token {
	for {
		par := parents[cur]
		switch p := par.(type) {
		case *ast.ParenExpr:
			cur = p
			continue
		case *ast.UnaryExpr:
			if p.Op == token.NOT {
				neg = !neg
				cur = p
				continue
			}
			return 0
		case *ast.BinaryExpr:
			if p.Op == token.LAND || p.Op == token.LOR {
				cur = p
				continue
			}
			return 0
		case *ast.IfStmt:
			if p.Cond != cur {
				return 0
			}
			skips := func(b *ast.BlockStmt) bool {
				if b == nil || len(b.List) == 0 {
					return false
				}
				if br, ok := b.List[len(b.List)-1].(*ast.BranchStmt); ok {
					// `continue` skips the element; a lone `break` gives up; `found = true; break` is the action of a search
					if br.Tok == token.CONTINUE || (br.Tok == token.BREAK && len(b.List) == 1) {
						return true
					}
				}
				if r, ok := b.List[0].(*ast.ReturnStmt); ok && len(b.List) == 1 {
					if len(r.Results) == 0 && fd.Type.Results == nil {
						return true // a bare return: nothing (more) is done
					}
					// `return nil` / `return 0, nil`: the rest is skipped, nothing is reported
					allZero := len(r.Results) > 0
					for _, e := range r.Results {
						if id, ok := ast.Unparen(e).(*ast.Ident); ok && id.Name == "nil" {
							continue
						}
						if tv, ok := info.Types[e]; ok && tv.Value != nil && (tv.Value.ExactString() == "0" || tv.Value.ExactString() == "false" || tv.Value.ExactString() == `""`) {
							continue
						}
						allZero = false
					}
					if allZero {
						return true
					}
				}
				// a function with a named error result and a single exit refuses by setting that result:
				// `} else { err = fmt.Errorf(…) }` … `return err`
				if as, ok := b.List[len(b.List)-1].(*ast.AssignStmt); ok && len(as.Lhs) == 1 && len(as.Rhs) == 1 && as.Tok == token.ASSIGN {
					if id, ok := ast.Unparen(as.Lhs[0]).(*ast.Ident); ok && fd.Type.Results != nil {
						isNamedErr := false
						for _, fl := range fd.Type.Results.List {
							for _, nm := range fl.Names {
								if info.Defs[nm] == info.ObjectOf(id) && isErrorT(info.TypeOf(fl.Type)) {
									isNamedErr = true
								}
							}
						}
						if isNamedErr {
							if cl, ok := ast.Unparen(as.Rhs[0]).(*ast.CallExpr); ok {
								if f := calleeFunc(info, cl); f != nil && f.Pkg() != nil && (f.Pkg().Path() == "fmt" || f.Pkg().Path() == "errors") {
									return true
								}
							}
						}
					}
				}
				if !refusalBlock(info, b, fd) {
					return false
				}
				// `return helper(…)` hands the work on; it refuses nothing by itself
				if r, ok := b.List[len(b.List)-1].(*ast.ReturnStmt); ok && len(r.Results) > 0 {
					if cl, ok := ast.Unparen(r.Results[len(r.Results)-1]).(*ast.CallExpr); ok {
						if f := calleeFunc(info, cl); f != nil && isZrnt(f) {
							return false
						}
					}
				}
				// a block that also holds a success return is a separate path through the function, not a refusal
				pure := true
				ast.Inspect(b, func(n ast.Node) bool {
					switch r := n.(type) {
					case *ast.FuncLit:
						return false
					case *ast.ReturnStmt:
						if !refusalBlock(info, &ast.BlockStmt{List: []ast.Stmt{r}}, fd) {
							pure = false
						}
					}
					return pure
				})
				return pure
			}
			// soft: the block merely skips the rest (return nil / continue / lone break / bare return); a block that
			// reports (error, false, non-ACCEPT) weighs more: `if bad { return err } else { return nil }` refuses on bad
			soft := func(b *ast.BlockStmt) bool {
				if b == nil || len(b.List) == 0 {
					return false
				}
				if _, ok := b.List[len(b.List)-1].(*ast.BranchStmt); ok {
					return true
				}
				if r, ok := b.List[0].(*ast.ReturnStmt); ok && len(b.List) == 1 {
					return !refusalBlock(info, b, fd) || len(r.Results) == 0
				}
				return false
			}
			thenRef := skips(p.Body)
			elseRef := false
			eb, _ := p.Else.(*ast.BlockStmt)
			if eb != nil {
				elseRef = skips(eb)
			}
			if thenRef && elseRef && soft(p.Body) != soft(eb) {
				if soft(p.Body) {
					thenRef = false
				} else {
					elseRef = false
				}
			}
			if (!thenRef || soft(p.Body)) && !elseRef && p.Else == nil {
				// `if good { ...; return nil }` directly followed by the refusal
				if blk, ok := parents[p].(*ast.BlockStmt); ok {
					for i, st := range blk.List {
						if st == ast.Stmt(p) && i+1 < len(blk.List) {
							if r, ok := blk.List[i+1].(*ast.ReturnStmt); ok && terminates(p.Body) {
								elseRef = refusalBlock(info, &ast.BlockStmt{List: []ast.Stmt{r}}, fd)
								// `return helper(…)` hands the work on; it refuses nothing by itself
								if len(r.Results) > 0 {
									if cl, ok := ast.Unparen(r.Results[len(r.Results)-1]).(*ast.CallExpr); ok {
										if f := calleeFunc(info, cl); f != nil && isZrnt(f) {
											elseRef = false
										}
									}
								}
								if elseRef && thenRef {
									thenRef = false // the skip yields to the refusal that follows it
								}
							}
						}
					}
				}
			}
			op := be.Op
			switch {
			case thenRef && !elseRef:
			case elseRef && !thenRef:
				op = negOp[op]
			// An `if` whose branches both DO something (or whose only branch overrides a default: `x := a; if c { x = b }`
			// is `x := b; if !c { x = a }`) is a two-way split; which half stands in the `if` is a matter of style, so
			// no side is recorded for those: only refusing / skipping branches give a comparison a side.
			default:
				return 0
			}
			if neg {
				op = negOp[op]
			}
			return op
		case *ast.CaseClause:
			// `case cond:` of a tagless switch reads like the `if cond` of a chain
			isCase := false
			for _, e := range p.List {
				if e == cur {
					isCase = true
				}
			}
			if !isCase || len(p.List) != 1 {
				return 0
			}
			if sw, ok := parents[parents[p]].(*ast.SwitchStmt); !ok || sw.Tag != nil {
				return 0
			}
			blk := &ast.BlockStmt{List: p.Body}
			op := be.Op
			if len(p.Body) == 0 {
				return 0
			}
			pureRef := refusalBlock(info, blk, fd)
			if br, ok := p.Body[len(p.Body)-1].(*ast.BranchStmt); ok && br.Tok == token.CONTINUE {
				pureRef = true
			}
			if pureRef {
				ast.Inspect(blk, func(n ast.Node) bool {
					if r, ok := n.(*ast.ReturnStmt); ok && !refusalBlock(info, &ast.BlockStmt{List: []ast.Stmt{r}}, fd) {
						pureRef = false
					}
					return pureRef
				})
			}
			if br, ok := p.Body[len(p.Body)-1].(*ast.BranchStmt); ok && br.Tok == token.BREAK && len(p.Body) == 1 {
				pureRef = true
			}
			if !pureRef {
				return 0
			}
			if neg {
				op = negOp[op]
			}
			return op
		case *ast.ForStmt:
			if p.Cond != cur {
				return 0
			}
			op := negOp[be.Op] // the loop is left when the condition is false
			if neg {
				op = negOp[op]
			}
			return op
		case *ast.ReturnStmt, *ast.AssignStmt, *ast.ValueSpec, *ast.KeyValueExpr:
			// the comparison defines a flag (`moved := a || n > c`) that is tested exactly once, in a condition: what it
			// governs is what that condition governs
			if as, isAs := p.(*ast.AssignStmt); isAs && len(as.Lhs) == 1 && len(as.Rhs) == 1 && as.Rhs[0] == cur && as.Tok == token.DEFINE {
				if fid, ok := as.Lhs[0].(*ast.Ident); ok && info.Defs[fid] != nil {
					o := info.Defs[fid]
					var uses []*ast.Ident
					reassigned := false
					ast.Inspect(fd.Body, func(k ast.Node) bool {
						switch x := k.(type) {
						case *ast.Ident:
							if info.Uses[x] == o {
								uses = append(uses, x)
							}
						case *ast.AssignStmt:
							if x != as {
								for _, l := range x.Lhs {
									if lid, ok := ast.Unparen(l).(*ast.Ident); ok && info.ObjectOf(lid) == o {
										reassigned = true
									}
								}
							}
						}
						return true
					})
					if !reassigned && len(uses) == 1 && depth < 3 {
						// (when the use governs no refusal, the value convention below still tells == from !=)
						if r := refusalOpFrom(info, fd, parents, be, uses[0], neg, depth+1); r != 0 {
							return r
						}
					}
				}
			}
			// a boolean VALUE (returned, stored): its polarity is fixed by what the value means; recorded as the
			// operator under which the value is FALSE so that it shares the "refused when" vocabulary
			op := negOp[be.Op]
			if neg {
				op = negOp[op]
			}
			return op
		default:
			return 0
		}
	}
}

// branchMark: 1 when the distinguishing non-local name is in a, 2 when in b, 0 when there is none.
func branchMark(info *types.Info, a, b ast.Node) int {
	names := func(n ast.Node) map[string]bool {
		m := map[string]bool{}
		ast.Inspect(n, func(k ast.Node) bool {
			id, ok := k.(*ast.Ident)
			if !ok {
				return true
			}
			o := info.ObjectOf(id)
			switch v := o.(type) {
			case *types.Func, *types.Const:
				m[id.Name] = true
			case *types.Var:
				if v.IsField() || (v.Pkg() != nil && v.Parent() == v.Pkg().Scope()) {
					m[id.Name] = true
				}
			}
			return true
		})
		return m
	}
	na, nb := names(a), names(b)
	best, where := "", 0
	for n := range na {
		if !nb[n] && (best == "" || n < best) {
			best, where = n, 1
		}
	}
	for n := range nb {
		if !na[n] && (best == "" || n < best) {
			best, where = n, 2
		}
	}
	return where
}

// cutSide: on which side of the cut written by canonCut(p, op) the path is refused/skipped, given the operator rop
// under which that happens for `p rop 0`: "hi" (Q > 0), "lo" (Q <= 0), "eq", "ne", or "" when unknown.
func cutSide(p Poly, rop token.Token) string {
	if rop == 0 || p == nil {
		return ""
	}
	var keys []string
	for k := range p {
		if k != "" {
			keys = append(keys, k)
		}
	}
	sort.Strings(keys)
	if len(keys) > 0 && p[keys[0]] < 0 {
		rop = flipOp[rop]
	}
	switch rop {
	case token.GTR, token.GEQ:
		return "hi"
	case token.LSS, token.LEQ:
		return "lo"
	case token.EQL:
		return "eq"
	case token.NEQ:
		return "ne"
	}
	return ""
}

// countingLoop: be is the condition of `for i := 0; i < E; i++`.
func countingLoop(info *types.Info, parents map[ast.Node]ast.Node, be *ast.BinaryExpr) bool {
	// the condition itself, or a conjunct of it: `for i := 0; i < n && more; i++`
	var top ast.Node = be
	for {
		p, ok := parents[top].(*ast.BinaryExpr)
		if ok && p.Op == token.LAND {
			top = p
			continue
		}
		if pe, ok := parents[top].(*ast.ParenExpr); ok {
			top = pe
			continue
		}
		break
	}
	f, ok := parents[top].(*ast.ForStmt)
	if !ok || f.Cond != top {
		return false
	}
	// i < n, or n > i
	var iv *ast.Ident
	switch be.Op {
	case token.LSS:
		iv, ok = ast.Unparen(be.X).(*ast.Ident)
	case token.GTR:
		iv, ok = ast.Unparen(be.Y).(*ast.Ident)
	default:
		return false
	}
	if !ok {
		return false
	}
	as, ok := f.Init.(*ast.AssignStmt)
	if !ok || as.Tok != token.DEFINE || len(as.Lhs) != len(as.Rhs) {
		return false
	}
	// `i := 0`, or `i, other := 0, expr` (a loop-invariant local declared beside the counter)
	at := -1
	for k, l := range as.Lhs {
		if id, ok := l.(*ast.Ident); ok && id.Name == iv.Name {
			at = k
		}
	}
	if at < 0 {
		return false
	}
	if tv, ok := info.Types[as.Rhs[at]]; !ok || tv.Value == nil || tv.Value.ExactString() != "0" {
		return false
	}
	switch post := f.Post.(type) {
	case *ast.IncDecStmt:
		if post.Tok != token.INC {
			return false
		}
		if id, ok := ast.Unparen(post.X).(*ast.Ident); !ok || id.Name != iv.Name {
			return false
		}
	case *ast.AssignStmt:
		if post.Tok != token.ADD_ASSIGN || len(post.Lhs) != 1 || len(post.Rhs) != 1 {
			return false
		}
		if id, ok := ast.Unparen(post.Lhs[0]).(*ast.Ident); !ok || id.Name != iv.Name {
			return false
		}
		if tv, ok := info.Types[post.Rhs[0]]; !ok || tv.Value == nil || tv.Value.ExactString() != "1" {
			return false
		}
	default:
		return false
	}
	// the counter is not written in the body
	written := false
	ast.Inspect(f.Body, func(n ast.Node) bool {
		switch x := n.(type) {
		case *ast.AssignStmt:
			if ast.Node(x) == ast.Node(f.Post) {
				return true
			}
			for _, l := range x.Lhs {
				if id, ok := ast.Unparen(l).(*ast.Ident); ok && info.ObjectOf(id) == info.ObjectOf(iv) {
					written = true
				}
			}
		case *ast.IncDecStmt:
			if id, ok := ast.Unparen(x.X).(*ast.Ident); ok && info.ObjectOf(id) == info.ObjectOf(iv) {
				written = true
			}
		}
		return !written
	})
	return !written
}

func isIfStmt(s ast.Stmt) bool { _, ok := s.(*ast.IfStmt); return ok }

// branchNamesOf: for a comparison in the condition of an `if` (through parentheses, !, && and ||): the fields,
// functions and constants (no locals: renaming one must not matter) mentioned by the then-branch, and by the
// else-branch — or, when the then-branch always leaves, by the statements that follow the `if`.
func branchNamesOf(info *types.Info, parents map[ast.Node]ast.Node, be *ast.BinaryExpr) (tn, en map[string]bool, neg bool) {
	var cur ast.Node = be
	for {
		switch p := parents[cur].(type) {
		case *ast.ParenExpr:
			cur = p
			continue
		case *ast.UnaryExpr:
			if p.Op != token.NOT {
				return nil, nil, false
			}
			neg = !neg
			cur = p
			continue
		case *ast.BinaryExpr:
			if p.Op != token.LAND && p.Op != token.LOR {
				return nil, nil, false
			}
			cur = p
			continue
		case *ast.IfStmt:
			if p.Cond != cur {
				return nil, nil, false
			}
			names := func(nodes ...ast.Node) map[string]bool {
				m := map[string]bool{}
				for _, n := range nodes {
					if n == nil {
						continue
					}
					var visit func(n ast.Node, depth int)
					visit = func(n ast.Node, depth int) {
						ast.Inspect(n, func(k ast.Node) bool {
							id, ok := k.(*ast.Ident)
							if !ok {
								return true
							}
							switch v := info.ObjectOf(id).(type) {
							case *types.Func, *types.Const:
								m[id.Name] = true
							case *types.Var:
								if v.IsField() || (v.Pkg() != nil && v.Parent() == v.Pkg().Scope()) {
									m[id.Name] = true
								}
								// a parameter of a helper read at its call site stands for the argument: the fields
								// and functions the argument names are touched by this branch
								if a, ok := polyArgs[v]; ok && depth < 3 {
									visit(a, depth+1)
								}
							}
							return true
						})
					}
					visit(n, 0)
				}
				return m
			}
			tn = names(p.Body)
			switch {
			case p.Else != nil:
				en = names(p.Else)
			case terminates(p.Body):
				// the last `else if` of a chain whose earlier branches all leave: what follows the chain follows it
				var top ast.Stmt = p
				for {
					up, isIf := parents[top].(*ast.IfStmt)
					if !isIf || up.Else != top || !terminates(up.Body) {
						break
					}
					top = up
				}
				if blk, ok := parents[top].(*ast.BlockStmt); ok {
					var rest []ast.Node
					for i, st := range blk.List {
						if st == top {
							for _, r := range blk.List[i+1:] {
								rest = append(rest, r)
							}
						}
					}
					en = names(rest...)
				}
			}
			if en == nil {
				en = map[string]bool{}
			}
			return tn, en, neg
		default:
			return nil, nil, false
		}
	}
}

// pickMark: the name the table records for a comparison that governs actions only: the first (alphabetically) name of
// the then-branch that the other branch does not mention, failing that the first of the other branch.
func pickMark(s cmpSite) string {
	best := ""
	for n := range s.tn {
		if !s.en[n] && (best == "" || n < best) {
			best = n
		}
	}
	if best != "" {
		return best
	}
	for n := range s.en {
		if !s.tn[n] && (best == "" || n < best) {
			best = n
		}
	}
	return best
}

// markRop: the operator under which the action that mentions mk is SKIPPED at this site: the negated test when mk is
// in the then-branch only, the test itself when it is in the other branch only; 0 when it is in both or in neither
// (the action was moved: nothing is concluded). Swapping the branches and negating the test gives the same answer;
// negating the test alone does not.
func markRop(s cmpSite, mk string) token.Token {
	if s.tn == nil || mk == "" {
		return 0
	}
	var op token.Token
	switch {
	case s.tn[mk] && !s.en[mk]:
		op = negOp[s.op]
	case s.en[mk] && !s.tn[mk]:
		op = s.op
	default:
		return 0
	}
	if s.negc {
		op = negOp[op]
	}
	return op
}

// recvArg: a method helper called on something other than the caller's receiver: its receiver stands for that value.
func recvArg(hd cmpDecl, call *ast.CallExpr, callerRecv types.Object, callerInfo *types.Info, subst map[types.Object]ast.Expr) {
	if hd.fd.Recv == nil || len(hd.fd.Recv.List) != 1 || len(hd.fd.Recv.List[0].Names) != 1 || call == nil {
		return
	}
	sel, ok := ast.Unparen(call.Fun).(*ast.SelectorExpr)
	if !ok || !substitutable(sel.X) {
		return
	}
	if id, ok := ast.Unparen(sel.X).(*ast.Ident); ok && callerRecv != nil && callerInfo.Uses[id] == callerRecv {
		return
	}
	ro := hd.pk.TypesInfo.Defs[hd.fd.Recv.List[0].Names[0]]
	if ro == nil || assignedIn(hd.pk.TypesInfo, hd.fd.Body, ro) {
		return
	}
	subst[ro] = sel.X
}

// cmpOnLiteralParam: the comparison at pos in fn stands inside a function literal and mentions one of that literal's
// parameters.
func cmpOnLiteralParam(fn string, pos token.Pos) bool {
	d, ok := cmpDecls[fn]
	if !ok || d.fd == nil || d.fd.Body == nil {
		return false
	}
	info := d.pk.TypesInfo
	res := false
	var lits []*ast.FuncLit
	ast.Inspect(d.fd.Body, func(n ast.Node) bool {
		if n == nil {
			return false
		}
		if fl, ok := n.(*ast.FuncLit); ok && fl.Pos() <= pos && pos < fl.End() {
			lits = append(lits, fl)
		}
		if be, ok := n.(*ast.BinaryExpr); ok && be.Pos() == pos && len(lits) > 0 {
			params := map[types.Object]bool{}
			for _, fl := range lits {
				if fl.Type.Params != nil {
					for _, f := range fl.Type.Params.List {
						for _, nm := range f.Names {
							params[info.Defs[nm]] = true
						}
					}
				}
			}
			ast.Inspect(be, func(k ast.Node) bool {
				if id, ok := k.(*ast.Ident); ok && params[info.Uses[id]] {
					res = true
				}
				return !res
			})
		}
		return !res
	})
	return res
}
