package main

import (
	"fmt"
	"go/ast"
	"go/token"
	"go/types"
	"os"
	"regexp"
	"sort"
	"strings"

	"golang.org/x/tools/go/packages"
)

// A comparison, normalised: P = lhs - rhs as a polynomial over leaf names (no local resolution), and the operator.
type cmpSite struct {
	fn   string
	pos  token.Pos
	op   token.Token
	p    Poly
	text string
	lt   types.Type
}

var flipOp = map[token.Token]token.Token{token.LSS: token.GTR, token.LEQ: token.GEQ, token.GTR: token.LSS, token.GEQ: token.LEQ, token.EQL: token.EQL, token.NEQ: token.NEQ}

func collectCmps(p *Prog) map[string][]cmpSite {
	out := map[string][]cmpSite{}
	p.funcDecls(func(pk *packages.Package, fd *ast.FuncDecl) {
		info := pk.TypesInfo
		fn := pkgShort(pk.Types) + "." + funcName(fd)
		ast.Inspect(fd.Body, func(n ast.Node) bool {
			be, ok := n.(*ast.BinaryExpr)
			if !ok {
				return true
			}
			switch be.Op {
			case token.LSS, token.LEQ, token.GTR, token.GEQ, token.EQL, token.NEQ:
			default:
				return true
			}
			l, ok1 := exprPoly(info, be.X, nil, nil, 0)
			r, ok2 := exprPoly(info, be.Y, nil, nil, 0)
			if !ok1 || !ok2 {
				// non-arithmetic operands (structs, roots, nil): keep with opaque atoms
				l = polyAtom(strings.ReplaceAll(types.ExprString(be.X), " ", ""))
				r = polyAtom(strings.ReplaceAll(types.ExprString(be.Y), " ", ""))
			}
			out[fn] = append(out[fn], cmpSite{fn, be.Pos(), be.Op, polyAdd(l, r, -1), types.ExprString(be), info.TypeOf(be.X)})
			return true
		})
	})
	return out
}

// cmpSpec is one boundary comparison of the consensus / p2p specification, located in zrnt by function and operand leaves.
type cmpSpec struct {
	fn    string   // pkg.Func or pkg.Recv.Func
	atoms []string // regexes; each must match some atom of P; atoms[0] fixes the orientation (its coefficient is made positive)
	op    string   // required operator in that orientation
	k     int64    // required constant term of P in that orientation
	coefs []int64  // required coefficients of the atoms matched by atoms[i] (nil = all +-1 unchecked beyond sign of atoms[0])
	count int      // expected number of matching comparisons (0 = 1)
	typ   string   // optional: operand type name (e.g. "Checkpoint") instead of atoms
	spec  string   // the spec's formulation
}

func atomsOf(p Poly) []string {
	seen := map[string]bool{}
	for k := range p {
		if k == "" {
			continue
		}
		for _, a := range strings.Split(k, "*") {
			seen[a] = true
		}
	}
	var out []string
	for a := range seen {
		out = append(out, a)
	}
	sort.Strings(out)
	return out
}

func coefOfAtom(p Poly, re *regexp.Regexp) (int64, bool) {
	for k, c := range p {
		if k == "" {
			continue
		}
		for _, a := range strings.Split(k, "*") {
			if re.MatchString(a) {
				return c, true
			}
		}
	}
	return 0, false
}

func init() {
	register(&Rule{Name: "cmp.spec", Floor: 40,
		Doc: "each boundary comparison of the specification that zrnt implements (listed in the checker with the spec's formulation) is present in its function with the spec's operator and the spec's integer offset, after normalising both sides to `lhs - rhs` over the operand leaves (so `a+1 < b`, `a < b-1` and `b-1 > a` are the same comparison, while `<` vs `<=` or a dropped `+1` is not)",
		Run: ruleCmpSpec})
	if len(os.Args) > 1 && os.Args[1] == "cmps" {
		p, err := load(loadOpts{repo: "/repo"})
		if err != nil {
			fmt.Println(err)
			os.Exit(2)
		}
		all := collectCmps(p)
		for _, fn := range sortedKeys(all) {
			if len(os.Args) > 2 && !strings.Contains(fn, os.Args[2]) {
				continue
			}
			for _, s := range all[fn] {
				fmt.Printf("%-55s %-2s  P=%-60s  // %s\n", fn, s.op, s.p.String(), s.text)
			}
		}
		os.Exit(0)
	}
}

func ruleCmpSpec(c *Ctx) {
	all := collectCmps(c.P)
	// group entries that talk about the same operands in the same function: the set of (operator, offset) pairs found
	// must equal the set the spec prescribes
	type group struct {
		fn      string
		atoms   []string
		entries []cmpSpec
	}
	var order []string
	groups := map[string]*group{}
	for _, cs := range cmpTable {
		if cs.typ != "" {
			key := fmt.Sprintf("%s[type %s %s]", cs.fn, cs.typ, cs.op)
			sites := all[cs.fn]
			n := 0
			var first token.Pos
			for _, s := range sites {
				if nt := namedOf(s.lt); nt != nil && nt.Obj().Name() == cs.typ && s.op.String() == cs.op {
					n++
					if first == token.NoPos {
						first = s.pos
					}
				}
			}
			switch {
			case len(sites) == 0:
				c.unm(key, token.NoPos, "function %s not found", cs.fn)
			case n != cs.count:
				c.bad(key, sites[0].pos, "%s: expected %d comparisons (%s) of whole %s values, found %d — %s", cs.fn, cs.count, cs.op, cs.typ, n, cs.spec)
			default:
				c.ok(key, first, "%d whole-%s comparisons (%s)", n, cs.typ, cs.spec)
			}
			continue
		}
		sorted := append([]string{}, cs.atoms...)
		sort.Strings(sorted)
		gk := cs.fn + "|" + strings.Join(sorted, "|") + fmt.Sprintf("|ord=%v", isOrdering(cs.op))
		g := groups[gk]
		if g == nil {
			g = &group{fn: cs.fn, atoms: cs.atoms}
			groups[gk] = g
			order = append(order, gk)
		}
		g.entries = append(g.entries, cs)
	}
	for _, gk := range order {
		g := groups[gk]
		key := fmt.Sprintf("%s[%s]", g.fn, strings.Join(g.atoms, ","))
		sites, ok := all[g.fn]
		if !ok {
			c.unm(key, token.NoPos, "function %s not found (or has no comparisons)", g.fn)
			continue
		}
		var res []*regexp.Regexp
		for _, a := range g.atoms {
			res = append(res, regexp.MustCompile(a))
		}
		var matched, otherClass []cmpSite
		for _, s := range sites {
			okAll := true
			for _, re := range res {
				if _, ok := coefOfAtom(s.p, re); !ok {
					okAll = false
				}
			}
			// the comparison is about exactly these operands (no further atoms) and of the same class as the spec's
			// (ordering vs equality): an equality test over the same operands is a different condition
			if okAll && len(atomsOf(s.p)) == len(res) {
				if isOrdering(s.op.String()) == isOrdering(g.entries[0].op) {
					matched = append(matched, s)
				} else {
					otherClass = append(otherClass, s)
				}
			}
		}
		var specs []string
		for _, e := range g.entries {
			specs = append(specs, e.spec)
		}
		specStr := strings.Join(specs, " / ")
		if len(matched) == 0 && len(otherClass) > 0 {
			// the same operands are still compared, but an equality became an ordering test or the reverse
			c.bad(key, otherClass[0].pos, "%s compares these operands with %s where the rule is %s (%s)", g.fn, otherClass[0].op, g.entries[0].op, specStr)
			continue
		}
		if len(matched) == 0 {
			c.unm(key, sites[0].pos, "comparison not found in %s (spec: %s)", g.fn, specStr)
			continue
		}
		// expected and found multisets of "op k coefs"
		sig := func(op string, k int64, coefs []int64) string { return fmt.Sprintf("%s %+d %v", op, k, coefs) }
		want := map[string]int{}
		for _, e := range g.entries {
			n := e.count
			if n == 0 {
				n = 1
			}
			want[sig(e.op, e.k, e.coefs)] += n
		}
		got := map[string]int{}
		gotText := map[string]string{}
		for _, s := range matched {
			p := s.p
			op := s.op
			if co, _ := coefOfAtom(p, res[0]); co < 0 {
				p = polyMul(p, polyConst(-1))
				op = flipOp[op]
			}
			var coefs []int64
			for _, re := range res {
				co, _ := coefOfAtom(p, re)
				coefs = append(coefs, co)
			}
			sg := sig(op.String(), p[""], coefs)
			got[sg]++
			gotText[sg] = s.text
		}
		bad := false
		for sg, n := range got {
			if want[sg] != n {
				bad = true
				c.bad(key, matched[0].pos, "`%s` normalises to operator/offset/coefficients (%s) x%d; the spec prescribes {%s} here: %s (an off-by-one or a flipped operator at this boundary accepts or rejects exactly the edge case)", gotText[sg], sg, n, fmtWant(want), specStr)
				break
			}
		}
		if !bad {
			for sg, n := range want {
				if got[sg] != n {
					bad = true
					c.bad(key, matched[0].pos, "the spec's comparison (%s) x%d is missing in %s; found {%s}: %s", sg, n, g.fn, fmtWant(got), specStr)
					break
				}
			}
		}
		if !bad {
			c.ok(key, matched[0].pos, "%s", specStr)
		}
	}
}

func fmtWant(m map[string]int) string {
	var ks []string
	for k, n := range m {
		ks = append(ks, fmt.Sprintf("(%s)x%d", k, n))
	}
	sort.Strings(ks)
	return strings.Join(ks, ", ")
}

func isOrdering(op string) bool { return op == "<" || op == "<=" || op == ">" || op == ">=" }
