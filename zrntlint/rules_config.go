package main

import (
	"encoding/hex"
	"fmt"
	"go/ast"
	"go/constant"
	"go/token"
	"go/types"
	"os"
	"path/filepath"
	"strings"

	"gopkg.in/yaml.v3"
)

func init() {
	register(&Rule{Name: "config.values", Floor: 250,
		Doc: "the embedded preset/config YAML of the built-in mainnet and minimal configurations carries, for every key of the frozen consensus-specs v1.5.0-beta.2 table, exactly the published value; every field common.Spec declares has a key in the file it is decoded from (a missing key silently becomes 0); each go:embed variable feeds the Spec field of its own fork and network; Go-level spec constants (domain types, participation flags and weights, tree depth, gossip window) equal the spec's",
		Run: ruleConfigValues})
}

func normVal(s string) string {
	s = strings.TrimSpace(s)
	s = strings.Trim(s, "'\"")
	if strings.HasPrefix(s, "0x") || strings.HasPrefix(s, "0X") {
		return strings.ToLower(s)
	}
	return s
}

func (p *Prog) readRepoFile(rel string) ([]byte, error) {
	abs := filepath.Join(p.Repo, rel)
	if p.overlay != nil {
		if b, ok := p.overlay[abs]; ok {
			return b, nil
		}
	}
	return os.ReadFile(abs)
}

func ruleConfigValues(c *Ctx) {
	pk := c.P.Pkg("eth2/configs")
	if pk == nil {
		anchorFail("package configs not loaded")
	}
	info := pk.TypesInfo
	// 1. embed directives: var -> file
	embedOf := map[string]string{}
	for _, f := range pk.Syntax {
		for _, d := range f.Decls {
			gd, ok := d.(*ast.GenDecl)
			if !ok || gd.Tok != token.VAR || gd.Doc == nil {
				continue
			}
			for _, cm := range gd.Doc.List {
				if strings.HasPrefix(cm.Text, "//go:embed ") {
					for _, s := range gd.Specs {
						for _, n := range s.(*ast.ValueSpec).Names {
							embedOf[n.Name] = strings.TrimSpace(strings.TrimPrefix(cm.Text, "//go:embed "))
						}
					}
				}
			}
		}
	}
	if len(embedOf) < 14 {
		anchorFail("only %d go:embed variables found in configs", len(embedOf))
	}
	// 2. Spec literals: field <- mustYAML[T](var)
	type wiring struct {
		net, field, typ, varName, file string
		pos                            token.Pos
	}
	var wires []wiring
	for _, f := range pk.Syntax {
		for _, d := range f.Decls {
			gd, ok := d.(*ast.GenDecl)
			if !ok || gd.Tok != token.VAR {
				continue
			}
			for _, s := range gd.Specs {
				vs := s.(*ast.ValueSpec)
				for i, n := range vs.Names {
					if (n.Name != "Mainnet" && n.Name != "Minimal") || i >= len(vs.Values) {
						continue
					}
					ast.Inspect(vs.Values[i], func(m ast.Node) bool {
						kv, ok := m.(*ast.KeyValueExpr)
						if !ok {
							return true
						}
						call, ok := ast.Unparen(kv.Value).(*ast.CallExpr)
						if !ok || len(call.Args) != 1 {
							return true
						}
						id, ok := ast.Unparen(call.Args[0]).(*ast.Ident)
						if !ok {
							return true
						}
						typ := ""
						if nt := namedOf(info.TypeOf(call)); nt != nil {
							typ = nt.Obj().Name()
						}
						wires = append(wires, wiring{strings.ToLower(n.Name), kv.Key.(*ast.Ident).Name, typ, id.Name, embedOf[id.Name], kv.Pos()})
						return true
					})
				}
			}
		}
	}
	if len(wires) < 14 {
		anchorFail("only %d Spec field wirings found", len(wires))
	}
	fileOf := map[string]string{} // net/field -> file
	for _, w := range wires {
		key := "wiring." + w.net + "." + w.field
		want := ""
		if w.field == "Config" {
			want = "yamls/configs/" + w.net + ".yaml"
		} else {
			want = "yamls/presets/" + w.net + "/" + strings.ToLower(strings.TrimSuffix(w.field, "Preset")) + ".yaml"
		}
		switch {
		case w.typ != w.field:
			c.bad(key, w.pos, "Spec.%s is decoded as %s", w.field, w.typ)
		case w.file != want:
			c.bad(key, w.pos, "Spec.%s of %s is decoded from %s (variable %s), want %s", w.field, w.net, w.file, w.varName, want)
		default:
			c.ok(key, w.pos, "%s <- %s", w.field, w.file)
		}
		fileOf[w.net+"/"+w.field] = w.file
	}
	// 3. values against the frozen table
	parsed := map[string]map[string]string{}
	load := func(rel string) map[string]string {
		if m, ok := parsed[rel]; ok {
			return m
		}
		b, err := c.P.readRepoFile(filepath.Join("eth2/configs", rel))
		if err != nil {
			anchorFail("cannot read %s: %v", rel, err)
		}
		var node yaml.Node
		if err := yaml.Unmarshal(b, &node); err != nil {
			anchorFail("cannot parse %s: %v", rel, err)
		}
		m := map[string]string{}
		if len(node.Content) > 0 {
			mp := node.Content[0]
			for i := 0; i+1 < len(mp.Content); i += 2 {
				m[mp.Content[i].Value] = normVal(mp.Content[i+1].Value)
			}
		}
		parsed[rel] = m
		return m
	}
	nSpec, nPinned := 0, 0
	for _, net := range []string{"mainnet", "minimal"} {
		for _, sc := range specTable[net] {
			m := load("yamls/" + sc.file)
			key := net + "." + sc.key
			got, ok := m[sc.key]
			if sc.provenance == "spec" {
				nSpec++
			} else {
				nPinned++
			}
			switch {
			case !ok:
				c.bad(key, pk.Syntax[0].Pos(), "%s has no key %s (the constant silently becomes 0); the spec publishes %s", sc.file, sc.key, sc.value)
			case got != normVal(sc.value):
				c.bad(key, pk.Syntax[0].Pos(), "%s: %s = %s, consensus-specs v1.5.0-beta.2 publishes %s (%s)", sc.file, sc.key, got, sc.value, sc.provenance)
			default:
				c.ok(key, pk.Syntax[0].Pos(), "%s (%s)", got, sc.provenance)
			}
		}
	}
	c.stat("reference_values_spec", nSpec)
	c.stat("reference_values_pinned_tree", nPinned)
	// 4. every declared struct field has a key in its file
	cpk := c.P.Pkg("eth2/beacon/common")
	specT := cpk.Types.Scope().Lookup("Spec").Type().Underlying().(*types.Struct)
	for i := 0; i < specT.NumFields(); i++ {
		f := specT.Field(i)
		st, ok := f.Type().Underlying().(*types.Struct)
		if !ok || !f.Embedded() {
			continue
		}
		for _, net := range []string{"mainnet", "minimal"} {
			file := fileOf[net+"/"+f.Name()]
			if file == "" {
				c.bad("declared."+net+"."+f.Name(), f.Pos(), "Spec.%s is never filled for %s", f.Name(), net)
				continue
			}
			m := load(file)
			for j := 0; j < st.NumFields(); j++ {
				tag := reflectTag(st.Tag(j), "yaml")
				if tag == "" || tag == "-" {
					continue
				}
				key := "declared." + net + "." + tag
				if _, ok := m[tag]; ok {
					c.ok(key, st.Field(j).Pos(), "present in %s", file)
				} else {
					c.bad(key, st.Field(j).Pos(), "common.%s declares %s but %s has no such key: the built-in %s configuration carries 0 for it", f.Name(), tag, file, net)
				}
			}
		}
	}
	// 5. Go-level constants
	for _, q := range sortedKeys(goConstTable) {
		want := goConstTable[q]
		parts := strings.SplitN(q, ".", 2)
		var tp *types.Package
		for _, p2 := range c.P.Pkgs {
			if p2.Types.Name() == parts[0] && strings.HasPrefix(p2.PkgPath, modPath+"/eth2") {
				tp = p2.Types
			}
		}
		key := "const." + q
		if tp == nil {
			c.bad(key, token.NoPos, "package %s not found", parts[0])
			continue
		}
		obj, ok := tp.Scope().Lookup(parts[1]).(*types.Const)
		if !ok {
			c.bad(key, token.NoPos, "constant %s no longer exists", q)
			continue
		}
		got := obj.Val().ExactString()
		if obj.Val().Kind() == constant.Int {
			got = constant.ToInt(obj.Val()).ExactString()
		}
		if got != want {
			c.bad(key, obj.Pos(), "%s = %s, the spec's value is %s", q, got, want)
		} else {
			c.ok(key, obj.Pos(), "%s", got)
		}
	}
	// 6. domain types
	for _, f := range cpk.Syntax {
		for _, d := range f.Decls {
			gd, ok := d.(*ast.GenDecl)
			if !ok || gd.Tok != token.VAR {
				continue
			}
			for _, s := range gd.Specs {
				vs := s.(*ast.ValueSpec)
				for i, n := range vs.Names {
					want, ok := domainTable[n.Name]
					if !ok || i >= len(vs.Values) {
						continue
					}
					cl, ok := ast.Unparen(vs.Values[i]).(*ast.CompositeLit)
					key := "domain." + n.Name
					if !ok {
						c.unm(key, n.Pos(), "not a literal")
						continue
					}
					var bs []byte
					for _, el := range cl.Elts {
						if tv := cpk.TypesInfo.Types[el]; tv.Value != nil {
							v, _ := constant.Uint64Val(constant.ToInt(tv.Value))
							bs = append(bs, byte(v))
						}
					}
					for len(bs) < 4 {
						bs = append(bs, 0)
					}
					got := hex.EncodeToString(bs)
					if got != want {
						c.bad(key, n.Pos(), "%s = 0x%s, the spec's domain type is 0x%s (signatures made by other clients stop verifying; two domains may coincide)", n.Name, got, want)
					} else {
						c.ok(key, n.Pos(), "0x%s", got)
					}
				}
			}
		}
	}
}

// reflectTag extracts a struct tag value without importing reflect's StructTag on a types tag string.
func reflectTag(tag, key string) string {
	for tag != "" {
		i := 0
		for i < len(tag) && tag[i] == ' ' {
			i++
		}
		tag = tag[i:]
		if tag == "" {
			break
		}
		i = 0
		for i < len(tag) && tag[i] > ' ' && tag[i] != ':' && tag[i] != '"' {
			i++
		}
		if i == 0 || i+1 >= len(tag) || tag[i] != ':' || tag[i+1] != '"' {
			break
		}
		name := tag[:i]
		tag = tag[i+1:]
		i = 1
		for i < len(tag) && tag[i] != '"' {
			if tag[i] == '\\' {
				i++
			}
			i++
		}
		if i >= len(tag) {
			break
		}
		val := tag[1:i]
		tag = tag[i+1:]
		if name == key {
			if j := strings.Index(val, ","); j >= 0 {
				val = val[:j]
			}
			return val
		}
	}
	return ""
}

var _ = fmt.Sprint
