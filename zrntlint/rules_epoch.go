package main

import (
	"go/ast"
	"go/token"
	"go/types"
	"sort"
	"strings"

	"golang.org/x/tools/go/packages"
)

func init() {
	register(&Rule{Name: "epc.coverage", Floor: 8,
		Doc: "every EpochsContext field that the from-scratch constructor fills (directly or through methods on the same receiver) is also refreshed by the incremental RotateEpochs (sync-committee fields under the period-boundary branch); a cached field that is only ever filled from scratch is stale after the first epoch",
		Run: ruleEpcCoverage})
	register(&Rule{Name: "epc.shared", Floor: 6,
		Doc: "EpochsContext.Clone is shallow, so the structures its fields point to (ShufflingEpoch, ProposersEpoch, IndexedSyncCommittee, EffectiveBalances) are shared between a context and its clones: they are only written while being constructed (the value is fresh in the writing function); RotateEpochs/Load* replace whole fields; each fork's CopyState returns the persistent copy of the state tree and nothing else",
		Run: ruleEpcShared})
	register(&Rule{Name: "epc.upkeep", Floor: 4,
		Doc: "the phase0->altair upgrade branch loads the sync committees of the post-state into the context before installing it; ProcessSyncCommitteeUpdates keys the period test on the next epoch; ProcessSlots rotates the context after SetSlot",
		Run: ruleEpcUpkeep})
	register(&Rule{Name: "exitqueue.reset", Floor: 2,
		Doc: "in every loop that keeps a running maximum M together with a count C of elements equal to M (an assignment M = x under a condition whose cut is x > M, or M = max(M, x), raises M; an increment under x == M counts), raising M re-initialises C on that path (otherwise C counts elements of earlier, smaller maxima)",
		Run: ruleExitQueueReset})
	register(&Rule{Name: "genesis.init", Floor: 12,
		Doc: "GenesisFromEth1 performs the spec's initialize_beacon_state_from_eth1 steps with the spec's arguments (genesis time = eth1 time + GENESIS_DELAY, fork versions, eth1 data count/hash, empty-body header root, randao seed, per-deposit tree-root update before each ProcessDeposit, effective-balance rounding/cap and activation at MAX_EFFECTIVE_BALANCE, genesis validators root after activation, context loading); signature/proof skipping is requested only by the kick-start helpers. Helpers and local closures of the package are read in place; arguments are judged in their resolved normal form, identities by the object an expression resolves to, conditions by the comparisons that hold on the way to a call (the two tests of IsValidGenesisState are cmp.spec entries)",
		Run: ruleGenesisInit})
}

// fieldWrites computes the set of receiver fields assigned by method fd (direct stores only).
func recvFieldWrites(info *types.Info, fd *ast.FuncDecl, recv types.Object) map[string]bool {
	out := map[string]bool{}
	forEachStore(info, fd.Body, func(sel *ast.SelectorExpr, what string) {
		if id, ok := ast.Unparen(sel.X).(*ast.Ident); ok && info.Uses[id] == recv && what != "address-taken" {
			out[sel.Sel.Name] = true
		}
	})
	return out
}

func ruleEpcCoverage(c *Ctx) {
	pk := c.P.Pkg("eth2/beacon/common")
	info := pk.TypesInfo
	methods := map[string]*ast.FuncDecl{}
	for _, f := range pk.Syntax {
		for _, d := range f.Decls {
			if fd, ok := d.(*ast.FuncDecl); ok && fd.Body != nil && recvTypeName(fd) == "EpochsContext" {
				methods[fd.Name.Name] = fd
			}
		}
	}
	if methods["RotateEpochs"] == nil {
		anchorFail("EpochsContext.RotateEpochs not found")
	}
	var writes func(name string, seen map[string]bool) map[string]bool
	writes = func(name string, seen map[string]bool) map[string]bool {
		out := map[string]bool{}
		fd := methods[name]
		if fd == nil || seen[name] {
			return out
		}
		seen[name] = true
		recv := info.Defs[fd.Recv.List[0].Names[0]]
		for f := range recvFieldWrites(info, fd, recv) {
			out[f] = true
		}
		ast.Inspect(fd.Body, func(n ast.Node) bool {
			// lazy-initialisation guards (`if recv.F == nil { recv.Load...() }`) do not run in steady state
			if ifs, ok := n.(*ast.IfStmt); ok {
				if be, ok := ast.Unparen(ifs.Cond).(*ast.BinaryExpr); ok && be.Op == token.EQL {
					if id, ok := ast.Unparen(be.Y).(*ast.Ident); ok && id.Name == "nil" {
						if sel, ok := ast.Unparen(be.X).(*ast.SelectorExpr); ok {
							if rid, ok := ast.Unparen(sel.X).(*ast.Ident); ok && info.Uses[rid] == recv {
								return false
							}
						}
					}
				}
			}
			if call, ok := n.(*ast.CallExpr); ok {
				if sel, ok := call.Fun.(*ast.SelectorExpr); ok {
					if id, ok := ast.Unparen(sel.X).(*ast.Ident); ok && info.Uses[id] == recv {
						for f := range writes(sel.Sel.Name, seen) {
							out[f] = true
						}
					}
				}
			}
			return true
		})
		return out
	}
	// constructor
	_, ctor := c.P.mustFunc("eth2/beacon/common", "NewEpochsContext")
	cw := map[string]bool{}
	fresh := map[types.Object]bool{}
	// the context value under construction: a literal or new(EpochsContext), filled in the literal and/or field by field,
	// and by the methods called on it
	for _, b := range structBuilds(info, ctor.Body, "EpochsContext") {
		for f := range b.fields {
			cw[f] = true
		}
	}
	ast.Inspect(ctor.Body, func(n ast.Node) bool {
		if as, ok := n.(*ast.AssignStmt); ok && len(as.Lhs) == len(as.Rhs) {
			for i, l := range as.Lhs {
				id, ok := l.(*ast.Ident)
				if !ok {
					continue
				}
				r := ast.Unparen(as.Rhs[i])
				if u, ok := r.(*ast.UnaryExpr); ok && u.Op == token.AND {
					r = ast.Unparen(u.X)
				}
				isNew := false
				if call, ok := r.(*ast.CallExpr); ok && len(call.Args) == 1 {
					if fid, ok := call.Fun.(*ast.Ident); ok && fid.Name == "new" {
						r, isNew = call.Args[0], true
					}
				}
				_, isLit := r.(*ast.CompositeLit)
				if nt := namedOf(info.TypeOf(r)); (isLit || isNew) && nt != nil && nt.Obj().Name() == "EpochsContext" {
					fresh[info.ObjectOf(id)] = true
				}
			}
		}
		// the context under construction handed back by an unexported function of the package that builds it
		// (epc, err := newBareEpochsContext(spec, state)): fresh all the same, with what that function fills in
		if as, ok := n.(*ast.AssignStmt); ok && len(as.Rhs) == 1 && len(as.Lhs) >= 1 {
			if call, ok := ast.Unparen(as.Rhs[0]).(*ast.CallExpr); ok {
				if g := calleeFunc(info, call); g != nil && g.Pkg() == pk.Types && !g.Exported() {
					if hd := declOfFunc(pk, g); hd != nil && hd.Body != nil {
						if bs := structBuilds(info, hd.Body, "EpochsContext"); len(bs) > 0 {
							if id, ok := as.Lhs[0].(*ast.Ident); ok {
								if nt := namedOf(info.TypeOf(id)); nt != nil && nt.Obj().Name() == "EpochsContext" {
									fresh[info.ObjectOf(id)] = true
									for _, b := range bs {
										for f := range b.fields {
											cw[f] = true
										}
									}
								}
							}
						}
					}
				}
			}
		}
		return true
	})
	ast.Inspect(ctor.Body, func(n ast.Node) bool {
		if x, ok := n.(*ast.CallExpr); ok {
			if sel, ok := x.Fun.(*ast.SelectorExpr); ok {
				if id, ok := ast.Unparen(sel.X).(*ast.Ident); ok && fresh[info.Uses[id]] {
					for f := range writes(sel.Sel.Name, map[string]bool{}) {
						cw[f] = true
					}
				}
			}
		}
		return true
	})
	rw := writes("RotateEpochs", map[string]bool{})
	exempt := map[string]string{"Spec": "immutable configuration", "ValidatorPubkeyCache": "extended by deposit processing, not per epoch (cache.deposit)"}
	n := 0
	for _, f := range sortedKeys(cw) {
		key := "EpochsContext." + f
		if why, ok := exempt[f]; ok {
			c.ok(key, ctor.Pos(), "not epoch-derived: %s", why)
			continue
		}
		n++
		if rw[f] {
			c.ok(key, methods["RotateEpochs"].Pos(), "filled by NewEpochsContext and refreshed by RotateEpochs")
		} else {
			c.bad(key, methods["RotateEpochs"].Pos(), "field %s is computed by NewEpochsContext but never refreshed by RotateEpochs: the long-lived context diverges from a freshly built one after the first epoch boundary", f)
		}
	}
	if n < 6 {
		anchorFail("constructor fills only %d epoch-derived fields", n)
	}
	// genesis context: LoadShuffling + LoadProposers reach the phase0 subset
	_, gen := c.P.mustFunc("eth2/beacon/phase0", "GenesisFromEth1")
	gp := c.P.Pkg("eth2/beacon/phase0")
	called := map[string]bool{}
	ast.Inspect(gen.Body, func(nd ast.Node) bool {
		if call, ok := nd.(*ast.CallExpr); ok {
			if f := calleeFunc(gp.TypesInfo, call); f != nil && strings.HasPrefix(qualName(f), "common.EpochsContext.") {
				called[f.Name()] = true
			}
		}
		return true
	})
	gw := map[string]bool{}
	for m := range called {
		for f := range writes(m, map[string]bool{}) {
			gw[f] = true
		}
	}
	for _, f := range []string{"PreviousEpoch", "CurrentEpoch", "NextEpoch", "Proposers", "EffectiveBalances", "TotalActiveStake", "TotalActiveStakeSqRoot"} {
		key := "GenesisFromEth1.epc." + f
		if gw[f] {
			c.ok(key, gen.Pos(), "filled for the genesis context")
		} else {
			c.bad(key, gen.Pos(), "the context returned by GenesisFromEth1 never computes %s", f)
		}
	}
}

func ruleEpcShared(c *Ctx) {
	sharedTypes := map[string]bool{"ShufflingEpoch": true, "ProposersEpoch": true, "IndexedSyncCommittee": true}
	counts := map[string]int{}
	c.P.funcDecls(func(pk *packages.Package, fd *ast.FuncDecl) {
		info := pk.TypesInfo
		// fresh locals of shared types in this function
		fresh := map[types.Object]bool{}
		ast.Inspect(fd.Body, func(n ast.Node) bool {
			switch x := n.(type) {
			case *ast.AssignStmt:
				for i, r := range x.Rhs {
					if i >= len(x.Lhs) {
						break
					}
					r = ast.Unparen(r)
					if u, ok := r.(*ast.UnaryExpr); ok {
						r = ast.Unparen(u.X)
					}
					isFresh := false
					if cl, ok := r.(*ast.CompositeLit); ok {
						if nt := namedOf(info.TypeOf(cl)); nt != nil && sharedTypes[nt.Obj().Name()] {
							isFresh = true
						}
					}
					// new(T)
					if call, ok := r.(*ast.CallExpr); ok && len(call.Args) == 1 {
						if id, ok := call.Fun.(*ast.Ident); ok && id.Name == "new" {
							if _, isB := info.ObjectOf(id).(*types.Builtin); isB {
								if nt := namedOf(info.TypeOf(call.Args[0])); nt != nil && sharedTypes[nt.Obj().Name()] {
									isFresh = true
								}
							}
						}
					}
					if isFresh {
						if id, ok := x.Lhs[i].(*ast.Ident); ok {
							if o := info.ObjectOf(id); o != nil {
								fresh[o] = true
							}
						}
					}
				}
			case *ast.ValueSpec:
				// var x ShufflingEpoch
				for _, id := range x.Names {
					if o := info.Defs[id]; o != nil {
						if nt := namedOf(o.Type()); nt != nil && sharedTypes[nt.Obj().Name()] {
							if _, isPtr := o.Type().(*types.Pointer); !isPtr {
								fresh[o] = true
							}
						}
					}
				}
			}
			return true
		})
		forEachStore(info, fd.Body, func(sel *ast.SelectorExpr, what string) {
			if what == "address-taken" {
				return
			}
			nt := namedOf(info.TypeOf(sel.X))
			fn := pkgShort(pk.Types) + "." + funcName(fd)
			if nt != nil && sharedTypes[nt.Obj().Name()] {
				counts[nt.Obj().Name()]++
				key := fn + ":" + nt.Obj().Name() + "." + sel.Sel.Name
				id, _ := ast.Unparen(sel.X).(*ast.Ident)
				if id != nil && fresh[info.Uses[id]] {
					// the memory a slice field of the new structure points to is new as well: not (a reslice of) a slice
					// the caller handed in, nor of another structure's field
					if from := borrowedBacking(c.P, pk, fd, sel); from != "" {
						c.bad(key, sel.Pos(), "the new %s takes the memory of its %s from %s: a structure that is shared between an EpochsContext and its clones must own its arrays, or whoever still holds the old one sees it overwritten", nt.Obj().Name(), sel.Sel.Name, from)
						return
					}
					c.ok(key, sel.Pos(), "written while being constructed in this function")
				} else {
					c.bad(key, sel.Pos(), "%s of a %s that was not built in this function: the structure is shared between an EpochsContext and its clones (Clone is shallow), so the write shows through in sibling chain forks", what, nt.Obj().Name())
				}
				return
			}
			// epc.EffectiveBalances[i] = ... : element store into the shared slice
			if nt != nil && nt.Obj().Name() == "EpochsContext" && sel.Sel.Name == "EffectiveBalances" {
				counts["EffectiveBalances"]++
				key := fn + ":EpochsContext.EffectiveBalances"
				// element store or whole-field replacement?
				whole, made := false, false
				ast.Inspect(fd.Body, func(n ast.Node) bool {
					if as, ok := n.(*ast.AssignStmt); ok {
						for i, l := range as.Lhs {
							if l == ast.Expr(sel) && i < len(as.Rhs) {
								// a whole-field assignment is a replacement only when the new value does not derive from
								// the old one: `f = f[:0]` and `f = append(f, x)` keep (may keep) the shared backing array
								selfDerived := false
								ast.Inspect(as.Rhs[i], func(k ast.Node) bool {
									if rs, ok := k.(*ast.SelectorExpr); ok && rs.Sel.Name == "EffectiveBalances" {
										selfDerived = true
									}
									return true
								})
								if !selfDerived {
									whole = true
								}
							}
							if ls, ok := ast.Unparen(l).(*ast.SelectorExpr); ok && ls.Sel.Name == "EffectiveBalances" && i < len(as.Rhs) {
								if call, ok := ast.Unparen(as.Rhs[i]).(*ast.CallExpr); ok {
									if id, ok := call.Fun.(*ast.Ident); ok && id.Name == "make" && as.Pos() < sel.Pos() || as.Pos() == sel.Pos() {
										// the replacement must be unconditional: a top-level statement of the function body
										for _, top := range fd.Body.List {
											if top == ast.Stmt(as) {
												made = true
											}
										}
									}
								}
							}
						}
					}
					return true
				})
				if whole || made {
					c.ok(key, sel.Pos(), "the slice is replaced by a fresh one in this function before elements are written")
				} else {
					c.bad(key, sel.Pos(), "element of the shared EffectiveBalances slice is written in place: clones of the context see the change")
				}
			}
		})
	})
	// a structure built in one literal has no field stores: the literal is its construction
	c.P.funcDecls(func(pk *packages.Package, fd *ast.FuncDecl) {
		ast.Inspect(fd.Body, func(n ast.Node) bool {
			if cl, ok := n.(*ast.CompositeLit); ok && len(cl.Elts) > 0 {
				if nt := namedOf(pk.TypesInfo.TypeOf(cl)); nt != nil && sharedTypes[nt.Obj().Name()] {
					fn := pkgShort(pk.Types) + "." + funcName(fd)
					counts[nt.Obj().Name()]++
					// the arrays handed to it are new as well
					borrowed := ""
					for _, el := range cl.Elts {
						kv, ok := el.(*ast.KeyValueExpr)
						if !ok {
							continue
						}
						if _, isSlice := pk.TypesInfo.TypeOf(kv.Value).Underlying().(*types.Slice); !isSlice {
							continue
						}
						if w := backingOrigin(c.P, pk, fd, kv.Value, "", 0); w != "" {
							borrowed = types.ExprString(kv.Key) + " from " + w
						}
					}
					key := fn + ":" + nt.Obj().Name() + "{…}"
					if borrowed != "" {
						c.bad(key, cl.Pos(), "the new %s takes the memory of its %s: a structure that is shared between an EpochsContext and its clones must own its arrays", nt.Obj().Name(), borrowed)
					} else {
						c.ok(key, cl.Pos(), "built in one literal from values made in this function")
					}
				}
			}
			return true
		})
	})
	for _, t := range []string{"ShufflingEpoch", "EffectiveBalances"} {
		if counts[t] == 0 {
			anchorFail("no constructor stores found for %s", t)
		}
	}
	// Clone is a shallow copy and nothing more
	pk, cl := c.P.mustFunc("eth2/beacon/common", "EpochsContext.Clone")
	if len(cl.Body.List) == 2 {
		c.ok("EpochsContext.Clone", cl.Pos(), "shallow copy of the outer struct")
	} else {
		c.info("EpochsContext.Clone", cl.Pos(), "Clone body changed shape (%d statements)", len(cl.Body.List))
	}
	_ = pk
	// CopyState
	for _, fork := range []string{"phase0", "altair", "bellatrix", "capella", "deneb", "electra"} {
		pk, fd := c.P.findFunc("eth2/beacon/"+fork, "BeaconStateView.CopyState")
		if fd == nil {
			continue
		}
		key := fork + ".BeaconStateView.CopyState"
		// whichever way it is written: the one thing CopyState calls on the state is ztyp's persistent Copy() of the
		// receiver's own view, everything else it calls only re-wraps that copy as this fork's view (AsBeaconStateView,
		// or AsContainer and a literal), and what it returns is of this fork's view type
		good := true
		info := pk.TypesInfo
		var recvObj types.Object
		if fd.Recv != nil && len(fd.Recv.List) == 1 && len(fd.Recv.List[0].Names) == 1 {
			recvObj = info.Defs[fd.Recv.List[0].Names[0]]
		}
		copies := 0
		ast.Inspect(fd.Body, func(n ast.Node) bool {
			call, ok := n.(*ast.CallExpr)
			if !ok || isConversion(info, call) {
				return true
			}
			f := calleeFunc(info, call)
			switch {
			case f == nil:
				good = false
			case f.Name() == "Copy" && isZtyp(f):
				copies++
				if sel, ok := ast.Unparen(call.Fun).(*ast.SelectorExpr); ok {
					root := sel.X
					for {
						if in, ok := ast.Unparen(root).(*ast.SelectorExpr); ok {
							root = in.X
							continue
						}
						break
					}
					if id, ok := ast.Unparen(root).(*ast.Ident); !ok || info.Uses[id] != recvObj {
						good = false
					}
				}
			case f.Name() == "AsBeaconStateView" && f.Pkg() == pk.Types:
			case f.Name() == "AsContainer" && isZtyp(f):
			default:
				good = false
			}
			return true
		})
		if copies != 1 {
			good = false
		}
		ast.Inspect(fd.Body, func(n ast.Node) bool {
			// a view built by hand must be this fork's
			if cl, ok := n.(*ast.CompositeLit); ok {
				if nt := namedOf(info.TypeOf(cl)); nt == nil || nt.Obj().Name() != "BeaconStateView" || nt.Obj().Pkg() != pk.Types {
					good = false
				}
			}
			return true
		})
		if good {
			c.ok(key, fd.Pos(), "AsBeaconStateView(ContainerView.Copy()) of the same fork")
		} else {
			c.bad(key, fd.Pos(), "CopyState is not exactly this fork's AsBeaconStateView over ztyp's persistent Copy(): the copy may alias or change type")
		}
	}
}

func ruleEpcUpkeep(c *Ctx) {
	// (b) UpgradeMaybe phase0->altair loads sync committees before storing post
	pk, fd := c.P.mustFunc("eth2/beacon", "StandardUpgradeableBeaconState.UpgradeMaybe")
	info := pk.TypesInfo
	found := false
	// the upgrade steps: the bodies of the top-level ifs, or the cases of a type switch over the state
	var branches []*ast.BlockStmt
	for _, st := range fd.Body.List {
		if ifs, ok := st.(*ast.IfStmt); ok {
			branches = append(branches, ifs.Body)
		}
	}
	ast.Inspect(fd.Body, func(n ast.Node) bool {
		if ts, ok := n.(*ast.TypeSwitchStmt); ok {
			for _, cl := range ts.Body.List {
				if cc, ok := cl.(*ast.CaseClause); ok && len(cc.Body) > 0 {
					branches = append(branches, &ast.BlockStmt{Lbrace: cc.Pos(), List: cc.Body, Rbrace: cc.End()})
				}
			}
		}
		return true
	})
	for _, branch := range branches {
		// the events of the branch in execution order, looking into unexported functions of the package it calls:
		// upgrade, load of the sync committees (from what?), installation of the post-state
		var up, load, store token.Pos
		var loadArgOK bool
		seq := token.Pos(0)
		var walkEv func(root ast.Node, scope ast.Node, depth int)
		walkEv = func(root ast.Node, scope ast.Node, depth int) {
			ast.Inspect(root, func(n ast.Node) bool {
				switch x := n.(type) {
				case *ast.FuncLit:
					return false
				case *ast.CallExpr:
					f := calleeFunc(info, x)
					if f == nil {
						return true
					}
					// arguments are evaluated first
					for _, a := range x.Args {
						walkEv(a, scope, depth)
					}
					seq++
					switch {
					case f.Name() == "UpgradeToAltair":
						up = seq
					case f.Name() == "LoadSyncCommittees":
						load = seq
						if len(x.Args) == 1 {
							// the argument is the variable that received UpgradeToAltair's result
							if id, ok := ast.Unparen(x.Args[0]).(*ast.Ident); ok {
								ast.Inspect(scope, func(k ast.Node) bool {
									if as, ok := k.(*ast.AssignStmt); ok && len(as.Rhs) == 1 && len(as.Lhs) >= 1 {
										if cl, ok := ast.Unparen(as.Rhs[0]).(*ast.CallExpr); ok {
											if g := calleeFunc(info, cl); g != nil && g.Name() == "UpgradeToAltair" {
												if l, ok := as.Lhs[0].(*ast.Ident); ok && info.ObjectOf(l) == info.ObjectOf(id) {
													loadArgOK = true
												}
											}
										}
									}
									return true
								})
							}
						}
					case !f.Exported() && f.Pkg() == pk.Types && depth < 2:
						c.P.funcDecls(func(p2 *packages.Package, f2 *ast.FuncDecl) {
							if p2 == pk && f2.Body != nil && p2.TypesInfo.Defs[f2.Name] == f {
								walkEv(f2.Body, f2.Body, depth+1)
							}
						})
					}
					return false
				case *ast.AssignStmt:
					for _, r := range x.Rhs {
						walkEv(r, scope, depth)
					}
					for _, l := range x.Lhs {
						if sel, ok := ast.Unparen(l).(*ast.SelectorExpr); ok && sel.Sel.Name == "BeaconState" {
							seq++
							store = seq
						}
					}
					return false
				}
				return true
			})
		}
		walkEv(branch, branch, 0)
		if up == token.NoPos {
			continue
		}
		found = true
		key := "UpgradeMaybe.altair.sync-committees"
		switch {
		case load == token.NoPos:
			c.bad(key, branch.Pos(), "the altair upgrade installs the post-state without loading its sync committees into the epochs context (CurrentSyncCommittee stays nil; the first sync aggregate fails)")
		case !loadArgOK:
			c.bad(key, branch.Pos(), "sync committees are loaded from something other than the upgraded state")
		case !(up < load && load < store):
			c.bad(key, branch.Pos(), "sync committees must be loaded after UpgradeToAltair and before the post-state is installed")
		default:
			c.ok(key, branch.Pos(), "UpgradeToAltair -> LoadSyncCommittees(post) -> install")
		}
	}
	if !found {
		anchorFail("UpgradeMaybe: altair branch not found")
	}
	// (c) ProcessSyncCommitteeUpdates keys on next epoch
	pk, fd = c.P.mustFunc("eth2/beacon/altair", "ProcessSyncCommitteeUpdates")
	info = pk.TypesInfo
	okNext := false
	// `<epoch> % EPOCHS_PER_SYNC_COMMITTEE_PERIOD` tested against 0, in any spelling, here or in a helper: a comparison
	// whose resolved form is the single atom mod(<epoch>, EPOCHS_PER_SYNC_COMMITTEE_PERIOD)
	for _, st := range collectCmps(c.P)["altair.ProcessSyncCommitteeUpdates"] {
		if (st.op != token.EQL && st.op != token.NEQ) || len(st.pr) != 1 || st.pr[""] != 0 {
			continue
		}
		dividend := ""
		for a, cf := range st.pr {
			if (cf == 1 || cf == -1) && strings.HasPrefix(a, "mod(") && strings.HasSuffix(a, ",EPOCHS_PER_SYNC_COMMITTEE_PERIOD)") {
				dividend = strings.TrimSuffix(strings.TrimPrefix(a, "mod("), ",EPOCHS_PER_SYNC_COMMITTEE_PERIOD)")
			}
		}
		if dividend == "" {
			continue
		}
		// the tested epoch in normal form: <next epoch> or 1 + <current epoch>
		isNext := false
		terms := strings.Split(dividend, "+")
		switch {
		case len(terms) == 1 && strings.HasSuffix(terms[0], "NextEpoch.Epoch") && !strings.ContainsAny(terms[0], "·*-"):
			isNext = true
		case len(terms) == 2:
			sort.Strings(terms)
			if terms[0] == "1" && strings.HasSuffix(terms[1], "CurrentEpoch.Epoch") && !strings.ContainsAny(terms[1], "·*-") {
				isNext = true
			}
		}
		key := "ProcessSyncCommitteeUpdates.period-test"
		okNext = true
		if isNext {
			c.ok(key, st.pos, "period boundary tested on the next epoch (%s)", dividend)
		} else {
			c.bad(key, st.pos, "sync-committee period boundary is tested on %s; the spec tests (current_epoch + 1)", dividend)
		}
		break
	}
	if !okNext {
		anchorFail("ProcessSyncCommitteeUpdates: period test not found")
	}
	// RotateEpochs: sync committee rotation keyed on the new current epoch, and current <- next
	pk, fd = c.P.mustFunc("eth2/beacon/common", "EpochsContext.RotateEpochs")
	info = pk.TypesInfo
	recv := info.Defs[fd.Recv.List[0].Names[0]]
	key := "RotateEpochs.shift"
	// (anywhere in the body; `a, b = b, c` moves both at once, which is the same shift)
	var order []string
	ast.Inspect(fd.Body, func(n ast.Node) bool {
		if _, isLit := n.(*ast.FuncLit); isLit {
			return false
		}
		as, ok := n.(*ast.AssignStmt)
		if !ok || len(as.Lhs) != len(as.Rhs) {
			return true
		}
		var here []string
		for i := range as.Lhs {
			if isRecvField(info, as.Lhs[i], recv, "PreviousEpoch") && isRecvField(info, as.Rhs[i], recv, "CurrentEpoch") {
				here = append(here, "prev<-cur")
			}
			if isRecvField(info, as.Lhs[i], recv, "CurrentEpoch") && isRecvField(info, as.Rhs[i], recv, "NextEpoch") {
				here = append(here, "cur<-next")
			}
		}
		if len(here) == 2 {
			here = []string{"prev<-cur", "cur<-next"} // simultaneous
		}
		order = append(order, here...)
		return true
	})
	if strings.Join(order, ",") == "prev<-cur,cur<-next" {
		c.ok(key, fd.Pos(), "previous <- current, then current <- next")
	} else {
		c.bad(key, fd.Pos(), "epoch shufflings are not shifted as previous <- current then current <- next (found %v)", order)
	}
	// next epoch computed as current+1 after the shift
	okN := false
	ast.Inspect(fd.Body, func(n ast.Node) bool {
		if as, ok := n.(*ast.AssignStmt); ok && len(as.Rhs) == 1 {
			// <…>.CurrentEpoch.Epoch + 1 in any spelling
			if p, ok := exprPoly(info, as.Rhs[0], nil, nil, 0); ok && p[""] == 1 && len(p) == 2 {
				for a, cf := range p {
					if a != "" && cf == 1 && strings.HasSuffix(a, "CurrentEpoch.Epoch") {
						okN = true
					}
				}
			}
		}
		return true
	})
	if okN {
		c.ok("RotateEpochs.next", fd.Pos(), "next shuffling computed for current+1")
	} else {
		c.bad("RotateEpochs.next", fd.Pos(), "the next shuffling is not computed for CurrentEpoch.Epoch + 1")
	}
}

// ruleExitQueueReset works on normal forms: a "raise" is an assignment M = x that stands under a condition whose cut
// is x > M (any spelling, either branch), or the statement M = max(M, x) (which is what `if x > M { M = x }` with
// nothing else in the branch is after load); a "count" is an increment of C under a condition whose cut is x == M.
// factSays: does the fact say  a (op) b  for the given polynomials (named form), up to the integer normal form of cuts?
func factSays(info *types.Info, f pathFact, a, b Poly, op token.Token) bool {
	fop := f.be.Op
	if f.neg {
		fop = negOp[fop]
	}
	if _, isCmp := negOp[fop]; !isCmp {
		return false
	}
	px, ok1 := exprPoly(info, f.be.X, nil, nil, 0)
	py, ok2 := exprPoly(info, f.be.Y, nil, nil, 0)
	if !ok1 || !ok2 {
		return false
	}
	got, want := polyAdd(px, py, -1), polyAdd(a, b, -1)
	return canonCut(got, fop) == canonCut(want, op) && cutSide(got, fop) == cutSide(want, op)
}

func ruleExitQueueReset(c *Ctx) {
	n := 0
	c.P.funcDecls(func(pk *packages.Package, fd *ast.FuncDecl) {
		if fd.Body == nil {
			return
		}
		info := pk.TypesInfo
		parents := parentMap(fd.Body)
		says := func(f pathFact, a, b Poly, op token.Token) bool { return factSays(info, f, a, b, op) }
		ast.Inspect(fd.Body, func(nd ast.Node) bool {
			var body *ast.BlockStmt
			switch x := nd.(type) {
			case *ast.ForStmt:
				body = x.Body
			case *ast.RangeStmt:
				body = x.Body
			default:
				return true
			}
			type raise struct {
				m    types.Object
				x    Poly
				stmt ast.Stmt
				bare bool // M = max(M, x): nothing else can happen on that path
			}
			type count struct {
				c, m types.Object
				stmt ast.Stmt
			}
			var raises []raise
			var counts []count
			localOf := func(e ast.Expr) types.Object {
				if id, ok := ast.Unparen(e).(*ast.Ident); ok {
					if v, ok := info.ObjectOf(id).(*types.Var); ok && !v.IsField() {
						return v
					}
				}
				return nil
			}
			ast.Inspect(body, func(k ast.Node) bool {
				if _, ok := k.(*ast.FuncLit); ok {
					return false
				}
				switch st := k.(type) {
				case *ast.AssignStmt:
					if len(st.Lhs) != len(st.Rhs) {
						return true
					}
					if len(st.Lhs) > 1 {
						// a, b = x, 1 : each pair on its own (same statement)
						if st.Tok != token.ASSIGN {
							return true
						}
						for i := range st.Lhs {
							m := localOf(st.Lhs[i])
							if m == nil {
								continue
							}
							px, ok := exprPoly(info, st.Rhs[i], nil, nil, 0)
							if !ok {
								continue
							}
							for _, f := range pathFactsAt(parents, st) {
								if f.be.Pos() >= body.Pos() && says(f, px, polyAtom(m.Name()), token.GTR) {
									raises = append(raises, raise{m, px, st, false})
									break
								}
							}
						}
						return true
					}
					m := localOf(st.Lhs[0])
					if m == nil {
						return true
					}
					if st.Tok == token.ASSIGN {
						// M = max(M, x)
						if call, ok := ast.Unparen(st.Rhs[0]).(*ast.CallExpr); ok && len(call.Args) == 2 {
							if fid, ok := call.Fun.(*ast.Ident); ok && fid.Name == "max" {
								if _, isB := info.ObjectOf(fid).(*types.Builtin); isB {
									for i := 0; i < 2; i++ {
										if localOf(call.Args[i]) == m {
											if px, ok := exprPoly(info, call.Args[1-i], nil, nil, 0); ok {
												raises = append(raises, raise{m, px, st, true})
											}
										}
									}
									return true
								}
							}
						}
						// M = x under x > M
						px, ok := exprPoly(info, st.Rhs[0], nil, nil, 0)
						if !ok {
							return true
						}
						pm := polyAtom(m.Name())
						for _, f := range pathFactsAt(parents, st) {
							if f.be.Pos() < body.Pos() {
								continue // a condition around the loop
							}
							if says(f, px, pm, token.GTR) {
								raises = append(raises, raise{m, px, st, false})
								break
							}
						}
					}
					if st.Tok == token.ADD_ASSIGN {
						if tv, ok := info.Types[st.Rhs[0]]; ok && tv.Value != nil {
							if v, ok := constantInt(tv); ok && v == 1 {
								for _, f := range pathFactsAt(parents, st) {
									if f.be.Pos() < body.Pos() {
										continue
									}
									for _, side := range []ast.Expr{f.be.X, f.be.Y} {
										if mo := localOf(side); mo != nil && mo != m {
											counts = append(counts, count{m, mo, st})
										}
									}
								}
							}
						}
					}
				case *ast.IncDecStmt:
					if st.Tok != token.INC {
						return true
					}
					cobj := localOf(st.X)
					if cobj == nil {
						return true
					}
					for _, f := range pathFactsAt(parents, st) {
						if f.be.Pos() < body.Pos() {
							continue
						}
						for _, side := range []ast.Expr{f.be.X, f.be.Y} {
							if mo := localOf(side); mo != nil && mo != cobj {
								counts = append(counts, count{cobj, mo, st})
							}
						}
					}
				}
				return true
			})
			seen := map[string]bool{}
			for _, r := range raises {
				for _, ct := range counts {
					if ct.m != r.m {
						continue
					}
					// the count stands under x == M for the same x
					isEq, le, ge := false, false, false
					for _, f := range pathFactsAt(parents, ct.stmt) {
						pm := polyAtom(r.m.Name())
						if says(f, r.x, pm, token.EQL) {
							isEq = true
						}
						// not above and not below
						if says(f, r.x, pm, token.LEQ) {
							le = true
						}
						if says(f, r.x, pm, token.GEQ) {
							ge = true
						}
					}
					if le && ge {
						isEq = true
					}
					if !isEq {
						continue
					}
					key := pkgShort(pk.Types) + "." + funcName(fd) + ":" + r.m.Name() + "/" + ct.c.Name()
					if seen[key] {
						continue
					}
					seen[key] = true
					n++
					// what the raising path does to C: a constant assigned in the same block as the raise
					reset := false
					resetVal := int64(-1)
					if blk, ok := parents[r.stmt].(*ast.BlockStmt); ok && !r.bare {
						for _, st := range blk.List {
							as, ok := st.(*ast.AssignStmt)
							if !ok || len(as.Lhs) != len(as.Rhs) {
								continue
							}
							for i := range as.Lhs {
								if localOf(as.Lhs[i]) != ct.c {
									continue
								}
								if tv := info.Types[as.Rhs[i]]; tv.Value != nil {
									if v, ok := constantInt(tv); ok {
										resetVal = v
									}
									reset = true
								}
							}
						}
					}
					// after the element that raised the maximum has been handled, the count must be 1 (that element):
					// reset to 0 where the `== max` increment still runs for this element later in the iteration, to 1
					// where it does not (it sits in the other arm of a branch around the raise, or came earlier)
					exclusive := false
					for p, child := parents[r.stmt], ast.Node(r.stmt); p != nil && p != ast.Node(body); child, p = p, parents[p] {
						if ifs, ok := p.(*ast.IfStmt); ok && child == ast.Node(ifs.Body) && ifs.Else != nil {
							if ifs.Else.Pos() <= ct.stmt.Pos() && ct.stmt.End() <= ifs.Else.End() {
								exclusive = true
							}
						}
					}
					for p, child := parents[ct.stmt], ast.Node(ct.stmt); p != nil && p != ast.Node(body); child, p = p, parents[p] {
						if ifs, ok := p.(*ast.IfStmt); ok && child == ast.Node(ifs.Body) && ifs.Else != nil {
							if ifs.Else.Pos() <= r.stmt.Pos() && r.stmt.End() <= ifs.Else.End() {
								exclusive = true
							}
						}
					}
					incFollows := !exclusive && ct.stmt.Pos() > r.stmt.End()
					wantReset := int64(1)
					if incFollows {
						wantReset = 0
					}
					switch {
					case reset && resetVal >= 0 && resetVal != wantReset:
						c.bad(key, r.stmt.Pos(), "raising %s sets %s = %d, but the element that raised it is %s afterwards, so the count of the new maximum starts at %d instead of 1 (one exit too many, or too few, is scheduled into a full epoch)", r.m.Name(), ct.c.Name(), resetVal, map[bool]string{true: "counted by the `==` test that follows", false: "not counted again in this iteration"}[incFollows], resetVal+map[bool]int64{true: 1, false: 0}[incFollows])
					case reset:
						c.ok(key, r.stmt.Pos(), "raising %s re-initialises %s", r.m.Name(), ct.c.Name())
					default:
						c.bad(key, r.stmt.Pos(), "%s is raised to a new maximum without re-initialising %s, which then also counts the elements of the earlier maximum (exit-queue churn over-counted when exits are queued over several epochs: ejections are pushed an epoch late)", r.m.Name(), ct.c.Name())
					}
				}
			}
			return true
		})
	})
	c.stat("running_max_count_loops", n)
}

func init() {
	register(&Rule{Name: "assert.reach", Floor: 1,
		Doc: "a comma-ok type assertion p.(I) on an interface-typed parameter must be able to succeed on every module call path that passes an interface-typed argument: if every concrete module type implementing the caller's static interface lacks I's methods (a wrapper embedding a narrower interface), the guarded branch is dead on that path although types implementing I exist",
		Run: ruleAssertReach})
}

func ruleAssertReach(c *Ctx) {
	// all concrete named types of the module (with pointer method sets)
	var concrete []types.Type
	for _, pk := range c.P.Pkgs {
		sc := pk.Types.Scope()
		for _, n := range sc.Names() {
			tn, ok := sc.Lookup(n).(*types.TypeName)
			if !ok || tn.IsAlias() {
				continue
			}
			if _, isI := tn.Type().Underlying().(*types.Interface); isI {
				continue
			}
			concrete = append(concrete, types.NewPointer(tn.Type()))
		}
	}
	implementers := func(it *types.Interface) []types.Type {
		var out []types.Type
		for _, t := range concrete {
			if types.Implements(t, it) {
				out = append(out, t)
			}
		}
		return out
	}
	t := newBLSTracer(c.P) // reuse: declarations and call sites
	n := 0
	c.P.funcDecls(func(pk *packages.Package, fd *ast.FuncDecl) {
		info := pk.TypesInfo
		fobj, _ := info.Defs[fd.Name].(*types.Func)
		if fobj == nil || fd.Type.Params == nil {
			return
		}
		ast.Inspect(fd.Body, func(nd ast.Node) bool {
			as, ok := nd.(*ast.AssignStmt)
			if !ok || len(as.Lhs) != 2 || len(as.Rhs) != 1 {
				return true
			}
			ta, ok := ast.Unparen(as.Rhs[0]).(*ast.TypeAssertExpr)
			if !ok || ta.Type == nil {
				return true
			}
			it, ok := info.TypeOf(ta.Type).Underlying().(*types.Interface)
			if !ok {
				return true
			}
			id, ok := ast.Unparen(ta.X).(*ast.Ident)
			if !ok {
				return true
			}
			pobj := info.Uses[id]
			pi := paramIndex(fd, info, pobj)
			if pi < 0 {
				return true
			}
			if _, isI := pobj.Type().Underlying().(*types.Interface); !isI {
				return true
			}
			// re-bound before the assertion? (e.g. unwrapped)
			if rhs, _ := lastDefBefore(info, fd, pobj, ta.Pos()); rhs != nil {
				n++
				c.ok(pkgShort(pk.Types)+"."+funcName(fd)+":"+types.ExprString(ta), ta.Pos(), "asserted value is re-bound before the assertion (%s)", truncate(types.ExprString(rhs), 40))
				return true
			}
			implI := implementers(it)
			for _, cs := range t.callers[fobj] {
				args := cs.call.Args
				if pi >= len(args) {
					continue
				}
				at := cs.pk.TypesInfo.TypeOf(args[pi])
				q, isI := at.Underlying().(*types.Interface)
				if !isI {
					continue // concrete argument: the assertion's outcome is that type's business
				}
				n++
				key := pkgShort(cs.pk.Types) + "." + funcName(cs.fd) + "->" + qualName(fobj) + ":" + types.ExprString(ta)
				implQ := implementers(q)
				if len(implQ) == 0 {
					c.ok(key, cs.call.Pos(), "no module type implements the caller's interface (external callers only)")
					continue
				}
				some := false
				for _, tq := range implQ {
					if types.Implements(tq, it) {
						some = true
					}
				}
				if some || len(implI) == 0 {
					c.ok(key, cs.call.Pos(), "some implementer of %s also implements %s", types.TypeString(at, types.RelativeTo(cs.pk.Types)), types.ExprString(ta.Type))
					continue
				}
				var names []string
				for _, tq := range implQ {
					names = append(names, types.TypeString(tq, func(p *types.Package) string { return p.Name() }))
				}
				c.bad(key, cs.call.Pos(), "%s asserts %s, but on this call path the argument is a %s, and every module type implementing it (%s) lacks %s's methods (a wrapper's method set only has what its embedded interface declares): the guarded branch never runs here although %d module types implement %s",
					funcName(fd), types.ExprString(ta), types.TypeString(at, func(p *types.Package) string { return p.Name() }), strings.Join(names, ", "), types.ExprString(ta.Type), len(implI), types.ExprString(ta.Type))
			}
			return true
		})
	})
	c.stat("assertion_call_paths", n)
}

// reachesCallNamed: the call is a call of `name`, or of a local closure / a function of the same package whose body
// makes such a call (two levels).
func reachesCallNamed(p *Prog, pk *packages.Package, fd *ast.FuncDecl, call *ast.CallExpr, name string, depth int) bool {
	info := pk.TypesInfo
	if f := calleeFunc(info, call); f != nil {
		if f.Name() == name {
			return true
		}
		if depth >= 2 || f.Pkg() != pk.Types {
			return false
		}
		var body *ast.BlockStmt
		var hfd *ast.FuncDecl
		p.funcDecls(func(p2 *packages.Package, f2 *ast.FuncDecl) {
			if p2 == pk && p2.TypesInfo.Defs[f2.Name] == f {
				body, hfd = f2.Body, f2
			}
		})
		if body == nil {
			return false
		}
		found := false
		ast.Inspect(body, func(n ast.Node) bool {
			if c2, ok := n.(*ast.CallExpr); ok && !found && reachesCallNamed(p, pk, hfd, c2, name, depth+1) {
				found = true
			}
			return !found
		})
		return found
	}
	// a closure held in a local
	if id, ok := ast.Unparen(call.Fun).(*ast.Ident); ok && fd != nil && fd.Body != nil && depth < 2 {
		if d, ok := singleDefs(info, fd.Body)[info.Uses[id]]; ok && d.rhs != nil {
			if lit, ok := ast.Unparen(d.rhs).(*ast.FuncLit); ok {
				found := false
				ast.Inspect(lit.Body, func(n ast.Node) bool {
					if c2, ok := n.(*ast.CallExpr); ok && !found && reachesCallNamed(p, pk, fd, c2, name, depth+1) {
						found = true
					}
					return !found
				})
				return found
			}
		}
	}
	return false
}

// borrowedBacking: sel (a slice-typed field of a structure under construction) is assigned, somewhere in fd, a value
// whose backing array is not new: a field of another value, possibly resliced, put in a local first, or handed in
// through a slice parameter (then read at every call site of the function in the module, three levels up). Returns a
// description of where the memory comes from, "" if every assigned value is new memory (make, append to nil, a literal,
// the result of a call, nil).
func borrowedBacking(p *Prog, pk *packages.Package, fd *ast.FuncDecl, sel *ast.SelectorExpr) string {
	info := pk.TypesInfo
	if _, isSlice := info.TypeOf(sel).Underlying().(*types.Slice); !isSlice {
		return ""
	}
	out := ""
	ast.Inspect(fd.Body, func(n ast.Node) bool {
		as, ok := n.(*ast.AssignStmt)
		if !ok || out != "" {
			return true
		}
		for i, l := range as.Lhs {
			ls, ok := ast.Unparen(l).(*ast.SelectorExpr)
			if !ok || ls.Sel.Name != sel.Sel.Name || types.ExprString(ls.X) != types.ExprString(sel.X) || i >= len(as.Rhs) || len(as.Lhs) != len(as.Rhs) {
				continue
			}
			if w := backingOrigin(p, pk, fd, as.Rhs[i], types.ExprString(sel.X), 0); w != "" {
				out = w
			}
		}
		return true
	})
	return out
}

func backingOrigin(p *Prog, pk *packages.Package, fd *ast.FuncDecl, e ast.Expr, self string, depth int) string {
	info := pk.TypesInfo
	defs := reachingDefs(info, fd.Body)
	var origin func(e ast.Expr, d int) string
	origin = func(e ast.Expr, d int) string {
		e = ast.Unparen(e)
		for {
			if sl, ok := e.(*ast.SliceExpr); ok {
				e = ast.Unparen(sl.X)
				continue
			}
			break
		}
		switch x := e.(type) {
		case *ast.Ident:
			o := info.ObjectOf(x)
			if o == nil {
				return ""
			}
			// a parameter: what the callers hand in
			k := 0
			for _, f := range fd.Type.Params.List {
				for _, nm := range f.Names {
					if info.Defs[nm] == o {
						if depth >= 3 {
							return ""
						}
						self, _ := info.Defs[fd.Name].(*types.Func)
						found := ""
						p.funcDecls(func(pk2 *packages.Package, fd2 *ast.FuncDecl) {
							if fd2.Body == nil || found != "" {
								return
							}
							ast.Inspect(fd2.Body, func(m ast.Node) bool {
								call, ok := m.(*ast.CallExpr)
								if !ok || found != "" {
									return true
								}
								if g := calleeFunc(pk2.TypesInfo, call); g != nil && g == self && k < len(call.Args) {
									if w := backingOrigin(p, pk2, fd2, call.Args[k], "", depth+1); w != "" {
										found = w + " (handed in by " + funcName(fd2) + ")"
									}
								}
								return true
							})
						})
						return found
					}
					k++
				}
			}
			if d > 3 {
				return ""
			}
			for _, df := range defs.defs[o] {
				if df.def.rhs != nil {
					if w := origin(df.def.rhs, d+1); w != "" {
						return w
					}
				}
			}
		case *ast.SelectorExpr:
			if s, ok := info.Selections[x]; ok && s.Kind() == types.FieldVal {
				if _, isSlice := info.TypeOf(x).Underlying().(*types.Slice); isSlice && (self == "" || types.ExprString(x.X) != self) {
					return "the field " + types.ExprString(x)
				}
			}
		case *ast.CallExpr:
			// append(buf[:0], …) keeps buf's array
			if id, ok := x.Fun.(*ast.Ident); ok && id.Name == "append" && len(x.Args) > 0 {
				if _, isB := info.ObjectOf(id).(*types.Builtin); isB {
					return origin(x.Args[0], d)
				}
			}
		}
		return ""
	}
	return origin(e, 0)
}
