package main

import (
	"fmt"
	"go/ast"
	"go/token"
	"go/types"
	"sort"

	"golang.org/x/tools/go/packages"
)

func init() {
	register(&Rule{Name: "map.init", Floor: 8,
		Doc: "every map-typed field of a zrnt struct that is index-assigned anywhere (directly or through a local alias of the field) is initialised by every constructor of that struct (composite literal in the package), unless each such write is guarded by a nil check of the field",
		Run: ruleMapInit})
	register(&Rule{Name: "nil.maplookup", Floor: 2,
		Doc: "a pointer obtained from a single-value map lookup is not dereferenced without a dominating nil/ok test, unless the key is the range key of a loop over that same map",
		Run: ruleNilMapLookup})
	register(&Rule{Name: "pool.keys", Floor: 1,
		Doc: "within one pool method, every (validator, epoch) Assignment key that indexes the same bookkeeping map derives its epoch from the same expression (a key built from another epoch in one branch is never found by the sibling branch's lookup)",
		Run: rulePoolKeys})
	register(&Rule{Name: "index.guard", Floor: 20,
		Doc: "for every slice index s[i], the comparisons of i with len(s) that hold on the way to it (early refusals, enclosing branches, loop conditions, short-circuit operands; either operand order and polarity; locals by their reaching definition) must bound i - len(s) by -1 or less whenever they bound it at all: `i > len(s)` before s[i] lets the index one past the end through",
		Run: ruleIndexGuard})
}

func ruleMapInit(c *Ctx) {
	for _, pk := range c.P.Pkgs {
		info := pk.TypesInfo
		sc := pk.Types.Scope()
		for _, n := range sc.Names() {
			tn, ok := sc.Lookup(n).(*types.TypeName)
			if !ok {
				continue
			}
			nt, ok := tn.Type().(*types.Named)
			if !ok {
				continue
			}
			st, ok := nt.Underlying().(*types.Struct)
			if !ok {
				continue
			}
			mapFields := map[string]bool{}
			for i := 0; i < st.NumFields(); i++ {
				if _, ok := st.Field(i).Type().Underlying().(*types.Map); ok {
					mapFields[st.Field(i).Name()] = true
				}
			}
			if len(mapFields) == 0 {
				continue
			}
			// index-assigned fields (direct or through alias), with whether each write is nil-guarded
			type wr struct {
				pos     token.Pos
				guarded bool
				fn      string
			}
			writes := map[string][]wr{}
			var lits []*ast.CompositeLit
			litFn := map[*ast.CompositeLit]*ast.FuncDecl{}
			for _, file := range pk.Syntax {
				for _, d := range file.Decls {
					fd, ok := d.(*ast.FuncDecl)
					if !ok || fd.Body == nil {
						continue
					}
					// aliases: local := x.F  (x of type nt)
					alias := map[types.Object][]string{}
					ast.Inspect(fd.Body, func(m ast.Node) bool {
						switch x := m.(type) {
						case *ast.CompositeLit:
							if namedOf(info.TypeOf(x)) == nt {
								if _, isStruct := info.TypeOf(x).Underlying().(*types.Struct); isStruct {
									lits = append(lits, x)
									litFn[x] = fd
								}
							}
						case *ast.AssignStmt:
							for i, r := range x.Rhs {
								if i >= len(x.Lhs) {
									break
								}
								if sel, ok := ast.Unparen(r).(*ast.SelectorExpr); ok && mapFields[sel.Sel.Name] && namedOf(info.TypeOf(sel.X)) == nt {
									if id, ok := x.Lhs[i].(*ast.Ident); ok {
										o := info.Defs[id]
										if o == nil {
											o = info.Uses[id]
										}
										if o != nil {
											alias[o] = append(alias[o], sel.Sel.Name)
										}
									}
								}
							}
						}
						return true
					})
					// writes
					parents := parentMap(fd.Body)
					ast.Inspect(fd.Body, func(m ast.Node) bool {
						as, ok := m.(*ast.AssignStmt)
						if !ok {
							return true
						}
						for _, l := range as.Lhs {
							ix, ok := ast.Unparen(l).(*ast.IndexExpr)
							if !ok {
								continue
							}
							var fields []string
							var baseStr string
							switch b := ast.Unparen(ix.X).(type) {
							case *ast.SelectorExpr:
								if mapFields[b.Sel.Name] && namedOf(info.TypeOf(b.X)) == nt {
									fields = []string{b.Sel.Name}
									baseStr = types.ExprString(b)
								}
							case *ast.Ident:
								if f, ok := alias[info.Uses[b]]; ok {
									fields = f
									baseStr = b.Name
								}
							}
							for _, field := range fields {
								writes[field] = append(writes[field], wr{as.Pos(), nilGuarded(parents, as, baseStr), funcName(fd)})
							}
						}
						return true
					})
				}
			}
			if len(writes) == 0 {
				continue
			}
			for _, f := range sortedKeys(writes) {
				key := pk.Types.Name() + "." + n + "." + f
				allGuarded := true
				for _, w := range writes[f] {
					if !w.guarded {
						allGuarded = false
					}
				}
				if allGuarded {
					c.ok(key, writes[f][0].pos, "every index-assignment is nil-guarded")
					continue
				}
				if len(lits) == 0 {
					c.info(key, writes[f][0].pos, "no constructor literal in the package")
					continue
				}
				bad := false
				for _, cl := range lits {
					inited := false
					keyed := false
					for _, el := range cl.Elts {
						kv, ok := el.(*ast.KeyValueExpr)
						if !ok {
							continue
						}
						keyed = true
						if k, ok := kv.Key.(*ast.Ident); ok && k.Name == f {
							if id, ok := ast.Unparen(kv.Value).(*ast.Ident); !ok || id.Name != "nil" {
								inited = true
							}
						}
					}
					if !keyed && len(cl.Elts) == st.NumFields() {
						inited = true // positional literal sets everything
					}
					// or assigned later in the constructor function: x.F = make(...)
					if !inited {
						ast.Inspect(litFn[cl].Body, func(m ast.Node) bool {
							if as, ok := m.(*ast.AssignStmt); ok {
								for i, l := range as.Lhs {
									if sel, ok := ast.Unparen(l).(*ast.SelectorExpr); ok && sel.Sel.Name == f && namedOf(info.TypeOf(sel.X)) == nt && i < len(as.Rhs) {
										if id, ok := ast.Unparen(as.Rhs[i]).(*ast.Ident); !ok || id.Name != "nil" {
											inited = true
										}
									}
								}
							}
							return true
						})
					}
					if !inited {
						bad = true
						w := writes[f][0]
						c.bad(key, cl.Pos(), "constructor %s leaves map field %s nil, and %s index-assigns it (assignment to entry in nil map panics)", funcName(litFn[cl]), f, w.fn)
						break
					}
				}
				if !bad {
					c.ok(key, writes[f][0].pos, "initialised by all %d constructor literals", len(lits))
				}
			}
		}
	}
}

func parentMap(root ast.Node) map[ast.Node]ast.Node {
	parent := map[ast.Node]ast.Node{}
	var stack []ast.Node
	ast.Inspect(root, func(n ast.Node) bool {
		if n == nil {
			stack = stack[:len(stack)-1]
			return true
		}
		if len(stack) > 0 {
			parent[n] = stack[len(stack)-1]
		}
		stack = append(stack, n)
		return true
	})
	return parent
}

// nilGuarded: node is inside `if <base> != nil {…}` or follows, in an enclosing block, `if <base> == nil { <base> = make…/return }`.
func nilGuarded(parents map[ast.Node]ast.Node, n ast.Node, base string) bool {
	return guardedBy(parents, n, func(cond ast.Expr, inBody bool) bool {
		be, ok := ast.Unparen(cond).(*ast.BinaryExpr)
		if !ok {
			return false
		}
		isNil := func(e ast.Expr) bool { id, ok := ast.Unparen(e).(*ast.Ident); return ok && id.Name == "nil" }
		if types.ExprString(be.X) != base || !isNil(be.Y) {
			return false
		}
		if inBody {
			return be.Op == token.NEQ
		}
		return be.Op == token.EQL
	})
}

// guardedBy walks up from n: match(cond,true) for an enclosing if whose body contains n;
// match(cond,false) for an earlier sibling `if cond { ...terminates or repairs... }` in any enclosing block.
func guardedBy(parents map[ast.Node]ast.Node, n ast.Node, match func(cond ast.Expr, inBody bool) bool) bool {
	cur := n
	for {
		p := parents[cur]
		if p == nil {
			return false
		}
		switch x := p.(type) {
		case *ast.IfStmt:
			if cur == x.Body && match(x.Cond, true) {
				return true
			}
			// the else branch (and the else-if chain hanging from it) stands under the negated condition
			if x.Else != nil && cur == ast.Node(x.Else) && match(x.Cond, false) {
				return true
			}
			// `cond && use` inside condition handled by caller if needed
		case *ast.BlockStmt:
			for _, st := range x.List {
				if st == cur {
					break
				}
				if ifs, ok := st.(*ast.IfStmt); ok && ifs.Else == nil && match(ifs.Cond, false) {
					return true
				}
			}
		case *ast.CaseClause:
			for _, st := range x.Body {
				if st == cur {
					break
				}
				if ifs, ok := st.(*ast.IfStmt); ok && ifs.Else == nil && match(ifs.Cond, false) {
					return true
				}
			}
		case *ast.BinaryExpr:
			// v != nil && v.f
			if x.Op == token.LAND && cur == x.Y && match(x.X, true) {
				return true
			}
			if x.Op == token.LOR && cur == x.Y && match(x.X, false) {
				return true
			}
		case *ast.FuncDecl, *ast.FuncLit:
			return false
		}
		cur = p
	}
}

func ruleNilMapLookup(c *Ctx) {
	c.P.funcDecls(func(pk *packages.Package, fd *ast.FuncDecl) {
		info := pk.TypesInfo
		parents := parentMap(fd.Body)
		ast.Inspect(fd.Body, func(n ast.Node) bool {
			as, ok := n.(*ast.AssignStmt)
			if !ok || len(as.Lhs) < 1 || len(as.Lhs) > 2 || len(as.Rhs) != 1 {
				return true
			}
			ix, ok := ast.Unparen(as.Rhs[0]).(*ast.IndexExpr)
			if !ok {
				return true
			}
			var okObj types.Object
			if len(as.Lhs) == 2 {
				if oid, ok := as.Lhs[1].(*ast.Ident); ok && oid.Name != "_" {
					okObj = info.Defs[oid]
					if okObj == nil {
						okObj = info.Uses[oid]
					}
				}
			}
			mt, ok := info.TypeOf(ix.X).Underlying().(*types.Map)
			if !ok {
				return true
			}
			if _, isPtr := mt.Elem().(*types.Pointer); !isPtr {
				return true
			}
			id, ok := as.Lhs[0].(*ast.Ident)
			if !ok || id.Name == "_" {
				return true
			}
			obj := info.Defs[id]
			if obj == nil {
				obj = info.Uses[id]
			}
			key := pkgShort(pk.Types) + "." + funcName(fd) + ":" + id.Name + "=" + types.ExprString(ix)
			// key is the range key of a loop over the same map?
			mapStr := types.ExprString(ix.X)
			keyStr := types.ExprString(ix.Index)
			for p := parents[ast.Node(as)]; p != nil; p = parents[p] {
				if rs, ok := p.(*ast.RangeStmt); ok && rs.Key != nil && types.ExprString(rs.X) == mapStr && types.ExprString(rs.Key) == keyStr {
					c.ok(key, as.Pos(), "key ranges over the same map")
					return true
				}
			}
			// uses as dereference base
			var badUse ast.Node
			ast.Inspect(fd.Body, func(m ast.Node) bool {
				if badUse != nil {
					return false
				}
				var base ast.Expr
				switch x := m.(type) {
				case *ast.SelectorExpr:
					base = x.X
				case *ast.StarExpr:
					base = x.X
				default:
					return true
				}
				bid, ok := ast.Unparen(base).(*ast.Ident)
				if !ok || info.Uses[bid] != obj || m.Pos() < as.End() {
					return true
				}
				// method value on pointer receiver is fine only if method handles nil; treat any selector as deref
				if !guardedBy(parents, m, func(cond ast.Expr, inBody bool) bool {
					// `ok` / `!ok` from the two-value form
					if okObj != nil {
						ce := ast.Unparen(cond)
						if id, isId := ce.(*ast.Ident); isId && info.Uses[id] == okObj && inBody {
							return true
						}
						if ue, isU := ce.(*ast.UnaryExpr); isU && ue.Op == token.NOT && !inBody {
							if id, isId := ast.Unparen(ue.X).(*ast.Ident); isId && info.Uses[id] == okObj {
								return true
							}
						}
					}
					be, ok := ast.Unparen(cond).(*ast.BinaryExpr)
					if !ok {
						return false
					}
					x, y := ast.Unparen(be.X), ast.Unparen(be.Y)
					isV := func(e ast.Expr) bool { i, ok := e.(*ast.Ident); return ok && info.Uses[i] == obj }
					isNil := func(e ast.Expr) bool { i, ok := e.(*ast.Ident); return ok && i.Name == "nil" }
					if !(isV(x) && isNil(y) || isV(y) && isNil(x)) {
						return false
					}
					if inBody {
						return be.Op == token.NEQ
					}
					return be.Op == token.EQL
				}) {
					badUse = m
				}
				return true
			})
			if badUse != nil {
				c.bad(key, badUse.Pos(), "%s comes from a single-value lookup in %s (nil when the key is absent) and is dereferenced without a nil/ok test", id.Name, mapStr)
			} else {
				c.ok(key, as.Pos(), "dereferences are nil-guarded (or none)")
			}
			return true
		})
	})
}

// pathCond is one boolean leaf (anything that is not &&, || or !) known to hold (neg: known NOT to hold) whenever
// control reaches a given node.
type pathCond struct {
	e     ast.Expr
	neg   bool
	loop  bool // the condition of an enclosing for statement
	after bool // known because an earlier `if … { leaves }` of an enclosing block did not leave (holds for the rest of that block too)
}

// pathFact is a pathCond whose leaf is a comparison (or another binary expression).
type pathFact struct {
	be   *ast.BinaryExpr
	neg  bool
	loop bool
}

// pathCondsAt reads the conditions that hold at node n off the structure around it: n stands after an
// `if C { …leaves… }` of an enclosing block (not C), inside the then-branch of `if C` or the body of `for …; C; …` (C),
// inside an else-branch (not C), to the right of `C && …` (C) or `C || …` (not C). A conjunction that holds gives each
// conjunct, a disjunction that does not hold gives the negation of each disjunct; anything else gives nothing.
func pathCondsAt(parents map[ast.Node]ast.Node, n ast.Node) []pathCond {
	var out []pathCond
	inLoop, isAfter := false, false
	var add func(e ast.Expr, neg bool)
	add = func(e ast.Expr, neg bool) {
		switch x := ast.Unparen(e).(type) {
		case *ast.UnaryExpr:
			if x.Op == token.NOT {
				add(x.X, !neg)
				return
			}
			out = append(out, pathCond{x, neg, inLoop, isAfter})
		case *ast.BinaryExpr:
			switch {
			case x.Op == token.LAND && !neg, x.Op == token.LOR && neg:
				add(x.X, neg)
				add(x.Y, neg)
			case x.Op == token.LAND || x.Op == token.LOR:
			default:
				out = append(out, pathCond{x, neg, inLoop, isAfter})
			}
		default:
			out = append(out, pathCond{ast.Unparen(e), neg, inLoop, isAfter})
		}
	}
	var child ast.Node = n
	for p := parents[n]; p != nil; child, p = p, parents[p] {
		switch x := p.(type) {
		case *ast.BlockStmt:
			for _, st := range x.List {
				if st == child {
					break
				}
				if is, ok := st.(*ast.IfStmt); ok && is.Else == nil && terminates(is.Body) {
					isAfter = true
					add(is.Cond, true)
					isAfter = false
				}
			}
		case *ast.IfStmt:
			if child == ast.Node(x.Body) {
				add(x.Cond, false)
			} else if child == ast.Node(x.Else) {
				add(x.Cond, true)
			}
		case *ast.ForStmt:
			if child == ast.Node(x.Body) && x.Cond != nil {
				inLoop = true
				add(x.Cond, false)
				inLoop = false
			}
		case *ast.BinaryExpr:
			if child == ast.Node(x.Y) {
				if x.Op == token.LAND {
					add(x.X, false)
				} else if x.Op == token.LOR {
					add(x.X, true)
				}
			}
		case *ast.FuncLit:
			return out
		}
	}
	return out
}

func pathFactsAt(parents map[ast.Node]ast.Node, n ast.Node) []pathFact {
	var out []pathFact
	for _, c := range pathCondsAt(parents, n) {
		if be, ok := c.e.(*ast.BinaryExpr); ok {
			out = append(out, pathFact{be, c.neg, c.loop})
		}
	}
	return out
}

// guardFact: a comparison known to hold (neg: not to hold) at some node; when it was read out of a boolean helper of the
// package, args maps the helper's parameters (and receiver) to the arguments of the call that tested it.
type guardFact struct {
	pathFact
	args map[types.Object]ast.Expr
}

// says: the fact says  a (op) b  (named form, cuts up to their integer normal form).
func (g guardFact) says(info *types.Info, a, b Poly, op token.Token) bool {
	saved := polyArgs
	if g.args != nil {
		polyArgs = g.args
	}
	defer func() { polyArgs = saved }()
	return factSays(info, g.pathFact, a, b, op)
}

// guardFacts: pathFactsAt, with every condition that is a call of a boolean function of the package replaced by what
// that function tests when it answers true: a body of guards `if C { return false }` followed by `return E` answers
// true exactly when no C holds and E does.
func guardFacts(p *Prog, pk *packages.Package, parents map[ast.Node]ast.Node, n ast.Node) []guardFact {
	info := pk.TypesInfo
	var out []guardFact
	for _, cd := range pathCondsAt(parents, n) {
		if be, ok := cd.e.(*ast.BinaryExpr); ok {
			out = append(out, guardFact{pathFact{be, cd.neg, cd.loop}, nil})
			continue
		}
		// `v, ok := helper(…)` with ok known to hold: the helper's second result, when it is a condition on its first
		// (return x, x != NONE && x >= pr.offset), holds of v
		if id, isId := cd.e.(*ast.Ident); isId && !cd.neg {
			guardFactsFromTuple(p, pk, parents, n, id, &out)
			continue
		}
		call, ok := cd.e.(*ast.CallExpr)
		if !ok || cd.neg {
			continue
		}
		f := calleeFunc(info, call)
		if f == nil || f.Pkg() != pk.Types {
			continue
		}
		hd := declOfFunc(pk, f)
		if hd == nil || hd.Body == nil || hd.Type.Results == nil || len(hd.Type.Results.List) != 1 {
			continue
		}
		if b, ok := info.TypeOf(hd.Type.Results.List[0].Type).Underlying().(*types.Basic); !ok || b.Kind() != types.Bool {
			continue
		}
		args := map[types.Object]ast.Expr{}
		i := 0
		for _, fl := range hd.Type.Params.List {
			for _, nm := range fl.Names {
				if i < len(call.Args) {
					args[info.Defs[nm]] = call.Args[i]
				}
				i++
			}
		}
		if hd.Recv != nil && len(hd.Recv.List) == 1 && len(hd.Recv.List[0].Names) == 1 {
			if sel, ok := ast.Unparen(call.Fun).(*ast.SelectorExpr); ok {
				args[info.Defs[hd.Recv.List[0].Names[0]]] = sel.X
			}
		}
		var leaves func(e ast.Expr, neg bool)
		leaves = func(e ast.Expr, neg bool) {
			switch x := ast.Unparen(e).(type) {
			case *ast.UnaryExpr:
				if x.Op == token.NOT {
					leaves(x.X, !neg)
				}
			case *ast.BinaryExpr:
				switch {
				case x.Op == token.LAND && !neg, x.Op == token.LOR && neg:
					leaves(x.X, neg)
					leaves(x.Y, neg)
				case x.Op == token.LAND || x.Op == token.LOR:
				default:
					out = append(out, guardFact{pathFact{x, neg, false}, args})
				}
			}
		}
		okForm := true
		for k, st := range hd.Body.List {
			switch x := st.(type) {
			case *ast.IfStmt:
				if x.Else != nil || x.Init != nil || len(x.Body.List) != 1 {
					okForm = false
					break
				}
				r, isRet := x.Body.List[0].(*ast.ReturnStmt)
				if !isRet || len(r.Results) != 1 {
					okForm = false
					break
				}
				if tv, ok := info.Types[r.Results[0]]; ok && tv.Value != nil && tv.Value.String() == "false" {
					leaves(x.Cond, true)
				} else {
					okForm = false
				}
			case *ast.ReturnStmt:
				if k != len(hd.Body.List)-1 || len(x.Results) != 1 {
					okForm = false
					break
				}
				if tv, ok := info.Types[x.Results[0]]; ok && tv.Value != nil {
					break // return true
				}
				leaves(x.Results[0], false)
			default:
				okForm = false
			}
			if !okForm {
				break
			}
		}
	}
	return out
}

// ruleIndexGuard: for every slice index s[i], the comparisons of i with len(s) that hold on the way to it (resolved
// forms: locals by their reaching definition, conversions dropped, either operand order, either polarity, the guard
// as an early refusal, an enclosing branch, a loop condition or a short-circuit operand) bound i - len(s) from above;
// when such a bound exists it must be at most -1.
func ruleIndexGuard(c *Ctx) {
	type agg struct {
		pos  token.Pos
		best int64
		text string
	}
	c.P.funcDecls(func(pk *packages.Package, fd *ast.FuncDecl) {
		if fd.Body == nil {
			return
		}
		info := pk.TypesInfo
		polyRecv = nil
		if fd.Recv != nil && len(fd.Recv.List) == 1 && len(fd.Recv.List[0].Names) == 1 {
			polyRecv = info.Defs[fd.Recv.List[0].Names[0]]
		}
		polyReach, polyPaths = reachingDefs(info, fd.Body), true
		defer func() { polyRecv, polyReach, polyPaths = nil, nil, false }()
		defs := singleDefs(info, fd.Body)
		parents := parentMap(fd.Body)
		found := map[string]*agg{}
		var order []string
		ast.Inspect(fd.Body, func(n ast.Node) bool {
			ix, ok := n.(*ast.IndexExpr)
			if !ok {
				return true
			}
			if _, isSlice := info.TypeOf(ix.X).Underlying().(*types.Slice); !isSlice {
				return true
			}
			if tv, ok := info.Types[ix.Index]; ok && tv.Value != nil {
				return true
			}
			pi, ok := exprPoly(info, ix.Index, defs, nil, 0)
			if !ok {
				return true
			}
			lenAtom := "len(" + exprTextD(info, ix.X, defs, 0) + ")"
			d := polyAdd(pi, polyAtom(lenAtom), -1) // i - len(s)
			upper, has := int64(0), false
			ne := map[int64]bool{}
			var text string
			for _, f := range pathFactsAt(parents, ix) {
				op := f.be.Op
				if f.neg {
					op = negOp[op]
				}
				if _, isCmp := negOp[op]; !isCmp {
					continue
				}
				px, ok1 := exprPoly(info, f.be.X, defs, nil, 0)
				py, ok2 := exprPoly(info, f.be.Y, defs, nil, 0)
				if !ok1 || !ok2 {
					continue
				}
				cut := polyAdd(px, py, -1)
				if _, mentions := cut[lenAtom]; !mentions {
					continue
				}
				// cut = sign·d + k ?
				var u int64
				bound := false
				if k, isK := polyAdd(cut, d, -1).isConst(); isK { // d + k op 0
					switch op {
					case token.LSS:
						u, bound = -k-1, true
					case token.LEQ, token.EQL:
						u, bound = -k, true
					case token.NEQ:
						ne[-k] = true
					}
				} else if k, isK := polyAdd(cut, d, 1).isConst(); isK { // -d + k op 0
					switch op {
					case token.GTR:
						u, bound = k-1, true
					case token.GEQ, token.EQL:
						u, bound = k, true
					case token.NEQ:
						ne[k] = true
					}
				}
				if bound && (!has || u < upper) {
					upper, has = u, true
					text = types.ExprString(f.be)
					if f.neg {
						text = "!(" + text + ")"
					}
				}
			}
			if !has {
				return true
			}
			for ne[upper] {
				upper--
			}
			key := pkgShort(pk.Types) + "." + funcName(fd) + ":" + types.ExprString(ix.X) + "[" + types.ExprString(stripConv(info, ix.Index)) + "]"
			if a := found[key]; a == nil {
				found[key] = &agg{ix.Pos(), upper, text}
				order = append(order, key)
			} else if upper > a.best {
				a.pos, a.best, a.text = ix.Pos(), upper, text
			}
			return true
		})
		for _, key := range order {
			a := found[key]
			if a.best >= 0 {
				c.bad(key, a.pos, "the tightest guard on the way here (`%s`) lets the index reach len + %d: index == len is one past the end (index out of range)", a.text, a.best)
			} else {
				c.ok(key, a.pos, "guarded: index - len <= %d on every way here", a.best)
			}
		}
	})
}

func stripConv(info *types.Info, e ast.Expr) ast.Expr {
	for {
		e = ast.Unparen(e)
		c, ok := e.(*ast.CallExpr)
		if !ok || !isConversion(info, c) || len(c.Args) != 1 {
			return e
		}
		e = c.Args[0]
	}
}

func terminates(b *ast.BlockStmt) bool {
	if b == nil || len(b.List) == 0 {
		return false
	}
	switch x := b.List[len(b.List)-1].(type) {
	case *ast.ReturnStmt:
		return true
	case *ast.BranchStmt:
		return x.Tok == token.CONTINUE || x.Tok == token.BREAK || x.Tok == token.GOTO
	case *ast.ExprStmt:
		if call, ok := x.X.(*ast.CallExpr); ok {
			if id, ok := call.Fun.(*ast.Ident); ok && id.Name == "panic" {
				return true
			}
		}
	}
	return false
}

var _ = sort.Strings

func rulePoolKeys(c *Ctx) {
	pk := c.P.Pkg("eth2/pool")
	if pk == nil {
		anchorFail("package pool not loaded")
	}
	info := pk.TypesInfo
	for _, file := range pk.Syntax {
		for _, d := range file.Decls {
			fd, ok := d.(*ast.FuncDecl)
			if !ok || fd.Body == nil {
				continue
			}
			type lit struct {
				epoch string
				pos   token.Pos
			}
			var lits []lit
			defs := singleDefs(info, fd.Body)
			ast.Inspect(fd.Body, func(n ast.Node) bool {
				cl, ok := n.(*ast.CompositeLit)
				if !ok {
					return true
				}
				if nt := namedOf(info.TypeOf(cl)); nt == nil || nt.Obj().Name() != "Assignment" {
					return true
				}
				for _, el := range cl.Elts {
					if kv, ok := el.(*ast.KeyValueExpr); ok {
						if k, ok := kv.Key.(*ast.Ident); ok && k.Name == "Epoch" {
							// read through single-definition locals: `targetEpoch := att.Data.Target.Epoch` names the same value
							txt := types.ExprString(kv.Value)
							if rp, ok := exprPoly(info, kv.Value, defs, nil, 0); ok {
								txt = rp.String()
							}
							lits = append(lits, lit{txt, cl.Pos()})
						}
					}
				}
				return true
			})
			if len(lits) < 2 {
				continue
			}
			key := "pool." + funcName(fd) + ":Assignment.Epoch"
			bad := false
			for _, l := range lits[1:] {
				if l.epoch != lits[0].epoch {
					bad = true
					c.bad(key, l.pos, "one key is built with Epoch: %s, a sibling key in the same method with Epoch: %s: entries recorded under one are never found under the other (a conflicting vote in the same target epoch goes unreported)", lits[0].epoch, l.epoch)
					break
				}
			}
			if !bad {
				c.ok(key, lits[0].pos, "%d keys, all with Epoch: %s", len(lits), lits[0].epoch)
			}
		}
	}
}

func init() {
	register(&Rule{Name: "pool.item", Floor: 1,
		Doc: "an attestation handed out by a pool query pairs the aggregation bits and the signature of ONE stored aggregate: in every Attestation literal built in package pool, AggregationBits and Signature select from the same variable (the signature only verifies for exactly its own participant set)",
		Run: rulePoolItem})
}

// structBuild: one construction of a struct value in a function body: a composite literal, or a local of the type
// (declared with var, new(T) or a literal) together with the field assignments made on it.
type structBuild struct {
	fields map[string]ast.Expr
	pos    token.Pos
}

func structBuilds(info *types.Info, body *ast.BlockStmt, typeName string) []structBuild {
	isT := func(t types.Type) bool {
		if t == nil {
			return false
		}
		nt := namedOf(t)
		return nt != nil && nt.Obj().Name() == typeName
	}
	var out []structBuild
	byLocal := map[types.Object]*structBuild{}
	litOf := map[*ast.CompositeLit]*structBuild{}
	ast.Inspect(body, func(n ast.Node) bool {
		switch x := n.(type) {
		case *ast.CompositeLit:
			if _, isStruct := info.TypeOf(x).Underlying().(*types.Struct); isStruct && isT(info.TypeOf(x)) {
				b := &structBuild{fields: map[string]ast.Expr{}, pos: x.Pos()}
				for _, el := range x.Elts {
					if kv, ok := el.(*ast.KeyValueExpr); ok {
						if id, ok := kv.Key.(*ast.Ident); ok {
							b.fields[id.Name] = kv.Value
						}
					}
				}
				litOf[x] = b
			}
		}
		return true
	})
	claimed := map[*ast.CompositeLit]bool{}
	ast.Inspect(body, func(n ast.Node) bool {
		switch x := n.(type) {
		case *ast.AssignStmt:
			if len(x.Lhs) != len(x.Rhs) {
				return true
			}
			for i, l := range x.Lhs {
				// x := T{…} / &T{…} / new(T)
				if id, ok := l.(*ast.Ident); ok {
					o := info.ObjectOf(id)
					r := ast.Unparen(x.Rhs[i])
					if u, ok := r.(*ast.UnaryExpr); ok && u.Op == token.AND {
						r = ast.Unparen(u.X)
					}
					if cl, ok := r.(*ast.CompositeLit); ok && litOf[cl] != nil {
						byLocal[o] = litOf[cl]
						claimed[cl] = true
					}
					if call, ok := r.(*ast.CallExpr); ok && len(call.Args) == 1 {
						if fid, ok := call.Fun.(*ast.Ident); ok && fid.Name == "new" && isT(info.TypeOf(call.Args[0])) {
							byLocal[o] = &structBuild{fields: map[string]ast.Expr{}, pos: x.Pos()}
						}
					}
				}
				// x.F = v
				if sel, ok := ast.Unparen(l).(*ast.SelectorExpr); ok && x.Tok == token.ASSIGN {
					if id, ok := ast.Unparen(sel.X).(*ast.Ident); ok && isT(info.TypeOf(id)) {
						o := info.ObjectOf(id)
						if byLocal[o] == nil {
							byLocal[o] = &structBuild{fields: map[string]ast.Expr{}, pos: x.Pos()}
						}
						byLocal[o].fields[sel.Sel.Name] = x.Rhs[i]
					}
				}
			}
		}
		return true
	})
	var keys []token.Pos
	byPos := map[token.Pos]*structBuild{}
	for _, b := range byLocal {
		byPos[b.pos] = b
	}
	for cl, b := range litOf {
		if !claimed[cl] {
			byPos[b.pos] = b
		}
	}
	for p := range byPos {
		keys = append(keys, p)
	}
	sort.Slice(keys, func(i, j int) bool { return keys[i] < keys[j] })
	for _, p := range keys {
		out = append(out, *byPos[p])
	}
	return out
}

func rulePoolItem(c *Ctx) {
	pk := c.P.Pkg("eth2/pool")
	if pk == nil {
		anchorFail("pool.item: package eth2/pool not loaded")
	}
	info := pk.TypesInfo
	n := 0
	c.P.funcDecls(func(p *packages.Package, fd *ast.FuncDecl) {
		if p != pk || fd.Body == nil {
			return
		}
		fname := "pool." + funcName(fd)
		base := func(e ast.Expr) types.Object {
			for {
				switch x := ast.Unparen(e).(type) {
				case *ast.SelectorExpr:
					e = x.X
				case *ast.StarExpr:
					e = x.X
				case *ast.IndexExpr:
					e = x.X
				case *ast.Ident:
					return info.ObjectOf(x)
				default:
					return nil
				}
			}
		}
		// the record an expression selects from, as a path: agg.Aggregates[j].Sig -> agg.Aggregates[j]
		record := func(e ast.Expr) string {
			if sel, ok := ast.Unparen(e).(*ast.SelectorExpr); ok {
				return types.ExprString(sel.X)
			}
			return ""
		}
		for _, build := range structBuilds(info, fd.Body, "Attestation") {
			bitsV, sigV := build.fields["AggregationBits"], build.fields["Signature"]
			if bitsV == nil || sigV == nil {
				continue
			}
			n++
			key := fmt.Sprintf("%s@Attestation#%d", fname, n)
			b1, b2 := base(bitsV), base(sigV)
			switch {
			case b1 == nil || b2 == nil:
				c.unm(key, build.pos, "bits or signature not a field selection")
			case b1 != b2 || record(bitsV) != record(sigV):
				c.bad(key, build.pos, "%s returns an attestation whose AggregationBits come from `%s` and whose Signature comes from `%s`: the bits of one record paired with the signature of another is not an item that was added (and does not verify)", fname, types.ExprString(bitsV), types.ExprString(sigV))
			default:
				c.ok(key, build.pos, "bits and signature of the same record (%s)", b1.Name())
			}
		}
	})
	if n < 1 {
		anchorFail("pool.item: no Attestation literal with bits and signature in package pool")
	}
}

// guardFactsFromTuple: okId is a boolean known to hold at n; if it is the second value of `v, ok := helper(args)` (or an
// if-init of that form) with helper a function of the package whose body ends in `return X, COND` (X an identifier:
// a local, parameter or named result of the helper; no other return hands back true), the comparisons of COND hold
// with X standing for v and the helper's parameters and receiver for the arguments.
func guardFactsFromTuple(p *Prog, pk *packages.Package, parents map[ast.Node]ast.Node, n ast.Node, okId *ast.Ident, out *[]guardFact) {
	info := pk.TypesInfo
	okObj := info.ObjectOf(okId)
	if okObj == nil {
		return
	}
	// the defining assignment: climb to the function body and look for `v, ok := call`
	var root ast.Node = n
	for parents[root] != nil {
		root = parents[root]
	}
	var def *ast.AssignStmt
	ast.Inspect(root, func(k ast.Node) bool {
		if as, ok := k.(*ast.AssignStmt); ok && len(as.Lhs) == 2 && len(as.Rhs) == 1 {
			if id, ok := as.Lhs[1].(*ast.Ident); ok && info.ObjectOf(id) == okObj {
				if def != nil {
					def = nil
					return false
				}
				def = as
			}
		}
		return true
	})
	if def == nil {
		return
	}
	call, ok := ast.Unparen(def.Rhs[0]).(*ast.CallExpr)
	if !ok {
		return
	}
	f := calleeFunc(info, call)
	if f == nil || f.Pkg() != pk.Types {
		return
	}
	hd := declOfFunc(pk, f)
	if hd == nil || hd.Body == nil || len(hd.Body.List) == 0 {
		return
	}
	var rets []*ast.ReturnStmt
	ast.Inspect(hd.Body, func(k ast.Node) bool {
		if _, isLit := k.(*ast.FuncLit); isLit {
			return false
		}
		if r, ok := k.(*ast.ReturnStmt); ok {
			rets = append(rets, r)
		}
		return true
	})
	var deciding *ast.ReturnStmt
	for _, r := range rets {
		if len(r.Results) != 2 {
			return
		}
		if tv, ok := info.Types[r.Results[1]]; ok && tv.Value != nil {
			if tv.Value.String() == "false" {
				continue
			}
			return // a constant true: nothing is known
		}
		if deciding != nil {
			return
		}
		deciding = r
	}
	if deciding == nil {
		return
	}
	xid, ok := ast.Unparen(deciding.Results[0]).(*ast.Ident)
	vid, ok2 := def.Lhs[0].(*ast.Ident)
	if !ok || !ok2 {
		return
	}
	args := map[types.Object]ast.Expr{info.ObjectOf(xid): vid}
	i := 0
	for _, fl := range hd.Type.Params.List {
		for _, nm := range fl.Names {
			if i < len(call.Args) {
				args[info.Defs[nm]] = call.Args[i]
			}
			i++
		}
	}
	if hd.Recv != nil && len(hd.Recv.List) == 1 && len(hd.Recv.List[0].Names) == 1 {
		if sel, ok := ast.Unparen(call.Fun).(*ast.SelectorExpr); ok {
			args[info.Defs[hd.Recv.List[0].Names[0]]] = sel.X
		}
	}
	// the helper's X must be what it was when COND was evaluated: not assigned after… (it is returned in the same
	// statement, so it is)
	var leaves func(e ast.Expr, neg bool)
	leaves = func(e ast.Expr, neg bool) {
		switch x := ast.Unparen(e).(type) {
		case *ast.UnaryExpr:
			if x.Op == token.NOT {
				leaves(x.X, !neg)
			}
		case *ast.BinaryExpr:
			switch {
			case x.Op == token.LAND && !neg, x.Op == token.LOR && neg:
				leaves(x.X, neg)
				leaves(x.Y, neg)
			case x.Op == token.LAND || x.Op == token.LOR:
			default:
				*out = append(*out, guardFact{pathFact{x, neg, false}, args})
			}
		}
	}
	leaves(deciding.Results[1], false)
}
