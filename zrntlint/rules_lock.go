package main

import (
	"fmt"
	"go/ast"
	"go/token"
	"go/types"
	"sort"
	"strings"

	"golang.org/x/tools/go/cfg"
	"golang.org/x/tools/go/packages"
)

func init() {
	register(&Rule{Name: "lock.held", Floor: 25,
		Doc: "for every zrnt struct type that carries a sync.(RW)Mutex: each exported method holds the mutex, on every path, at every read of a mutable field (at least RLock) and every write or mutating call through a field (Lock); unexported helpers that touch guarded state without locking are only called with the lock held; every acquisition is released on all exits",
		Run: ruleLockHeld})
	register(&Rule{Name: "lock.reentry", Floor: 6,
		Doc: "no method calls, on the same receiver and while the receiver's mutex may be held, a method whose transitive call set (same receiver) acquires that mutex again (Go mutexes are not re-entrant; nested RLock deadlocks against a queued writer)",
		Run: ruleLockReentry})
	register(&Rule{Name: "lock.atomic", Floor: 15,
		Doc: "a method of a mutex-carrying type that reads guarded state in one critical section and writes it in a later, separate critical section re-validates under the later lock (check-then-act)",
		Run: ruleLockAtomic})
	register(&Rule{Name: "lazy.init", Floor: 5,
		Doc: "a struct type whose pointers are handed out by a mutex-carrying container must not store to its own fields from a method without sync/atomic, sync.Once or a mutex (unsynchronised lazy initialisation)",
		Run: ruleLazyInit})
}

// sharedType: a zrnt struct with a mutex.
type sharedType struct {
	pk      *packages.Package
	nt      *types.Named
	st      *types.Struct
	name    string
	muField string // "" when embedded
	muEmb   bool
	rw      bool
	methods map[string]*lockMethod
	mutable map[string]bool // fields stored to outside constructors
}

type lockMethod struct {
	st   *sharedType
	fd   *ast.FuncDecl
	name string
	recv types.Object
	g    *cfg.CFG
	// facts
	acquires   bool                // takes the lock itself somewhere
	accesses   []fieldAccess       // direct guarded accesses
	calls      []selfCall          // calls to methods on the same receiver
	foreign    []selfCall          // calls to methods of the same type on another instance reached through a field (parent)
	stateAt    map[ast.Node][2]int // must/may lock state before node: 0 none 1 R 2 W
	unreleased []token.Pos
	needs      int  // for methods that do not lock: strongest access they (transitively) make without holding: 0 none,1 R,2 W
	mutates    bool // writes receiver state (transitively, same receiver)
}

type fieldAccess struct {
	field string
	write bool
	node  ast.Node
	what  string
}

type selfCall struct {
	callee string
	node   *ast.CallExpr
}

func isSyncMutex(t types.Type) (is bool, rw bool) {
	nt := namedOf(t)
	if nt == nil || nt.Obj().Pkg() == nil || nt.Obj().Pkg().Path() != "sync" {
		return false, false
	}
	switch nt.Obj().Name() {
	case "Mutex":
		return true, false
	case "RWMutex":
		return true, true
	}
	return false, false
}

func collectShared(p *Prog) []*sharedType {
	var out []*sharedType
	for _, pk := range p.Pkgs {
		sc := pk.Types.Scope()
		for _, n := range sc.Names() {
			tn, ok := sc.Lookup(n).(*types.TypeName)
			if !ok {
				continue
			}
			nt, ok := tn.Type().(*types.Named)
			if !ok {
				continue
			}
			st, ok := nt.Underlying().(*types.Struct)
			if !ok {
				continue
			}
			for i := 0; i < st.NumFields(); i++ {
				f := st.Field(i)
				if _, isPtr := f.Type().(*types.Pointer); isPtr {
					continue
				}
				if is, rw := isSyncMutex(f.Type()); is {
					s := &sharedType{pk: pk, nt: nt, st: st, name: pk.Types.Name() + "." + n, rw: rw, methods: map[string]*lockMethod{}, mutable: map[string]bool{}}
					if f.Embedded() {
						s.muEmb = true
					} else {
						s.muField = f.Name()
					}
					out = append(out, s)
					break
				}
			}
		}
	}
	sort.Slice(out, func(i, j int) bool { return out[i].name < out[j].name })
	return out
}

// lockAliases: locals defined once as (the address of) a mutex field, by object.
var lockAliases = map[types.Object]ast.Expr{}

// lockOp classifies a call as a lock operation on the receiver's mutex: "Lock","RLock","Unlock","RUnlock" or "".
func (s *sharedType) lockOp(info *types.Info, recv types.Object, call *ast.CallExpr) string {
	sel, ok := call.Fun.(*ast.SelectorExpr)
	if !ok {
		return ""
	}
	switch sel.Sel.Name {
	case "Lock", "RLock", "Unlock", "RUnlock":
	default:
		return ""
	}
	f := calleeFunc(info, call)
	if f == nil || f.Pkg() == nil || f.Pkg().Path() != "sync" {
		return ""
	}
	x := ast.Unparen(sel.X)
	// the mutex reached through a local that only names it: lock := &recv.mu; lock.RLock()
	if id, ok := x.(*ast.Ident); ok {
		if a, ok := lockAliases[info.Uses[id]]; ok {
			x = a
		}
	}
	if s.muEmb {
		if id, ok := x.(*ast.Ident); ok && info.Uses[id] == recv {
			return sel.Sel.Name
		}
		// recv.RWMutex.Lock()
		if in, ok := x.(*ast.SelectorExpr); ok {
			if id, ok := ast.Unparen(in.X).(*ast.Ident); ok && info.Uses[id] == recv {
				return sel.Sel.Name
			}
		}
		return ""
	}
	if in, ok := x.(*ast.SelectorExpr); ok && in.Sel.Name == s.muField {
		if id, ok := ast.Unparen(in.X).(*ast.Ident); ok && info.Uses[id] == recv {
			return sel.Sel.Name
		}
	}
	return ""
}

var parentsMemo = map[*ast.FuncDecl]map[ast.Node]ast.Node{}

func parentsOf(fd *ast.FuncDecl) map[ast.Node]ast.Node {
	if m, ok := parentsMemo[fd]; ok {
		return m
	}
	m := parentMap(fd.Body)
	parentsMemo[fd] = m
	return m
}

// handedToSelf: the selector x stands as &x directly in the argument list of a method call on the same receiver.
func handedToSelf(info *types.Info, parents map[ast.Node]ast.Node, x ast.Expr, recv types.Object) bool {
	var n ast.Node = x
	for {
		p := parents[n]
		switch q := p.(type) {
		case *ast.ParenExpr:
			n = q
			continue
		case *ast.UnaryExpr:
			if q.Op == token.AND {
				n = q
				continue
			}
			return false
		case *ast.CallExpr:
			sel, ok := q.Fun.(*ast.SelectorExpr)
			if !ok {
				return false
			}
			id, ok := ast.Unparen(sel.X).(*ast.Ident)
			return ok && info.Uses[id] == recv
		}
		return false
	}
}

func isMutexFieldName(s *sharedType, name string) bool {
	if s.muEmb {
		return name == "Mutex" || name == "RWMutex"
	}
	return name == s.muField
}

// analyse builds per-method facts.
func analyseShared(p *Prog, shared []*sharedType) {
	lockAliases = map[types.Object]ast.Expr{}
	p.funcDecls(func(pk *packages.Package, fd *ast.FuncDecl) {
		if fd.Body == nil {
			return
		}
		for o, d := range singleDefs(pk.TypesInfo, fd.Body) {
			if d.pos != 0 || d.n != 1 || d.rhs == nil {
				continue
			}
			e := ast.Unparen(d.rhs)
			if u, ok := e.(*ast.UnaryExpr); ok && u.Op == token.AND {
				e = ast.Unparen(u.X)
			}
			if sel, ok := e.(*ast.SelectorExpr); ok {
				if nt := namedOf(pk.TypesInfo.TypeOf(sel)); nt != nil && nt.Obj().Pkg() != nil && nt.Obj().Pkg().Path() == "sync" {
					lockAliases[o] = sel
				}
			}
		}
	})
	byNamed := map[*types.Named]*sharedType{}
	for _, s := range shared {
		byNamed[s.nt] = s
	}
	for _, s := range shared {
		info := s.pk.TypesInfo
		// methods
		for _, file := range s.pk.Syntax {
			for _, d := range file.Decls {
				fd, ok := d.(*ast.FuncDecl)
				if !ok || fd.Body == nil || fd.Recv == nil || len(fd.Recv.List) != 1 {
					continue
				}
				if namedOf(info.TypeOf(fd.Recv.List[0].Type)) != s.nt {
					continue
				}
				m := &lockMethod{st: s, fd: fd, name: fd.Name.Name, stateAt: map[ast.Node][2]int{}}
				if len(fd.Recv.List[0].Names) == 1 {
					m.recv = info.Defs[fd.Recv.List[0].Names[0]]
				}
				s.methods[m.name] = m
			}
		}
		// mutable fields: stored to in any method, or in any package function through a non-fresh value
		for _, file := range s.pk.Syntax {
			for _, d := range file.Decls {
				fd, ok := d.(*ast.FuncDecl)
				if !ok || fd.Body == nil {
					continue
				}
				fresh := freshLocals(info, fd, s.nt)
				forEachStore(info, fd.Body, func(sel *ast.SelectorExpr, what string) {
					if namedOf(info.TypeOf(sel.X)) != s.nt {
						return
					}
					if id, ok := ast.Unparen(sel.X).(*ast.Ident); ok && fresh[info.Uses[id]] {
						return // constructor initialising its own fresh value
					}
					s.mutable[sel.Sel.Name] = true
				})
			}
		}
	}
	for _, s := range shared {
		for _, m := range s.methods {
			analyseMethod(s, m)
		}
	}
	// fixpoint: needs / mutates through self calls
	for _, s := range shared {
		for changed := true; changed; {
			changed = false
			for _, m := range s.methods {
				for _, c := range m.calls {
					cm := s.methods[c.callee]
					if cm == nil {
						continue
					}
					if cm.mutates && !m.mutates {
						m.mutates = true
						changed = true
					}
					if !cm.acquires && cm.needs > 0 {
						st := m.stateAt[c.node]
						if st[0] < cm.needs && !m.acquires && m.needs < cm.needs {
							m.needs = cm.needs
							changed = true
						}
					}
				}
			}
		}
	}
}

// freshLocals: local variables of fd assigned from &T{...}/T{...}/new(T) (constructor-owned values).
func freshLocals(info *types.Info, fd *ast.FuncDecl, nt *types.Named) map[types.Object]bool {
	out := map[types.Object]bool{}
	ast.Inspect(fd.Body, func(n ast.Node) bool {
		as, ok := n.(*ast.AssignStmt)
		if !ok || len(as.Lhs) != len(as.Rhs) {
			return true
		}
		for i, r := range as.Rhs {
			r = ast.Unparen(r)
			if ue, ok := r.(*ast.UnaryExpr); ok && ue.Op == token.AND {
				r = ast.Unparen(ue.X)
			}
			isFresh := false
			if cl, ok := r.(*ast.CompositeLit); ok && namedOf(info.TypeOf(cl)) == nt {
				isFresh = true
			}
			if call, ok := r.(*ast.CallExpr); ok {
				if id, ok := call.Fun.(*ast.Ident); ok && id.Name == "new" && len(call.Args) == 1 && namedOf(info.TypeOf(call.Args[0])) == nt {
					isFresh = true
				}
			}
			if isFresh {
				if id, ok := as.Lhs[i].(*ast.Ident); ok {
					if o := info.Defs[id]; o != nil {
						out[o] = true
					}
				}
			}
		}
		return true
	})
	return out
}

// forEachStore reports selector expressions x.f that are written: x.f = , x.f[k] = , x.f.g = , x.f++ , delete(x.f,k),
// x.f = append(x.f,...), &x.f (address taken).
func forEachStore(info *types.Info, body ast.Node, fn func(sel *ast.SelectorExpr, what string)) {
	var rootSel func(e ast.Expr) *ast.SelectorExpr
	rootSel = func(e ast.Expr) *ast.SelectorExpr {
		e = ast.Unparen(e)
		switch x := e.(type) {
		case *ast.SelectorExpr:
			if s, ok := info.Selections[x]; ok && s.Kind() == types.FieldVal {
				// innermost field of the base object: walk down while the base is itself a field selection of a struct value
				if in := rootSel(x.X); in != nil {
					if _, isPtr := info.TypeOf(x.X).(*types.Pointer); !isPtr {
						if _, isMap := info.TypeOf(x.X).Underlying().(*types.Map); !isMap {
							return in
						}
					}
				}
				return x
			}
		case *ast.IndexExpr:
			return rootSel(x.X)
		case *ast.StarExpr:
			return nil
		}
		return nil
	}
	ast.Inspect(body, func(n ast.Node) bool {
		switch x := n.(type) {
		case *ast.AssignStmt:
			for _, l := range x.Lhs {
				if s := rootSel(l); s != nil {
					fn(s, "assignment")
				}
			}
		case *ast.IncDecStmt:
			if s := rootSel(x.X); s != nil {
				fn(s, "inc/dec")
			}
		case *ast.CallExpr:
			if id, ok := x.Fun.(*ast.Ident); ok && id.Name == "delete" && len(x.Args) == 2 {
				if _, isB := info.Uses[id].(*types.Builtin); isB {
					if s := rootSel(x.Args[0]); s != nil {
						fn(s, "delete")
					}
				}
			}
		case *ast.UnaryExpr:
			if x.Op == token.AND {
				if s := rootSel(x.X); s != nil {
					if _, isCL := ast.Unparen(x.X).(*ast.CompositeLit); !isCL {
						fn(s, "address-taken")
					}
				}
			}
		}
		return true
	})
}

func analyseMethod(s *sharedType, m *lockMethod) {
	info := s.pk.TypesInfo
	if m.recv == nil {
		return
	}
	// writes
	writes := map[*ast.SelectorExpr]string{}
	forEachStore(info, m.fd.Body, func(sel *ast.SelectorExpr, what string) {
		if id, ok := ast.Unparen(sel.X).(*ast.Ident); ok && info.Uses[id] == m.recv && !isMutexFieldName(s, sel.Sel.Name) {
			if what != "address-taken" || writes[sel] == "" {
				writes[sel] = what
			}
			if what != "address-taken" {
				m.mutates = true
			}
		}
	})
	// CFG + lock state
	m.g = cfg.New(m.fd.Body, func(call *ast.CallExpr) bool { return true })
	type st = [2]int
	in := map[*cfg.Block]st{}
	have := map[*cfg.Block]bool{}
	deferredUnlock := false
	// detect defer unlock anywhere
	ast.Inspect(m.fd.Body, func(n ast.Node) bool {
		if d, ok := n.(*ast.DeferStmt); ok {
			if op := s.lockOp(info, m.recv, d.Call); op == "Unlock" || op == "RUnlock" {
				deferredUnlock = true
			}
			// defer func(){ mu.Unlock() }()
			if fl, ok := d.Call.Fun.(*ast.FuncLit); ok {
				ast.Inspect(fl.Body, func(k ast.Node) bool {
					if c, ok := k.(*ast.CallExpr); ok {
						if op := s.lockOp(info, m.recv, c); op == "Unlock" || op == "RUnlock" {
							deferredUnlock = true
						}
					}
					return true
				})
			}
		}
		return true
	})
	transfer := func(b *cfg.Block, cur st, record bool) st {
		for _, n := range b.Nodes {
			// walk the node in evaluation order approximately: record state for every sub-node, apply lock ops at calls
			ast.Inspect(n, func(k ast.Node) bool {
				if k == nil {
					return true
				}
				if _, ok := k.(*ast.FuncLit); ok {
					return false
				}
				if _, ok := k.(*ast.DeferStmt); ok {
					return false
				}
				if record {
					m.stateAt[k] = cur
				}
				if c, ok := k.(*ast.CallExpr); ok {
					switch s.lockOp(info, m.recv, c) {
					case "Lock":
						cur = st{2, 2}
					case "RLock":
						cur = st{1, 1}
					case "Unlock", "RUnlock":
						cur = st{0, 0}
					}
				}
				return true
			})
		}
		return cur
	}
	if len(m.g.Blocks) > 0 {
		work := []*cfg.Block{m.g.Blocks[0]}
		in[m.g.Blocks[0]] = st{0, 0}
		have[m.g.Blocks[0]] = true
		for len(work) > 0 {
			b := work[0]
			work = work[1:]
			out := transfer(b, in[b], false)
			for _, succ := range b.Succs {
				ns := out
				if have[succ] {
					old := in[succ]
					ns = st{minInt(old[0], out[0]), maxInt(old[1], out[1])}
					if ns == old {
						continue
					}
				}
				in[succ] = ns
				have[succ] = true
				work = append(work, succ)
			}
		}
		for _, b := range m.g.Blocks {
			if have[b] {
				out := transfer(b, in[b], true)
				// exits: block with no successors that is live
				if len(b.Succs) == 0 && out[1] != 0 && !deferredUnlock {
					pos := m.fd.End()
					if len(b.Nodes) > 0 {
						pos = b.Nodes[len(b.Nodes)-1].Pos()
					}
					m.unreleased = append(m.unreleased, pos)
				}
			}
		}
	}
	// acquires
	ast.Inspect(m.fd.Body, func(n ast.Node) bool {
		if c, ok := n.(*ast.CallExpr); ok {
			if op := s.lockOp(info, m.recv, c); op == "Lock" || op == "RLock" {
				m.acquires = true
			}
		}
		return true
	})
	// accesses + self calls
	ast.Inspect(m.fd.Body, func(n ast.Node) bool {
		switch x := n.(type) {
		case *ast.FuncLit:
			return false
		case *ast.CallExpr:
			if sel, ok := x.Fun.(*ast.SelectorExpr); ok {
				if id, ok := ast.Unparen(sel.X).(*ast.Ident); ok && info.Uses[id] == m.recv {
					if _, isM := s.methods[sel.Sel.Name]; isM {
						m.calls = append(m.calls, selfCall{sel.Sel.Name, x})
					}
				}
			}
		case *ast.SelectorExpr:
			id, ok := ast.Unparen(x.X).(*ast.Ident)
			if !ok || info.Uses[id] != m.recv {
				return true
			}
			sl, ok := info.Selections[x]
			if !ok || sl.Kind() != types.FieldVal || isMutexFieldName(s, x.Sel.Name) {
				return true
			}
			if len(sl.Index()) != 1 {
				return true // promoted through the embedded mutex etc.
			}
			if w, isW := writes[x]; isW && w != "address-taken" {
				m.accesses = append(m.accesses, fieldAccess{x.Sel.Name, true, x, w})
			} else if isW && w == "address-taken" && handedToSelf(info, parentsOf(m.fd), x, m.recv) {
				// &recv.f given to a method of the same receiver: the access happens there, under that method's lock
			} else if s.mutable[x.Sel.Name] {
				m.accesses = append(m.accesses, fieldAccess{x.Sel.Name, false, x, "read"})
			}
		}
		return true
	})
	// method calls through a field value (fc.protoArray.M(), fc.voteStore.M()): guarded pointee
	ast.Inspect(m.fd.Body, func(n ast.Node) bool {
		if _, ok := n.(*ast.FuncLit); ok {
			return false
		}
		call, ok := n.(*ast.CallExpr)
		if !ok {
			return true
		}
		sel, ok := call.Fun.(*ast.SelectorExpr)
		if !ok {
			return true
		}
		in, ok := ast.Unparen(sel.X).(*ast.SelectorExpr)
		if !ok {
			return true
		}
		id, ok := ast.Unparen(in.X).(*ast.Ident)
		if !ok || info.Uses[id] != m.recv || isMutexFieldName(s, in.Sel.Name) {
			return true
		}
		ft := info.TypeOf(in)
		_, isIface := ft.Underlying().(*types.Interface)
		_, isPtr := ft.(*types.Pointer)
		if !isIface && !isPtr {
			return true
		}
		if isSpecType(ft) {
			return true // the immutable configuration object
		}
		if nt := namedOf(ft); nt == s.nt {
			// another instance of the same type (parent cache): it must lock itself — recorded, judged in lock.held
			m.foreign = append(m.foreign, selfCall{sel.Sel.Name, call})
			return true
		}
		f := calleeFunc(info, call)
		mut := calleeMutates(s.pk, f)
		m.accesses = append(m.accesses, fieldAccess{in.Sel.Name, mut, call, "call " + in.Sel.Name + "." + sel.Sel.Name + "()"})
		if mut {
			m.mutates = true
		}
		return true
	})
	// needs (for non-acquiring helpers)
	if !m.acquires {
		for _, a := range m.accesses {
			need := 1
			if a.write {
				need = 2
			}
			if need > m.needs {
				m.needs = need
			}
		}
	}
}

// mutatingMethods caches whether a zrnt method (or any implementation of an interface method) stores to receiver state.
var mutCache = map[*types.Func]bool{}

func calleeMutates(pk *packages.Package, f *types.Func) bool {
	if f == nil {
		return true // unknown: assume it mutates
	}
	if v, ok := mutCache[f]; ok {
		return v
	}
	mutCache[f] = false
	res := false
	sig := f.Type().(*types.Signature)
	if sig.Recv() == nil {
		return false
	}
	rt := sig.Recv().Type()
	if _, isIface := rt.Underlying().(*types.Interface); isIface {
		// all zrnt implementations
		for _, impl := range implementations(rt.Underlying().(*types.Interface), f.Name()) {
			if calleeMutates(pk, impl) {
				res = true
			}
		}
		mutCache[f] = res
		return res
	}
	res = methodStoresToReceiver(f, map[*types.Func]bool{})
	mutCache[f] = res
	return res
}

var progForLocks *Prog

func implementations(it *types.Interface, name string) []*types.Func {
	var out []*types.Func
	for _, pk := range progForLocks.Pkgs {
		sc := pk.Types.Scope()
		for _, n := range sc.Names() {
			tn, ok := sc.Lookup(n).(*types.TypeName)
			if !ok {
				continue
			}
			if _, isI := tn.Type().Underlying().(*types.Interface); isI {
				continue
			}
			pt := types.NewPointer(tn.Type())
			if !types.Implements(pt, it) && !types.Implements(tn.Type(), it) {
				continue
			}
			obj, _, _ := types.LookupFieldOrMethod(pt, true, pk.Types, name)
			if f, ok := obj.(*types.Func); ok {
				out = append(out, f)
			}
		}
	}
	return out
}

func methodStoresToReceiver(f *types.Func, seen map[*types.Func]bool) bool {
	if seen[f] {
		return false
	}
	seen[f] = true
	pk := progForLocks.ByPth[f.Pkg().Path()]
	if pk == nil || !strings.HasPrefix(pk.PkgPath, modPath) {
		return true
	}
	var fd *ast.FuncDecl
	for _, file := range pk.Syntax {
		for _, d := range file.Decls {
			if x, ok := d.(*ast.FuncDecl); ok && pk.TypesInfo.Defs[x.Name] == f {
				fd = x
			}
		}
	}
	if fd == nil || fd.Body == nil || fd.Recv == nil || len(fd.Recv.List[0].Names) != 1 {
		return false
	}
	info := pk.TypesInfo
	recv := info.Defs[fd.Recv.List[0].Names[0]]
	res := false
	forEachStore(info, fd.Body, func(sel *ast.SelectorExpr, what string) {
		if id, ok := ast.Unparen(sel.X).(*ast.Ident); ok && info.Uses[id] == recv {
			res = true
		}
	})
	if res {
		return true
	}
	// stores through locals aliasing receiver state (node := &pr.nodes[i]; node.Weight = ...): any store through a
	// pointer-typed local defined from receiver state
	alias := map[types.Object]bool{}
	ast.Inspect(fd.Body, func(n ast.Node) bool {
		as, ok := n.(*ast.AssignStmt)
		if !ok {
			return true
		}
		for i, r := range as.Rhs {
			if i >= len(as.Lhs) {
				break
			}
			uses := false
			ast.Inspect(r, func(k ast.Node) bool {
				if id, ok := k.(*ast.Ident); ok && info.Uses[id] == recv {
					uses = true
				}
				return true
			})
			if !uses {
				continue
			}
			if id, ok := as.Lhs[i].(*ast.Ident); ok {
				if o := info.Defs[id]; o != nil {
					if _, isPtr := o.Type().(*types.Pointer); isPtr {
						alias[o] = true
					}
				}
			}
		}
		return true
	})
	forEachStore(info, fd.Body, func(sel *ast.SelectorExpr, what string) {
		if id, ok := ast.Unparen(sel.X).(*ast.Ident); ok && alias[info.Uses[id]] {
			res = true
		}
	})
	if res {
		return true
	}
	// calls on the same receiver
	ast.Inspect(fd.Body, func(n ast.Node) bool {
		call, ok := n.(*ast.CallExpr)
		if !ok || res {
			return true
		}
		if sel, ok := call.Fun.(*ast.SelectorExpr); ok {
			if id, ok := ast.Unparen(sel.X).(*ast.Ident); ok && info.Uses[id] == recv {
				if g := calleeFunc(info, call); g != nil && g.Pkg() == f.Pkg() {
					if methodStoresToReceiver(g, seen) {
						res = true
					}
				}
			}
		}
		return true
	})
	return res
}

func minInt(a, b int) int {
	if a < b {
		return a
	}
	return b
}
func maxInt(a, b int) int {
	if a > b {
		return a
	}
	return b
}

var lockNames = [...]string{"no lock", "RLock", "Lock"}

func sharedSetup(c *Ctx) []*sharedType {
	progForLocks = c.P
	mutCache = map[*types.Func]bool{}
	shared := collectShared(c.P)
	if len(shared) < 6 {
		anchorFail("only %d mutex-carrying types found (expected fork choice, pubkey cache and the pools)", len(shared))
	}
	analyseShared(c.P, shared)
	c.stat("mutex_types", len(shared))
	return shared
}

func ruleLockHeld(c *Ctx) {
	shared := sharedSetup(c)
	for _, s := range shared {
		for _, mn := range sortedKeys(s.methods) {
			m := s.methods[mn]
			key := s.name + "." + mn
			for _, pos := range m.unreleased {
				c.bad(key+"#release", pos, "a path leaves %s with the mutex still held (no unlock, no deferred unlock)", mn)
			}
			exported := ast.IsExported(mn)
			if !exported && !m.acquires {
				// helper: obligation is on its callers (checked below at call sites)
				continue
			}
			// direct accesses and helper calls: one obligation per method, listing what is unguarded
			var unguarded []string
			var firstPos token.Pos
			seen := map[string]bool{}
			for _, a := range m.accesses {
				need := 1
				if a.write {
					need = 2
				}
				have := m.stateAt[a.node][0]
				if have < need {
					d := fmt.Sprintf("%s of %s under %s (needs %s)", a.what, a.field, lockNames[have], lockNames[need])
					if !seen[d] {
						seen[d] = true
						unguarded = append(unguarded, d)
						if firstPos == token.NoPos {
							firstPos = a.node.Pos()
						}
					}
				}
			}
			for _, sc := range m.calls {
				cm := s.methods[sc.callee]
				if cm == nil || cm.acquires || cm.needs == 0 {
					continue
				}
				have := m.stateAt[sc.node][0]
				if have < cm.needs {
					d := fmt.Sprintf("call of helper %s under %s (needs %s)", sc.callee, lockNames[have], lockNames[cm.needs])
					if !seen[d] {
						seen[d] = true
						unguarded = append(unguarded, d)
						if firstPos == token.NoPos {
							firstPos = sc.node.Pos()
						}
					}
				}
			}
			if len(unguarded) == 0 {
				c.ok(key, m.fd.Pos(), "%d guarded accesses, %d helper calls, all under the lock", len(m.accesses), len(m.calls))
			} else {
				c.bad(key, firstPos, "guarded state of %s touched without the required lock on some path: %s", s.name, strings.Join(unguarded, "; "))
			}
		}
		// another instance's guarded state: this method's lock (if any) is the lock of ITS receiver only, so a helper
		// that reads or writes guarded fields without locking must not be invoked on a different instance
		for _, mn := range sortedKeys(s.methods) {
			m := s.methods[mn]
			for _, fc := range m.foreign {
				cm := s.methods[fc.callee]
				if cm == nil {
					continue
				}
				key := s.name + "." + mn + "=>other." + fc.callee
				if !cm.acquires && cm.needs > 0 {
					c.bad(key, fc.node.Pos(), "%s calls the non-locking helper %s on another %s instance (%s): that instance's guarded fields are accessed while only this receiver's mutex can be held — a data race with any writer of the other instance", mn, fc.callee, s.name, types.ExprString(fc.node.Fun))
				} else {
					c.ok(key, fc.node.Pos(), "the other instance's method takes its own lock")
				}
			}
		}
		// unexported helpers called from package functions that are not methods (constructors) are exempt when the value is fresh;
		// otherwise they must not be called at all without the lock.
		info := s.pk.TypesInfo
		for _, file := range s.pk.Syntax {
			for _, d := range file.Decls {
				fd, ok := d.(*ast.FuncDecl)
				if !ok || fd.Body == nil || fd.Recv != nil {
					continue
				}
				fresh := freshLocals(info, fd, s.nt)
				ast.Inspect(fd.Body, func(n ast.Node) bool {
					call, ok := n.(*ast.CallExpr)
					if !ok {
						return true
					}
					sel, ok := call.Fun.(*ast.SelectorExpr)
					if !ok || namedOf(info.TypeOf(sel.X)) != s.nt {
						return true
					}
					cm := s.methods[sel.Sel.Name]
					if cm == nil || cm.acquires || cm.needs == 0 {
						return true
					}
					key := s.name + "." + sel.Sel.Name + "<-" + fd.Name.Name
					if id, ok := ast.Unparen(sel.X).(*ast.Ident); ok && fresh[info.Uses[id]] {
						c.ok(key, call.Pos(), "helper called on a value constructed in this function (not yet shared)")
					} else {
						c.bad(key, call.Pos(), "function %s calls unlocked helper %s on a shared value without holding its mutex", fd.Name.Name, sel.Sel.Name)
					}
					return true
				})
			}
		}
	}
}

func ruleLockReentry(c *Ctx) {
	shared := sharedSetup(c)
	for _, s := range shared {
		// transitive acquire set over same-receiver calls
		acq := map[string][]string{} // method -> path to an acquisition ("" none)
		var path func(mn string, seen map[string]bool) []string
		path = func(mn string, seen map[string]bool) []string {
			if seen[mn] {
				return nil
			}
			seen[mn] = true
			m := s.methods[mn]
			if m == nil {
				return nil
			}
			if m.acquires {
				return []string{mn}
			}
			for _, sc := range m.calls {
				if p := path(sc.callee, seen); p != nil {
					return append([]string{mn}, p...)
				}
			}
			return nil
		}
		for mn := range s.methods {
			acq[mn] = path(mn, map[string]bool{})
		}
		for _, mn := range sortedKeys(s.methods) {
			m := s.methods[mn]
			for i, sc := range m.calls {
				key := fmt.Sprintf("%s.%s->%s", s.name, mn, sc.callee)
				if i > 0 {
					dup := false
					for _, prev := range m.calls[:i] {
						if prev.callee == sc.callee {
							dup = true
						}
					}
					if dup {
						key = fmt.Sprintf("%s@%d", key, i)
					}
				}
				may := m.stateAt[sc.node][1]
				p := acq[sc.callee]
				if may != 0 && p != nil {
					c.bad(key, sc.node.Pos(), "%s may hold the mutex (%s) here and calls %s, which acquires it again (%s): self-deadlock", mn, lockNames[may], sc.callee, strings.Join(p, " -> "))
				} else {
					c.ok(key, sc.node.Pos(), "held=%s, callee acquires=%v", lockNames[may], p != nil)
				}
			}
			// recursion cycles among methods that acquire (same receiver) are covered above; also note calls made while
			// holding the lock through a helper that does not itself lock: propagate may-held into helpers
		}
		// cross-instance: while this instance's mutex may be held, a call on ANOTHER instance of the same type is only safe if
		// that instance cannot call back into this one; a type with a parent/child link (PubkeyCache: children delegate
		// lookups to their parent, which lock) must never be called parent->child under the parent's lock
		hasBackLink := false
		for i := 0; i < s.st.NumFields(); i++ {
			if nt := namedOf(s.st.Field(i).Type()); nt == s.nt {
				hasBackLink = true
			}
		}
		if hasBackLink {
			info := s.pk.TypesInfo
			for _, mn := range sortedKeys(s.methods) {
				m := s.methods[mn]
				ast.Inspect(m.fd.Body, func(n ast.Node) bool {
					call, ok := n.(*ast.CallExpr)
					if !ok {
						return true
					}
					sel, ok := call.Fun.(*ast.SelectorExpr)
					if !ok || namedOf(info.TypeOf(sel.X)) != s.nt {
						return true
					}
					if id, ok := ast.Unparen(sel.X).(*ast.Ident); ok && info.Uses[id] == m.recv {
						return true // same receiver: handled above
					}
					// calls on the receiver's own parent (child -> parent) are the allowed direction
					if isRecvField(info, sel.X, m.recv, "parent") {
						return true
					}
					cm := s.methods[sel.Sel.Name]
					if cm == nil {
						return true
					}
					key := fmt.Sprintf("%s.%s=>%s.%s", s.name, mn, types.ExprString(sel.X), sel.Sel.Name)
					may := m.stateAt[call][1]
					if may != 0 && acq[sel.Sel.Name] != nil {
						c.bad(key, call.Pos(), "%s may hold its own mutex (%s) while calling %s on another %s; instances delegate to their parent under the parent's lock, so a child built on this instance calls back into the held mutex: deadlock, and every other user of this instance blocks too", mn, lockNames[may], sel.Sel.Name, s.nt.Obj().Name())
					} else {
						c.ok(key, call.Pos(), "own mutex not held during the cross-instance call")
					}
					return true
				})
			}
		}
		// helpers invoked with the lock held: their own self-calls happen under the lock too
		for _, mn := range sortedKeys(s.methods) {
			m := s.methods[mn]
			if m.acquires {
				continue
			}
			// is this helper ever called with the lock held?
			held := false
			var from string
			for _, cn := range sortedKeys(s.methods) {
				for _, sc := range s.methods[cn].calls {
					if sc.callee == mn && s.methods[cn].stateAt[sc.node][1] != 0 {
						held = true
						from = cn
					}
				}
			}
			if !held {
				continue
			}
			for _, sc := range m.calls {
				if p := acq[sc.callee]; p != nil {
					c.bad(fmt.Sprintf("%s.%s(held via %s)->%s", s.name, mn, from, sc.callee), sc.node.Pos(),
						"%s runs with the mutex held (called from %s under the lock) and calls %s, which acquires it again (%s): self-deadlock", mn, from, sc.callee, strings.Join(p, " -> "))
				}
			}
		}
	}
}

func ruleLockAtomic(c *Ctx) {
	shared := sharedSetup(c)
	for _, s := range shared {
		for _, mn := range sortedKeys(s.methods) {
			m := s.methods[mn]
			key := s.name + "." + mn
			// sections: self-calls to locking methods (each is its own critical section) and own Lock regions
			var sections []string
			for _, sc := range m.calls {
				cm := s.methods[sc.callee]
				if cm != nil && cm.acquires && m.stateAt[sc.node][1] == 0 {
					sections = append(sections, "call "+sc.callee)
				}
			}
			ownWrite := false
			for _, a := range m.accesses {
				if a.write && m.stateAt[a.node][0] == 2 {
					ownWrite = true
				}
			}
			if !m.acquires || !ownWrite {
				if m.acquires {
					c.ok(key, m.fd.Pos(), "single critical section")
				}
				continue
			}
			if len(sections) == 0 {
				c.ok(key, m.fd.Pos(), "single critical section")
				continue
			}
			// Does the write section re-validate? Look for a read of guarded state under the write lock inside an if condition.
			revalidates := false
			info := s.pk.TypesInfo
			ast.Inspect(m.fd.Body, func(n ast.Node) bool {
				ifs, ok := n.(*ast.IfStmt)
				if !ok {
					return true
				}
				if m.stateAt[ifs.Cond][0] != 2 {
					return true
				}
				// the re-validation must re-read what the earlier sections established: calls to the unlocked helpers or map/slice reads
				reads := 0
				scan := func(e ast.Node) {
					if e == nil {
						return
					}
					ast.Inspect(e, func(k ast.Node) bool {
						if sel, ok := k.(*ast.SelectorExpr); ok {
							if id, ok := ast.Unparen(sel.X).(*ast.Ident); ok && info.Uses[id] == m.recv && s.mutable[sel.Sel.Name] {
								reads++
							}
						}
						return true
					})
				}
				scan(ifs.Init)
				scan(ifs.Cond)
				// locals of the condition that were computed (under the same write lock) from guarded state
				ldefs := singleDefs(info, m.fd.Body)
				ast.Inspect(ifs.Cond, func(k ast.Node) bool {
					if id, ok := k.(*ast.Ident); ok {
						if d, ok := ldefs[info.Uses[id]]; ok && d.rhs != nil && m.stateAt[ifs.Cond][0] == 2 {
							scan(d.rhs)
						}
					}
					return true
				})
				if reads > 0 {
					revalidates = true
				}
				return true
			})
			// a length check alone does not re-validate a membership decision taken earlier: require that every
			// mutable field written under the lock is also re-read under it before the write
			written := map[string]bool{}
			reread := map[string]bool{}
			for _, a := range m.accesses {
				if m.stateAt[a.node][0] == 2 {
					if a.write {
						written[a.field] = true
					}
				}
			}
			ast.Inspect(m.fd.Body, func(n ast.Node) bool {
				ifs, ok := n.(*ast.IfStmt)
				if !ok || m.stateAt[ifs.Cond][0] != 2 {
					return true
				}
				for _, part := range []ast.Node{ifs.Init, ifs.Cond} {
					if part == nil {
						continue
					}
					ast.Inspect(part, func(k ast.Node) bool {
						if sel, ok := k.(*ast.SelectorExpr); ok {
							if id, ok := ast.Unparen(sel.X).(*ast.Ident); ok && info.Uses[id] == m.recv {
								reread[sel.Sel.Name] = true
							}
						}
						return true
					})
				}
				return true
			})
			missing := []string{}
			for f := range written {
				if !reread[f] {
					missing = append(missing, f)
				}
			}
			sort.Strings(missing)
			// (b) re-decide: under the write lock the method compares against re-read guarded state and, when that
			// shows the earlier decision is stale, releases the lock and calls itself again (no lock held at the call)
			redecides := false
			ast.Inspect(m.fd.Body, func(n ast.Node) bool {
				ifs, ok := n.(*ast.IfStmt)
				if !ok || m.stateAt[ifs.Cond][0] != 2 {
					return true
				}
				ast.Inspect(ifs.Body, func(k ast.Node) bool {
					call, ok := k.(*ast.CallExpr)
					if !ok {
						return true
					}
					sel, ok := call.Fun.(*ast.SelectorExpr)
					if !ok || sel.Sel.Name != mn {
						return true
					}
					if id, ok := ast.Unparen(sel.X).(*ast.Ident); ok && info.Uses[id] == m.recv && m.stateAt[call][1] == 0 {
						redecides = true
					}
					return true
				})
				return true
			})
			if revalidates && redecides {
				c.ok(key, m.fd.Pos(), "re-reads guarded state under the write lock and re-decides (unlocked self-call) when the earlier decision is stale")
				continue
			}
			if !revalidates || len(missing) > 0 {
				c.bad(key, m.fd.Pos(), "decides in earlier critical sections (%s) and then writes %v under a separately acquired lock without re-checking them: two concurrent calls can both pass the check", strings.Join(sections, ", "), missing)
			} else {
				c.ok(key, m.fd.Pos(), "re-validates under the write lock")
			}
		}
	}
}

func ruleLazyInit(c *Ctx) {
	shared := sharedSetup(c)
	// struct types whose pointers are returned by methods of shared types
	handed := map[*types.Named]string{}
	for _, s := range shared {
		for _, mn := range sortedKeys(s.methods) {
			m := s.methods[mn]
			f, _ := s.pk.TypesInfo.Defs[m.fd.Name].(*types.Func)
			if f == nil {
				continue
			}
			res := f.Type().(*types.Signature).Results()
			for i := 0; i < res.Len(); i++ {
				pt, ok := res.At(i).Type().(*types.Pointer)
				if !ok {
					continue
				}
				nt, ok := pt.Elem().(*types.Named)
				if !ok || !isZrnt(nt.Obj()) || nt == s.nt {
					continue
				}
				if _, isStruct := nt.Underlying().(*types.Struct); isStruct {
					handed[nt] = s.name + "." + mn
				}
			}
		}
	}
	c.stat("handed_out_types", len(handed))
	for nt, via := range handed {
		pk := c.P.ByPth[nt.Obj().Pkg().Path()]
		st := nt.Underlying().(*types.Struct)
		hasSync := false
		for i := 0; i < st.NumFields(); i++ {
			if ft := namedOf(st.Field(i).Type()); ft != nil && ft.Obj().Pkg() != nil && (ft.Obj().Pkg().Path() == "sync" || ft.Obj().Pkg().Path() == "sync/atomic") {
				hasSync = true
			}
		}
		info := pk.TypesInfo
		n := 0
		for _, file := range pk.Syntax {
			for _, d := range file.Decls {
				fd, ok := d.(*ast.FuncDecl)
				if !ok || fd.Body == nil || fd.Recv == nil || len(fd.Recv.List[0].Names) != 1 {
					continue
				}
				if namedOf(info.TypeOf(fd.Recv.List[0].Type)) != nt {
					continue
				}
				if _, isPtr := info.TypeOf(fd.Recv.List[0].Type).(*types.Pointer); !isPtr {
					continue
				}
				recv := info.Defs[fd.Recv.List[0].Names[0]]
				key := pkgShort(pk.Types) + "." + nt.Obj().Name() + "." + fd.Name.Name
				stored := ""
				forEachStore(info, fd.Body, func(sel *ast.SelectorExpr, what string) {
					if id, ok := ast.Unparen(sel.X).(*ast.Ident); ok && info.Uses[id] == recv && what != "address-taken" {
						stored = sel.Sel.Name
					}
				})
				n++
				if stored != "" && !hasSync {
					c.bad(key, fd.Pos(), "values of %s are handed out by %s to concurrent callers, and %s stores to field %s without atomic/Once/mutex (data race on lazy initialisation)", nt.Obj().Name(), via, fd.Name.Name, stored)
				} else {
					c.ok(key, fd.Pos(), "no unsynchronised store to receiver state")
				}
			}
		}
		_ = n
	}
}
