package main

import (
	"fmt"
	"go/ast"
	"go/token"
	"go/types"
	"sort"
	"strings"

	"golang.org/x/tools/go/packages"
)

func init() {
	register(&Rule{Name: "ssz.fields", Floor: 150,
		Doc: "for every SSZ container struct, the ordered field lists passed to Deserialize / Serialize / ByteLength(ContainerLength) / HashTreeRoot are identical, mention every struct field exactly once, and agree on spec.Wrap",
		Run: ruleSSZFields})
	register(&Rule{Name: "ssz.coll", Floor: 25,
		Doc: "for every SSZ collection type, the kind, the limit/length expression and the element type used by Deserialize equal those used by HashTreeRoot (limits compared as normalised polynomials over spec constants), and packed hashers pack at the element's own width",
		Run: ruleSSZColl})
	register(&Rule{Name: "ssz.descriptor", Floor: 40,
		Doc: "for every pair (Go type S, view descriptor SType) the SSZ shape read from S's methods equals the shape of the descriptor, position by position and recursively (kind, uint width, byte length, list limit, vector length as symbolic expressions)",
		Run: ruleSSZDescriptor})
	register(&Rule{Name: "ssz.size", Floor: 120,
		Doc: "FixedLength() is the structural size for fixed-size types and the literal 0 exactly for variable-size ones; ByteLength() equals the structural size (fixed types) or the canonical length formula of the collection kind",
		Run: ruleSSZSize})
	register(&Rule{Name: "ssz.elemsize", Floor: 40,
		Doc: "the fixed-element-size argument of dr.List/dr.Vector/w.List/w.Vector is 0 iff the element type is variable-size and otherwise equals the element's structural size; FixedLenContainer is used only when every field is fixed-size",
		Run: ruleSSZElemSize})
	register(&Rule{Name: "codec.scope", Floor: 2,
		Doc: "codec.NewDecodingReader(bytes.NewReader(x[:]), n) over a byte array x of length K uses scope n == K",
		Run: ruleCodecScope})
}

// sszTypes lists the named zrnt types that have a Deserialize method declared in zrnt, sorted.
type sszType struct {
	nt   *types.Named
	name string // pkg.Type
	pk   *packages.Package
}

func sszTypes(p *Prog, se *shapeEval) []sszType {
	var out []sszType
	for _, pk := range p.Pkgs {
		if !strings.Contains(pk.PkgPath, "/eth2/beacon") {
			continue
		}
		sc := pk.Types.Scope()
		for _, n := range sc.Names() {
			tn, ok := sc.Lookup(n).(*types.TypeName)
			if !ok || tn.IsAlias() {
				continue
			}
			nt, ok := tn.Type().(*types.Named)
			if !ok {
				continue
			}
			if se.method(nt, "Deserialize") == nil || se.method(nt, "HashTreeRoot") == nil {
				continue
			}
			if n == "specObj" {
				continue // the generic spec wrapper proxies to the wrapped object
			}
			out = append(out, sszType{nt, pk.Types.Name() + "." + n, pk})
		}
	}
	sort.Slice(out, func(i, j int) bool { return out[i].name < out[j].name })
	return out
}

func ruleSSZFields(c *Ctx) {
	se := newShapeEval(c.P)
	nStructs := 0
	for _, t := range sszTypes(c.P, se) {
		st, ok := t.nt.Underlying().(*types.Struct)
		if !ok {
			continue
		}
		nStructs++
		type seq struct {
			method string
			fas    []fieldArg
			pos    token.Pos
		}
		var seqs []seq
		for _, m := range []string{"Deserialize", "Serialize", "ByteLength", "HashTreeRoot"} {
			mi := se.method(t.nt, m)
			if mi == nil {
				c.bad(t.name+"."+m, t.nt.Obj().Pos(), "SSZ container has no %s method", m)
				continue
			}
			call, _ := singleReturnCall(mi.fd)
			if call == nil {
				if m == "ByteLength" {
					continue // constant / descriptor-based length: ssz.size decides it
				}
				c.unm(t.name+"."+m, mi.fd.Pos(), "body is not a single returned call")
				continue
			}
			f := calleeFunc(mi.pk.TypesInfo, call)
			if f == nil || !isZtyp(f) {
				if m == "ByteLength" {
					continue
				}
				c.unm(t.name+"."+m, mi.fd.Pos(), "not a ztyp container call")
				continue
			}
			switch f.Name() {
			case "Container", "FixedLenContainer", "ContainerLength", "HashTreeRoot":
			default:
				if m == "ByteLength" {
					continue
				}
				c.unm(t.name+"."+m, mi.fd.Pos(), "calls %s, not a container form", f.Name())
				continue
			}
			fas, why := se.fieldArgs(mi, call.Args)
			if why != "" {
				c.unm(t.name+"."+m, mi.fd.Pos(), "%s", why)
				continue
			}
			seqs = append(seqs, seq{m, fas, mi.fd.Pos()})
		}
		if len(seqs) == 0 {
			continue
		}
		ref := seqs[0]
		// every struct field exactly once in the reference
		seen := map[int]int{}
		for _, fa := range ref.fas {
			seen[fa.idx]++
		}
		complete := true
		for i := 0; i < st.NumFields(); i++ {
			if seen[i] != 1 {
				complete = false
				c.bad(t.name+"."+ref.method, ref.pos, "field %s is listed %d times (every field of the container must be listed exactly once)", st.Field(i).Name(), seen[i])
			}
		}
		if complete {
			c.ok(t.name+"."+ref.method, ref.pos, "%d fields, each once", len(ref.fas))
		}
		for _, s := range seqs[1:] {
			key := t.name + "." + s.method
			if len(s.fas) != len(ref.fas) {
				c.bad(key, s.pos, "%s lists %d fields, %s lists %d", s.method, len(s.fas), ref.method, len(ref.fas))
				continue
			}
			bad := false
			for i := range s.fas {
				if s.fas[i].idx != ref.fas[i].idx {
					c.bad(key, s.fas[i].expr.Pos(), "position %d: %s passes field %s where %s passes %s", i, s.method, s.fas[i].name, ref.method, ref.fas[i].name)
					bad = true
					break
				}
				if s.fas[i].wrapped != ref.fas[i].wrapped {
					c.bad(key, s.fas[i].expr.Pos(), "field %s is spec-wrapped in one of %s/%s only", s.fas[i].name, s.method, ref.method)
					bad = true
					break
				}
				if (s.fas[i].conv == nil) != (ref.fas[i].conv == nil) || (s.fas[i].conv != nil && !types.Identical(derefT(s.fas[i].conv), derefT(ref.fas[i].conv))) {
					c.bad(key, s.fas[i].expr.Pos(), "field %s is converted differently in %s and %s", s.fas[i].name, s.method, ref.method)
					bad = true
					break
				}
			}
			if !bad {
				c.ok(key, s.pos, "same %d fields in the same order as %s", len(s.fas), ref.method)
			}
		}
	}
	c.stat("container_structs", nStructs)
}

func derefT(t types.Type) types.Type {
	if p, ok := t.(*types.Pointer); ok {
		return p.Elem()
	}
	return t
}

func ruleSSZColl(c *Ctx) {
	se := newShapeEval(c.P)
	n := 0
	for _, t := range sszTypes(c.P, se) {
		if _, ok := t.nt.Underlying().(*types.Struct); ok {
			continue
		}
		d := se.typeShape(t.nt, "Deserialize")
		h := se.typeShape(t.nt, "HashTreeRoot")
		dk := canon(d)
		switch dk.K {
		case "list", "vector", "bitlist", "bytelist":
		case "bitvector":
			// BitVectorHTR takes no length; nothing to compare in the hasher
			c.ok(t.name, t.nt.Obj().Pos(), "%s (hasher takes no bound)", dk.String())
			n++
			continue
		case "unknown":
			if _, isSlice := t.nt.Underlying().(*types.Slice); isSlice {
				c.unm(t.name, t.nt.Obj().Pos(), "Deserialize: %s", d.Why)
				n++
			}
			continue
		default:
			continue
		}
		n++
		if h.K == "unknown" {
			c.unm(t.name, t.nt.Obj().Pos(), "HashTreeRoot: %s", h.Why)
			continue
		}
		if diff, unk := shapeDiff(d, h, ""); diff != "" {
			c.bad(t.name, se.method(t.nt, "HashTreeRoot").fd.Pos(), "Deserialize and HashTreeRoot disagree%s", diff)
		} else if unk != "" {
			c.unm(t.name, t.nt.Obj().Pos(), "%s", unk)
		} else {
			c.ok(t.name, t.nt.Obj().Pos(), "%s in both", dk.String())
		}
	}
	c.stat("collection_types", n)
}

func ruleSSZDescriptor(c *Ctx) {
	se := newShapeEval(c.P)
	reported := map[string]bool{}
	pairs := 0
	for _, t := range sszTypes(c.P, se) {
		obj := t.pk.Types.Scope().Lookup(t.nt.Obj().Name() + "Type")
		if obj == nil {
			continue
		}
		// build a descriptor expression: ident or call with spec
		var desc *Shape
		switch o := obj.(type) {
		case *types.Var, *types.Const:
			_, init := se.declOf(o)
			if init == nil {
				c.unm(t.name, o.Pos(), "descriptor %s has no initialiser", o.Name())
				continue
			}
			desc = se.descShape(t.pk, init)
		case *types.Func:
			mi := se.methods[o]
			if mi == nil {
				continue
			}
			var ret ast.Expr
			nret := 0
			ast.Inspect(mi.fd.Body, func(n ast.Node) bool {
				if _, ok := n.(*ast.FuncLit); ok {
					return false
				}
				if r, ok := n.(*ast.ReturnStmt); ok && len(r.Results) == 1 {
					ret = r.Results[0]
					nret++
				}
				return true
			})
			if nret != 1 {
				c.unm(t.name, o.Pos(), "descriptor function %s has %d returns", o.Name(), nret)
				continue
			}
			desc = se.descShape(mi.pk, ret)
		default:
			continue
		}
		pairs++
		g := se.typeShape(t.nt, "Deserialize")
		diff, unk := shapeDiff(g, desc, "")
		switch {
		case diff != "":
			k := diff
			if !reported[k] {
				reported[k] = true
				c.bad(t.name+"~"+obj.Name(), obj.Pos(), "struct form and view descriptor disagree at %s", diff)
			} else {
				c.info(t.name+"~"+obj.Name(), obj.Pos(), "contains an already reported mismatch: %s", diff)
			}
		case unk != "":
			// one unread type is one undecided instance: the containers it sits in carry it as information
			cause := unk
			if i := strings.Index(unk, ": "); i >= 0 && strings.HasPrefix(unk, ".") {
				cause = unk[i+2:]
			}
			if !reported["?"+cause] {
				reported["?"+cause] = true
				c.unm(t.name+"~"+obj.Name(), obj.Pos(), "%s", unk)
			} else {
				c.info(t.name+"~"+obj.Name(), obj.Pos(), "contains an already reported undecided type: %s", unk)
			}
		default:
			c.ok(t.name+"~"+obj.Name(), obj.Pos(), "%s", truncate(canon(g).String(), 120))
		}
	}
	c.stat("type_descriptor_pairs", pairs)
}

func truncate(s string, n int) string {
	if len(s) > n {
		return s[:n] + "…"
	}
	return s
}

// lengthExpr evaluates the (single) returned expression of a ByteLength/FixedLength method.
// forms: integer expression; codec.ContainerLength(own fields...) -> "container"; Σ-loop -> "sumloop".
func (se *shapeEval) lengthOf(mi *methInfo) (p Poly, form string, why string) {
	env := se.envFor(mi)
	body := mi.fd.Body.List
	if len(body) == 0 {
		return nil, "", "empty body"
	}
	last, ok := body[len(body)-1].(*ast.ReturnStmt)
	if !ok {
		return nil, "", "does not end in a return"
	}
	if len(last.Results) == 0 {
		// named result `out` accumulated in a loop
		for _, st := range body {
			if rs, ok := st.(*ast.RangeStmt); ok {
				if ok, why := se.isSumLoop(mi, rs); ok {
					return nil, "sumloop", ""
				} else if why != "" {
					return nil, "", why
				}
			}
		}
		return nil, "", "bare return without a recognised accumulation loop"
	}
	if len(last.Results) != 1 {
		return nil, "", "multiple results"
	}
	// only straight-line preambles allowed (e.g. nil guards are not expected in length methods)
	for _, st := range body[:len(body)-1] {
		switch st.(type) {
		case *ast.AssignStmt, *ast.DeclStmt:
		default:
			return nil, "", "length method has control flow before its return"
		}
	}
	e := ast.Unparen(last.Results[0])
	// a running sum (`n := a; n += b; return n`) is the expression it adds up to
	if len(body) > 1 {
		if _, ret, ok := symRun(mi.pk.TypesInfo, body, symEnv{}); ok && ret != nil {
			e = ast.Unparen(ret)
		}
	}
	if call, ok := e.(*ast.CallExpr); ok {
		if f := calleeFunc(mi.pk.TypesInfo, call); f != nil && isZtyp(f) && f.Name() == "ContainerLength" {
			return nil, "container", ""
		}
	}
	p, ok = se.intExpr(env, e)
	if !ok {
		return nil, "", "expression " + types.ExprString(e) + " not normalisable"
	}
	return p, "expr", ""
}

// isSumLoop: `for _, v := range recv { out += v.ByteLength(...) + codec.OFFSET_SIZE }`
func (se *shapeEval) isSumLoop(mi *methInfo, rs *ast.RangeStmt) (bool, string) {
	info := mi.pk.TypesInfo
	env := se.envFor(mi)
	x := ast.Unparen(rs.X)
	if st, ok := x.(*ast.StarExpr); ok {
		x = ast.Unparen(st.X)
	}
	id, ok := x.(*ast.Ident)
	if !ok || info.Uses[id] != env.recv {
		return false, ""
	}
	if len(rs.Body.List) != 1 {
		return false, "accumulation loop body has more than one statement"
	}
	as, ok := rs.Body.List[0].(*ast.AssignStmt)
	if !ok || as.Tok != token.ADD_ASSIGN || len(as.Rhs) != 1 {
		return false, "accumulation loop body is not `out += ...`"
	}
	be, ok := ast.Unparen(as.Rhs[0]).(*ast.BinaryExpr)
	if !ok || be.Op != token.ADD {
		return false, "accumulated term is not `ByteLength + OFFSET_SIZE`"
	}
	hasBL, hasOff := false, false
	for _, side := range []ast.Expr{be.X, be.Y} {
		side = ast.Unparen(side)
		if call, ok := side.(*ast.CallExpr); ok {
			if f := calleeFunc(info, call); f != nil && f.Name() == "ByteLength" {
				hasBL = true
			}
		}
		if tv, ok := info.Types[side]; ok && tv.Value != nil && tv.Value.String() == "4" {
			hasOff = true
		}
	}
	if hasBL && hasOff {
		return true, ""
	}
	return false, "accumulated term is not `elem.ByteLength(...) + 4`"
}

func ruleSSZSize(c *Ctx) {
	se := newShapeEval(c.P)
	for _, t := range sszTypes(c.P, se) {
		sh := canon(se.typeShape(t.nt, "Deserialize"))
		size, fixed, ok := fixedSize(sh)
		fl := se.method(t.nt, "FixedLength")
		bl := se.method(t.nt, "ByteLength")
		if fl == nil || bl == nil {
			c.bad(t.name, t.nt.Obj().Pos(), "SSZ type lacks FixedLength/ByteLength")
			continue
		}
		if !ok {
			why := sh.Why
			if sh.K != "unknown" {
				_, u := shapeDiff(sh, sh, "")
				why = u
			}
			c.unm(t.name+".FixedLength", fl.fd.Pos(), "shape unknown: %s", why)
			continue
		}
		// FixedLength
		fp, form, why := se.lengthOf(fl)
		key := t.name + ".FixedLength"
		switch {
		case why != "":
			c.unm(key, fl.fd.Pos(), "%s", why)
		case form == "container" && sh.K == "container" && fixed:
			c.ok(key, fl.fd.Pos(), "ContainerLength over own fixed-size fields (= %s)", size.String())
		case form == "container":
			c.bad(key, fl.fd.Pos(), "FixedLength uses ContainerLength but the type is not a fixed-size container (must be 0)")
		case form != "expr":
			c.unm(key, fl.fd.Pos(), "FixedLength computed by %s", form)
		case fixed && !polyEq(polySubst(fp, "len", vecN(sh)), size):
			if cz, isC := fp.isConst(); isC && cz == 0 {
				c.bad(key, fl.fd.Pos(), "type is fixed-size (%s = %s bytes) but FixedLength returns 0: containers embedding it treat it as variable-size and emit an offset", sh.String(), size.String())
			} else {
				c.bad(key, fl.fd.Pos(), "FixedLength returns %s, structural size of %s is %s", fp.String(), truncate(sh.String(), 80), size.String())
			}
		case !fixed:
			if cz, isC := fp.isConst(); !isC || cz != 0 {
				c.bad(key, fl.fd.Pos(), "type is variable-size (%s) but FixedLength returns %s (must be 0)", truncate(sh.String(), 80), fp.String())
			} else {
				c.ok(key, fl.fd.Pos(), "0 (variable-size)")
			}
		default:
			c.ok(key, fl.fd.Pos(), "%s", size.String())
		}
		// ByteLength
		bp, form, why := se.lengthOf(bl)
		key = t.name + ".ByteLength"
		if why != "" {
			c.unm(key, bl.fd.Pos(), "%s", why)
			continue
		}
		if form == "container" {
			if sh.K == "container" {
				c.ok(key, bl.fd.Pos(), "ContainerLength over own fields (field list checked by ssz.fields)")
			} else {
				c.bad(key, bl.fd.Pos(), "ContainerLength used by a non-container")
			}
			continue
		}
		if fixed {
			if sh.K == "vector" && bp != nil {
				bp = polySubst(bp, "len", sh.N)
			}
			if form != "expr" {
				c.unm(key, bl.fd.Pos(), "fixed-size type computes its length by %s", form)
			} else if !polyEq(bp, size) {
				c.bad(key, bl.fd.Pos(), "ByteLength returns %s, structural size of %s is %s", bp.String(), truncate(sh.String(), 80), size.String())
			} else {
				c.ok(key, bl.fd.Pos(), "%s", size.String())
			}
			continue
		}
		switch sh.K {
		case "list":
			es, ef, eok := fixedSize(sh.Elem)
			switch {
			case !eok:
				c.unm(key, bl.fd.Pos(), "element shape unknown")
			case ef:
				want := polyMul(polyAtom("len"), es)
				if form == "expr" && polyEq(bp, want) {
					c.ok(key, bl.fd.Pos(), "len * %s", es.String())
				} else if form == "expr" {
					c.bad(key, bl.fd.Pos(), "ByteLength returns %s, want len * %s (element %s)", bp.String(), es.String(), sh.Elem.String())
				} else {
					c.bad(key, bl.fd.Pos(), "list of fixed-size elements computes its length by %s", form)
				}
			default:
				if form == "sumloop" {
					c.ok(key, bl.fd.Pos(), "Σ(elem.ByteLength + 4)")
				} else {
					c.bad(key, bl.fd.Pos(), "list of variable-size elements must sum elem.ByteLength()+4 per element, returns %s", bp.String())
				}
			}
		case "bytelist", "bitlist":
			if form == "expr" && polyEq(bp, polyAtom("len")) {
				c.ok(key, bl.fd.Pos(), "len")
			} else {
				c.bad(key, bl.fd.Pos(), "%s ByteLength must be len(bytes), returns %s", sh.K, bp.String())
			}
		case "container":
			// written out by hand: the fixed-size fields' sizes, and an offset plus its own length for every other field
			want, okW := Poly{}, len(sh.Names) == len(sh.Fields) && form == "expr"
			got := bp
			for i, f := range sh.Fields {
				if !okW {
					break
				}
				fs, ff, fok := fixedSize(f)
				switch {
				case !fok:
					okW = false
				case ff:
					want = polyAdd(want, fs, 1)
					got = polySubst(got, "bl:"+sh.Names[i], fs)
				default:
					want = polyAdd(want, polyAdd(polyConst(4), polyAtom("bl:"+sh.Names[i]), 1), 1)
				}
			}
			switch {
			case !okW:
				c.unm(key, bl.fd.Pos(), "variable-size container with a hand-written length (%s): fields not all known", bp.String())
			case polyEq(got, want):
				c.ok(key, bl.fd.Pos(), "hand-written sum over the fields: %s", want.String())
			default:
				c.bad(key, bl.fd.Pos(), "ByteLength returns %s, the fields of %s give %s (4 bytes of offset and its own length for every variable-size field)", bp.String(), truncate(sh.String(), 80), want.String())
			}
		default:
			c.unm(key, bl.fd.Pos(), "variable-size %s", sh.K)
		}
	}
}

func ruleSSZElemSize(c *Ctx) {
	se := newShapeEval(c.P)
	for _, t := range sszTypes(c.P, se) {
		sh := canon(se.typeShape(t.nt, "Deserialize"))
		for _, m := range []string{"Deserialize", "Serialize"} {
			mi := se.method(t.nt, m)
			if mi == nil {
				continue
			}
			call, _ := singleReturnCall(mi.fd)
			if call == nil {
				continue
			}
			f := calleeFunc(mi.pk.TypesInfo, call)
			if f == nil || !isZtyp(f) {
				continue
			}
			key := t.name + "." + m
			switch f.Name() {
			case "FixedLenContainer":
				_, fixed, ok := fixedSize(sh)
				if !ok {
					c.unm(key, mi.fd.Pos(), "shape unknown")
				} else if !fixed {
					c.bad(key, mi.fd.Pos(), "FixedLenContainer reads/writes fields back to back without offsets, but %s has a variable-size field", t.name)
				} else {
					c.ok(key, mi.fd.Pos(), "all fields fixed-size")
				}
			case "List", "Vector":
				if len(call.Args) != 3 || (sh.K != "list" && sh.K != "vector") {
					if sh.K == "bytes" || sh.K == "bytelist" {
						// byte collections expressed as List/Vector of uint8
						continue
					}
					c.unm(key, mi.fd.Pos(), "List/Vector call on a %s", sh.K)
					continue
				}
				es, ef, ok := fixedSize(sh.Elem)
				got, gok := se.intExpr(se.envFor(mi), call.Args[1])
				switch {
				case !ok:
					c.unm(key, mi.fd.Pos(), "element shape unknown")
				case !gok:
					c.unm(key, mi.fd.Pos(), "element size argument %s not normalisable", types.ExprString(call.Args[1]))
				case !ef:
					if cz, isC := got.isConst(); isC && cz == 0 {
						c.ok(key, mi.fd.Pos(), "variable-size elements, size argument 0")
					} else {
						c.bad(key, call.Args[1].Pos(), "elements are variable-size, fixed-element-size argument must be 0, is %s", got.String())
					}
				case !polyEq(got, es):
					c.bad(key, call.Args[1].Pos(), "fixed-element-size argument is %s, element %s is %s bytes", got.String(), sh.Elem.String(), es.String())
				default:
					c.ok(key, mi.fd.Pos(), "element size %s", es.String())
				}
			}
		}
	}
}

func ruleCodecScope(c *Ctx) {
	c.P.funcDecls(func(pk *packages.Package, fd *ast.FuncDecl) {
		info := pk.TypesInfo
		ast.Inspect(fd.Body, func(n ast.Node) bool {
			call, ok := n.(*ast.CallExpr)
			if !ok || len(call.Args) != 2 {
				return true
			}
			f := calleeFunc(info, call)
			if f == nil || f.Name() != "NewDecodingReader" || !isZtyp(f) {
				return true
			}
			// first arg bytes.NewReader(x[:]) (possibly through a local)
			ldefs := singleDefs(info, fd.Body)
			in, ok := ast.Unparen(resolveLocal(info, call.Args[0], ldefs, 3)).(*ast.CallExpr)
			if !ok || len(in.Args) != 1 {
				return true
			}
			if g := calleeFunc(info, in); g == nil || g.Name() != "NewReader" {
				return true
			}
			sl, ok := ast.Unparen(in.Args[0]).(*ast.SliceExpr)
			if !ok || sl.Low != nil || sl.High != nil {
				// a byte slice handed in: the scope must be its length
				if _, isSlice := info.TypeOf(in.Args[0]).Underlying().(*types.Slice); isSlice {
					key := pkgShort(pk.Types) + "." + funcName(fd)
					sc := ast.Unparen(stripConv(info, resolveLocal(info, call.Args[1], ldefs, 3)))
					if lc, ok := sc.(*ast.CallExpr); ok && len(lc.Args) == 1 {
						if id, ok := lc.Fun.(*ast.Ident); ok && id.Name == "len" && types.ExprString(ast.Unparen(lc.Args[0])) == types.ExprString(ast.Unparen(in.Args[0])) {
							c.ok(key, call.Pos(), "scope is the length of the bytes read")
						}
					}
				}
				return true
			}
			at, ok := derefT(info.TypeOf(sl.X)).Underlying().(*types.Array)
			if !ok {
				return true
			}
			key := pkgShort(pk.Types) + "." + funcName(fd)
			tv := info.Types[call.Args[1]]
			if tv.Value == nil {
				// uint64(len(x)) is fine
				if strings.Contains(types.ExprString(call.Args[1]), "len(") {
					c.ok(key, call.Pos(), "scope len(array)")
				} else {
					c.unm(key, call.Pos(), "scope %s is not constant", types.ExprString(call.Args[1]))
				}
				return true
			}
			if tv.Value.String() != fmt.Sprint(at.Len()) {
				c.bad(key, call.Pos(), "decoding scope is %s bytes but the source array %s has %d: the %d-byte value cannot be decoded (error is then dropped by the caller)", tv.Value.String(), types.ExprString(sl.X), at.Len(), at.Len())
			} else {
				c.ok(key, call.Pos(), "scope %d == array length", at.Len())
			}
			return true
		})
	})
}

func vecN(sh *Shape) Poly {
	if sh.K == "vector" && sh.N != nil {
		return sh.N
	}
	return polyAtom("len")
}
