package main

import (
	"regexp"
	"sort"
	"strconv"
	"strings"
)

// Guards of reviewed updates are compared as propositional formulas (rules_formula.go, formula.spec): the leaves of the
// resolved negation normal forms are the atoms; `[<= c + R]` / `[>= c + R]` are thresholds on R (over integers
// `R >= -c` is `not(R <= -c-1)`), `[== P]` / `[!= P]` and `X` / `not(X)` are each other's negations. Two guards are
// compared only when every atom of either is also an atom of the other side's function (the leaves line up by their
// resolved text: nothing was renamed, added from outside or folded into a helper); they then have to be equivalent on
// every assignment that is consistent for thresholds and equalities on the same R. Anything else is not decided.

type gNode struct {
	op   string // "and", "or", "lit", "true", "false"
	kids []*gNode
	atom string
	neg  bool
}

var gLeadConst = regexp.MustCompile(`^(-?\d+) \+ (.*)$`)
var gOnlyConst = regexp.MustCompile(`^-?\d+$`)

// gAtom: the atom of a leaf and whether the leaf is its negation. Threshold atoms are "le\x00R\x00t" (R <= t), equality
// atoms "eq\x00R\x00v" (R == v).
func gAtom(leaf string) (string, bool) {
	leaf = strings.TrimSpace(leaf)
	if strings.HasPrefix(leaf, "not(") && strings.HasSuffix(leaf, ")") && balancedTop(leaf[4:len(leaf)-1]) {
		a, n := gAtom(leaf[4 : len(leaf)-1])
		return a, !n
	}
	if strings.HasPrefix(leaf, "[") && strings.HasSuffix(leaf, "]") {
		in := leaf[1 : len(leaf)-1]
		for _, op := range []string{"== ", "!= ", "<= ", ">= "} {
			if !strings.HasPrefix(in, op) {
				continue
			}
			p := in[len(op):]
			c, r := int64(0), p
			if m := gLeadConst.FindStringSubmatch(p); m != nil {
				c, _ = strconv.ParseInt(m[1], 10, 64)
				r = m[2]
			} else if gOnlyConst.MatchString(p) {
				c, _ = strconv.ParseInt(p, 10, 64)
				r = ""
			}
			switch op {
			case "== ":
				return "eq\x00" + r + "\x00" + strconv.FormatInt(-c, 10), false
			case "!= ":
				return "eq\x00" + r + "\x00" + strconv.FormatInt(-c, 10), true
			case "<= ": // c + R <= 0
				return "le\x00" + r + "\x00" + strconv.FormatInt(-c, 10), false
			case ">= ": // c + R >= 0: not(R <= -c-1)
				return "le\x00" + r + "\x00" + strconv.FormatInt(-c-1, 10), true
			}
		}
	}
	return "p\x00" + leaf, false
}

func gParse(s string) *gNode {
	s = strings.TrimSpace(s)
	for _, name := range []string{"and", "or"} {
		if strings.HasPrefix(s, name+"(") && strings.HasSuffix(s, ")") && balancedTop(s[len(name)+1:len(s)-1]) {
			n := &gNode{op: name}
			for _, p := range splitTop(s[len(name)+1 : len(s)-1]) {
				n.kids = append(n.kids, gParse(p))
			}
			return n
		}
	}
	switch s {
	case "true", "false":
		return &gNode{op: s}
	}
	a, neg := gAtom(s)
	return &gNode{op: "lit", atom: a, neg: neg}
}

// gParseGuard: a guard as written by guardOf (conjuncts joined by " & "); "" is true.
func gParseGuard(g string) *gNode {
	n := &gNode{op: "and"}
	if g == "" {
		return n
	}
	for _, c := range strings.Split(g, " & ") {
		n.kids = append(n.kids, gParse(c))
	}
	return n
}

func (n *gNode) atoms(into map[string]bool) {
	if n.op == "lit" {
		into[n.atom] = true
	}
	for _, k := range n.kids {
		k.atoms(into)
	}
}

func (n *gNode) eval(v map[string]bool) bool {
	switch n.op {
	case "true":
		return true
	case "false":
		return false
	case "lit":
		return v[n.atom] != n.neg
	case "and":
		for _, k := range n.kids {
			if !k.eval(v) {
				return false
			}
		}
		return true
	}
	for _, k := range n.kids {
		if k.eval(v) {
			return true
		}
	}
	return false
}

// gConsistent: thresholds on the same R are monotone, an equality fixes the thresholds around it, two equalities on the
// same R exclude each other, and `R <= v` with `not(R <= v-1)` is `R == v`.
func gConsistent(atoms []string, v map[string]bool) bool {
	type th struct {
		t   int64
		val bool
	}
	les, eqs := map[string][]th{}, map[string][]th{}
	for _, a := range atoms {
		p := strings.Split(a, "\x00")
		if len(p) != 3 || p[0] == "p" {
			continue
		}
		t, _ := strconv.ParseInt(p[2], 10, 64)
		if p[0] == "le" {
			les[p[1]] = append(les[p[1]], th{t, v[a]})
		} else {
			eqs[p[1]] = append(eqs[p[1]], th{t, v[a]})
		}
	}
	for r, ls := range les {
		sort.Slice(ls, func(i, j int) bool { return ls[i].t < ls[j].t })
		for i := 1; i < len(ls); i++ {
			if ls[i-1].val && !ls[i].val {
				return false
			}
		}
		for _, e := range eqs[r] {
			for i, l := range ls {
				if e.val && l.val != (e.t <= l.t) {
					return false
				}
				// R <= t and not R <= t-1 is R == t
				if !e.val && l.t == e.t && l.val && i > 0 && ls[i-1].t == e.t-1 && !ls[i-1].val {
					return false
				}
			}
		}
	}
	for _, es := range eqs {
		n := 0
		for _, e := range es {
			if e.val {
				n++
			}
		}
		if n > 1 {
			return false
		}
	}
	return true
}

// guardCompare: "same", "differ" (with an assignment telling them apart) or "" (not decided: the atoms do not line up
// or there are too many of them). poolWant / poolGot are the atoms of all reviewed / current guards of the function.
func guardCompare(want, got string, poolWant, poolGot map[string]bool) (string, string) {
	if want == got {
		return "same", ""
	}
	w, g := gParseGuard(want), gParseGuard(got)
	aw, ag := map[string]bool{}, map[string]bool{}
	w.atoms(aw)
	g.atoms(ag)
	for a := range ag {
		if !aw[a] && !poolWant[a] {
			return "", ""
		}
	}
	for a := range aw {
		if !ag[a] && !poolGot[a] {
			return "", ""
		}
	}
	all := map[string]bool{}
	for a := range aw {
		all[a] = true
	}
	for a := range ag {
		all[a] = true
	}
	var atoms []string
	for a := range all {
		atoms = append(atoms, a)
	}
	sort.Strings(atoms)
	if len(atoms) > 16 {
		return "", ""
	}
	v := map[string]bool{}
	for m := 0; m < 1<<len(atoms); m++ {
		for i, a := range atoms {
			v[a] = m&(1<<i) != 0
		}
		if !gConsistent(atoms, v) {
			continue
		}
		if w.eval(v) != g.eval(v) {
			var on []string
			for _, a := range atoms {
				p := strings.Split(a, "\x00")
				txt := p[len(p)-1]
				switch p[0] {
				case "le":
					txt = p[1] + " <= " + p[2]
				case "eq":
					txt = p[1] + " == " + p[2]
				}
				if v[a] {
					on = append(on, txt)
				} else {
					on = append(on, "not "+txt)
				}
			}
			side := "reviewed"
			if g.eval(v) {
				side = "current"
			}
			return "differ", "runs only in the " + side + " code when " + strings.Join(on, ", ")
		}
	}
	return "same", ""
}

func guardAtomsInto(g string, into map[string]bool) {
	gParseGuard(g).atoms(into)
}
