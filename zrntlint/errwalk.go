package main

import (
	"go/ast"
	"go/token"
	"go/types"

	"golang.org/x/tools/go/cfg"
)

// errReaches answers, on the control-flow graph of one function body: once the statement `from` has stored a non-nil
// error in eobj, does every path on from there end in a return that hands that error on (a result that mentions eobj,
// or a bare return when eobj is a named result)? Conditions that test eobj against nil are decided by the assumption
// (eobj != nil), so `if err == nil { … }` is skipped and `for … && err == nil` is left; every other condition is
// followed both ways. A path fails when eobj is overwritten by something that does not mention it, when a return
// leaves it out, or when the function falls off its end. With eobj == nil the question is asked for the condition
// `cond` taken as true (an error tested in place, `if ctx.Err() != nil`): every path from its true branch ends in a
// return of some non-nil error.
func errReaches(info *types.Info, body *ast.BlockStmt, results *ast.FieldList, from ast.Node, eobj types.Object, cond ast.Expr) (bool, string) {
	return errReaches2(info, body, results, from, eobj, cond, true)
}

// errReachesBranch: every path from the branch of `cond` taken when it is true (whenTrue) / false ends in a return of some
// non-nil error.
func errReachesBranch(info *types.Info, body *ast.BlockStmt, results *ast.FieldList, cond ast.Expr, whenTrue bool) (bool, string) {
	return errReaches2(info, body, results, nil, nil, cond, whenTrue)
}

// errReachesStrict: from the true branch of cond (a test that eobj is non-nil), every path ends in a return whose last
// result is certainly a non-nil error: it mentions eobj, or is a call of errors.New / fmt.Errorf.
func errReachesStrict(info *types.Info, body *ast.BlockStmt, results *ast.FieldList, cond ast.Expr, eobj types.Object) (bool, string) {
	strictObj = eobj
	defer func() { strictObj = nil }()
	return errReaches2(info, body, results, nil, nil, cond, true)
}

var strictObj types.Object

func errReaches2(info *types.Info, body *ast.BlockStmt, results *ast.FieldList, from ast.Node, eobj types.Object, cond ast.Expr, whenTrue bool) (bool, string) {
	g := cfg.New(body, func(*ast.CallExpr) bool { return true })
	named := false
	if results != nil && eobj != nil {
		for _, f := range results.List {
			for _, nm := range f.Names {
				if info.Defs[nm] == eobj {
					named = true
				}
			}
		}
	}
	contains := func(root, target ast.Node) bool {
		found := false
		ast.Inspect(root, func(n ast.Node) bool {
			if n == target {
				found = true
			}
			return !found
		})
		return found
	}
	// nilTest: e is `eobj != nil` (true) / `eobj == nil` (false) under the assumption; ok=false when it is neither
	nilTest := func(e ast.Expr) (val bool, ok bool) {
		neg := false
		e = ast.Unparen(e)
		for {
			u, isU := e.(*ast.UnaryExpr)
			if !isU || u.Op != token.NOT {
				break
			}
			neg = !neg
			e = ast.Unparen(u.X)
		}
		be, isB := e.(*ast.BinaryExpr)
		if !isB || (be.Op != token.EQL && be.Op != token.NEQ) || eobj == nil {
			return false, false
		}
		isE := func(x ast.Expr) bool {
			id, ok := ast.Unparen(x).(*ast.Ident)
			return ok && info.ObjectOf(id) == eobj
		}
		if !(isE(be.X) && isNilExpr(info, be.Y)) && !(isE(be.Y) && isNilExpr(info, be.X)) {
			return false, false
		}
		v := be.Op == token.NEQ
		if neg {
			v = !v
		}
		return v, true
	}
	// decide: a condition built from such tests with !, && and || (go/cfg keeps the condition of a for statement in one
	// piece), as far as the assumption decides it
	leafTest := nilTest
	var decide func(e ast.Expr) (val bool, known bool)
	decide = func(e ast.Expr) (bool, bool) {
		e = ast.Unparen(e)
		if v, ok := leafTest(e); ok {
			return v, true
		}
		switch x := e.(type) {
		case *ast.UnaryExpr:
			if x.Op == token.NOT {
				if v, ok := decide(x.X); ok {
					return !v, true
				}
			}
		case *ast.BinaryExpr:
			if x.Op == token.LAND || x.Op == token.LOR {
				a, okA := decide(x.X)
				b, okB := decide(x.Y)
				if x.Op == token.LAND {
					if (okA && !a) || (okB && !b) {
						return false, true
					}
					if okA && okB {
						return true, true
					}
				} else {
					if (okA && a) || (okB && b) {
						return true, true
					}
					if okA && okB {
						return false, true
					}
				}
			}
		}
		return false, false
	}
	nilTest = decide
	type state struct {
		b *cfg.Block
		i int
	}
	var start *state
	for _, b := range g.Blocks {
		for i, n := range b.Nodes {
			if from != nil && (n == from || contains(n, from)) && start == nil {
				start = &state{b, i + 1}
			}
			if cond != nil && start == nil && (n == ast.Node(cond) || contains(n, cond)) && i == len(b.Nodes)-1 && len(b.Succs) == 2 {
				if whenTrue {
					start = &state{b.Succs[0], 0}
				} else {
					start = &state{b.Succs[1], 0}
				}
			}
		}
	}
	if start == nil {
		return false, "the statement is not on the control-flow graph"
	}
	seen := map[*cfg.Block]bool{}
	why := ""
	var walk func(b *cfg.Block, i int) bool
	walk = func(b *cfg.Block, i int) bool {
		if i == 0 {
			if seen[b] {
				return true
			}
			seen[b] = true
		}
		for ; i < len(b.Nodes); i++ {
			switch x := b.Nodes[i].(type) {
			case *ast.ReturnStmt:
				if len(x.Results) == 0 {
					if named {
						return true
					}
					why = "a bare return leaves the function without the error"
					return false
				}
				last := x.Results[len(x.Results)-1]
				if eobj != nil {
					for _, r := range x.Results {
						if mentions(info, r, eobj) {
							return true
						}
					}
					why = "a return on the way does not hand the error on"
					return false
				}
				if isNilExpr(info, last) || !(isErrorT(info.TypeOf(last)) || types.Implements(info.TypeOf(last), errorIface())) {
					why = "the branch returns without an error"
					return false
				}
				if strictObj != nil && !mentions(info, last, strictObj) {
					certain := false
					if cl, ok := ast.Unparen(last).(*ast.CallExpr); ok {
						if f := calleeFunc(info, cl); f != nil && f.Pkg() != nil && ((f.Pkg().Path() == "errors" && f.Name() == "New") || (f.Pkg().Path() == "fmt" && f.Name() == "Errorf")) {
							certain = true
						}
					}
					if !certain {
						why = "a return hands out a value that is neither the error in hand nor a newly built one"
						return false
					}
				}
				return true
			case *ast.AssignStmt:
				if eobj == nil {
					continue
				}
				for k, l := range x.Lhs {
					if id, ok := ast.Unparen(l).(*ast.Ident); ok && info.ObjectOf(id) == eobj {
						keeps := false
						if len(x.Rhs) == len(x.Lhs) {
							keeps = mentions(info, x.Rhs[k], eobj)
						} else if len(x.Rhs) == 1 {
							keeps = mentions(info, x.Rhs[0], eobj)
						}
						if !keeps {
							why = "the error is overwritten before it is returned"
							return false
						}
					}
				}
			}
		}
		switch len(b.Succs) {
		case 0:
			// fell off the end of the body (or a panic/os.Exit block)
			if len(b.Nodes) > 0 {
				if es, ok := b.Nodes[len(b.Nodes)-1].(*ast.ExprStmt); ok {
					if call, ok := es.X.(*ast.CallExpr); ok {
						if id, ok := call.Fun.(*ast.Ident); ok && id.Name == "panic" {
							return true
						}
					}
				}
			}
			if named {
				return true
			}
			why = "the function can reach its end without returning the error"
			return false
		case 2:
			if len(b.Nodes) > 0 {
				if ce, ok := b.Nodes[len(b.Nodes)-1].(ast.Expr); ok {
					if v, known := nilTest(ce); known {
						if v {
							return walk(b.Succs[0], 0)
						}
						return walk(b.Succs[1], 0)
					}
				}
			}
			return walk(b.Succs[0], 0) && walk(b.Succs[1], 0)
		}
		for _, s := range b.Succs {
			if !walk(s, 0) {
				return false
			}
		}
		return true
	}
	if walk(start.b, start.i) {
		return true, ""
	}
	return false, why
}
