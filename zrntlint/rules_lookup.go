package main

import (
	"fmt"

	"go/ast"
	"go/token"
	"go/types"
	"golang.org/x/tools/go/cfg"

	"golang.org/x/tools/go/packages"
)

func init() {
	register(&Rule{Name: "lookup.ok", Floor: 12,
		Doc: "every read of the proto-array's root/ref maps (indices, blockSlots) either uses the comma-ok form with a named ok that is tested, or uses a key that is known to be present: the result of FindHead, the Ref of a live node, a ref whose (Root, Slot) was validated by a preceding FindHead call, or NodeRef{Root: r, Slot: s} with s read (comma-ok) from blockSlots[r]. A plain read of an unknown key yields index 0 — a valid node — so a never-inserted or pruned root would be answered as if it were the first node instead of being reported unknown",
		Run: ruleLookupOK})
}

func ruleLookupOK(c *Ctx) {
	pk := c.P.Pkg("eth2/forkchoice/proto")
	if pk == nil {
		anchorFail("lookup.ok: package eth2/forkchoice/proto not loaded")
	}
	info := pk.TypesInfo
	nReads := 0
	c.P.funcDecls(func(p *packages.Package, fd *ast.FuncDecl) {
		if p != pk || fd.Body == nil || fd.Recv == nil || len(fd.Recv.List) != 1 || len(fd.Recv.List[0].Names) != 1 {
			return
		}
		if recvTypeName(fd) != "ProtoArray" {
			return
		}
		recv := info.Defs[fd.Recv.List[0].Names[0]]
		fname := "proto." + funcName(fd)
		parents := parentMap(fd.Body)
		defs := singleDefs(info, fd.Body)
		isMapRead := func(ix *ast.IndexExpr) (string, bool) {
			for _, f := range []string{"indices", "blockSlots"} {
				if isRecvField(info, ix.X, recv, f) {
					return f, true
				}
			}
			return "", false
		}
		// FindHead(k.Root, k.Slot) calls in this function, by the object k
		validated := map[types.Object]token.Pos{}
		ast.Inspect(fd.Body, func(n ast.Node) bool {
			call, ok := n.(*ast.CallExpr)
			if !ok || len(call.Args) != 2 {
				return true
			}
			if f := calleeFunc(info, call); f == nil || f.Name() != "FindHead" {
				return true
			}
			s0, ok0 := ast.Unparen(call.Args[0]).(*ast.SelectorExpr)
			s1, ok1 := ast.Unparen(call.Args[1]).(*ast.SelectorExpr)
			if ok0 && ok1 && s0.Sel.Name == "Root" && s1.Sel.Name == "Slot" {
				i0, a := ast.Unparen(s0.X).(*ast.Ident)
				i1, b := ast.Unparen(s1.X).(*ast.Ident)
				if a && b && info.ObjectOf(i0) == info.ObjectOf(i1) {
					validated[info.ObjectOf(i0)] = call.Pos()
				}
			}
			return true
		})
		okTested := func(okObj types.Object) bool {
			found := false
			ast.Inspect(fd.Body, func(n ast.Node) bool {
				if is, ok := n.(*ast.IfStmt); ok && mentionsObj(info, is.Cond, okObj) {
					found = true
				}
				// handing the flag to the caller reports "unknown" just as well
				if rs, ok := n.(*ast.ReturnStmt); ok {
					for _, r := range rs.Results {
						if mentionsObj(info, r, okObj) {
							found = true
						}
					}
				}
				return !found
			})
			return found
		}
		var knownKey func(key ast.Expr, at token.Pos, depth int) (bool, string)
		knownKey = func(key ast.Expr, at token.Pos, depth int) (bool, string) {
			key = ast.Unparen(key)
			if depth > 3 {
				return false, ""
			}
			switch k := key.(type) {
			case *ast.SelectorExpr:
				if k.Sel.Name == "Ref" {
					if nt := namedOf(info.TypeOf(k.X)); nt != nil && nt.Obj().Name() == "ProtoNode" {
						return true, "Ref of a live node"
					}
				}
			case *ast.Ident:
				obj := info.ObjectOf(k)
				if p, ok := validated[obj]; ok && p < at {
					return true, "validated by FindHead(" + k.Name + ".Root, " + k.Name + ".Slot)"
				}
				if d, ok := defs[obj]; ok && d.rhs != nil {
					if call, ok := ast.Unparen(d.rhs).(*ast.CallExpr); ok && d.pos == 0 {
						if f := calleeFunc(info, call); f != nil && f.Name() == "FindHead" {
							return true, "result of FindHead"
						}
					}
					if d.n == 1 {
						return knownKey(d.rhs, at, depth+1)
					}
				}
			case *ast.CompositeLit:
				if nt := namedOf(info.TypeOf(k)); nt == nil || nt.Obj().Name() != "NodeRef" {
					return false, ""
				}
				var root, slot ast.Expr
				for _, el := range k.Elts {
					if kv, ok := el.(*ast.KeyValueExpr); ok {
						if id, ok := kv.Key.(*ast.Ident); ok {
							switch id.Name {
							case "Root":
								root = kv.Value
							case "Slot":
								slot = kv.Value
							}
						}
					}
				}
				rid, ok1 := root.(*ast.Ident)
				sid, ok2 := slot.(*ast.Ident)
				if !ok1 || !ok2 {
					return false, ""
				}
				if d, ok := defs[info.ObjectOf(sid)]; ok && d.n == 2 && d.pos == 0 {
					if ix, ok := ast.Unparen(d.rhs).(*ast.IndexExpr); ok {
						if f, isMap := isMapRead(ix); isMap && f == "blockSlots" {
							if kid, ok := ast.Unparen(ix.Index).(*ast.Ident); ok && info.ObjectOf(kid) == info.ObjectOf(rid) {
								return true, "slot read from blockSlots[" + rid.Name + "] (every block-slot entry has its node)"
							}
						}
					}
				}
			}
			return false, ""
		}
		ast.Inspect(fd.Body, func(n ast.Node) bool {
			ix, ok := n.(*ast.IndexExpr)
			if !ok {
				return true
			}
			field, ok := isMapRead(ix)
			if !ok {
				return true
			}
			par := parents[ix]
			// writes and deletes are not reads
			if as, ok := par.(*ast.AssignStmt); ok {
				for _, l := range as.Lhs {
					if l == ast.Expr(ix) {
						return true
					}
				}
			}
			nReads++
			key := fname + ":" + field + "[" + types.ExprString(ix.Index) + "]"
			// comma-ok?
			if as, ok := par.(*ast.AssignStmt); ok && len(as.Lhs) == 2 && len(as.Rhs) == 1 && as.Rhs[0] == ast.Expr(ix) {
				okId, _ := as.Lhs[1].(*ast.Ident)
				if okId != nil && okId.Name != "_" {
					if okObj := info.ObjectOf(okId); okObj != nil && okTested(okObj) {
						c.ok(key, ix.Pos(), "comma-ok form, presence tested or returned")
						return true
					}
					c.bad(key, ix.Pos(), "%s reads %s[%s] in comma-ok form but never tests the presence flag in a condition", fname, field, types.ExprString(ix.Index))
					return true
				}
				// `v, _ := m[k]` is a plain read
			}
			if known, why := knownKey(ix.Index, ix.Pos(), 0); known {
				c.ok(key, ix.Pos(), "plain read of a key known to be present: %s", why)
				return true
			}
			c.bad(key, ix.Pos(), "%s reads %s[%s] without a presence test and the key is not known to be present: an unknown (never inserted or pruned) key silently yields the zero value, which for a node index names the first node", fname, field, types.ExprString(ix.Index))
			return true
		})
	})
	c.stat("map_reads", nReads)
	if nReads < 20 {
		anchorFail("lookup.ok: expected >=20 reads of ProtoArray.indices/blockSlots, found %d", nReads)
	}
}

func init() {
	register(&Rule{Name: "dirty.flag", Floor: 2,
		Doc: "the proto-array's lazily maintained best-child/best-descendant links are marked stale (updatedConnections = false) on every path that leaves a method after it appended a node; the queries that rely on the links (FindHead, InSubtree) test the flag before using them. A grown graph that keeps the flag set is invisible to head computation and to every canonical-chain query until something else clears it",
		Run: ruleDirtyFlag})
}

func ruleDirtyFlag(c *Ctx) {
	pk := c.P.Pkg("eth2/forkchoice/proto")
	if pk == nil {
		anchorFail("dirty.flag: package eth2/forkchoice/proto not loaded")
	}
	info := pk.TypesInfo
	grow, readers := 0, 0
	// unexported methods that append and leave marking the links stale to their callers: a call of one is an append
	// in the caller (found by iterating to a fixed point)
	leaky := map[*types.Func]bool{}
	type appendSite struct {
		n    ast.Node
		leak ast.Node // last node of an exit reached without the mark, nil when every path marks
		via  string
	}
	analyse := func(fd *ast.FuncDecl) []appendSite {
		recv := info.Defs[fd.Recv.List[0].Names[0]]
		g := cfg.New(fd.Body, func(*ast.CallExpr) bool { return true })
		appendVia := func(n ast.Node) (bool, string) {
			if as, ok := n.(*ast.AssignStmt); ok && len(as.Lhs) == 1 && len(as.Rhs) == 1 && isRecvField(info, as.Lhs[0], recv, "nodes") {
				if call, ok := ast.Unparen(as.Rhs[0]).(*ast.CallExpr); ok {
					if id, ok := call.Fun.(*ast.Ident); ok && id.Name == "append" {
						return true, ""
					}
				}
			}
			via := ""
			ast.Inspect(n, func(k ast.Node) bool {
				if _, isLit := k.(*ast.FuncLit); isLit {
					return false
				}
				if call, ok := k.(*ast.CallExpr); ok {
					if f := calleeFunc(info, call); f != nil && leaky[f] {
						via = f.Name()
					}
				}
				return via == ""
			})
			return via != "", via
		}
		isClear := func(n ast.Node) bool {
			as, ok := n.(*ast.AssignStmt)
			if !ok || len(as.Lhs) != 1 || len(as.Rhs) != 1 || !isRecvField(info, as.Lhs[0], recv, "updatedConnections") {
				return false
			}
			id, ok := ast.Unparen(as.Rhs[0]).(*ast.Ident)
			return ok && id.Name == "false"
		}
		var out []appendSite
		for _, b := range g.Blocks {
			if !b.Live {
				continue
			}
			for i, n := range b.Nodes {
				isApp, via := appendVia(n)
				if !isApp {
					continue
				}
				site := appendSite{n: n, via: via}
				cleared := false
				for _, m := range b.Nodes[i+1:] {
					if isClear(m) {
						cleared = true
					}
				}
				if !cleared {
					// every path from here to an exit must meet a clearing block
					seen := map[*cfg.Block]bool{}
					var leak *cfg.Block
					var walk func(x *cfg.Block)
					walk = func(x *cfg.Block) {
						if seen[x] || leak != nil {
							return
						}
						seen[x] = true
						for _, m := range x.Nodes {
							if isClear(m) {
								return
							}
						}
						if len(x.Succs) == 0 {
							leak = x
							return
						}
						for _, s := range x.Succs {
							walk(s)
						}
					}
					for _, s := range b.Succs {
						walk(s)
					}
					if len(b.Succs) == 0 {
						leak = b
					}
					if leak != nil {
						site.leak = n
						if len(leak.Nodes) > 0 {
							site.leak = leak.Nodes[len(leak.Nodes)-1]
						}
					}
				}
				out = append(out, site)
			}
		}
		return out
	}
	var methods []*ast.FuncDecl
	c.P.funcDecls(func(p *packages.Package, fd *ast.FuncDecl) {
		if p == pk && fd.Body != nil && recvTypeName(fd) == "ProtoArray" && len(fd.Recv.List[0].Names) == 1 {
			methods = append(methods, fd)
		}
	})
	called := map[*types.Func]bool{}
	for _, fd := range methods {
		ast.Inspect(fd.Body, func(k ast.Node) bool {
			if call, ok := k.(*ast.CallExpr); ok {
				if f := calleeFunc(info, call); f != nil {
					called[f] = true
				}
			}
			return true
		})
	}
	for round := 0; round < 4; round++ {
		changed := false
		for _, fd := range methods {
			f, _ := info.Defs[fd.Name].(*types.Func)
			if f == nil || f.Exported() || !called[f] || leaky[f] {
				continue
			}
			for _, st := range analyse(fd) {
				if st.leak != nil {
					leaky[f] = true
					changed = true
				}
			}
		}
		if !changed {
			break
		}
	}
	c.P.funcDecls(func(p *packages.Package, fd *ast.FuncDecl) {
		if p != pk || fd.Body == nil || recvTypeName(fd) != "ProtoArray" || len(fd.Recv.List[0].Names) != 1 {
			return
		}
		recv := info.Defs[fd.Recv.List[0].Names[0]]
		fname := "proto." + funcName(fd)
		self, _ := info.Defs[fd.Name].(*types.Func)
		for k, st := range analyse(fd) {
			grow++
			key := fmt.Sprintf("%s@append%d", fname, k+1)
			what := "appends a node"
			if st.via != "" {
				what = "appends a node (through " + st.via + ")"
			}
			switch {
			case st.leak == nil:
				c.ok(key, st.n.Pos(), "every path after the append marks the links stale")
			case self != nil && leaky[self]:
				c.ok(key, st.n.Pos(), "unexported helper: marking the links stale is left to its callers, each of which is checked with the call as the append")
			default:
				c.bad(key, st.leak.Pos(), "%s %s and can return without `updatedConnections = false`: the new node stays invisible to FindHead / CanonicalChain / InSubtree until another insertion or score update refreshes the links", fname, what)
			}
		}
		// readers of the links
		switch funcName(fd) {
		case "ProtoArray.FindHead", "ProtoArray.InSubtree":
			readers++
			// the refresh, here or in a helper, made exactly when the links are stale: on the way to the call (through
			// every frame) the flag is known to be false, and nothing else about the array is assumed
			tested := false
			top := newInlEnv(info, fd.Body, nil, nil, nil, nil)
			seq := 0
			walkInlined(c.P, pk, top, 0, map[*ast.BlockStmt]bool{}, &seq, func(st inlSite) {
				if st.f.Name() != "updateConnections" {
					return
				}
				stale, other := false, false
				for _, cd := range st.conds() {
					var frRecv types.Object
					if fr := cd.env; fr.up == nil {
						frRecv = recv
					} else if hd := declOfFunc(pk, calleeFuncOrNil(fr.up.info, fr.site)); hd != nil && hd.Recv != nil && len(hd.Recv.List) == 1 && len(hd.Recv.List[0].Names) == 1 {
						frRecv = info.Defs[hd.Recv.List[0].Names[0]]
					}
					switch {
					case frRecv != nil && isRecvField(cd.env.info, cd.e, frRecv, "updatedConnections"):
						if cd.neg {
							stale = true
						} else {
							other = true
						}
					default:
						// an earlier exit of the function (equal roots: nothing to look up) narrows the later readers of
						// the links just the same; a branch around the refresh alone would not
						if cd.after {
							continue
						}
						if be, ok := cd.e.(*ast.BinaryExpr); ok && (isNilExpr(cd.env.info, be.X) || isNilExpr(cd.env.info, be.Y)) {
							continue
						}
						other = true
					}
				}
				if stale && !other {
					tested = true
				}
			})
			if tested {
				c.ok(fname+"@refresh", fd.Pos(), "refreshes the links when they are stale")
			} else {
				c.bad(fname+"@refresh", fd.Pos(), "%s uses best-child/best-descendant links without `if !updatedConnections { updateConnections() }`", fname)
			}
		}
	})
	if grow < 2 || readers < 2 {
		anchorFail("dirty.flag: expected >=2 node appends and 2 link readers in ProtoArray, found %d / %d", grow, readers)
	}
}
