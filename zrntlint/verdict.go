package main

import (
	"go/ast"
	"go/token"
	"go/types"
)

// How the two results of `ok, err := f(...)` are consumed, whatever the statement shape (if-init with else-if, or a
// plain assignment followed by separate ifs, or `if ok { … } else { fail }`): the `if` that tests err against nil and
// the `if` that tests ok, each reading the values of THIS call (no other assignment in between).
type verdictUse struct {
	okObj, errObj types.Object
	errIf         *ast.IfStmt // cond has err != nil
	okIf          *ast.IfStmt // cond is !ok / ok == false (okNeg) or ok (…)
	okNeg         bool        // the ok test is written negatively: its BODY is the failure branch
}

func findVerdictUse(info *types.Info, fd *ast.FuncDecl, parents map[ast.Node]ast.Node, call *ast.CallExpr) *verdictUse {
	as, ok := parents[call].(*ast.AssignStmt)
	if !ok || len(as.Lhs) != 2 || len(as.Rhs) != 1 {
		return nil
	}
	a, ok1 := as.Lhs[0].(*ast.Ident)
	b, ok2 := as.Lhs[1].(*ast.Ident)
	if !ok1 || !ok2 {
		return nil
	}
	vu := &verdictUse{okObj: info.ObjectOf(a), errObj: info.ObjectOf(b)}
	if vu.okObj == nil || vu.errObj == nil {
		return nil
	}
	ri := reachingDefs(info, fd.Body)
	// fresh: the use at `at` reads the value assigned by `as`
	fresh := func(o types.Object, at token.Pos) bool {
		for _, d := range ri.defs[o] {
			if d.stmt != ast.Stmt(as) && d.stmt.Pos() > as.Pos() && d.stmt.Pos() < at {
				return false
			}
		}
		return at > call.End()
	}
	ast.Inspect(fd.Body, func(n ast.Node) bool {
		ifs, ok := n.(*ast.IfStmt)
		if !ok {
			return true
		}
		if vu.errIf == nil {
			if op, has := nilCheckOp(info, ifs.Cond, vu.errObj); has && op == token.NEQ && fresh(vu.errObj, ifs.Cond.Pos()) {
				vu.errIf = ifs
			}
		}
		if vu.okIf == nil && fresh(vu.okObj, ifs.Cond.Pos()) {
			c := ast.Unparen(ifs.Cond)
			isOK := func(e ast.Expr) bool {
				id, ok := ast.Unparen(e).(*ast.Ident)
				return ok && info.ObjectOf(id) == vu.okObj
			}
			isLit := func(e ast.Expr, name string) bool {
				id, ok := ast.Unparen(e).(*ast.Ident)
				return ok && id.Name == name
			}
			switch x := c.(type) {
			case *ast.UnaryExpr:
				if x.Op == token.NOT && isOK(x.X) {
					vu.okIf, vu.okNeg = ifs, true
				}
			case *ast.Ident:
				if isOK(x) {
					vu.okIf, vu.okNeg = ifs, false
				}
			case *ast.BinaryExpr:
				if (x.Op == token.EQL || x.Op == token.NEQ) && (isOK(x.X) || isOK(x.Y)) {
					other := x.Y
					if isOK(x.Y) {
						other = x.X
					}
					switch {
					case isLit(other, "false"):
						vu.okIf, vu.okNeg = ifs, x.Op == token.EQL
					case isLit(other, "true"):
						vu.okIf, vu.okNeg = ifs, x.Op == token.NEQ
					}
				}
			}
		}
		return true
	})
	return vu
}

// failBranch: the statements executed when ok is false: the body of a negative test; for `if ok { … } else { … }` the
// else block; for `if ok { …; return }` followed by more statements, those statements.
func (vu *verdictUse) failBranch(parents map[ast.Node]ast.Node) *ast.BlockStmt {
	if vu.okIf == nil {
		return nil
	}
	if vu.okNeg {
		return vu.okIf.Body
	}
	if eb, ok := vu.okIf.Else.(*ast.BlockStmt); ok {
		return eb
	}
	if vu.okIf.Else == nil && terminates(vu.okIf.Body) {
		if blk, ok := parents[vu.okIf].(*ast.BlockStmt); ok {
			for i, st := range blk.List {
				if st == ast.Stmt(vu.okIf) {
					return &ast.BlockStmt{List: blk.List[i+1:]}
				}
			}
		}
	}
	return nil
}

// precedes: the if statement (or the if/else-if chain it belongs to) is a statement of a block that also contains,
// later, the node `later`: every path to `later` passes the test.
func precedes(parents map[ast.Node]ast.Node, ifs *ast.IfStmt, later ast.Node) bool {
	var top ast.Node = ifs
	for {
		p, ok := parents[top].(*ast.IfStmt)
		if !ok || p.Else != top {
			break
		}
		top = p
	}
	blk := parents[top]
	if blk == nil {
		return false
	}
	return blk.Pos() <= later.Pos() && later.End() <= blk.End() && later.Pos() > top.End()
}
