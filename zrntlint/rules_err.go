package main

import (
	"fmt"
	"go/ast"
	"go/token"
	"go/types"
	"strings"

	"golang.org/x/tools/go/packages"
)

func init() {
	register(&Rule{Name: "err.flow", Floor: 900,
		Doc: "every error produced by a call in zrnt is returned, wrapped into a returned error, forwarded as the trailing argument of an As*/proxy call, or tested and made to end the path with a non-success result; it is not discarded, overwritten before being tested, answered with a success return (an error that is looked at elsewhere — in a loop condition, at the top of the next round, after the enclosing block — is followed on the control-flow graph under the assumption that it is non-nil: every path must end in a return that hands it on), and the value that came with it is not indexed/dereferenced before the test (listed idioms and reasoned exceptions apart)",
		Run: ruleErrFlow})
	register(&Rule{Name: "ctx.poll", Floor: 25,
		Doc: "every ctx.Err() poll is tested and its non-nil value is returned (as is or wrapped) on that branch; ctx is used for nothing but Err() and being passed on",
		Run: ruleCtxPoll})
}

// errExceptions: deliberate discards / forgiven errors, keyed "caller->callee", one reason each.
var errExceptions = map[string]string{
	// struct -> view helpers: FromFields/Deserialize over values that the struct type already constrains; a failure
	// is impossible for in-domain values and the helper has no error result (ssz.descriptor/codec.scope check the premises).
	"*.View->FromFields":         "struct->view constructor over in-domain fields (shape agreement is checked by ssz.descriptor / view.build)",
	"*.View->Deserialize":        "struct->view constructor decoding the value's own bytes (scope checked by codec.scope)",
	"*.View->ViewFromBacking":    "struct->view constructor from a single chunk",
	"ViewPubkey->Deserialize":    "decodes a [48]byte array with scope 48 (codec.scope)",
	"ViewSignature->Deserialize": "decodes a [96]byte array with scope 96 (codec.scope)",
	// EpochStartSlot only errors on uint64 overflow of epoch*SLOTS_PER_EPOCH; callers pass epochs of known checkpoints
	"*->EpochStartSlot": "overflows only for epoch >= 2^64/SLOTS_PER_EPOCH; all callers pass epochs of stored checkpoints / message targets already bounded by the slot clock",
	// JSON encoding of plain integer slices cannot fail
	"ParticipationRegistry.String->Marshal": "json.Marshal of a []uint8-kind slice cannot fail; String() has no error result",
	// the spec-mandated forgiveness: an invalid deposit is skipped, the block stays valid
	"ProcessDeposit->Pubkey":    "spec: deposit with an invalid pubkey is skipped (process_deposit: `if not bls.KeyValidate`), block remains valid",
	"ProcessDeposit->Signature": "spec: deposit with an undecodable signature fails the proof-of-possession check and is skipped",
}

// decodesOwnBytes: the reader handed to this Deserialize call was built in the same function as
// codec.NewDecodingReader(bytes.NewReader(x), scope) with scope = len(x) (or the constant length of the array x slices).
func decodesOwnBytes(info *types.Info, fd *ast.FuncDecl, call *ast.CallExpr) bool {
	if len(call.Args) != 1 || fd.Body == nil {
		return false
	}
	defs := singleDefs(info, fd.Body)
	dr, ok := ast.Unparen(resolveLocal(info, call.Args[0], defs, 3)).(*ast.CallExpr)
	if !ok || len(dr.Args) != 2 {
		return false
	}
	if f := calleeFunc(info, dr); f == nil || f.Name() != "NewDecodingReader" || !isZtyp(f) {
		return false
	}
	rd, ok := ast.Unparen(resolveLocal(info, dr.Args[0], defs, 3)).(*ast.CallExpr)
	if !ok || len(rd.Args) != 1 {
		return false
	}
	if f := calleeFunc(info, rd); f == nil || f.Name() != "NewReader" || f.Pkg() == nil || f.Pkg().Path() != "bytes" {
		return false
	}
	src := types.ExprString(ast.Unparen(rd.Args[0]))
	scope := ast.Unparen(stripConv(info, resolveLocal(info, dr.Args[1], defs, 3)))
	if lc, ok := scope.(*ast.CallExpr); ok && len(lc.Args) == 1 {
		if id, ok := lc.Fun.(*ast.Ident); ok && id.Name == "len" && types.ExprString(ast.Unparen(lc.Args[0])) == src {
			return true
		}
	}
	if tv, ok := info.Types[dr.Args[1]]; ok && tv.Value != nil {
		if sl, ok := ast.Unparen(rd.Args[0]).(*ast.SliceExpr); ok && sl.Low == nil && sl.High == nil {
			if at, ok := derefT(info.TypeOf(sl.X)).Underlying().(*types.Array); ok && tv.Value.String() == fmt.Sprint(at.Len()) {
				return true
			}
		}
	}
	return false
}

func errException(caller, callee string) (string, bool) {
	if r, ok := errException1(caller, callee); ok {
		return r, true
	}
	// the exception stated for a function holds for the unexported helpers only it calls (owners.go)
	if o := ownerOrSelf(caller); o != caller {
		return errException1(o, callee)
	}
	return "", false
}

func errException1(caller, callee string) (string, bool) {
	short := caller
	if i := strings.LastIndex(caller, "."); i >= 0 {
		short = caller[i+1:]
	}
	nopkg := caller
	if i := strings.Index(caller, "."); i >= 0 {
		nopkg = caller[i+1:]
	}
	for _, k := range []string{caller + "->" + callee, nopkg + "->" + callee, short + "->" + callee, "*." + short + "->" + callee, "*->" + callee} {
		if r, ok := errExceptions[k]; ok {
			return r, true
		}
	}
	return "", false
}

func isErrorT(t types.Type) bool {
	return t != nil && types.Identical(t, types.Universe.Lookup("error").Type())
}

// errResultIndex returns the index of the error result of a call's type (-1 if none).
func errResultIndex(t types.Type) (idx int, n int) {
	switch x := t.(type) {
	case *types.Tuple:
		for i := 0; i < x.Len(); i++ {
			if isErrorT(x.At(i).Type()) {
				return i, x.Len()
			}
		}
		return -1, x.Len()
	default:
		if isErrorT(t) {
			return 0, 1
		}
	}
	return -1, 1
}

func mentions(info *types.Info, n ast.Node, o types.Object) bool {
	found := false
	if n == nil {
		return false
	}
	ast.Inspect(n, func(m ast.Node) bool {
		if id, ok := m.(*ast.Ident); ok && (info.Uses[id] == o || info.Defs[id] == o) {
			found = true
		}
		return !found
	})
	return found
}

// assignsTo reports whether stmt (re)assigns object o at its top level.
func assignsTo(info *types.Info, st ast.Stmt, o types.Object) bool {
	as, ok := st.(*ast.AssignStmt)
	if !ok {
		return false
	}
	for _, l := range as.Lhs {
		if id, ok := l.(*ast.Ident); ok && (info.Uses[id] == o || info.Defs[id] == o) {
			return true
		}
	}
	return false
}

// isNilCheck: cond contains `o != nil` or `o == nil`.
func nilCheckOp(info *types.Info, cond ast.Expr, o types.Object) (token.Token, bool) {
	var op token.Token
	found := false
	ast.Inspect(cond, func(m ast.Node) bool {
		be, ok := m.(*ast.BinaryExpr)
		if !ok || (be.Op != token.NEQ && be.Op != token.EQL) {
			return true
		}
		x, y := ast.Unparen(be.X), ast.Unparen(be.Y)
		isO := func(e ast.Expr) bool { id, ok := e.(*ast.Ident); return ok && info.Uses[id] == o }
		isNil := func(e ast.Expr) bool { id, ok := e.(*ast.Ident); return ok && id.Name == "nil" }
		if isO(x) && isNil(y) || isO(y) && isNil(x) {
			op = be.Op
			found = true
		}
		return true
	})
	return op, found
}

// derefUse: does node n index/dereference/select-through value object v (pointer, slice, map, interface)?
func derefUse(info *types.Info, n ast.Node, v types.Object) bool {
	found := false
	ast.Inspect(n, func(m ast.Node) bool {
		var base ast.Expr
		switch x := m.(type) {
		case *ast.IndexExpr:
			base = x.X
			if _, isMap := info.TypeOf(x.X).Underlying().(*types.Map); isMap {
				return true // nil map read is fine
			}
		case *ast.StarExpr:
			base = x.X
		case *ast.SelectorExpr:
			if _, isPtr := info.TypeOf(x.X).Underlying().(*types.Pointer); isPtr {
				base = x.X
			} else if _, isI := info.TypeOf(x.X).Underlying().(*types.Interface); isI {
				base = x.X
			}
		}
		if base != nil {
			if id, ok := ast.Unparen(base).(*ast.Ident); ok && info.Uses[id] == v {
				found = true
			}
		}
		return !found
	})
	return found
}

type errSite struct {
	pk     *packages.Package
	fd     *ast.FuncDecl
	fnName string
	call   *ast.CallExpr
	callee string
}

func calleeLabel(info *types.Info, call *ast.CallExpr) string {
	if f := calleeFunc(info, call); f != nil {
		return f.Name()
	}
	// dynamic call through a func value / field
	switch x := ast.Unparen(call.Fun).(type) {
	case *ast.Ident:
		return x.Name
	case *ast.SelectorExpr:
		return x.Sel.Name
	}
	return "func"
}

// funcReturnsError: last result of the enclosing function (or literal) is error.
func lastResultIsError(ft *ast.FuncType, info *types.Info) bool {
	if ft.Results == nil || len(ft.Results.List) == 0 {
		return false
	}
	last := ft.Results.List[len(ft.Results.List)-1]
	return isErrorT(info.TypeOf(last.Type))
}

// successReturn: a return statement inside an error branch that reports success: last result literal nil (error-returning
// function) or a GossipValidatorResult{ACCEPT,...}.
func successReturn(info *types.Info, r *ast.ReturnStmt, retErr bool) bool {
	if len(r.Results) == 0 {
		return false
	}
	last := ast.Unparen(r.Results[len(r.Results)-1])
	if retErr {
		if id, ok := last.(*ast.Ident); ok && id.Name == "nil" {
			// (false, nil): the verdict itself says "no"; that is a refusal, not a success
			if len(r.Results) >= 2 {
				if b, ok := ast.Unparen(r.Results[0]).(*ast.Ident); ok && b.Name == "false" {
					return false
				}
			}
			return true
		}
		return false
	}
	if cl, ok := last.(*ast.CompositeLit); ok {
		if nt := namedOf(info.TypeOf(cl)); nt != nil && nt.Obj().Name() == "GossipValidatorResult" && len(cl.Elts) > 0 {
			e := cl.Elts[0]
			if kv, ok := e.(*ast.KeyValueExpr); ok {
				e = kv.Value
			}
			if strings.HasSuffix(types.ExprString(e), "ACCEPT") {
				return true
			}
		}
	}
	return false
}

func ruleErrFlow(c *Ctx) {
	nSites := 0
	c.P.funcDecls(func(pk *packages.Package, fd *ast.FuncDecl) {
		if !strings.Contains(pk.PkgPath, "/eth2/") {
			return
		}
		info := pk.TypesInfo
		fn := pkgShort(pk.Types) + "." + funcName(fd)
		parents := parentMap(fd.Body)
		counts := map[string]int{}
		// enclosing function type for a node (FuncLit aware)
		encl := func(n ast.Node) *ast.FuncType {
			for p := parents[n]; p != nil; p = parents[p] {
				if fl, ok := p.(*ast.FuncLit); ok {
					return fl.Type
				}
			}
			return fd.Type
		}
		report := func(status string, call *ast.CallExpr, callee string, detail string, args ...any) {
			counts[callee]++
			key := fn + "->" + callee
			if counts[callee] > 1 {
				key = fmt.Sprintf("%s#%d", key, counts[callee])
			}
			c.add(status, key, call.Pos(), detail, args...)
		}
		ast.Inspect(fd.Body, func(n ast.Node) bool {
			call, ok := n.(*ast.CallExpr)
			if !ok {
				return true
			}
			tv, ok := info.Types[call]
			if !ok || tv.Type == nil {
				return true
			}
			ei, nres := errResultIndex(tv.Type)
			if ei < 0 {
				return true
			}
			if isConversion(info, call) {
				return true
			}
			callee := calleeLabel(info, call)
			nSites++
			par := parents[call]
			for {
				if pe, ok := par.(*ast.ParenExpr); ok {
					par = parents[pe]
					continue
				}
				break
			}
			switch p := par.(type) {
			case *ast.ReturnStmt:
				report(OK, call, callee, "returned to the caller")
				return true
			case *ast.CallExpr:
				// f(g()) forwarding a (value, error) tuple: As*(v.Get(i)), AsX(XType.FromFields(...)), proxies
				if len(p.Args) == 1 && nres >= 2 || nres == 1 {
					report(OK, call, callee, "forwarded as argument(s) of %s", calleeLabel(info, p))
					return true
				}
				report(OK, call, callee, "forwarded as argument of %s", calleeLabel(info, p))
				return true
			case *ast.ExprStmt:
				if r, ok := errException(fn, callee); ok {
					report(OK, call, callee, "tabled exception: %s", r)
				} else if f := calleeFunc(info, call); f != nil && !isZrnt(f) && f.Pkg() != nil && (f.Pkg().Path() == "fmt" || f.Pkg().Path() == "hash" || strings.HasPrefix(f.Pkg().Path(), "crypto") || strings.Contains(f.Pkg().Path(), "sha256") || f.Pkg().Path() == "bytes" || f.Pkg().Path() == "strings" || f.Pkg().Path() == "io") {
					report(OK, call, callee, "stdlib writer whose error is vacuous (fmt/hash/bytes)")
				} else {
					report(Violation, call, callee, "the error result of %s is dropped (call used as a statement)", callee)
				}
				return true
			case *ast.DeferStmt, *ast.GoStmt:
				report(OK, call, callee, "deferred/go call")
				return true
			case *ast.AssignStmt:
				if len(p.Rhs) != 1 || p.Rhs[0] != ast.Expr(call) && ast.Unparen(p.Rhs[0]) != ast.Expr(call) {
					// multi-rhs assignment: error is a single value on the rhs
					idx := -1
					for i, r := range p.Rhs {
						if ast.Unparen(r) == ast.Expr(call) {
							idx = i
						}
					}
					if idx < 0 || nres != 1 || idx >= len(p.Lhs) {
						report(Unmodelled, call, callee, "assignment form not modelled")
						return true
					}
					c.checkErrVar(info, fd, parents, encl, p, p.Lhs[idx], nil, call, callee, fn, report)
					return true
				}
				if len(p.Lhs) != nres {
					report(Unmodelled, call, callee, "assignment arity mismatch")
					return true
				}
				var vals []ast.Expr
				for i, l := range p.Lhs {
					if i != ei {
						vals = append(vals, l)
					}
				}
				c.checkErrVar(info, fd, parents, encl, p, p.Lhs[ei], vals, call, callee, fn, report)
				return true
			case *ast.ValueSpec:
				report(OK, call, callee, "package-level / var initialiser")
				return true
			case *ast.BinaryExpr, *ast.IfStmt, *ast.SwitchStmt, *ast.UnaryExpr:
				// `if f() != nil`, `f() == nil`: the error value itself is thrown away by the test, so the failure branch
				// can only hand back a fresh error; returning some other error variable returns a stale (nil) one
				if be, ok := par.(*ast.BinaryExpr); ok && be.Op == token.NEQ {
					if ifs, ok := parents[be].(*ast.IfStmt); ok && ifs.Cond == ast.Expr(be) && len(ifs.Body.List) > 0 {
						if r, ok := ifs.Body.List[len(ifs.Body.List)-1].(*ast.ReturnStmt); ok && len(r.Results) > 0 {
							last := ast.Unparen(r.Results[len(r.Results)-1])
							if id, ok := last.(*ast.Ident); ok && id.Name != "nil" && isErrorT(info.TypeOf(id)) {
								report(Violation, call, callee, "the error of %s is only compared with nil and thrown away; the failure branch returns the unrelated variable `%s` (nil at this point), so the failure is reported as success", callee, id.Name)
								return true
							}
						}
					}
				}
				report(OK, call, callee, "tested in place")
				return true
			case *ast.KeyValueExpr, *ast.CompositeLit, *ast.SelectorExpr, *ast.IndexExpr, *ast.TypeAssertExpr, *ast.SendStmt:
				report(OK, call, callee, "used as a value")
				return true
			}
			report(Unmodelled, call, callee, "context %T not modelled", par)
			return true
		})
	})
	c.stat("error_returning_call_sites", nSites)
}

type reportFn func(status string, call *ast.CallExpr, callee string, detail string, args ...any)

// checkErrVar decides what happens to the error stored into lhs by the assignment `as`.
func (c *Ctx) checkErrVar(info *types.Info, fd *ast.FuncDecl, parents map[ast.Node]ast.Node, encl func(ast.Node) *ast.FuncType,
	as *ast.AssignStmt, lhs ast.Expr, vals []ast.Expr, call *ast.CallExpr, callee, fn string, report reportFn) {
	id, ok := ast.Unparen(lhs).(*ast.Ident)
	if !ok {
		// stored into a field / element: treated as handed over
		report(OK, call, callee, "error stored into %s", types.ExprString(lhs))
		return
	}
	if id.Name == "_" {
		if r, ok := errException(fn, callee); ok {
			report(OK, call, callee, "tabled exception: %s", r)
		} else if callee == "Deserialize" && decodesOwnBytes(info, fd, call) {
			report(OK, call, callee, "decodes a reader whose scope is the length of the very bytes it reads (built in this function): the value->view helpers' premise (codec.scope)")
		} else {
			report(Violation, call, callee, "the error result of %s is discarded (assigned to _)", callee)
		}
		return
	}
	eobj := info.Defs[id]
	if eobj == nil {
		eobj = info.Uses[id]
	}
	if eobj == nil {
		report(Unmodelled, call, callee, "error variable not resolved")
		return
	}
	var valObjs []types.Object
	for _, v := range vals {
		if vid, ok := ast.Unparen(v).(*ast.Ident); ok && vid.Name != "_" {
			o := info.Defs[vid]
			if o == nil {
				o = info.Uses[vid]
			}
			if o != nil {
				valObjs = append(valObjs, o)
			}
		}
	}
	retErr := lastResultIsError(encl(as), info)
	// carried: the error is looked at somewhere else than right after the call (a loop condition, the top of the next
	// round, after the enclosing block). Whether it then gets out is decided on the control-flow graph: from the
	// assignment on, with the error taken to be non-nil, every path ends in a return that hands it on.
	carried := func(how string) {
		var body *ast.BlockStmt = fd.Body
		results := fd.Type.Results
		for p := parents[ast.Node(as)]; p != nil; p = parents[p] {
			if fl, ok := p.(*ast.FuncLit); ok {
				body, results = fl.Body, fl.Type.Results
				break
			}
		}
		if retErr {
			if ok, why := errReaches(info, body, results, as, eobj, nil); !ok {
				report(Violation, call, callee, "the error from %s is carried on (%s) but does not reach the caller: %s", callee, how, why)
				return
			}
		}
		report(OK, call, callee, "%s", how)
	}
	// named error result: assignment to it followed by bare return is a return
	// Case A: if-init / switch-init
	if ifs, ok := parents[as].(*ast.IfStmt); ok && ifs.Init == ast.Stmt(as) {
		c.checkErrIf(info, ifs, eobj, retErr, call, callee, fn, report)
		return
	}
	// Case B: statement in a block: scan following statements
	var list []ast.Stmt
	switch b := parents[as].(type) {
	case *ast.BlockStmt:
		list = b.List
	case *ast.CaseClause:
		list = b.Body
	case *ast.CommClause:
		list = b.Body
	default:
		report(Unmodelled, call, callee, "assignment in %T not modelled", parents[as])
		return
	}
	after := false
	for _, st := range list {
		if st == ast.Stmt(as) {
			after = true
			continue
		}
		if !after {
			continue
		}
		if !mentions(info, st, eobj) {
			// value used (dereferenced) before the error is examined?
			for _, v := range valObjs {
				if derefUse(info, st, v) {
					report(Violation, call, callee, "%s is indexed/dereferenced before the error from %s is examined (it is nil/zero when the call failed)", v.Name(), callee)
					return
				}
			}
			continue
		}
		// first statement mentioning the error
		switch x := st.(type) {
		case *ast.IfStmt:
			if _, ok := nilCheckOp(info, x.Cond, eobj); ok {
				c.checkErrIf(info, x, eobj, retErr, call, callee, fn, report)
				return
			}
			if x.Init != nil && mentions(info, x.Init, eobj) && assignsTo(info, x.Init, eobj) {
				report(Violation, call, callee, "the error from %s is overwritten before it is tested", callee)
				return
			}
			report(OK, call, callee, "error used in a condition")
			return
		case *ast.ReturnStmt:
			for _, v := range valObjs {
				if derefUse(info, x, v) {
					report(Violation, call, callee, "%s is indexed/dereferenced in the same return that hands back the untested error from %s: a failed call panics instead of returning the error", v.Name(), callee)
					return
				}
			}
			report(OK, call, callee, "returned to the caller")
			return
		case *ast.AssignStmt:
			// forwarded as an argument on the rhs (x, err := AsY(v, err)) counts as consumed; plain overwrite does not
			usedOnRhs := false
			for _, r := range x.Rhs {
				if mentions(info, r, eobj) {
					usedOnRhs = true
				}
			}
			if usedOnRhs {
				report(OK, call, callee, "forwarded into %s", truncate(types.ExprString(x.Rhs[0]), 40))
				return
			}
			report(Violation, call, callee, "the error from %s is overwritten by the next assignment before it is tested", callee)
			return
		case *ast.SwitchStmt, *ast.TypeSwitchStmt:
			report(OK, call, callee, "error examined by a switch")
			return
		case *ast.ExprStmt:
			report(OK, call, callee, "error passed to %s", truncate(types.ExprString(x.X), 40))
			return
		default:
			report(OK, call, callee, "error used by %T", st)
			return
		}
	}
	// not mentioned in the rest of the block: look further out (loop-carried / checked after the block)
	for p := parents[ast.Node(as)]; p != nil; p = parents[p] {
		var outer []ast.Stmt
		var inner ast.Node = p
		switch b := parents[p].(type) {
		case *ast.BlockStmt:
			outer = b.List
		case *ast.CaseClause:
			outer = b.Body
		default:
			continue
		}
		seen := false
		for _, st := range outer {
			if st == inner.(ast.Stmt) {
				seen = true
				continue
			}
			if seen && mentions(info, st, eobj) {
				if ifs, ok := st.(*ast.IfStmt); ok {
					if _, ok := nilCheckOp(info, ifs.Cond, eobj); ok {
						c.checkErrIf(info, ifs, eobj, retErr, call, callee, fn, report)
						return
					}
				}
				carried("error examined after the enclosing block")
				return
			}
		}
	}
	// named result?
	if fd.Type.Results != nil {
		for _, f := range fd.Type.Results.List {
			for _, n := range f.Names {
				if info.Defs[n] == eobj {
					report(OK, call, callee, "assigned to the named error result")
					return
				}
			}
		}
	}
	// loop: assigned in a loop body and tested in the loop condition or at the top of the next iteration
	for p := parents[ast.Node(as)]; p != nil; p = parents[p] {
		if fs, ok := p.(*ast.ForStmt); ok && (mentions(info, fs.Cond, eobj) || mentions(info, fs.Body, eobj) && fs.Body.Pos() < as.Pos()) {
			// mentioned earlier in the body (top-of-loop test)
			for _, st := range fs.Body.List {
				if st.End() <= as.Pos() && mentions(info, st, eobj) {
					carried("error examined at the top of the next loop iteration")
					return
				}
			}
			if mentions(info, fs.Cond, eobj) {
				carried("error examined by the loop condition")
				return
			}
		}
	}
	report(Violation, call, callee, "the error from %s is never examined on the path that follows", callee)
}

// checkErrIf judges an `if <err ?= nil> {...}` that tests eobj.
func (c *Ctx) checkErrIf(info *types.Info, ifs *ast.IfStmt, eobj types.Object, retErr bool, call *ast.CallExpr, callee, fn string, report reportFn) {
	op, ok := nilCheckOp(info, ifs.Cond, eobj)
	if !ok {
		report(OK, call, callee, "error used in a condition")
		return
	}
	var errBranch ast.Stmt
	if op == token.NEQ {
		errBranch = ifs.Body
	} else {
		errBranch = ifs.Else // `if err == nil {ok...} else {fail}`; nil else => falls through: fine
	}
	if errBranch == nil {
		report(OK, call, callee, "tested (success branch guarded by err == nil)")
		return
	}
	// compound conditions (err != nil && x) are not pure error branches: accept
	if be, ok := ast.Unparen(ifs.Cond).(*ast.BinaryExpr); ok && (be.Op == token.LAND || be.Op == token.LOR) {
		if be.Op == token.LAND {
			report(OK, call, callee, "tested together with another condition")
			return
		}
	}
	// look for a success return directly in the error branch
	var bad *ast.ReturnStmt
	ast.Inspect(errBranch, func(m ast.Node) bool {
		switch x := m.(type) {
		case *ast.FuncLit:
			return false
		case *ast.IfStmt:
			if x != ifs && x != errBranch {
				return false // nested decisions: not a plain "on error -> success"
			}
		case *ast.ReturnStmt:
			if successReturn(info, x, retErr) && bad == nil {
				bad = x
			}
		}
		return true
	})
	if bad != nil {
		if r, ok := errException(fn, callee); ok {
			report(OK, call, callee, "tabled exception: %s", r)
			return
		}
		report(Violation, call, callee, "when %s fails the function returns success (%s) instead of an error", callee, types.ExprString(bad.Results[len(bad.Results)-1]))
		return
	}
	// does the error branch end the path or record the error?
	report(OK, call, callee, "tested; the failure branch does not report success")
}

func ruleCtxPoll(c *Ctx) {
	n := 0
	c.P.funcDecls(func(pk *packages.Package, fd *ast.FuncDecl) {
		if !strings.Contains(pk.PkgPath, "/eth2/") {
			return
		}
		info := pk.TypesInfo
		fn := pkgShort(pk.Types) + "." + funcName(fd)
		parents := parentMap(fd.Body)
		cnt := 0
		// ctx parameters
		ctxObjs := map[types.Object]bool{}
		if fd.Type.Params != nil {
			for _, f := range fd.Type.Params.List {
				if nt := namedOf(info.TypeOf(f.Type)); nt != nil && nt.Obj().Pkg() != nil && nt.Obj().Pkg().Path() == "context" && nt.Obj().Name() == "Context" {
					for _, nme := range f.Names {
						ctxObjs[info.Defs[nme]] = true
					}
				}
			}
		}
		ast.Inspect(fd.Body, func(nd ast.Node) bool {
			switch x := nd.(type) {
			case *ast.CallExpr:
				sel, ok := x.Fun.(*ast.SelectorExpr)
				if !ok || sel.Sel.Name != "Err" || len(x.Args) != 0 {
					return true
				}
				id, ok := ast.Unparen(sel.X).(*ast.Ident)
				if !ok || !ctxObjs[info.Uses[id]] {
					return true
				}
				n++
				cnt++
				key := fmt.Sprintf("%s#poll%d", fn, cnt)
				// the innermost function (literal) the poll is written in
				body, results := fd.Body, fd.Type.Results
				for p := parents[ast.Node(x)]; p != nil; p = parents[p] {
					if lit, ok := p.(*ast.FuncLit); ok {
						body, results = lit.Body, lit.Type.Results
						break
					}
				}
				// what is done with the polled error, whichever way it is written: returned as it is; stored in a
				// variable from where every path on which it is non-nil ends in a return that hands it on (decided on
				// the control-flow graph under the assumption err != nil); or tested in place with an error returned
				switch par := parents[ast.Node(x)].(type) {
				case *ast.ReturnStmt:
					c.ok(key, x.Pos(), "the polled error is returned as it is")
				case *ast.AssignStmt:
					var eobj types.Object
					if len(par.Lhs) == 1 && len(par.Rhs) == 1 {
						if id, ok := ast.Unparen(par.Lhs[0]).(*ast.Ident); ok {
							eobj = info.ObjectOf(id)
						}
					}
					if eobj == nil {
						c.bad(key, x.Pos(), "the polled error is not kept in a variable that could be returned")
						break
					}
					if ok, why := errReaches(info, body, results, par, eobj, nil); ok {
						c.ok(key, x.Pos(), "cancellation returned")
					} else {
						c.bad(key, x.Pos(), "a cancelled context does not stop the transition here: %s (the transition reports success for work it did not complete, or goes on working)", why)
					}
				case *ast.BinaryExpr:
					if (par.Op == token.NEQ || par.Op == token.EQL) && (isNilExpr(info, par.X) || isNilExpr(info, par.Y)) {
						var cond ast.Expr = par
						if par.Op == token.EQL {
							// `if ctx.Err() == nil { work }` : the walker wants the test that is true on cancellation
							c.bad(key, x.Pos(), "the poll is tested with == nil; write the cancellation branch (`!= nil`) so that it returns the error")
							break
						}
						if ok, why := errReaches(info, body, results, nil, nil, cond); ok {
							c.ok(key, x.Pos(), "poll tested in place and an error is returned")
						} else {
							c.bad(key, x.Pos(), "a cancelled context does not stop the transition here: %s", why)
						}
						break
					}
					c.bad(key, x.Pos(), "ctx.Err() is compared with something other than nil")
				default:
					c.bad(key, x.Pos(), "the result of ctx.Err() is neither returned, stored nor tested: a cancelled context does not stop the transition here")
				}
			case *ast.SelectorExpr:
				// ctx used for anything but Err and being passed on
				id, ok := ast.Unparen(x.X).(*ast.Ident)
				if ok && ctxObjs[info.Uses[id]] && x.Sel.Name != "Err" {
					c.info(fn+"#ctx."+x.Sel.Name, x.Pos(), "ctx.%s used", x.Sel.Name)
				}
			}
			return true
		})
	})
	c.stat("polls", n)
}

// endsInErrorReturn: the block's last statement is a return whose last result is eobj, a wrapping call mentioning eobj,
// or (eobj == nil) any non-nil expression.
func endsInErrorReturn(info *types.Info, b *ast.BlockStmt, eobj types.Object, fd *ast.FuncDecl) bool {
	if b == nil || len(b.List) == 0 {
		return false
	}
	r, ok := b.List[len(b.List)-1].(*ast.ReturnStmt)
	if !ok || len(r.Results) == 0 {
		return false
	}
	last := ast.Unparen(r.Results[len(r.Results)-1])
	if id, ok := last.(*ast.Ident); ok && id.Name == "nil" {
		return false
	}
	if !isErrorT(info.TypeOf(last)) && !types.Implements(info.TypeOf(last), errorIface()) {
		return false
	}
	if eobj == nil {
		return true
	}
	return mentions(info, last, eobj)
}
