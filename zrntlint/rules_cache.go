package main

import (
	"go/ast"
	"go/token"
	"go/types"
	"strings"

	"golang.org/x/tools/go/packages"
)

func init() {
	register(&Rule{Name: "cache.parent", Floor: 2,
		Doc: "in PubkeyCache every answer obtained from pc.parent is confined to the trusted prefix: an index-keyed delegation happens only on the `index < trustedParentCount` side of a comparison of its argument, a key-keyed delegation compares the returned index with trustedParentCount before returning it",
		Run: ruleCacheParent})
	register(&Rule{Name: "cache.recursion", Floor: 3,
		Doc: "AddValidator recurses only on a PubkeyCache literal built in the same branch with parent: <receiver> and trustedParentCount set to the conflicting index; `parent` is assigned nowhere else (the parent chain is acyclic); the append is dominated by the next-index check whose failure returns an error; the no-op outcome returns the receiver",
		Run: ruleCacheRecursion})
	register(&Rule{Name: "cache.units", Floor: 2,
		Doc: "in PubkeyCache validator indices are absolute while positions in idx2pub are relative to trustedParentCount: every position into idx2pub subtracts trustedParentCount, and every index stored into pub2idx is an absolute one (the index parameter, or a position with trustedParentCount added back), never a bare position/length",
		Run: ruleCacheUnits})
	register(&Rule{Name: "cache.deposit", Floor: 2,
		Doc: "deposit processing treats a pubkey-cache hit as an existing validator only when the returned index is below the state's validator count, and stores the cache handle returned by AddValidator back into the epochs context on the path that added a validator",
		Run: ruleCacheDeposit})
}

func pubkeyCacheMethods(p *Prog) (*packages.Package, map[string]*ast.FuncDecl) {
	pk := p.Pkg("eth2/beacon/common")
	if pk == nil {
		anchorFail("package common not loaded")
	}
	ms := map[string]*ast.FuncDecl{}
	for _, f := range pk.Syntax {
		for _, d := range f.Decls {
			if fd, ok := d.(*ast.FuncDecl); ok && fd.Body != nil && recvTypeName(fd) == "PubkeyCache" {
				ms[fd.Name.Name] = fd
			}
		}
	}
	if len(ms) < 3 {
		anchorFail("PubkeyCache methods not found (%d)", len(ms))
	}
	return pk, ms
}

func ruleCacheParent(c *Ctx) {
	pk, ms := pubkeyCacheMethods(c.P)
	info := pk.TypesInfo
	isValIdx := func(t types.Type) bool { nt := namedOf(t); return nt != nil && nt.Obj().Name() == "ValidatorIndex" }
	n := 0
	for _, mn := range sortedKeys(ms) {
		fd := ms[mn]
		if len(fd.Recv.List[0].Names) != 1 {
			continue
		}
		recv := info.Defs[fd.Recv.List[0].Names[0]]
		parents := parentMap(fd.Body)
		defs := singleDefs(info, fd.Body)
		// resolved forms: locals that name a field of the receiver (base := pc.trustedParentCount, ancestor := pc.parent)
		// are read through; the receiver is `recv`
		keep := map[string]bool{} // variables that stand for themselves (the parent's answer)
		poly := func(e ast.Expr) (Poly, bool) {
			polyRecv = recv
			polyReach, polyPaths = reachingDefs(info, fd.Body), true
			defer func() { polyRecv, polyReach, polyPaths = nil, nil, false }()
			return exprPoly(info, e, defs, keep, 0)
		}
		trusted := polyAtom("recv.trustedParentCount")
		says := func(f pathFact, a, b Poly, op token.Token) bool {
			fop := f.be.Op
			if f.neg {
				fop = negOp[fop]
			}
			if _, isCmp := negOp[fop]; !isCmp {
				return false
			}
			px, ok1 := poly(f.be.X)
			py, ok2 := poly(f.be.Y)
			if !ok1 || !ok2 {
				return false
			}
			got, want := polyAdd(px, py, -1), polyAdd(a, b, -1)
			return canonCut(got, fop) == canonCut(want, op) && cutSide(got, fop) == cutSide(want, op)
		}
		isParent := func(e ast.Expr) bool {
			e = resolveLocal(info, e, defs, 3)
			return isRecvField(info, e, recv, "parent")
		}
		ast.Inspect(fd.Body, func(nd ast.Node) bool {
			call, ok := nd.(*ast.CallExpr)
			if !ok {
				return true
			}
			sel, ok := call.Fun.(*ast.SelectorExpr)
			if !ok || !isParent(sel.X) {
				return true
			}
			n++
			key := "PubkeyCache." + mn + "->parent." + sel.Sel.Name
			// index-keyed?
			var idxArg ast.Expr
			for _, a := range call.Args {
				if isValIdx(info.TypeOf(a)) {
					idxArg = a
				}
			}
			if idxArg != nil {
				// on the way to the call the argument is known to be below trustedParentCount (any spelling: an
				// enclosing branch, an earlier exit, through locals)
				okSide := false
				if pa, ok := poly(idxArg); ok {
					for _, f := range pathFactsAt(parents, call) {
						if says(f, pa, trusted, token.LSS) {
							okSide = true
						}
					}
				}
				if okSide {
					c.ok(key, call.Pos(), "delegates only for %s < trustedParentCount", types.ExprString(idxArg))
				} else {
					c.bad(key, call.Pos(), "index-keyed lookup is delegated to the parent without confining %s to the trusted prefix (< trustedParentCount)", types.ExprString(idxArg))
				}
				return true
			}
			// key-keyed: result must be compared with trustedParentCount before being returned
			if _, direct := parents[call].(*ast.ReturnStmt); direct {
				c.bad(key, call.Pos(), "the parent's answer is returned unfiltered: an index >= trustedParentCount exists only on the sibling history the cache forked away from (and lets AddValidator of a conflicting pair recurse without end)")
				return true
			}
			// the index it answered, kept in a variable: every return that hands that variable out as found (second
			// result not the constant false) stands where the variable is known to be below trustedParentCount; the
			// function's named results are such a variable too
			var resVars []types.Object
			if as, ok := parents[call].(*ast.AssignStmt); ok {
				for _, l := range as.Lhs {
					if id, ok := l.(*ast.Ident); ok {
						if o := info.ObjectOf(id); o != nil && isValIdx(o.Type()) {
							resVars = append(resVars, o)
						}
					}
				}
			}
			if len(resVars) == 0 {
				c.bad(key, call.Pos(), "the parent's answer is not kept where it could be compared with trustedParentCount")
				return true
			}
			for _, o := range resVars {
				keep[o.Name()] = true
			}
			defer func() {
				for k := range keep {
					delete(keep, k)
				}
			}()
			filtered, leak := false, token.NoPos
			ast.Inspect(fd.Body, func(m ast.Node) bool {
				if _, isLit := m.(*ast.FuncLit); isLit {
					return false
				}
				r, ok := m.(*ast.ReturnStmt)
				if !ok || r.Pos() < call.End() {
					return true
				}
				var handed types.Object
				found := true
				switch len(r.Results) {
				case 0:
					// bare return of named results
					if fd.Type.Results != nil {
						for _, f := range fd.Type.Results.List {
							for _, nm := range f.Names {
								for _, o := range resVars {
									if info.Defs[nm] == o {
										handed = o
									}
								}
							}
						}
					}
				case 2:
					if id, ok := ast.Unparen(r.Results[0]).(*ast.Ident); ok {
						for _, o := range resVars {
							if info.Uses[id] == o {
								handed = o
							}
						}
					}
					if tv, ok := info.Types[r.Results[1]]; ok && tv.Value != nil && tv.Value.String() == "false" {
						found = false
					}
				}
				if handed == nil || !found {
					return true
				}
				below, notFound := false, false
				for _, f := range pathFactsAt(parents, r) {
					if says(f, polyAtom(handed.Name()), trusted, token.LSS) {
						below = true
					}
				}
				// or: the answer was not found (the `ok` it came with is known false here)
				for _, cd := range pathCondsAt(parents, r) {
					if id, ok := cd.e.(*ast.Ident); ok && cd.neg {
						if b, ok := info.TypeOf(id).Underlying().(*types.Basic); ok && b.Kind() == types.Bool {
							notFound = true
						}
					}
				}
				// or under `!ok || index < trusted` (and the like): whichever disjunct holds, the answer is either
				// "not found" or below the trusted prefix
				var disj []ast.Expr
				for child, p := ast.Node(r), parents[r]; p != nil; child, p = p, parents[p] {
					if is, ok := p.(*ast.IfStmt); ok && child == ast.Node(is.Body) {
						disj = append(disj, is.Cond)
					}
					if _, ok := p.(*ast.FuncLit); ok {
						break
					}
				}
				for _, cde := range disj {
					ds := flattenBool(cde, token.LOR)
					if len(ds) < 2 {
						continue
					}
					all := true
					for _, d := range ds {
						d = ast.Unparen(d)
						if u, ok := d.(*ast.UnaryExpr); ok && u.Op == token.NOT {
							if id, ok := ast.Unparen(u.X).(*ast.Ident); ok {
								if b, ok := info.TypeOf(id).Underlying().(*types.Basic); ok && b.Kind() == types.Bool {
									continue
								}
							}
						}
						if be, ok := d.(*ast.BinaryExpr); ok && says(pathFact{be: be}, polyAtom(handed.Name()), trusted, token.LSS) {
							continue
						}
						all = false
					}
					if all {
						below = true
					}
				}
				if below {
					filtered = true
				} else if !notFound && leak == token.NoPos {
					leak = r.Pos()
				}
				return true
			})
			// the original form: `if ok && index >= trusted { return 0, false }` followed by a return of the variables
			if !filtered {
				ast.Inspect(fd.Body, func(m ast.Node) bool {
					is, ok := m.(*ast.IfStmt)
					if !ok || is.Pos() < call.End() || !terminates(is.Body) {
						return true
					}
					for _, o := range resVars {
						var hit bool
						var visit func(e ast.Expr)
						visit = func(e ast.Expr) {
							be, ok := ast.Unparen(e).(*ast.BinaryExpr)
							if !ok {
								return
							}
							if be.Op == token.LAND {
								visit(be.X)
								visit(be.Y)
								return
							}
							if says(pathFact{be: be}, polyAtom(o.Name()), trusted, token.GEQ) {
								hit = true
							}
						}
						visit(is.Cond)
						if hit {
							filtered, leak = true, token.NoPos
						}
					}
					return true
				})
			}
			switch {
			case filtered && leak == token.NoPos:
				c.ok(key, call.Pos(), "returned index is compared with trustedParentCount")
			case filtered:
				c.bad(key, leak, "a return hands out the parent's answer where it is not known to be below trustedParentCount")
			default:
				c.bad(key, call.Pos(), "the parent's answer is not compared with trustedParentCount before use")
			}
			return true
		})
	}
	c.stat("parent_delegations", n)
}

func ruleCacheRecursion(c *Ctx) {
	pk, ms := pubkeyCacheMethods(c.P)
	info := pk.TypesInfo
	fd := ms["AddValidator"]
	if fd == nil {
		anchorFail("PubkeyCache.AddValidator not found")
	}
	recv := info.Defs[fd.Recv.List[0].Names[0]]
	parents := parentMap(fd.Body)
	// conflicting index candidates: the `index` parameter and locals of ValidatorIndex type from the lookups
	// (a) recursive calls
	nrec := 0
	ast.Inspect(fd.Body, func(n ast.Node) bool {
		call, ok := n.(*ast.CallExpr)
		if !ok {
			return true
		}
		sel, ok := call.Fun.(*ast.SelectorExpr)
		if !ok || sel.Sel.Name != "AddValidator" {
			return true
		}
		f := calleeFunc(info, call)
		if f == nil || qualName(f) != "common.PubkeyCache.AddValidator" {
			return true
		}
		nrec++
		key := "PubkeyCache.AddValidator.recurse"
		// the target: a local, or directly a literal / a call of a helper that builds the child
		id, _ := ast.Unparen(sel.X).(*ast.Ident)
		if id == nil {
			id = &ast.Ident{Name: types.ExprString(sel.X)}
		}
		if info.Uses[id] == recv {
			// a retry on the same receiver makes progress only when it is taken because the cache GREW since the
			// decision: the governing test is `<index parameter> < <value derived from len(recv.idx2pub)>`; the
			// retried call then finds the index occupied and ends in the no-op or a fork-out branch
			var gov *ast.IfStmt
			for cur := ast.Node(call); cur != nil; cur = parents[cur] {
				if is, ok := cur.(*ast.IfStmt); ok && gov == nil && is.Body.Pos() <= call.Pos() && call.End() <= is.Body.End() {
					gov = is
				}
			}
			grew := false
			if gov != nil {
				if be, ok := ast.Unparen(gov.Cond).(*ast.BinaryExpr); ok && (be.Op == token.LSS || be.Op == token.GTR) {
					// index < expected, in either spelling
					small, large := be.X, be.Y
					if be.Op == token.GTR {
						small, large = be.Y, be.X
					}
					if xi, ok := ast.Unparen(small).(*ast.Ident); ok && paramIndex(fd, info, info.Uses[xi]) >= 0 {
						defs := singleDefs(info, fd.Body)
						rhs := resolveLocal(info, large, defs, 3)
						ast.Inspect(rhs, func(k ast.Node) bool {
							if cl, ok := k.(*ast.CallExpr); ok {
								if fid, ok := cl.Fun.(*ast.Ident); ok && fid.Name == "len" && len(cl.Args) == 1 && isRecvField(info, cl.Args[0], recv, "idx2pub") {
									grew = true
								}
							}
							return true
						})
					}
				}
			}
			if grew {
				c.ok(key, call.Pos(), "retry on the same receiver only when the cache grew past the index since the decision (index < next expected index)")
			} else {
				c.bad(key, call.Pos(), "AddValidator calls itself on the same receiver (no progress)")
			}
			return true
		}
		// find the definition in the same block
		var lit *ast.CompositeLit
		var built ast.Expr
		if _, isId := ast.Unparen(sel.X).(*ast.Ident); !isId {
			built = sel.X
		} else if blk, ok := parents[parents[call]].(*ast.BlockStmt); ok {
			for _, st := range blk.List {
				as, ok := st.(*ast.AssignStmt)
				if !ok || len(as.Lhs) != 1 || len(as.Rhs) != 1 {
					continue
				}
				if lid, ok := as.Lhs[0].(*ast.Ident); ok && info.Defs[lid] == info.Uses[id] {
					built = as.Rhs[0]
				}
			}
		}
		// through a helper that does nothing but return the literal: its parameters and receiver stand for the arguments
		subst := map[types.Object]ast.Expr{}
		if built != nil {
			r := ast.Unparen(built)
			if hc, ok := r.(*ast.CallExpr); ok {
				if hf := calleeFunc(info, hc); hf != nil && hf.Pkg() == pk.Types {
					c.P.funcDecls(func(p2 *packages.Package, f2 *ast.FuncDecl) {
						if p2 != pk || p2.TypesInfo.Defs[f2.Name] != hf || f2.Body == nil || len(f2.Body.List) == 0 {
							return
						}
						ret, ok := f2.Body.List[len(f2.Body.List)-1].(*ast.ReturnStmt)
						if !ok || len(ret.Results) != 1 {
							return
						}
						switch {
						case len(f2.Body.List) == 1:
							r = ast.Unparen(ret.Results[0])
						default:
							// the child built field by field (c := new(T); c.f = v; …; return c): the literal it amounts to
							bs := structBuilds(info, f2.Body, "PubkeyCache")
							if len(bs) != 1 {
								return
							}
							cl := &ast.CompositeLit{Lbrace: bs[0].pos, Rbrace: bs[0].pos}
							for _, fname := range sortedKeys(bs[0].fields) {
								cl.Elts = append(cl.Elts, &ast.KeyValueExpr{Key: &ast.Ident{Name: fname, NamePos: bs[0].pos}, Value: bs[0].fields[fname]})
							}
							r = cl
						}
						i := 0
						for _, f := range f2.Type.Params.List {
							for _, nm := range f.Names {
								if i < len(hc.Args) {
									subst[info.Defs[nm]] = hc.Args[i]
								}
								i++
							}
						}
						if f2.Recv != nil && len(f2.Recv.List) == 1 && len(f2.Recv.List[0].Names) == 1 {
							if hs, ok := hc.Fun.(*ast.SelectorExpr); ok {
								subst[info.Defs[f2.Recv.List[0].Names[0]]] = hs.X
							}
						}
					})
				}
			}
			if ue, ok := r.(*ast.UnaryExpr); ok {
				r = ast.Unparen(ue.X)
			}
			lit, _ = r.(*ast.CompositeLit)
		}
		through := func(e ast.Expr) ast.Expr {
			if e == nil {
				return nil
			}
			if x, ok := ast.Unparen(e).(*ast.Ident); ok {
				if a, ok := subst[info.Uses[x]]; ok {
					return a
				}
			}
			return e
		}
		if lit == nil {
			c.bad(key, call.Pos(), "recursion target %s is not a PubkeyCache literal built in the same branch", id.Name)
			return true
		}
		var parentV, trustedV ast.Expr
		for _, el := range lit.Elts {
			if kv, ok := el.(*ast.KeyValueExpr); ok {
				switch kv.Key.(*ast.Ident).Name {
				case "parent":
					parentV = through(kv.Value)
				case "trustedParentCount":
					trustedV = through(kv.Value)
				}
			}
		}
		pid, _ := ast.Unparen(parentV).(*ast.Ident)
		switch {
		case pid == nil || info.Uses[pid] != recv:
			c.bad(key, lit.Pos(), "forked child's parent is %s, want the receiver", types.ExprString(parentV))
		case trustedV == nil:
			c.bad(key, lit.Pos(), "forked child does not set trustedParentCount (defaults to 0: the whole parent becomes untrusted)")
		default:
			tid, _ := ast.Unparen(trustedV).(*ast.Ident)
			if tid == nil || !(namedOf(info.TypeOf(tid)) != nil && namedOf(info.TypeOf(tid)).Obj().Name() == "ValidatorIndex") {
				c.bad(key, trustedV.Pos(), "trustedParentCount is %s, want the conflicting validator index", types.ExprString(trustedV))
			} else {
				// progress: the child must no longer see the parent's entry that caused the conflict, i.e. its trusted
				// prefix ends AT that entry. Which entry that is follows from the governing test:
				//   existing != index            -> the key is already recorded at `existing`: cut there
				//   existingPubkey.Compressed != pub -> another key sits at `index`: cut at index
				var gov *ast.IfStmt
				for cur := ast.Node(call); cur != nil; cur = parents[cur] {
					if is, ok := cur.(*ast.IfStmt); ok && gov == nil && is.Body.Pos() <= call.Pos() && call.End() <= is.Body.End() {
						gov = is
					}
				}
				want := ""
				var govCmp *ast.BinaryExpr
				if gov != nil {
					// the conflict test itself, possibly one conjunct of the condition (`exists && a != b`)
					for _, leaf := range flattenBool(gov.Cond, token.LAND) {
						if be, ok := ast.Unparen(leaf).(*ast.BinaryExpr); ok && be.Op == token.NEQ {
							govCmp = be
						}
					}
				}
				if govCmp != nil {
					if be := govCmp; true {
						xi, _ := ast.Unparen(be.X).(*ast.Ident)
						yi, _ := ast.Unparen(be.Y).(*ast.Ident)
						isIdx := func(id *ast.Ident) bool {
							return id != nil && namedOf(info.TypeOf(id)) != nil && namedOf(info.TypeOf(id)).Obj().Name() == "ValidatorIndex"
						}
						switch {
						case isIdx(xi) && isIdx(yi):
							// the one that is not the parameter is the recorded index of the key
							if paramIndex(fd, info, info.Uses[xi]) >= 0 {
								want = yi.Name
							} else {
								want = xi.Name
							}
						default:
							// a pubkey comparison: the conflict is at the index being appended (the ValidatorIndex parameter)
							if fd.Type.Params != nil {
								for _, f := range fd.Type.Params.List {
									for _, nm := range f.Names {
										if isIdx(nm) {
											want = nm.Name
										}
									}
								}
							}
						}
					}
				}
				switch {
				case want == "":
					c.unm(key, call.Pos(), "governing conflict test of this fork-out not recognised")
				case tid.Name != want:
					c.bad(key, trustedV.Pos(), "this fork-out is taken when `%s`; the parent's conflicting entry sits at %s, but the child trusts the parent up to %s: when %s > %s the child still sees the conflicting entry, detects the same conflict and forks again without end", types.ExprString(gov.Cond), want, tid.Name, tid.Name, want)
				default:
					c.ok(key, call.Pos(), "child{parent: receiver, trustedParentCount: %s} cuts at the conflicting entry", tid.Name)
				}
			}
		}
		return true
	})
	if nrec == 0 {
		c.info("PubkeyCache.AddValidator.recurse", fd.Pos(), "no recursion")
	}
	// (b) parent assigned only in those literals
	bad := false
	c.P.funcDecls(func(p2 *packages.Package, f2 *ast.FuncDecl) {
		forEachStore(p2.TypesInfo, f2.Body, func(sel *ast.SelectorExpr, what string) {
			if sel.Sel.Name == "parent" {
				// (setting the field of a value the function has just created is part of building it)
				if id, ok := ast.Unparen(sel.X).(*ast.Ident); ok {
					fresh := false
					for _, b := range structBuilds(p2.TypesInfo, f2.Body, "PubkeyCache") {
						if b.fields["parent"] != nil {
							fresh = true
						}
					}
					if o := p2.TypesInfo.ObjectOf(id); fresh && o != nil && paramIndex(f2, p2.TypesInfo, o) < 0 {
						if v, isVar := o.(*types.Var); isVar && !v.IsField() && (f2.Recv == nil || len(f2.Recv.List[0].Names) == 0 || p2.TypesInfo.Defs[f2.Recv.List[0].Names[0]] != o) {
							return
						}
					}
				}
				if nt := namedOf(p2.TypesInfo.TypeOf(sel.X)); nt != nil && nt.Obj().Name() == "PubkeyCache" && what == "assignment" {
					bad = true
					c.bad("PubkeyCache.parent.assigned", sel.Pos(), "parent is re-assigned in %s: the parent chain may become cyclic and lookups may not terminate", funcName(f2))
				}
			}
		})
	})
	if !bad {
		c.ok("PubkeyCache.parent.assigned", fd.Pos(), "parent is only ever set in constructor literals")
	}
	// (c) append dominated by next-index check returning error
	var firstStore ast.Node
	forEachStore(info, fd.Body, func(sel *ast.SelectorExpr, what string) {
		if id, ok := ast.Unparen(sel.X).(*ast.Ident); ok && info.Uses[id] == recv && (sel.Sel.Name == "idx2pub" || sel.Sel.Name == "pub2idx") && what == "assignment" {
			if firstStore == nil || sel.Pos() < firstStore.Pos() {
				firstStore = sel
			}
		}
	})
	if firstStore == nil {
		c.bad("PubkeyCache.AddValidator.append", fd.Pos(), "AddValidator never stores the new pair")
	} else {
		guarded := guardedBy(parents, firstStore, func(cond ast.Expr, inBody bool) bool {
			if inBody {
				return false
			}
			found := false
			ast.Inspect(cond, func(m ast.Node) bool {
				if be, ok := m.(*ast.BinaryExpr); ok && be.Op == token.NEQ {
					// the index PARAMETER compared with something, either way round
					for _, e := range []ast.Expr{be.X, be.Y} {
						if id, ok := ast.Unparen(e).(*ast.Ident); ok && paramIndex(fd, info, info.Uses[id]) >= 0 {
							if nt := namedOf(info.TypeOf(id)); nt != nil && nt.Obj().Name() == "ValidatorIndex" {
								found = true
							}
						}
					}
				}
				return true
			})
			return found
		})
		if guarded {
			c.ok("PubkeyCache.AddValidator.append", firstStore.Pos(), "append is preceded by the next-index check (index != expected => error)")
		} else {
			c.bad("PubkeyCache.AddValidator.append", firstStore.Pos(), "the pair is stored without first refusing an index other than the next one")
		}
	}
	// (d) no-op outcome returns the receiver
	retRecv := false
	ast.Inspect(fd.Body, func(n ast.Node) bool {
		if r, ok := n.(*ast.ReturnStmt); ok && len(r.Results) == 2 {
			if id, ok := ast.Unparen(r.Results[0]).(*ast.Ident); ok && info.Uses[id] == recv {
				if nid, ok := ast.Unparen(r.Results[1]).(*ast.Ident); ok && nid.Name == "nil" {
					retRecv = true
				}
			}
		}
		return true
	})
	if retRecv {
		c.ok("PubkeyCache.AddValidator.noop", fd.Pos(), "returns the receiver itself on the no-op/append outcome")
	} else {
		c.bad("PubkeyCache.AddValidator.noop", fd.Pos(), "no path returns (receiver, nil)")
	}
}

func ruleCacheDeposit(c *Ctx) {
	pk, fd := c.P.mustFunc("eth2/beacon/phase0", "ProcessDeposit")
	info := pk.TypesInfo
	// lookup
	var lookup *ast.AssignStmt
	ast.Inspect(fd.Body, func(n ast.Node) bool {
		if as, ok := n.(*ast.AssignStmt); ok && len(as.Rhs) == 1 && len(as.Lhs) == 2 {
			if call, ok := ast.Unparen(as.Rhs[0]).(*ast.CallExpr); ok {
				if f := calleeFunc(info, call); f != nil && qualName(f) == "common.PubkeyCache.ValidatorIndex" {
					lookup = as
				}
			}
		}
		return true
	})
	if lookup == nil {
		anchorFail("ProcessDeposit: pubkey-cache lookup not found")
	}
	idxObj := info.Defs[lookup.Lhs[0].(*ast.Ident)]
	okObj := info.Defs[lookup.Lhs[1].(*ast.Ident)]
	// exists := ok && uint64(valIndex) < valCount
	good := false
	ast.Inspect(fd.Body, func(n ast.Node) bool {
		be, ok := n.(*ast.BinaryExpr)
		if !ok || be.Op != token.LAND {
			return true
		}
		usesOk, cmp := false, false
		ast.Inspect(be, func(m ast.Node) bool {
			if id, ok := m.(*ast.Ident); ok && info.Uses[id] == okObj {
				usesOk = true
			}
			// index < count, in either spelling (count > index)
			if b2, ok := m.(*ast.BinaryExpr); ok && (b2.Op == token.LSS || b2.Op == token.GTR) {
				l := stripConv(info, ast.Unparen(b2.X))
				if b2.Op == token.GTR {
					l = stripConv(info, ast.Unparen(b2.Y))
				}
				if id, ok := ast.Unparen(l).(*ast.Ident); ok && info.Uses[id] == idxObj {
					cmp = true
				}
			}
			return true
		})
		if usesOk && cmp {
			good = true
		}
		return true
	})
	if good {
		c.ok("ProcessDeposit.exists", lookup.Pos(), "cache hit counts only when index < validator count of this state")
	} else {
		c.bad("ProcessDeposit.exists", lookup.Pos(), "a pubkey-cache hit is trusted without comparing the index with the state's validator count (entries of sibling histories would be credited)")
	}
	// AddValidator result stored into epc.ValidatorPubkeyCache, after state.AddValidator
	var stateAdd, cacheAdd, store ast.Node
	// the new-validator part may live in an unexported function only ProcessDeposit calls (owners.go): read it there
	for _, h := range ownedHelpers("phase0.ProcessDeposit") {
		if _, hd := c.P.findFunc("eth2/beacon/phase0", strings.TrimPrefix(h, "phase0.")); hd != nil && hd.Body != nil {
			has := false
			ast.Inspect(hd.Body, func(n ast.Node) bool {
				if x, ok := n.(*ast.CallExpr); ok {
					if f := calleeFunc(info, x); f != nil && f.Name() == "AddValidator" {
						has = true
					}
				}
				return !has
			})
			if has {
				fd = hd
			}
		}
	}
	ast.Inspect(fd.Body, func(n ast.Node) bool {
		switch x := n.(type) {
		case *ast.CallExpr:
			if f := calleeFunc(info, x); f != nil && f.Name() == "AddValidator" {
				if qualName(f) == "common.PubkeyCache.AddValidator" {
					cacheAdd = x
				} else {
					stateAdd = x
				}
			}
		case *ast.AssignStmt:
			for _, l := range x.Lhs {
				if sel, ok := ast.Unparen(l).(*ast.SelectorExpr); ok && sel.Sel.Name == "ValidatorPubkeyCache" {
					store = x
				}
			}
		}
		return true
	})
	switch {
	case stateAdd == nil || cacheAdd == nil:
		c.bad("ProcessDeposit.cache-upkeep", fd.Pos(), "a new validator is added to the state (%v) without extending the pubkey cache (%v)", stateAdd != nil, cacheAdd != nil)
	case store == nil:
		c.bad("ProcessDeposit.cache-upkeep", cacheAdd.Pos(), "the handle returned by PubkeyCache.AddValidator is dropped: after a conflict the context keeps the stale cache")
	case !(stateAdd.Pos() < cacheAdd.Pos()):
		c.bad("ProcessDeposit.cache-upkeep", cacheAdd.Pos(), "cache is extended before the state accepted the validator")
	default:
		c.ok("ProcessDeposit.cache-upkeep", cacheAdd.Pos(), "state.AddValidator, then cache.AddValidator, result stored into epc.ValidatorPubkeyCache")
		// once the state has the validator, no path reports success without having gone through the cache's
		// AddValidator: that call is where a conflicting entry of a sibling history is seen and the handle forks out
		rets, fell, okW := returnsAvoiding(fd.Body, stateAdd, cacheAdd)
		switch {
		case !okW:
			c.unm("ProcessDeposit.cache-always", stateAdd.Pos(), "state.AddValidator is not on the control-flow graph of ProcessDeposit (made in a function literal?)")
		default:
			var leak *ast.ReturnStmt
			for _, r := range rets {
				if len(r.Results) == 0 {
					continue
				}
				if id, isId := ast.Unparen(r.Results[len(r.Results)-1]).(*ast.Ident); isId && id.Name == "nil" {
					leak = r
				}
			}
			if leak != nil {
				c.bad("ProcessDeposit.cache-always", leak.Pos(), "ProcessDeposit can report success for a new validator without calling PubkeyCache.AddValidator: an index another history filled with a different key is then never noticed, and the context keeps answering with the sibling's pairs")
			} else if fell {
				c.unm("ProcessDeposit.cache-always", stateAdd.Pos(), "a path falls off the end of the body after state.AddValidator without the cache call")
			} else {
				c.ok("ProcessDeposit.cache-always", cacheAdd.Pos(), "every success return after state.AddValidator is behind PubkeyCache.AddValidator")
			}
		}
	}
}

func ruleCacheUnits(c *Ctx) {
	pk, ms := pubkeyCacheMethods(c.P)
	info := pk.TypesInfo
	checkStore := func(fn string, recv types.Object, fd *ast.FuncDecl, val ast.Expr, pos token.Pos) {
		key := "PubkeyCache." + fn + ":pub2idx=" + types.ExprString(val)
		// resolve locals to their latest definition
		var derivesLen, addsTrusted func(e ast.Expr, depth int) bool
		derivesLen = func(e ast.Expr, depth int) bool {
			if depth > 5 {
				return false
			}
			found := false
			ast.Inspect(e, func(n ast.Node) bool {
				switch x := n.(type) {
				case *ast.CallExpr:
					if id, ok := x.Fun.(*ast.Ident); ok && id.Name == "len" && len(x.Args) == 1 && recv != nil && isRecvField(info, x.Args[0], recv, "idx2pub") {
						found = true
					}
				case *ast.Ident:
					if recv != nil && paramIndex(fd, info, info.Uses[x]) < 0 {
						if rhs, _ := lastDefBefore(info, fd, info.Uses[x], pos); rhs != nil && derivesLen(rhs, depth+1) {
							found = true
						}
					}
				}
				return true
			})
			return found
		}
		addsTrusted = func(e ast.Expr, depth int) bool {
			if depth > 5 {
				return false
			}
			found := false
			ast.Inspect(e, func(n ast.Node) bool {
				switch x := n.(type) {
				case *ast.SelectorExpr:
					if recv != nil && isRecvField(info, x, recv, "trustedParentCount") {
						found = true
					}
				case *ast.Ident:
					if recv != nil && paramIndex(fd, info, info.Uses[x]) < 0 {
						if rhs, _ := lastDefBefore(info, fd, info.Uses[x], pos); rhs != nil && addsTrusted(rhs, depth+1) {
							found = true
						}
					}
				}
				return true
			})
			return found
		}
		// units: an absolute index = a position in this level + trustedParentCount. Write the stored value as a linear
		// form over {ValidatorIndex parameters (absolute), len(idx2pub) (position), trustedParentCount (offset)} and
		// require one unit of position and one unit of offset.
		if p, ok := exprPoly(info, val, singleDefs(info, fd.Body), nil, 0); ok && recv != nil {
			var a, r, t int64
			linear := true
			for k, cf := range p {
				switch {
				case k == "":
				case k == "len("+recv.Name()+".idx2pub)":
					r += cf
				case k == recv.Name()+".trustedParentCount":
					t += cf
				default:
					isParam := false
					if fd.Type.Params != nil {
						for _, f := range fd.Type.Params.List {
							for _, n := range f.Names {
								if n.Name == k {
									if nt := namedOf(info.TypeOf(f.Type)); nt != nil && nt.Obj().Name() == "ValidatorIndex" {
										isParam = true
									}
								}
							}
						}
					}
					if isParam {
						a += cf
					} else {
						linear = false
					}
				}
			}
			if linear && (a != 0 || r != 0 || t != 0) {
				if a+r == 1 && a+t == 1 {
					c.ok(key, pos, "absolute validator index (units: position %+d, offset %+d)", a+r, a+t)
				} else {
					c.bad(key, pos, "pub2idx receives %s, which is not an absolute validator index (in units of position/offset it is %+d/%+d, an absolute index is +1/+1): on a cache forked at index k > 0 pubkey->index answers are off by k", types.ExprString(val), a+r, a+t)
				}
				return
			}
		}
		if derivesLen(val, 0) && !addsTrusted(val, 0) {
			c.bad(key, pos, "pub2idx receives %s, a position in this level's idx2pub (relative to trustedParentCount), where the absolute validator index is required: on a cache forked at index k > 0 every pubkey->index answer is short by k", types.ExprString(val))
		} else {
			c.ok(key, pos, "absolute validator index")
		}
	}
	// a length of idx2pub counts positions, a validator index is absolute: a comparison (resolved form) that weighs
	// len(recv.idx2pub) against anything weighs recv.trustedParentCount along with it (index ~ trusted + len, or
	// index - trusted ~ len); comparing an absolute index with the bare length is off by the fork-out point
	for _, mn := range sortedKeys(ms) {
		fn := "common.PubkeyCache." + mn
		seenPos := map[token.Pos]bool{}
		for _, st := range collectCmps(c.P)[fn] {
			if st.from != "" || seenPos[st.pos] {
				continue
			}
			seenPos[st.pos] = true
			cl, hasLen := st.pr["len(recv.idx2pub)"]
			if !hasLen || st.full {
				continue
			}
			// only comparisons that involve a validator index at all (lengths compared with lengths/constants are not about units)
			involvesIndex := false
			for a := range st.pr {
				if a != "" && a != "len(recv.idx2pub)" && a != "recv.trustedParentCount" {
					involvesIndex = true
				}
			}
			if !involvesIndex {
				continue
			}
			key := "PubkeyCache." + mn + ":units(" + st.text + ")"
			if st.pr["recv.trustedParentCount"] == cl {
				c.ok(key, st.pos, "the length is weighed together with trustedParentCount")
			} else {
				c.bad(key, st.pos, "`%s` compares a validator index with the bare length of idx2pub (resolved: %s): positions in idx2pub are relative to trustedParentCount, so on a forked cache the test is off by the fork-out point", st.text, canonCut(st.pr, st.op))
			}
		}
	}
	for _, mn := range sortedKeys(ms) {
		fd := ms[mn]
		if len(fd.Recv.List[0].Names) != 1 {
			continue
		}
		recv := info.Defs[fd.Recv.List[0].Names[0]]
		ast.Inspect(fd.Body, func(n ast.Node) bool {
			switch x := n.(type) {
			case *ast.IndexExpr:
				if !isRecvField(info, x.X, recv, "idx2pub") {
					return true
				}
				key := "PubkeyCache." + mn + ":idx2pub[" + types.ExprString(x.Index) + "]"
				// the position in its resolved form (locals read through, receiver `recv`): <absolute> - recv.trustedParentCount
				polyRecv = recv
				polyReach, polyPaths = reachingDefs(info, fd.Body), true
				ip, okp := exprPoly(info, x.Index, singleDefs(info, fd.Body), nil, 0)
				polyRecv, polyReach, polyPaths = nil, nil, false
				if okp && ip["recv.trustedParentCount"] == -1 && len(ip) >= 2 {
					c.ok(key, x.Pos(), "position relative to trustedParentCount")
				} else {
					c.bad(key, x.Pos(), "idx2pub is positioned with %s, which is not `index - trustedParentCount`: on a forked cache the wrong entry is addressed", types.ExprString(x.Index))
				}
			case *ast.AssignStmt:
				for i, l := range x.Lhs {
					if ix, ok := ast.Unparen(l).(*ast.IndexExpr); ok && isRecvField(info, ix.X, recv, "pub2idx") && i < len(x.Rhs) {
						checkStore(mn, recv, fd, x.Rhs[i], x.Pos())
					}
				}
			}
			return true
		})
	}
	// constructors filling a fresh cache (NewPubkeyCache): trustedParentCount is 0 there, positions are absolute
	for _, name := range []string{"NewPubkeyCache"} {
		_, fd := c.P.findFunc("eth2/beacon/common", name)
		if fd == nil {
			continue
		}
		ast.Inspect(fd.Body, func(n ast.Node) bool {
			if as, ok := n.(*ast.AssignStmt); ok {
				for i, l := range as.Lhs {
					if ix, ok := ast.Unparen(l).(*ast.IndexExpr); ok && i < len(as.Rhs) {
						if sel, ok := ast.Unparen(ix.X).(*ast.SelectorExpr); ok && sel.Sel.Name == "pub2idx" {
							c.ok("PubkeyCache."+name+":pub2idx="+types.ExprString(as.Rhs[i]), as.Pos(), "root cache (trustedParentCount 0): loop index is the absolute index")
						}
					}
				}
			}
			return true
		})
	}
}
