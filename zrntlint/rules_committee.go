package main

import (
	"go/ast"
	"go/token"
	"go/types"
	"golang.org/x/tools/go/packages"
	"strings"
)

// condCutOf: the cut written by a comparison (operands resolved through defs), "" when e is not one.
func condCutOf(info *types.Info, e ast.Expr, defs map[types.Object]localDef) (string, Poly, token.Token) {
	neg := false
	e = ast.Unparen(e)
	for {
		u, ok := e.(*ast.UnaryExpr)
		if !ok || u.Op != token.NOT {
			break
		}
		neg = !neg
		e = ast.Unparen(u.X)
	}
	be, ok := e.(*ast.BinaryExpr)
	if !ok {
		return "", nil, 0
	}
	switch be.Op {
	case token.LSS, token.LEQ, token.GTR, token.GEQ, token.EQL, token.NEQ:
	default:
		return "", nil, 0
	}
	l, ok1 := exprPoly(info, be.X, defs, nil, 0)
	r, ok2 := exprPoly(info, be.Y, defs, nil, 0)
	if !ok1 || !ok2 {
		return "", nil, 0
	}
	op := be.Op
	if neg {
		op = negOp[op]
	}
	p := polyAdd(l, r, -1)
	return canonCut(p, op), p, op
}

// holdsWhen: the condition `p op 0` read as a set: "x>K" style description over one variable is not needed; two
// conditions are the same set when cut and side agree. side: which side of the cut satisfies the condition.
func condSide(p Poly, op token.Token) string { return cutSide(p, op) }

func committeeCountRule(c *Ctx) {
	pk, fd := c.P.mustFunc("eth2/beacon/common", "CommitteeCount")
	info := pk.TypesInfo
	defs := singleDefs(info, fd.Body)
	key := "CommitteeCount"
	// the parameter holding the active validator count: the integer parameter
	var active string
	for _, f := range fd.Type.Params.List {
		for _, nm := range f.Names {
			if b, ok := info.TypeOf(f.Type).Underlying().(*types.Basic); ok && b.Info()&types.IsInteger != 0 {
				active = nm.Name
			}
		}
	}
	if active == "" {
		c.unm(key, fd.Pos(), "no integer parameter (active validator count)")
		return
	}
	base := polyDiv(polyDiv(polyAtom(active), polyAtom("SLOTS_PER_EPOCH")), polyAtom("TARGET_COMMITTEE_SIZE"))
	maxA := polyAtom("MAX_COMMITTEES_PER_SLOT")
	// the returned variable (or expression)
	var ret ast.Expr
	ast.Inspect(fd.Body, func(n ast.Node) bool {
		if r, ok := n.(*ast.ReturnStmt); ok && len(r.Results) == 1 {
			ret = r.Results[0]
		}
		return true
	})
	if ret == nil {
		c.unm(key, fd.Pos(), "no single-result return")
		return
	}
	// (i) written with the min/max builtins (a clamp written as a branch is the builtin after load), the returned
	// variable read through its reaching definitions
	polyReach, polyPaths = reachingDefs(info, fd.Body), true
	defer func() { polyReach, polyPaths = nil, false }()
	if rp, ok := exprPoly(info, ret, defs, nil, 0); ok {
		inner := "min(" + strings.Join(sortedStrings([]string{maxA.String(), strings.NewReplacer("*", "·", " ", "").Replace(base.String())}), ";") + ")"
		want := "max(" + strings.Join(sortedStrings([]string{"1", inner}), ";") + ")"
		if rp.String() == want {
			c.ok(key, fd.Pos(), "max(1, min(MAX_COMMITTEES_PER_SLOT, active / SLOTS_PER_EPOCH / TARGET_COMMITTEE_SIZE))")
			return
		}
	}
	rid, ok := ast.Unparen(ret).(*ast.Ident)
	if !ok {
		c.unm(key, fd.Pos(), "the result is neither a variable nor max(1, min(…))")
		return
	}
	x := rid.Name
	xo := info.ObjectOf(rid)
	// (ii) a variable: initial value, clamp, floor
	hasBase, clamp, floor := false, false, false
	var otherInit []string
	assignsIn := func(b *ast.BlockStmt, want Poly) bool {
		okA := false
		for _, st := range b.List {
			as, ok := st.(*ast.AssignStmt)
			if !ok || len(as.Lhs) != 1 || len(as.Rhs) != 1 {
				continue
			}
			if id, ok := as.Lhs[0].(*ast.Ident); ok && info.ObjectOf(id) == xo {
				if p, ok := exprPoly(info, as.Rhs[0], defs, nil, 0); ok && polyEq(p, want) {
					okA = true
				}
			}
		}
		return okA
	}
	wantClampCut := canonCut(polyAdd(polyAtom(x), maxA, -1), token.GTR)
	wantClampSide := cutSide(polyAdd(polyAtom(x), maxA, -1), token.GTR)
	floorCuts := map[string]string{
		canonCut(polyAtom(x), token.EQL):                            cutSide(polyAtom(x), token.EQL),
		canonCut(polyAdd(polyAtom(x), polyConst(1), -1), token.LSS): cutSide(polyAdd(polyAtom(x), polyConst(1), -1), token.LSS),
	}
	ast.Inspect(fd.Body, func(n ast.Node) bool {
		switch s := n.(type) {
		case *ast.AssignStmt:
			if len(s.Lhs) == 1 && len(s.Rhs) == 1 && s.Tok == token.ASSIGN {
				if id, ok := s.Lhs[0].(*ast.Ident); ok && info.ObjectOf(id) == xo {
					if p, ok := exprPoly(info, s.Rhs[0], nil, nil, 0); ok {
						switch p.String() {
						case "min(" + strings.Join(sortedStrings([]string{maxA.String(), x}), ";") + ")":
							clamp = true
						case "max(" + strings.Join(sortedStrings([]string{"1", x}), ";") + ")":
							floor = true
						}
					}
				}
			}
			if len(s.Lhs) == 1 && len(s.Rhs) == 1 && s.Tok == token.DEFINE {
				if id, ok := s.Lhs[0].(*ast.Ident); ok && info.ObjectOf(id) == xo {
					if p, ok := exprPoly(info, s.Rhs[0], defs, nil, 0); ok {
						if polyEq(p, base) {
							hasBase = true
						} else {
							otherInit = append(otherInit, p.String())
						}
					}
				}
			}
		case *ast.IfStmt:
			cut, p, op := condCutOf(info, s.Cond, defs)
			if cut == "" {
				return true
			}
			if cut == wantClampCut && cutSide(p, op) == wantClampSide && assignsIn(s.Body, maxA) {
				clamp = true
			}
			if side, ok := floorCuts[cut]; ok && cutSide(p, op) == side && assignsIn(s.Body, polyConst(1)) {
				floor = true
			}
		}
		return true
	})
	switch {
	case hasBase && clamp && floor:
		c.ok(key, fd.Pos(), "max(1, min(MAX_COMMITTEES_PER_SLOT, active / SLOTS_PER_EPOCH / TARGET_COMMITTEE_SIZE))")
	case !hasBase && !clamp && !floor && len(otherInit) == 0:
		c.unm(key, fd.Pos(), "formula written in an unrecognised form")
	default:
		c.bad(key, fd.Pos(), "committee count deviates from max(1, min(MAX_COMMITTEES_PER_SLOT, active // SLOTS_PER_EPOCH // TARGET_COMMITTEE_SIZE)) [initial value active/SLOTS_PER_EPOCH/TARGET_COMMITTEE_SIZE: %v (found %v); clamp to MAX_COMMITTEES_PER_SLOT: %v; floor at 1: %v]", hasBase, otherInit, clamp, floor)
	}
}

func sortedStrings(a []string) []string {
	b := append([]string{}, a...)
	for i := range b {
		for j := i + 1; j < len(b); j++ {
			if b[j] < b[i] {
				b[i], b[j] = b[j], b[i]
			}
		}
	}
	return b
}

// samplingRules: the proposer and the sync-committee sampler accept a candidate under the spec's one test
// (effective_balance * 255 >= MAX_EFFECTIVE_BALANCE * random_byte) and pick candidates with
// compute_shuffled_index(i % total, total, seed) over SHUFFLE_ROUND_COUNT rounds; ComputeProposers runs once per slot.
func samplingRules(c *Ctx) {
	type samp struct {
		found   bool
		pos     token.Pos
		okShape bool
		why     string
		absCut  string
		perm    []string // resolved forms of PermuteIndex's rounds, list size and seed arguments (type-named)
		permRaw []string
	}
	var samples []samp
	allCmps := collectCmps(c.P) // with the comparisons of unexported helpers, read at their call sites
	for _, name := range []string{"ComputeProposerIndex", "ComputeSyncCommitteeIndices"} {
		pk, fd := c.P.mustFunc("eth2/beacon/common", name)
		info := pk.TypesInfo
		var s samp
		// the registry's own reading of the effective balance, or an unexported getter of the package that hands out
		// nothing but that (every value it returns without an error is a call of EffectiveBalance)
		getters := map[string]bool{"EffectiveBalance": true}
		c.P.funcDecls(func(p2 *packages.Package, f2 *ast.FuncDecl) {
			if p2 != pk || f2.Body == nil || f2.Recv != nil || f2.Name.IsExported() {
				return
			}
			fdefs := singleDefs(info, f2.Body)
			all, any := true, false
			ast.Inspect(f2.Body, func(n ast.Node) bool {
				if _, isLit := n.(*ast.FuncLit); isLit {
					return false
				}
				r, ok := n.(*ast.ReturnStmt)
				if !ok || len(r.Results) == 0 {
					return true
				}
				if len(r.Results) >= 2 && !isNilExpr(info, r.Results[len(r.Results)-1]) {
					return true // an error return
				}
				any = true
				v := ast.Unparen(r.Results[0])
				if id, ok := v.(*ast.Ident); ok {
					if d, ok := fdefs[info.Uses[id]]; ok && d.rhs != nil {
						v = ast.Unparen(d.rhs)
					}
				}
				call, ok := v.(*ast.CallExpr)
				if !ok {
					all = false
					return true
				}
				if f := calleeFunc(info, call); f == nil || f.Name() != "EffectiveBalance" {
					all = false
				}
				return true
			})
			if any && all {
				getters[f2.Name.Name] = true
			}
		})
		fromRegistry := func(term string) bool {
			for g := range getters {
				if strings.HasPrefix(term, g+"(") {
					return true
				}
			}
			return false
		}
		for _, site := range allCmps["common."+name] {
			if !strings.Contains(site.pr.String(), "MAX_EFFECTIVE_BALANCE") {
				continue
			}
			if s.found && !s.okShape {
				break // an earlier test on MAX_EFFECTIVE_BALANCE is already not the spec's: report that one
			}
			s.found = true
			s.okShape = false
			s.pos = site.pos
			// orient: the MAX_EFFECTIVE_BALANCE term negative
			p, op, rop := site.pr, site.op, site.rop
			var maxTerm, balTerm string
			n := 0
			for k := range p {
				if k == "" {
					continue
				}
				n++
				if strings.Contains(k, "MAX_EFFECTIVE_BALANCE") {
					maxTerm = k
				} else {
					balTerm = k
				}
			}
			if n != 2 || maxTerm == "" || balTerm == "" || p[""] != 0 {
				s.why = "the test is not a comparison of two products: " + site.text
				break
			}
			if p[maxTerm] > 0 {
				p = polyMul(p, polyConst(-1))
				op = flipOp[op]
				if rop != 0 {
					rop = flipOp[rop]
				}
			}
			// 255 * balance - MAX_EFFECTIVE_BALANCE * byte: accepted when >= 0, i.e. skipped when < 0
			switch {
			case p[balTerm] != 255 || strings.Contains(balTerm, "*"):
				s.why = "the candidate's balance is not weighed by MAX_RANDOM_BYTE (255): " + site.text
			case p[maxTerm] != -1 || strings.Count(maxTerm, "*") != 1:
				s.why = "MAX_EFFECTIVE_BALANCE is not multiplied by exactly the random byte: " + site.text
			case !fromRegistry(balTerm):
				s.why = "the balance weighed is " + balTerm + ", not the candidate's effective balance read from the state's registry (a cached copy is stale once effective balances were updated in the same epoch transition): " + site.text
			case rop != 0 && rop != token.LSS:
				s.why = "the candidate is accepted on the wrong side of the test: " + site.text
			case rop == 0 && op != token.GEQ && op != token.LSS:
				s.why = "the boundary case (equality) is not accepted: " + site.text
			default:
				s.okShape = true
			}
			s.absCut = canonCutAbs(site.pa, site.cop())
		}
		defs := singleDefs(info, fd.Body)
		ast.Inspect(fd.Body, func(n ast.Node) bool {
			x, ok := n.(*ast.CallExpr)
			if !ok || len(x.Args) != 4 {
				return true
			}
			if f := calleeFunc(info, x); f == nil || f.Name() != "PermuteIndex" {
				return true
			}
			for _, i := range []int{0, 2, 3} {
				p, ok := exprPoly(info, x.Args[i], defs, nil, 0)
				if !ok {
					s.permRaw = append(s.permRaw, types.ExprString(x.Args[i]))
					s.perm = append(s.perm, types.ExprString(x.Args[i]))
					continue
				}
				s.permRaw = append(s.permRaw, p.String())
				polyAbstract = true
				polyAbsSeen = nil
				pa, _ := exprPoly(info, x.Args[i], defs, nil, 0)
				polyAbstract = false
				s.perm = append(s.perm, pa.String())
			}
			// the index argument: (…) % the same list size
			if ip, ok := exprPoly(info, x.Args[1], defs, nil, 0); ok {
				if lp, ok := exprPoly(info, x.Args[2], defs, nil, 0); ok {
					if !strings.HasPrefix(ip.String(), "mod(") || !strings.HasSuffix(ip.String(), ","+strings.NewReplacer("*", "·", " ", "").Replace(lp.String())+")") {
						s.perm = append(s.perm, "index not reduced modulo the list size: "+ip.String())
					}
				}
			}
			return true
		})
		samples = append(samples, s)
	}
	switch {
	case !samples[0].found || !samples[1].found:
		c.unm("sampling.acceptance", samples[0].pos, "balance-weighted acceptance test not found in both samplers")
	case !samples[0].okShape:
		c.bad("sampling.acceptance", samples[0].pos, "the spec accepts a candidate when effective_balance * MAX_RANDOM_BYTE >= MAX_EFFECTIVE_BALANCE * random_byte; ComputeProposerIndex: %s", samples[0].why)
	case !samples[1].okShape:
		c.bad("sampling.acceptance", samples[1].pos, "the spec accepts a candidate when effective_balance * MAX_RANDOM_BYTE >= MAX_EFFECTIVE_BALANCE * random_byte; ComputeSyncCommitteeIndices: %s", samples[1].why)
	default:
		c.ok("sampling.acceptance", samples[0].pos, "effective_balance * 255 >= MAX_EFFECTIVE_BALANCE * random_byte in both samplers")
	}
	p0, p1 := samples[0].perm, samples[1].perm
	switch {
	case len(p0) != 3 || len(p1) != 3:
		c.bad("sampling.permute", samples[0].pos, "candidate selection differs from compute_shuffled_index(i %% total, total, seed) with SHUFFLE_ROUND_COUNT rounds (%v / %v)", samples[0].permRaw, samples[1].permRaw)
	case !strings.Contains(p0[0], "SHUFFLE_ROUND_COUNT") || p0[0] != p1[0]:
		c.bad("sampling.permute", samples[0].pos, "the shuffle does not run SHUFFLE_ROUND_COUNT rounds in both samplers (%s / %s)", samples[0].permRaw[0], samples[1].permRaw[0])
	case !strings.HasPrefix(p0[1], "len(") || p0[1] != p1[1]:
		c.bad("sampling.permute", samples[0].pos, "the list size handed to the shuffle is not the number of active validators in both samplers (%s / %s)", samples[0].permRaw[1], samples[1].permRaw[1])
	default:
		c.ok("sampling.permute", samples[0].pos, "PermuteIndex(SHUFFLE_ROUND_COUNT, i %% len(active), len(active), seed) in both samplers")
	}
	// proposers per slot: SLOTS_PER_EPOCH entries, entry i from the seed of slot start+i (the seed formula itself is
	// formula.spec's common.ComputeProposers call:PutUint64#1)
	pk4, f4 := c.P.mustFunc("eth2/beacon/common", "ComputeProposers")
	info4 := pk4.TypesInfo
	// the call of ComputeProposerIndex, here or in a helper; the loop around it in its frame; how many rounds that loop
	// makes, read through locals and the helper's parameters; and where the result is stored
	top4 := newInlEnv(info4, f4.Body, nil, nil, nil, nil)
	var site *inlSite
	{
		seq := 0
		walkInlined(c.P, pk4, top4, 0, map[*ast.BlockStmt]bool{}, &seq, func(st inlSite) {
			if st.f.Name() == "ComputeProposerIndex" && site == nil {
				s := st
				site = &s
			}
		})
	}
	var loopVar types.Object
	bound := ""
	stored := false
	if site != nil {
		fr := site.env
		var loopBody *ast.BlockStmt
		for q := fr.parents[ast.Node(site.call)]; q != nil && loopVar == nil; q = fr.parents[q] {
			switch l := q.(type) {
			case *ast.ForStmt:
				if be, ok := ast.Unparen(l.Cond).(*ast.BinaryExpr); ok && countingLoop(fr.info, fr.parents, be) {
					cnt, lim := be.X, be.Y
					if be.Op == token.GTR {
						cnt, lim = be.Y, be.X
					}
					if p, ok := fr.poly(lim); ok {
						bound = p.String()
						loopVar = fr.info.ObjectOf(ast.Unparen(cnt).(*ast.Ident))
						loopBody = l.Body
					}
				}
			case *ast.RangeStmt:
				if id, ok := l.Key.(*ast.Ident); ok && id.Name != "_" {
					// for i := range proposers, proposers := make([]T, SLOTS_PER_EPOCH) (possibly a helper's parameter)
					x, xfr := fr.resolve(l.X)
					if mk, ok := x.(*ast.CallExpr); ok && len(mk.Args) >= 2 {
						if fid, ok := mk.Fun.(*ast.Ident); ok && fid.Name == "make" {
							if p, ok := xfr.poly(mk.Args[1]); ok {
								bound = p.String()
								loopVar = fr.info.ObjectOf(id)
								loopBody = l.Body
							}
						}
					}
				}
			}
		}
		if loopBody != nil {
			ast.Inspect(loopBody, func(n ast.Node) bool {
				as, ok := n.(*ast.AssignStmt)
				if !ok {
					return true
				}
				for _, l := range as.Lhs {
					if ix, ok := ast.Unparen(l).(*ast.IndexExpr); ok {
						if id, ok := ast.Unparen(stripConv(fr.info, ix.Index)).(*ast.Ident); ok && fr.info.ObjectOf(id) == loopVar {
							stored = true
						}
					}
				}
				return true
			})
		}
	}
	switch {
	case loopVar == nil:
		c.unm("ComputeProposers.slots", f4.Pos(), "per-slot proposer loop written in an unrecognised form")
	case bound != "SLOTS_PER_EPOCH":
		c.bad("ComputeProposers.slots", f4.Pos(), "proposers are computed for %s slots, an epoch has SLOTS_PER_EPOCH", bound)
	case !stored:
		c.bad("ComputeProposers.slots", f4.Pos(), "the proposer of slot i is not stored at position i")
	default:
		c.ok("ComputeProposers.slots", f4.Pos(), "one proposer per slot of the epoch, stored at the slot's position (seed: formula.spec common.ComputeProposers)")
	}
}
