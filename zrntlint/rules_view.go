package main

import (
	"go/ast"
	"go/constant"
	"go/token"
	"go/types"
	"sort"
	"strings"
	"unicode"

	"golang.org/x/tools/go/packages"
)

func init() {
	register(&Rule{Name: "view.index", Floor: 250,
		Doc: "every index-addressed access of a container view (recv.Get(i), recv.Set(i,x), recv.Fields[i], values[i] after FieldValues()) uses a constant index inside the descriptor's field count, the As*/view wrapper applied to it is shape-compatible with FieldDef[i], and an accessor named after a field does not index a different field",
		Run: ruleViewIndex})
	register(&Rule{Name: "view.iota", Floor: 100,
		Doc: "each iota block used to index a container view is dense from 0, has one member per descriptor field, and member k is named after FieldDef[k] and struct field k (three spellings of one order)",
		Run: ruleViewIota})
	register(&Rule{Name: "view.raw", Floor: 60,
		Doc: "in Raw()-style methods that rebuild the paired struct with keyed fields, the value placed in key K was read from index(K) of the view (name-free witness via positional struct<->descriptor pairing)",
		Run: ruleViewRaw})
	register(&Rule{Name: "view.build", Floor: 150,
		Doc: "every XType.FromFields(a0..an) passes as many arguments as the descriptor has fields; an argument derived from a field of the source struct sits at that field's position; an argument read from a pre-state getter in an upgrade sits at the position of the same-named post field, and every post field that exists in the pre-state is carried over from it",
		Run: ruleViewBuild})
	register(&Rule{Name: "view.elem", Floor: 10,
		Doc: "element views appended to / set on a basic list or vector view have the width of the descriptor's element type",
		Run: ruleViewElem})
	register(&Rule{Name: "lit.copy", Floor: 15,
		Doc: "a keyed composite literal that copies >=3 same-named fields from one source (K: x.K) does not fill a key K from a different field x.J when x also has K",
		Run: ruleLitCopy})
}

func camel(snake string) string {
	parts := strings.Split(snake, "_")
	for i, p := range parts {
		if p == "" {
			continue
		}
		r := []rune(p)
		r[0] = unicode.ToUpper(r[0])
		parts[i] = string(r)
	}
	return strings.Join(parts, "")
}

// viewInfo describes one container view type and its descriptor.
type viewInfo struct {
	pk     *packages.Package
	nt     *types.Named // XView
	name   string       // pkg.XView
	desc   *Shape       // container shape with Names
	strct  *types.Named // paired struct X (may be nil)
	fields []string     // CamelCase of FieldDef names
}

func collectViews(p *Prog, se *shapeEval) map[*types.Named]*viewInfo {
	out := map[*types.Named]*viewInfo{}
	for _, pk := range p.Pkgs {
		sc := pk.Types.Scope()
		for _, n := range sc.Names() {
			if !strings.HasSuffix(n, "View") {
				continue
			}
			tn, ok := sc.Lookup(n).(*types.TypeName)
			if !ok {
				continue
			}
			nt, ok := tn.Type().(*types.Named)
			if !ok {
				continue
			}
			st, ok := nt.Underlying().(*types.Struct)
			if !ok || st.NumFields() != 1 || !st.Field(0).Embedded() {
				continue
			}
			if e := namedOf(st.Field(0).Type()); e == nil || e.Obj().Name() != "ContainerView" {
				continue
			}
			base := strings.TrimSuffix(n, "View")
			dobj := sc.Lookup(base + "Type")
			if dobj == nil {
				continue
			}
			var desc *Shape
			switch o := dobj.(type) {
			case *types.Var, *types.Const:
				_, init := se.declOf(o)
				if init != nil {
					desc = se.descShape(pk, init)
				}
			case *types.Func:
				if mi := se.methods[o]; mi != nil {
					var ret ast.Expr
					ast.Inspect(mi.fd.Body, func(m ast.Node) bool {
						if r, ok := m.(*ast.ReturnStmt); ok && len(r.Results) == 1 {
							ret = r.Results[0]
						}
						return true
					})
					if ret != nil {
						desc = se.descShape(mi.pk, ret)
					}
				}
			}
			if desc == nil || desc.K != "container" {
				continue
			}
			vi := &viewInfo{pk: pk, nt: nt, name: pk.Types.Name() + "." + n, desc: desc}
			for _, fn := range desc.Names {
				vi.fields = append(vi.fields, camel(fn))
			}
			if so, ok := sc.Lookup(base).(*types.TypeName); ok {
				if snt, ok := so.Type().(*types.Named); ok {
					if sst, ok := snt.Underlying().(*types.Struct); ok && sst.NumFields() == len(desc.Fields) {
						vi.strct = snt
					}
				}
			}
			out[nt] = vi
		}
	}
	return out
}

// asKind follows an As* wrapper to the ztyp primitive it ends in and returns the shape class it accepts.
// For wrappers returning a zrnt container view, the view type is returned too.
func (se *shapeEval) asKind(f *types.Func, depth int) (kind *Shape, view *types.Named) {
	if f == nil || depth > 4 {
		return nil, nil
	}
	if isZtyp(f) {
		switch f.Name() {
		case "AsUint8":
			return &Shape{K: "uint", Bits: 8}, nil
		case "AsUint16":
			return &Shape{K: "uint", Bits: 16}, nil
		case "AsUint32":
			return &Shape{K: "uint", Bits: 32}, nil
		case "AsUint64":
			return &Shape{K: "uint", Bits: 64}, nil
		case "AsUint256":
			return &Shape{K: "uint", Bits: 256}, nil
		case "AsBool":
			return &Shape{K: "bool"}, nil
		case "AsRoot":
			return &Shape{K: "bytes", N: polyConst(32)}, nil
		case "AsContainer":
			return &Shape{K: "container"}, nil
		case "AsBasicList", "AsComplexList":
			return &Shape{K: "list"}, nil
		case "AsBasicVector", "AsComplexVector":
			return &Shape{K: "vector"}, nil
		case "AsBitVector":
			return &Shape{K: "bitvector"}, nil
		case "AsBitList":
			return &Shape{K: "bitlist"}, nil
		}
		return nil, nil
	}
	mi := se.methods[f]
	if mi == nil {
		return nil, nil
	}
	// result view type
	if sig, ok := f.Type().(*types.Signature); ok && sig.Results().Len() >= 1 {
		if nt := namedOf(sig.Results().At(0).Type()); nt != nil && isZrnt(nt.Obj()) && strings.HasSuffix(nt.Obj().Name(), "View") {
			view = nt
		}
	}
	var inner *types.Func
	ast.Inspect(mi.fd.Body, func(n ast.Node) bool {
		if inner != nil {
			return false
		}
		if call, ok := n.(*ast.CallExpr); ok && len(call.Args) == 2 {
			if g := calleeFunc(mi.pk.TypesInfo, call); g != nil && strings.HasPrefix(g.Name(), "As") {
				inner = g
			}
		}
		return true
	})
	k, v2 := se.asKind(inner, depth+1)
	if view == nil {
		view = v2
	}
	return k, view
}

// kindCompatible: wrapper kind vs descriptor field shape.
func kindCompatible(k, field *Shape) bool {
	field = canon(field)
	switch k.K {
	case "uint":
		return field.K == "uint" && field.Bits == k.Bits
	case "bool":
		return field.K == "bool"
	case "bytes":
		return field.K == "bytes" && polyEq(field.N, k.N)
	case "container":
		return field.K == "container"
	case "list":
		return field.K == "list" || field.K == "bytelist"
	case "vector":
		return field.K == "vector" || field.K == "bytes"
	case "bitvector":
		return field.K == "bitvector"
	case "bitlist":
		return field.K == "bitlist"
	}
	return true
}

// viewTypeKind classifies the static type of a value passed to Set.
func viewTypeKind(t types.Type) *Shape {
	nt := namedOf(t)
	if nt == nil {
		return nil
	}
	if isZtyp(nt.Obj()) {
		if s, ok := ztypViewShapes[nt.Obj().Name()]; ok {
			return s
		}
		switch nt.Obj().Name() {
		case "ContainerView":
			return &Shape{K: "container"}
		case "BasicListView", "ComplexListView":
			return &Shape{K: "list"}
		case "BasicVectorView", "ComplexVectorView":
			return &Shape{K: "vector"}
		case "BitVectorView":
			return &Shape{K: "bitvector"}
		case "BitListView":
			return &Shape{K: "bitlist"}
		}
		return nil
	}
	if st, ok := nt.Underlying().(*types.Struct); ok && st.NumFields() == 1 && st.Field(0).Embedded() {
		return viewTypeKind(st.Field(0).Type())
	}
	return nil
}

// indexSite is one index-addressed access of a container view inside a method of that view.
type indexSite struct {
	vi      *viewInfo
	method  *ast.FuncDecl
	pk      *packages.Package
	idxE    ast.Expr
	idx     int64
	isConst bool
	set     bool
	node    ast.Node    // the Get/Set call or index expression
	wrap    *types.Func // As* wrapper applied directly to it (getter sites)
	setArg  ast.Expr
}

func findIndexSites(p *Prog, views map[*types.Named]*viewInfo) []indexSite {
	var sites []indexSite
	p.funcDecls(func(pk *packages.Package, fd *ast.FuncDecl) {
		if fd.Recv == nil || len(fd.Recv.List) != 1 || len(fd.Recv.List[0].Names) != 1 {
			return
		}
		info := pk.TypesInfo
		rt := namedOf(info.TypeOf(fd.Recv.List[0].Type))
		vi := views[rt]
		if vi == nil {
			return
		}
		recvObj := info.Defs[fd.Recv.List[0].Names[0]]
		isRecv := func(e ast.Expr) bool {
			e = ast.Unparen(e)
			if sel, ok := e.(*ast.SelectorExpr); ok && sel.Sel.Name == "ContainerView" {
				e = ast.Unparen(sel.X)
			}
			id, ok := e.(*ast.Ident)
			return ok && info.Uses[id] == recvObj
		}
		// locals assigned from recv.FieldValues()
		fieldVals := map[types.Object]bool{}
		ast.Inspect(fd.Body, func(n ast.Node) bool {
			as, ok := n.(*ast.AssignStmt)
			if !ok || len(as.Rhs) != 1 {
				return true
			}
			call, ok := ast.Unparen(as.Rhs[0]).(*ast.CallExpr)
			if !ok {
				return true
			}
			sel, ok := call.Fun.(*ast.SelectorExpr)
			if !ok || sel.Sel.Name != "FieldValues" || !isRecv(sel.X) {
				return true
			}
			if id, ok := as.Lhs[0].(*ast.Ident); ok {
				if o := info.Defs[id]; o != nil {
					fieldVals[o] = true
				} else if o := info.Uses[id]; o != nil {
					fieldVals[o] = true
				}
			}
			return true
		})
		mk := func(e ast.Expr) (int64, bool) {
			if tv, ok := info.Types[e]; ok && tv.Value != nil {
				if v, ok := constant.Int64Val(constant.ToInt(tv.Value)); ok {
					return v, true
				}
			}
			return 0, false
		}
		// parent map for wrapper detection
		parent := map[ast.Node]ast.Node{}
		var stack []ast.Node
		ast.Inspect(fd.Body, func(n ast.Node) bool {
			if n == nil {
				stack = stack[:len(stack)-1]
				return true
			}
			if len(stack) > 0 {
				parent[n] = stack[len(stack)-1]
			}
			stack = append(stack, n)
			return true
		})
		wrapperOf := func(n ast.Node) *types.Func {
			if pc, ok := parent[n].(*ast.CallExpr); ok && len(pc.Args) >= 1 && pc.Args[0] == n {
				if f := calleeFunc(info, pc); f != nil && strings.HasPrefix(f.Name(), "As") {
					return f
				}
			}
			return nil
		}
		ast.Inspect(fd.Body, func(n ast.Node) bool {
			switch x := n.(type) {
			case *ast.CallExpr:
				sel, ok := x.Fun.(*ast.SelectorExpr)
				if !ok || !isRecv(sel.X) {
					return true
				}
				if sel.Sel.Name == "Get" && len(x.Args) == 1 {
					v, c := mk(x.Args[0])
					sites = append(sites, indexSite{vi: vi, method: fd, pk: pk, idxE: x.Args[0], idx: v, isConst: c, node: x, wrap: wrapperOf(x)})
				} else if sel.Sel.Name == "Set" && len(x.Args) == 2 {
					// only the ContainerView.Set(i, view) form (not CheckpointView.Set(*Checkpoint))
					if f := calleeFunc(info, x); f != nil && isZtyp(f) {
						v, c := mk(x.Args[0])
						sites = append(sites, indexSite{vi: vi, method: fd, pk: pk, idxE: x.Args[0], idx: v, isConst: c, node: x, set: true, setArg: x.Args[1]})
					}
				}
			case *ast.IndexExpr:
				base := ast.Unparen(x.X)
				if sel, ok := base.(*ast.SelectorExpr); ok && sel.Sel.Name == "Fields" && isRecv(sel.X) {
					v, c := mk(x.Index)
					sites = append(sites, indexSite{vi: vi, method: fd, pk: pk, idxE: x.Index, idx: v, isConst: c, node: x})
				} else if id, ok := base.(*ast.Ident); ok && fieldVals[info.Uses[id]] {
					v, c := mk(x.Index)
					sites = append(sites, indexSite{vi: vi, method: fd, pk: pk, idxE: x.Index, idx: v, isConst: c, node: x, wrap: wrapperOf(x)})
				}
			}
			return true
		})
	})
	// a helper method that takes the field index as a parameter (checkpointAt(field)) addresses whatever its callers
	// pass: each call with a constant index is a site of the CALLER; the parametric site itself is then resolved
	for round := 0; round < 2; round++ {
		var next []indexSite
		changed := false
		for _, st := range sites {
			if st.isConst {
				next = append(next, st)
				continue
			}
			id, ok := ast.Unparen(st.idxE).(*ast.Ident)
			if !ok {
				next = append(next, st)
				continue
			}
			info := st.pk.TypesInfo
			pidx := paramIndex(st.method, info, info.Uses[id])
			self, _ := info.Defs[st.method.Name].(*types.Func)
			if pidx < 0 || self == nil {
				next = append(next, st)
				continue
			}
			resolved := 0
			p.funcDecls(func(pk2 *packages.Package, fd2 *ast.FuncDecl) {
				if pk2 != st.pk || fd2.Body == nil || fd2 == st.method {
					return
				}
				ast.Inspect(fd2.Body, func(n ast.Node) bool {
					call, ok := n.(*ast.CallExpr)
					if !ok || pidx >= len(call.Args) {
						return true
					}
					if f := calleeFunc(info, call); f == nil || f != self {
						return true
					}
					a := call.Args[pidx]
					cs := st
					cs.method = fd2
					cs.idxE = a
					cs.node = call
					cs.isConst = false
					if tv, ok := info.Types[a]; ok && tv.Value != nil {
						if v, ok := constant.Int64Val(constant.ToInt(tv.Value)); ok {
							cs.idx, cs.isConst = v, true
						}
					}
					next = append(next, cs)
					resolved++
					return true
				})
			})
			if resolved == 0 {
				next = append(next, st)
			} else {
				changed = true
			}
		}
		sites = next
		if !changed {
			break
		}
	}
	return sites
}

func ruleViewIndex(c *Ctx) {
	se := newShapeEval(c.P)
	views := collectViews(c.P, se)
	if len(views) < 20 {
		anchorFail("only %d container views with descriptors found", len(views))
	}
	c.stat("container_views", len(views))
	sites := findIndexSites(c.P, views)
	c.stat("index_sites", len(sites))
	// per method: set of distinct indices (for the name-contradiction check)
	type mkey struct {
		vi *viewInfo
		fd *ast.FuncDecl
	}
	perMethod := map[mkey]map[int64]bool{}
	for _, s := range sites {
		k := mkey{s.vi, s.method}
		if perMethod[k] == nil {
			perMethod[k] = map[int64]bool{}
		}
		if s.isConst {
			perMethod[k][s.idx] = true
		}
	}
	witnessed := 0
	for _, s := range sites {
		key := s.vi.name + "." + s.method.Name.Name + "[" + types.ExprString(s.idxE) + "]"
		n := len(s.vi.desc.Fields)
		if !s.isConst {
			c.unm(key, s.node.Pos(), "index is not a constant")
			continue
		}
		if s.idx < 0 || int(s.idx) >= n {
			c.bad(key, s.node.Pos(), "index %d is outside the %d fields of %s", s.idx, n, s.vi.desc.Src)
			continue
		}
		field := s.vi.desc.Fields[s.idx]
		fname := s.vi.fields[s.idx]
		// (c) wrapper / set-argument compatibility
		if s.wrap != nil {
			k, vt := se.asKind(s.wrap, 0)
			if k != nil && !kindCompatible(k, field) {
				c.bad(key, s.node.Pos(), "%s(...) expects %s but field %d (%s) of %s is %s", s.wrap.Name(), k.String(), s.idx, fname, s.vi.desc.Src, truncate(canon(field).String(), 60))
				continue
			}
			if k != nil && k.K == "container" && vt != nil {
				if sub := views[vt]; sub != nil {
					if d, _ := shapeDiff(sub.desc, field, ""); d != "" {
						c.bad(key, s.node.Pos(), "%s(...) yields a %s but field %d (%s) has another shape%s", s.wrap.Name(), vt.Obj().Name(), s.idx, fname, d)
						continue
					}
				}
			}
		}
		if s.set && s.setArg != nil {
			if k := viewTypeKind(s.pk.TypesInfo.TypeOf(s.setArg)); k != nil && !kindCompatible(k, field) {
				c.bad(key, s.node.Pos(), "Set stores a %s view into field %d (%s) of shape %s", k.String(), s.idx, fname, truncate(canon(field).String(), 60))
				continue
			}
		}
		// (d) name contradiction: only single-index accessors
		mname := strings.TrimPrefix(s.method.Name.Name, "Set")
		if len(perMethod[mkey{s.vi, s.method}]) == 1 {
			other := -1
			for j, fn := range s.vi.fields {
				if fn == mname && int64(j) != s.idx {
					other = j
				}
			}
			if fname == mname {
				witnessed++
			} else if other >= 0 {
				c.bad(key, s.node.Pos(), "accessor %s indexes field %d (%s) but is named after field %d (%s)", s.method.Name.Name, s.idx, fname, other, s.vi.fields[other])
				continue
			}
		}
		c.ok(key, s.node.Pos(), "field %d %s", s.idx, fname)
	}
	c.stat("name_witnessed_accessors", witnessed)
	if witnessed < 150 {
		anchorFail("only %d accessors are name-witnessed (expected > 150): naming convention no longer resolves", witnessed)
	}
}

func ruleViewIota(c *Ctx) {
	se := newShapeEval(c.P)
	views := collectViews(c.P, se)
	sites := findIndexSites(c.P, views)
	// const object -> view(s) it indexes
	type blockInfo struct {
		pk    *packages.Package
		decl  *ast.GenDecl
		views map[*viewInfo]bool
	}
	blocks := map[*ast.GenDecl]*blockInfo{}
	declOfConst := map[types.Object]*ast.GenDecl{}
	for _, pk := range c.P.Pkgs {
		for _, f := range pk.Syntax {
			for _, d := range f.Decls {
				gd, ok := d.(*ast.GenDecl)
				if !ok || gd.Tok != token.CONST || len(gd.Specs) < 2 {
					continue
				}
				for _, s := range gd.Specs {
					for _, n := range s.(*ast.ValueSpec).Names {
						if o := pk.TypesInfo.Defs[n]; o != nil {
							declOfConst[o] = gd
						}
					}
				}
			}
		}
	}
	for _, s := range sites {
		var id *ast.Ident
		switch e := ast.Unparen(s.idxE).(type) {
		case *ast.Ident:
			id = e
		case *ast.SelectorExpr:
			id = e.Sel
		}
		if id == nil {
			continue
		}
		obj := s.pk.TypesInfo.Uses[id]
		gd := declOfConst[obj]
		if gd == nil {
			continue
		}
		bi := blocks[gd]
		if bi == nil {
			bi = &blockInfo{pk: c.P.ByPth[obj.Pkg().Path()], decl: gd, views: map[*viewInfo]bool{}}
			blocks[gd] = bi
		}
		bi.views[s.vi] = true
	}
	c.stat("iota_blocks", len(blocks))
	if len(blocks) < 6 {
		anchorFail("only %d index constant blocks found (expected the state blocks of every fork)", len(blocks))
	}
	var gds []*ast.GenDecl
	for gd := range blocks {
		gds = append(gds, gd)
	}
	sort.Slice(gds, func(i, j int) bool { return gds[i].Pos() < gds[j].Pos() })
	for _, gd := range gds {
		bi := blocks[gd]
		var vis []*viewInfo
		for v := range bi.views {
			vis = append(vis, v)
		}
		sort.Slice(vis, func(i, j int) bool { return vis[i].name < vis[j].name })
		// members (drop trailing sentinel like __end)
		type mem struct {
			name string
			val  int64
			pos  token.Pos
		}
		var mems []mem
		for _, s := range gd.Specs {
			for _, n := range s.(*ast.ValueSpec).Names {
				o, ok := bi.pk.TypesInfo.Defs[n].(*types.Const)
				if !ok {
					continue
				}
				v, _ := constant.Int64Val(constant.ToInt(o.Val()))
				mems = append(mems, mem{n.Name, v, n.Pos()})
			}
		}
		for _, vi := range vis {
			blockName := vi.name + "#" + mems[0].name
			ms := mems
			if len(ms) == len(vi.fields)+1 && strings.Contains(strings.ToLower(ms[len(ms)-1].name), "end") {
				ms = ms[:len(ms)-1]
			}
			if len(ms) != len(vi.fields) {
				c.bad(blockName+".count", gd.Pos(), "index block has %d members, descriptor %s has %d fields", len(ms), vi.desc.Src, len(vi.fields))
				continue
			}
			var sstruct *types.Struct
			if vi.strct != nil {
				sstruct = vi.strct.Underlying().(*types.Struct)
			}
			for k, m := range ms {
				key := blockName + "." + m.name
				if m.val != int64(k) {
					c.bad(key, m.pos, "member %d of the index block has value %d (block must be dense from 0)", k, m.val)
					continue
				}
				// witness: the longest field name that is a suffix of the constant's name (case/underscore-insensitive)
				want := vi.fields[k]
				lname := strings.ToLower(strings.ReplaceAll(m.name, "_", ""))
				other, otherLen := -1, 0
				for j, fn := range vi.fields {
					lf := strings.ToLower(fn)
					if strings.HasSuffix(lname, lf) && len(lf) > otherLen {
						other, otherLen = j, len(lf)
					}
				}
				if other != k {
					if other >= 0 {
						c.bad(key, m.pos, "constant %s has value %d, but field %d of %s is %s; the name spells field %d (%s)", m.name, k, k, vi.desc.Src, want, other, vi.fields[other])
					} else {
						c.ok(key, m.pos, "value %d (name does not spell a field; unwitnessed)", k)
					}
					continue
				}
				if sstruct != nil && !strings.EqualFold(sstruct.Field(k).Name(), want) {
					// struct field order is tied to the descriptor by ssz.descriptor (shapes); names are only a witness
					other := -1
					for j := 0; j < sstruct.NumFields(); j++ {
						if strings.EqualFold(sstruct.Field(j).Name(), want) {
							other = j
						}
					}
					if other >= 0 {
						c.bad(key, m.pos, "descriptor field %d is %s but struct %s has %s at position %d and %s at %d", k, want, vi.strct.Obj().Name(), sstruct.Field(k).Name(), k, want, other)
						continue
					}
				}
				c.ok(key, m.pos, "= %d = FieldDef %q", k, vi.desc.Names[k])
			}
		}
	}
}

// singleDefs maps local objects with exactly one definition in fd to their defining RHS (and position in a tuple assign).
type localDef struct {
	rhs ast.Expr
	pos int // index among LHS when RHS is a single multi-value call
	n   int // number of LHS
}

func singleDefs(info *types.Info, body *ast.BlockStmt) map[types.Object]localDef {
	defs := map[types.Object]localDef{}
	cnt := map[types.Object]int{}
	ast.Inspect(body, func(n ast.Node) bool {
		switch x := n.(type) {
		case *ast.AssignStmt:
			for i, l := range x.Lhs {
				id, ok := l.(*ast.Ident)
				if !ok || id.Name == "_" {
					continue
				}
				o := info.Defs[id]
				if o == nil {
					o = info.Uses[id]
				}
				if o == nil {
					continue
				}
				cnt[o]++
				if len(x.Rhs) == len(x.Lhs) {
					defs[o] = localDef{x.Rhs[i], 0, 1}
				} else if len(x.Rhs) == 1 {
					defs[o] = localDef{x.Rhs[0], i, len(x.Lhs)}
				}
			}
		case *ast.IncDecStmt:
			// i++ / i-- re-define the variable: a loop counter is not a single-definition local
			if id, ok := ast.Unparen(x.X).(*ast.Ident); ok {
				if o := info.ObjectOf(id); o != nil {
					cnt[o]++
				}
			}
		case *ast.ValueSpec:
			for i, id := range x.Names {
				if o := info.Defs[id]; o != nil {
					cnt[o]++
					if i < len(x.Values) {
						defs[o] = localDef{x.Values[i], 0, 1}
					}
				}
			}
		}
		return true
	})
	for o, c := range cnt {
		if c != 1 {
			// `err` style re-assignment: drop
			delete(defs, o)
		}
	}
	return defs
}

func ruleViewRaw(c *Ctx) {
	se := newShapeEval(c.P)
	views := collectViews(c.P, se)
	sites := findIndexSites(c.P, views)
	// getter method -> its single index
	type mk struct {
		vi   *viewInfo
		name string
	}
	getterIdx := map[mk]int64{}
	multi := map[mk]bool{}
	for _, s := range sites {
		if s.set || !s.isConst {
			continue
		}
		k := mk{s.vi, s.method.Name.Name}
		if v, ok := getterIdx[k]; ok && v != s.idx {
			multi[k] = true
		}
		getterIdx[k] = s.idx
	}
	siteAt := map[ast.Node]indexSite{}
	for _, s := range sites {
		siteAt[s.node] = s
	}
	for _, vi := range views {
		fieldIdx := map[string]int{}
		if vi.strct != nil {
			sst := vi.strct.Underlying().(*types.Struct)
			for i := 0; i < sst.NumFields(); i++ {
				fieldIdx[sst.Field(i).Name()] = i
			}
		}
		for i := 0; i < vi.nt.NumMethods(); i++ {
			mi := se.methods[vi.nt.Method(i).Origin()]
			if mi == nil {
				continue
			}
			info := mi.pk.TypesInfo
			var recvObj types.Object
			if len(mi.fd.Recv.List[0].Names) == 1 {
				recvObj = info.Defs[mi.fd.Recv.List[0].Names[0]]
			}
			defs := singleDefs(info, mi.fd.Body)
			// origin index of an expression: AsY(recv.Get(i)) / AsY(values[i], err) / recv.Getter() / deref/Raw of those
			var origin func(e ast.Expr, depth int) (int64, bool)
			origin = func(e ast.Expr, depth int) (int64, bool) {
				if depth > 6 {
					return 0, false
				}
				e = ast.Unparen(e)
				switch x := e.(type) {
				case *ast.StarExpr:
					return origin(x.X, depth+1)
				case *ast.UnaryExpr:
					return origin(x.X, depth+1)
				case *ast.Ident:
					if d, ok := defs[info.Uses[x]]; ok && d.pos == 0 {
						return origin(d.rhs, depth+1)
					}
				case *ast.CallExpr:
					if isConversion(info, x) && len(x.Args) == 1 {
						return origin(x.Args[0], depth+1)
					}
					// direct site as first arg
					if len(x.Args) >= 1 {
						if s, ok := siteAt[ast.Unparen(x.Args[0])]; ok && s.isConst {
							return s.idx, true
						}
					}
					if sel, ok := x.Fun.(*ast.SelectorExpr); ok {
						// recv.Getter()
						if id, ok := ast.Unparen(sel.X).(*ast.Ident); ok && info.Uses[id] == recvObj && len(x.Args) == 0 {
							k := mk{vi, sel.Sel.Name}
							if v, ok := getterIdx[k]; ok && !multi[k] {
								return v, true
							}
							return 0, false
						}
						// something.Raw() / something.View() on a traced value
						if len(x.Args) <= 1 {
							return origin(sel.X, depth+1)
						}
					}
				}
				return 0, false
			}
			// assignment-style flatteners: `dst.F, err = AsY(values[i], err)` / `dst.F = T(x)` with x read from index i.
			// dst is any struct whose field is named like a descriptor field: the name must be that of field i
			// (contradiction form: only a field name belonging to ANOTHER index is a violation)
			ast.Inspect(mi.fd.Body, func(n ast.Node) bool {
				as, ok := n.(*ast.AssignStmt)
				if !ok || len(as.Rhs) != 1 || len(as.Lhs) < 1 {
					return true
				}
				sel, ok := ast.Unparen(as.Lhs[0]).(*ast.SelectorExpr)
				if !ok {
					return true
				}
				if id, ok := ast.Unparen(sel.X).(*ast.Ident); !ok || info.Uses[id] == recvObj {
					return true
				}
				if s, ok := info.Selections[sel]; !ok || s.Kind() != types.FieldVal {
					return true
				}
				got, ok := origin(as.Rhs[0], 0)
				if !ok {
					return true
				}
				want := -1
				for j, fn := range vi.fields {
					if fn == sel.Sel.Name {
						want = j
					}
				}
				if want < 0 {
					return true
				}
				key := vi.name + "." + mi.fd.Name.Name + "{" + sel.Sel.Name + "}"
				if int(got) != want {
					c.bad(key, as.Pos(), "%s is filled from view index %d (%s); the field named %s is index %d", types.ExprString(sel), got, vi.fields[got], sel.Sel.Name, want)
				} else {
					c.ok(key, as.Pos(), "from index %d", got)
				}
				return true
			})
			ast.Inspect(mi.fd.Body, func(n ast.Node) bool {
				cl, ok := n.(*ast.CompositeLit)
				if !ok {
					return true
				}
				if nt := namedOf(info.TypeOf(cl)); nt != vi.strct || vi.strct == nil {
					return true
				}
				for _, el := range cl.Elts {
					kv, ok := el.(*ast.KeyValueExpr)
					if !ok {
						continue
					}
					kid, ok := kv.Key.(*ast.Ident)
					if !ok {
						continue
					}
					want, ok := fieldIdx[kid.Name]
					if !ok {
						continue
					}
					key := vi.name + "." + mi.fd.Name.Name + "{" + kid.Name + "}"
					got, ok := origin(kv.Value, 0)
					if !ok {
						c.info(key, kv.Pos(), "origin of %s not traced", types.ExprString(kv.Value))
						continue
					}
					if int(got) != want {
						c.bad(key, kv.Pos(), "struct field %s (position %d) is filled from view index %d (%s)", kid.Name, want, got, vi.fields[got])
					} else {
						c.ok(key, kv.Pos(), "from index %d", got)
					}
				}
				return true
			})
		}
	}
}

func ruleViewBuild(c *Ctx) {
	se := newShapeEval(c.P)
	views := collectViews(c.P, se)
	sites := findIndexSites(c.P, views)
	type mk struct {
		vi   *viewInfo
		name string
	}
	getterIdx := map[mk]int64{}
	multi := map[mk]bool{}
	for _, s := range sites {
		if s.set || !s.isConst {
			continue
		}
		k := mk{s.vi, s.method.Name.Name}
		if v, ok := getterIdx[k]; ok && v != s.idx {
			multi[k] = true
		}
		getterIdx[k] = s.idx
	}
	nCalls := 0
	c.P.funcDecls(func(pk *packages.Package, fd *ast.FuncDecl) {
		info := pk.TypesInfo
		var recvObj types.Object
		var recvStruct *types.Struct
		if fd.Recv != nil && len(fd.Recv.List) == 1 && len(fd.Recv.List[0].Names) == 1 {
			recvObj = info.Defs[fd.Recv.List[0].Names[0]]
			if nt := namedOf(info.TypeOf(fd.Recv.List[0].Type)); nt != nil {
				recvStruct, _ = nt.Underlying().(*types.Struct)
			}
		}
		// pre-state parameter of an upgrade: a parameter whose type is a container view
		preParams := map[types.Object]*viewInfo{}
		if fd.Type.Params != nil {
			for _, f := range fd.Type.Params.List {
				if vi := views[namedOf(info.TypeOf(f.Type))]; vi != nil {
					for _, n := range f.Names {
						preParams[info.Defs[n]] = vi
					}
				}
			}
		}
		defs := singleDefs(info, fd.Body)
		ast.Inspect(fd.Body, func(n ast.Node) bool {
			call, ok := n.(*ast.CallExpr)
			if !ok {
				return true
			}
			sel, ok := call.Fun.(*ast.SelectorExpr)
			if !ok || sel.Sel.Name != "FromFields" {
				return true
			}
			if f := calleeFunc(info, call); f == nil || !isZtyp(f) {
				return true
			}
			dx := sel.X
			if id, ok := ast.Unparen(dx).(*ast.Ident); ok {
				if d, ok := defs[info.Uses[id]]; ok && d.pos == 0 {
					dx = d.rhs // descriptor built in a local: t := ContainerType(...)
				}
			}
			desc := se.descShape(pk, dx)
			fname := pkgShort(pk.Types) + "." + funcName(fd)
			nCalls++
			if desc.K != "container" {
				c.unm(fname+".FromFields", call.Pos(), "descriptor %s not resolved: %s", types.ExprString(sel.X), desc.Why)
				return true
			}
			if call.Ellipsis.IsValid() {
				c.unm(fname+".FromFields", call.Pos(), "variadic spread")
				return true
			}
			if len(call.Args) != len(desc.Fields) {
				c.bad(fname+".FromFields#count", call.Pos(), "%d arguments for the %d fields of %s", len(call.Args), len(desc.Fields), desc.Src)
				return true
			}
			c.ok(fname+".FromFields#count", call.Pos(), "%d arguments = %d fields of %s", len(call.Args), len(desc.Fields), desc.Src)
			postNames := make([]string, len(desc.Names))
			for i, nme := range desc.Names {
				postNames[i] = camel(nme)
			}
			fedFromPre := map[string]bool{}
			var preVI *viewInfo
			for i, a := range call.Args {
				key := fname + ".FromFields[" + postNames[i] + "]"
				// name contradiction: a variable that spells the name of ANOTHER field of this container is passed here
				{
					e := ast.Unparen(a)
					if ue, ok := e.(*ast.UnaryExpr); ok {
						e = ast.Unparen(ue.X)
					}
					if id, ok := e.(*ast.Ident); ok && !strings.EqualFold(id.Name, postNames[i]) {
						for j, pn := range postNames {
							if j != i && strings.EqualFold(id.Name, pn) {
								c.bad(key+"#name", a.Pos(), "%s passes the variable %s at position %d (field %s) of %s although field %d is named %s: two same-typed fields are crossed", fname, id.Name, i, desc.Names[i], desc.Src, j, desc.Names[j])
							}
						}
					}
				}
				// origin of the argument along value-carrying steps only (conversion, &, *, type assertion,
				// x.View()/x.Copy()-style receiver calls, single-definition locals); sizes and other call
				// arguments (make(T, valCount)) are not followed.
				recvFields := map[int]string{}
				preGetters := map[int64]string{}
				unresolvedPre := false
				var walk func(e ast.Expr, depth int)
				walk = func(e ast.Expr, depth int) {
					if depth > 10 || e == nil {
						return
					}
					e = ast.Unparen(e)
					switch x := e.(type) {
					case *ast.UnaryExpr:
						walk(x.X, depth+1)
					case *ast.StarExpr:
						walk(x.X, depth+1)
					case *ast.TypeAssertExpr:
						walk(x.X, depth+1)
					case *ast.Ident:
						if d, ok := defs[info.Uses[x]]; ok && d.pos == 0 {
							walk(d.rhs, depth+1)
						}
					case *ast.SelectorExpr:
						if id, ok := ast.Unparen(x.X).(*ast.Ident); ok {
							o := info.Uses[id]
							if o != nil && o == recvObj && recvStruct != nil {
								if s, ok := info.Selections[x]; ok && s.Kind() == types.FieldVal && len(s.Index()) == 1 {
									recvFields[s.Index()[0]] = x.Sel.Name
								}
							}
						}
					case *ast.CallExpr:
						if isConversion(info, x) && len(x.Args) == 1 {
							walk(x.Args[0], depth+1)
							return
						}
						// ViewPubkey(&x) / common.ViewSignature(&x): the repo's value->view helper functions
						if f := calleeFunc(info, x); f != nil && len(x.Args) == 1 && strings.HasPrefix(f.Name(), "View") {
							if sig, ok := f.Type().(*types.Signature); ok && sig.Recv() == nil {
								walk(x.Args[0], depth+1)
								return
							}
						}
						if s2, ok := x.Fun.(*ast.SelectorExpr); ok {
							if id, ok := ast.Unparen(s2.X).(*ast.Ident); ok {
								if vi := preParams[info.Uses[id]]; vi != nil {
									preVI = vi
									k := mk{vi, s2.Sel.Name}
									if v, ok := getterIdx[k]; ok && !multi[k] {
										preGetters[v] = s2.Sel.Name
									} else {
										unresolvedPre = true
									}
									return
								}
							}
							// method call on a traced value: x.View(), x.View(spec), x.Copy(), x.Raw()
							if _, isPkg := info.Uses[identOf(s2.X)].(*types.PkgName); !isPkg && len(x.Args) <= 1 {
								walk(s2.X, depth+1)
							}
						}
					}
				}
				walk(a, 0)
				switch {
				case len(recvFields) == 1 && recvStruct != nil && len(preGetters) == 0:
					for idx, nme := range recvFields {
						if idx != i {
							c.bad(key, a.Pos(), "argument %d (descriptor field %s) is built from struct field %s, which is field %d", i, postNames[i], nme, idx)
						} else {
							c.ok(key, a.Pos(), "from struct field %d %s", idx, nme)
						}
					}
				case len(preGetters) == 1 && len(recvFields) == 0:
					for pidx, g := range preGetters {
						preName := preVI.fields[pidx]
						fedFromPre[preName] = true
						if preName == postNames[i] {
							c.ok(key, a.Pos(), "carried over from pre.%s (pre field %d)", g, pidx)
							continue
						}
						other := -1
						for j, pn := range postNames {
							if pn == preName {
								other = j
							}
						}
						if other >= 0 {
							c.bad(key, a.Pos(), "post field %d (%s) is fed from pre-state field %s, which belongs at post position %d", i, postNames[i], preName, other)
						} else {
							c.ok(key, a.Pos(), "from pre.%s (field renamed or converted between forks)", g)
						}
					}
				case len(preGetters) > 1 || len(recvFields) > 1 || unresolvedPre:
					c.info(key, a.Pos(), "argument derives from several sources; not position-checked")
				default:
					c.ok(key, a.Pos(), "fresh value")
				}
			}
			// completeness of carry-over in upgrades
			if preVI != nil {
				pre := map[string]bool{}
				for _, n := range preVI.fields {
					pre[n] = true
				}
				for i, pn := range postNames {
					if pre[pn] && !fedFromPre[pn] {
						// fields rebuilt on purpose (Fork, the payload header, participation translation) are fed from
						// derived locals; only flag when the argument is a fresh value with no link to the pre-state at all.
						a := call.Args[i]
						linked := false
						var walk func(e ast.Node, depth int)
						walk = func(e ast.Node, depth int) {
							if depth > 8 {
								return
							}
							ast.Inspect(e, func(m ast.Node) bool {
								if id, ok := m.(*ast.Ident); ok {
									if preParams[info.Uses[id]] != nil {
										linked = true
									}
									if d, ok := defs[info.Uses[id]]; ok {
										walk(d.rhs, depth+1)
									}
								}
								return true
							})
						}
						walk(a, 0)
						key := fname + ".carry[" + pn + "]"
						if !linked {
							c.bad(key, a.Pos(), "post field %s also exists in the pre-state but its argument has no data flow from the pre-state", pn)
						} else {
							c.ok(key, a.Pos(), "derived from the pre-state")
						}
					}
				}
			}
			return true
		})
	})
	c.stat("fromfields_calls", nCalls)
	if nCalls < 15 {
		anchorFail("only %d FromFields calls found", nCalls)
	}
}

func ruleViewElem(c *Ctx) {
	se := newShapeEval(c.P)
	// wrapper view type (embedding Basic/ComplexListView or VectorView) -> descriptor element shape, found through
	// the As* function that produces it and the container field it is applied to (view.index sites), or by XType naming.
	views := collectViews(c.P, se)
	sites := findIndexSites(c.P, views)
	elemOf := map[*types.Named]*Shape{}
	ambiguous := map[*types.Named]bool{}
	for _, s := range sites {
		if s.wrap == nil || !s.isConst || int(s.idx) >= len(s.vi.desc.Fields) {
			continue
		}
		sig := s.wrap.Type().(*types.Signature)
		if sig.Results().Len() < 1 {
			continue
		}
		rt := namedOf(sig.Results().At(0).Type())
		field := s.vi.desc.Fields[s.idx]
		if rt == nil || field.Elem == nil {
			continue
		}
		// interface results (common.BalancesRegistry): find the concrete view returned by the wrapper
		if _, isI := rt.Underlying().(*types.Interface); isI {
			if mi := se.methods[s.wrap]; mi != nil {
				ast.Inspect(mi.fd.Body, func(n ast.Node) bool {
					if cl, ok := n.(*ast.CompositeLit); ok {
						if nt := namedOf(mi.pk.TypesInfo.TypeOf(cl)); nt != nil && strings.HasSuffix(nt.Obj().Name(), "View") {
							rt = nt
						}
					}
					return true
				})
			}
		}
		if old, ok := elemOf[rt]; ok {
			if d, _ := shapeDiff(old, field.Elem, ""); d != "" {
				// one wrapper type produced over fields of different element shapes (a generic As* applied to several
				// fields): the type alone does not say which elements a value of it holds
				ambiguous[rt] = true
				continue
			}
		}
		elemOf[rt] = field.Elem
	}
	for rt := range ambiguous {
		delete(elemOf, rt)
	}
	c.stat("list_view_types_linked", len(elemOf))
	n := 0
	c.P.funcDecls(func(pk *packages.Package, fd *ast.FuncDecl) {
		info := pk.TypesInfo
		ast.Inspect(fd.Body, func(m ast.Node) bool {
			call, ok := m.(*ast.CallExpr)
			if !ok {
				return true
			}
			sel, ok := call.Fun.(*ast.SelectorExpr)
			if !ok || (sel.Sel.Name != "Append" && sel.Sel.Name != "Set") {
				return true
			}
			f := calleeFunc(info, call)
			if f == nil || !isZtyp(f) {
				return true
			}
			rt := namedOf(info.TypeOf(sel.X))
			es := elemOf[rt]
			if es == nil {
				return true
			}
			arg := call.Args[len(call.Args)-1]
			k := viewTypeKind(info.TypeOf(arg))
			key := pkgShort(pk.Types) + "." + funcName(fd) + ":" + rt.Obj().Name() + "." + sel.Sel.Name
			n++
			if k == nil {
				c.ok(key, call.Pos(), "argument %s (complex element)", types.ExprString(arg))
				return true
			}
			if !kindCompatible(k, es) {
				c.bad(key, call.Pos(), "%s of a %s view on %s whose descriptor element is %s (ztyp writes the element at its own byte width into the packed chunk)", sel.Sel.Name, k.String(), rt.Obj().Name(), canon(es).String())
			} else {
				c.ok(key, call.Pos(), "%s element", canon(es).String())
			}
			return true
		})
	})
	c.stat("append_set_sites", n)
}

func ruleLitCopy(c *Ctx) {
	c.P.funcDecls(func(pk *packages.Package, fd *ast.FuncDecl) {
		info := pk.TypesInfo
		ast.Inspect(fd.Body, func(n ast.Node) bool {
			cl, ok := n.(*ast.CompositeLit)
			if !ok || len(cl.Elts) < 3 {
				return true
			}
			// group entries by source object
			type ent struct {
				key, src string
				pos      token.Pos
			}
			bySrc := map[types.Object][]ent{}
			srcType := map[types.Object]types.Type{}
			for _, el := range cl.Elts {
				kv, ok := el.(*ast.KeyValueExpr)
				if !ok {
					return true
				}
				k, ok := kv.Key.(*ast.Ident)
				if !ok {
					return true
				}
				v := ast.Unparen(kv.Value)
				if st, ok := v.(*ast.StarExpr); ok {
					v = ast.Unparen(st.X)
				}
				sel, ok := v.(*ast.SelectorExpr)
				if !ok {
					continue
				}
				id, ok := ast.Unparen(sel.X).(*ast.Ident)
				if !ok {
					continue
				}
				o := info.Uses[id]
				if o == nil {
					continue
				}
				if s, ok := info.Selections[sel]; !ok || s.Kind() != types.FieldVal {
					continue
				}
				bySrc[o] = append(bySrc[o], ent{k.Name, sel.Sel.Name, kv.Pos()})
				srcType[o] = info.TypeOf(sel.X)
			}
			for o, ents := range bySrc {
				same := 0
				for _, e := range ents {
					if e.key == e.src {
						same++
					}
				}
				has := func(name string) bool {
					obj, _, _ := types.LookupFieldOrMethod(srcType[o], true, pk.Types, name)
					_, isVar := obj.(*types.Var)
					return isVar
				}
				// a literal is a field-wise copy of o when at least three of its keys take a field of o whose own
				// name exists on o as well (same-named or crossed: a crossed PAIR lowers the same-named count by two)
				related := 0
				for _, e := range ents {
					if e.key == e.src || has(e.key) {
						related++
					}
				}
				if same < 3 && !(same >= 2 && related >= 4) {
					continue
				}
				_ = has

				key := pkgShort(pk.Types) + "." + funcName(fd) + ":" + types.ExprString(cl.Type) + "<-" + o.Name()
				bad := false
				for _, e := range ents {
					if e.key != e.src && has(e.key) {
						c.bad(key, e.pos, "key %s is filled from %s.%s although %s.%s exists (%d sibling keys copy the same-named field)", e.key, o.Name(), e.src, o.Name(), e.key, same)
						bad = true
					}
				}
				if !bad {
					c.ok(key, cl.Pos(), "%d same-named field copies", same)
				}
				// … and a field-wise copy is complete: a field of the literal's type that the literal leaves out although
				// the source has a field of that name and type is lost in the conversion (the two forms of one object
				// then differ in content and in hash-tree-root)
				if lt, ok := info.TypeOf(cl).Underlying().(*types.Struct); ok && same >= 3 {
					set := map[string]bool{}
					for _, el := range cl.Elts {
						if kv, ok := el.(*ast.KeyValueExpr); ok {
							if k, ok := kv.Key.(*ast.Ident); ok {
								set[k.Name] = true
							}
						}
					}
					var lost []string
					for i := 0; i < lt.NumFields(); i++ {
						f := lt.Field(i)
						if set[f.Name()] || !f.Exported() {
							continue
						}
						obj, _, _ := types.LookupFieldOrMethod(srcType[o], true, pk.Types, f.Name())
						if v, ok := obj.(*types.Var); ok && types.Identical(v.Type(), f.Type()) {
							lost = append(lost, f.Name())
						}
					}
					if len(lost) > 0 {
						c.bad(key+".complete", cl.Pos(), "the literal copies %d fields of %s but leaves out %s, which %s has under the same name and type: the converted value loses it", same, o.Name(), strings.Join(lost, ", "), o.Name())
					} else {
						c.ok(key+".complete", cl.Pos(), "no same-named field of the source is left out")
					}
				}
			}
			return true
		})
	})
}

func identOf(e ast.Expr) *ast.Ident {
	id, _ := ast.Unparen(e).(*ast.Ident)
	return id
}
