package main

import (
	"fmt"
	"go/ast"
	"go/constant"
	"go/token"
	"go/types"
	"sort"
	"strconv"
	"strings"

	"golang.org/x/tools/go/packages"
)

// ---------------------------------------------------------------------------
// Symbolic integers: polynomials over spec constants with opaque atoms for
// non-polynomial sub-terms (integer division, shifts, len(recv)).
// ---------------------------------------------------------------------------

type Poly map[string]int64 // monomial (atoms joined by '*', sorted; "" = constant term) -> coefficient

func polyConst(c int64) Poly {
	if c == 0 {
		return Poly{}
	}
	return Poly{"": c}
}
func polyAtom(a string) Poly { return Poly{a: 1} }

func (p Poly) isConst() (int64, bool) {
	if len(p) == 0 {
		return 0, true
	}
	if len(p) == 1 {
		if c, ok := p[""]; ok {
			return c, true
		}
	}
	return 0, false
}

func polyAdd(a, b Poly, sign int64) Poly {
	r := Poly{}
	for k, v := range a {
		r[k] = v
	}
	for k, v := range b {
		r[k] += sign * v
		if r[k] == 0 {
			delete(r, k)
		}
	}
	return r
}

func mulMono(a, b string) string {
	if a == "" {
		return b
	}
	if b == "" {
		return a
	}
	parts := append(strings.Split(a, "*"), strings.Split(b, "*")...)
	sort.Strings(parts)
	return strings.Join(parts, "*")
}

func polyMul(a, b Poly) Poly {
	r := Poly{}
	for ka, va := range a {
		for kb, vb := range b {
			k := mulMono(ka, kb)
			r[k] += va * vb
			if r[k] == 0 {
				delete(r, k)
			}
		}
	}
	return r
}

func (p Poly) String() string {
	if len(p) == 0 {
		return "0"
	}
	ks := make([]string, 0, len(p))
	for k := range p {
		ks = append(ks, k)
	}
	sort.Strings(ks)
	var sb strings.Builder
	for i, k := range ks {
		if i > 0 {
			sb.WriteString(" + ")
		}
		c := p[k]
		switch {
		case k == "":
			sb.WriteString(strconv.FormatInt(c, 10))
		case c == 1:
			sb.WriteString(k)
		default:
			sb.WriteString(strconv.FormatInt(c, 10) + "*" + k)
		}
	}
	return sb.String()
}

func isLen(p Poly) bool { return len(p) == 1 && p["len"] == 1 }

// polySubst replaces an atom by a polynomial (used for len -> N on vectors).
func polySubst(p Poly, atom string, by Poly) Poly {
	r := Poly{}
	for k, c := range p {
		term := polyConst(c)
		if k != "" {
			for _, a := range strings.Split(k, "*") {
				if a == atom {
					term = polyMul(term, by)
				} else {
					term = polyMul(term, polyAtom(a))
				}
			}
		}
		r = polyAdd(r, term, 1)
	}
	return r
}

func polyEq(a, b Poly) bool { return a.String() == b.String() }

func polyDiv(a, b Poly) Poly {
	if ca, ok := a.isConst(); ok {
		if cb, ok := b.isConst(); ok && cb != 0 {
			return polyConst(ca / cb)
		}
	}
	if cb, ok := b.isConst(); ok && cb == 1 {
		return a
	}
	// exact division of every coefficient by a constant is NOT applied (integer division does not distribute);
	// keep the quotient opaque but canonical.
	return polyAtom("((" + a.String() + ")/(" + b.String() + "))")
}

// eval evaluates a polynomial under an assignment of atoms (used for the numeric fallback).
func (p Poly) eval(env map[string]int64) (int64, bool) {
	var sum int64
	for k, c := range p {
		term := c
		if k != "" {
			for _, a := range strings.Split(k, "*") {
				v, ok := env[a]
				if !ok {
					return 0, false
				}
				term *= v
			}
		}
		sum += term
	}
	return sum, true
}

// ---------------------------------------------------------------------------
// Shapes
// ---------------------------------------------------------------------------

type Shape struct {
	K      string // uint bool bytes container list vector bitlist bitvector bytelist unknown
	Bits   int
	N      Poly // bytes length / vector length / bitvector bits / list, bitlist, bytelist limit
	Elem   *Shape
	Fields []*Shape
	Names  []string // field names (informational)
	Src    string   // where it came from (type name or descriptor expression)
	Why    string   // for unknown: reason
}

func unknownShape(src, why string) *Shape { return &Shape{K: "unknown", Src: src, Why: why} }

func (s *Shape) String() string {
	if s == nil {
		return "<nil>"
	}
	switch s.K {
	case "uint":
		return fmt.Sprintf("uint%d", s.Bits)
	case "bool":
		return "bool"
	case "bytes":
		return "bytes[" + s.N.String() + "]"
	case "bytelist":
		return "bytelist[" + s.N.String() + "]"
	case "bitlist":
		return "bitlist[" + s.N.String() + "]"
	case "bitvector":
		if s.N == nil {
			return "bitvector[*]"
		}
		return "bitvector[" + s.N.String() + "]"
	case "list":
		return "list(" + s.Elem.String() + ", " + s.N.String() + ")"
	case "vector":
		return "vector(" + s.Elem.String() + ", " + s.N.String() + ")"
	case "container":
		parts := make([]string, len(s.Fields))
		for i, f := range s.Fields {
			parts[i] = f.String()
		}
		return "container{" + strings.Join(parts, ", ") + "}"
	}
	return "unknown(" + s.Why + ")"
}

// canon folds vector(uint8,N) into bytes[N] and list(uint8,L) into bytelist[L].
func canon(s *Shape) *Shape {
	if s == nil {
		return s
	}
	if s.K == "vector" && s.Elem != nil && s.Elem.K == "uint" && s.Elem.Bits == 8 {
		return &Shape{K: "bytes", N: s.N, Src: s.Src}
	}
	if s.K == "list" && s.Elem != nil && s.Elem.K == "uint" && s.Elem.Bits == 8 {
		return &Shape{K: "bytelist", N: s.N, Src: s.Src}
	}
	return s
}

// shapeDiff returns "" when equal, else a path-qualified description of the first difference.
// unknown on either side yields ("", unknownPath) so that the caller can report unmodelled.
func shapeDiff(a, b *Shape, path string) (diff string, unknown string) {
	a, b = canon(a), canon(b)
	if a == nil || b == nil {
		return "", path + ": missing shape"
	}
	if a.K == "unknown" {
		return "", path + ": " + a.Src + ": " + a.Why
	}
	if b.K == "unknown" {
		return "", path + ": " + b.Src + ": " + b.Why
	}
	if a.K != b.K {
		if smallBitvecAsBytes(a, b) || smallBitvecAsBytes(b, a) {
			return "", ""
		}
		return fmt.Sprintf("%s: %s (%s) vs %s (%s)", path, a.String(), a.Src, b.String(), b.Src), ""
	}
	switch a.K {
	case "uint":
		if a.Bits != b.Bits {
			return fmt.Sprintf("%s: uint%d (%s) vs uint%d (%s)", path, a.Bits, a.Src, b.Bits, b.Src), ""
		}
	case "bytes", "bytelist", "bitlist", "bitvector":
		if a.N != nil && b.N != nil && !polyEq(a.N, b.N) {
			return fmt.Sprintf("%s: %s (%s) vs %s (%s)", path, a.String(), a.Src, b.String(), b.Src), ""
		}
	case "list", "vector":
		// a vector hashed/measured over len(value) is the in-domain idiom: a value of the type has exactly N elements
		if a.K == "vector" && (isLen(a.N) || isLen(b.N)) {
			return shapeDiff(a.Elem, b.Elem, path+"[]")
		}
		if !polyEq(a.N, b.N) {
			return fmt.Sprintf("%s: %s bound %s (%s) vs %s (%s)", path, a.K, a.N.String(), a.Src, b.N.String(), b.Src), ""
		}
		return shapeDiff(a.Elem, b.Elem, path+"[]")
	case "container":
		if len(a.Fields) != len(b.Fields) {
			return fmt.Sprintf("%s: %d fields (%s) vs %d fields (%s)", path, len(a.Fields), a.Src, len(b.Fields), b.Src), ""
		}
		for i := range a.Fields {
			n := strconv.Itoa(i)
			if i < len(a.Names) && a.Names[i] != "" {
				n = a.Names[i]
			} else if i < len(b.Names) && b.Names[i] != "" {
				n = b.Names[i]
			}
			if d, u := shapeDiff(a.Fields[i], b.Fields[i], path+"."+n); d != "" || u != "" {
				return d, u
			}
		}
	}
	return "", ""
}

// fixedSize returns (size, true) for fixed-size shapes, (nil,false) for variable-size; ok=false when unknown.
func fixedSize(s *Shape) (size Poly, fixed bool, ok bool) {
	s = canon(s)
	switch s.K {
	case "uint":
		return polyConst(int64(s.Bits / 8)), true, true
	case "bool":
		return polyConst(1), true, true
	case "bytes":
		return s.N, true, true
	case "bitvector":
		return polyDiv(polyAdd(s.N, polyConst(7), 1), polyConst(8)), true, true
	case "vector":
		es, ef, eok := fixedSize(s.Elem)
		if !eok {
			return nil, false, false
		}
		if !ef {
			return nil, false, true
		}
		return polyMul(s.N, es), true, true
	case "container":
		sum := Poly{}
		for _, f := range s.Fields {
			fs, ff, fok := fixedSize(f)
			if !fok {
				return nil, false, false
			}
			if !ff {
				return nil, false, true
			}
			sum = polyAdd(sum, fs, 1)
		}
		return sum, true, true
	case "list", "bitlist", "bytelist":
		return nil, false, true
	}
	return nil, false, false
}

// ---------------------------------------------------------------------------
// The evaluator
// ---------------------------------------------------------------------------

type shapeEval struct {
	p        *Prog
	goMemo   map[string]*Shape // key: method + ":" + type string
	descMemo map[types.Object]*Shape
	busy     map[string]bool
	methods  map[*types.Func]*methInfo
	inlining int
}

type methInfo struct {
	pk *packages.Package
	fd *ast.FuncDecl
}

func newShapeEval(p *Prog) *shapeEval {
	se := &shapeEval{p: p, goMemo: map[string]*Shape{}, descMemo: map[types.Object]*Shape{}, busy: map[string]bool{},
		methods: map[*types.Func]*methInfo{}}
	p.funcDecls(func(pk *packages.Package, fd *ast.FuncDecl) {
		if f, ok := pk.TypesInfo.Defs[fd.Name].(*types.Func); ok {
			se.methods[f] = &methInfo{pk, fd}
		}
	})
	return se
}

// method finds the declaration of method `name` on named type nt (value or pointer receiver), zrnt only.
func (se *shapeEval) method(nt *types.Named, name string) *methInfo {
	for i := 0; i < nt.NumMethods(); i++ {
		m := nt.Method(i)
		if m.Name() == name {
			return se.methods[m.Origin()]
		}
	}
	return nil
}

// isSpecType: common.Spec or one of the preset/config structs embedded in it (methods on *Phase0Preset etc.).
func isSpecType(t types.Type) bool {
	nt := namedOf(t)
	if nt == nil || nt.Obj().Pkg() == nil || nt.Obj().Pkg().Name() != "common" {
		return false
	}
	n := nt.Obj().Name()
	return n == "Spec" || n == "Config" || strings.HasSuffix(n, "Preset")
}

func isConversion(info *types.Info, call *ast.CallExpr) bool {
	tv, ok := info.Types[call.Fun]
	return ok && tv.IsType()
}

// intEnv carries what the integer normaliser needs about the enclosing method.
type intEnv struct {
	pk   *packages.Package
	recv types.Object              // receiver variable, for len(recv)
	loc  map[types.Object]ast.Expr // single-assignment locals (x := expr)
}

// intExpr normalises an integer-valued expression. ok=false if a sub-term is not understood.
func (se *shapeEval) intExpr(env *intEnv, e ast.Expr) (Poly, bool) {
	info := env.pk.TypesInfo
	e = ast.Unparen(e)
	if tv, ok := info.Types[e]; ok && tv.Value != nil {
		if v, ok := constant.Int64Val(constant.ToInt(tv.Value)); ok {
			return polyConst(v), true
		}
	}
	switch x := e.(type) {
	case *ast.CallExpr:
		if isConversion(info, x) && len(x.Args) == 1 {
			return se.intExpr(env, x.Args[0])
		}
		if id, ok := x.Fun.(*ast.Ident); ok && id.Name == "len" && len(x.Args) == 1 {
			if _, isB := info.Uses[id].(*types.Builtin); isB {
				a := ast.Unparen(x.Args[0])
				if st, ok := a.(*ast.StarExpr); ok {
					a = ast.Unparen(st.X)
				}
				if aid, ok := a.(*ast.Ident); ok && env.recv != nil && info.Uses[aid] == env.recv {
					return polyAtom("len"), true
				}
				return nil, false
			}
		}
		if sel, ok := x.Fun.(*ast.SelectorExpr); ok && (sel.Sel.Name == "ByteLength" || sel.Sel.Name == "FixedLength") && env.recv != nil {
			rx := ast.Unparen(sel.X)
			if u, ok := rx.(*ast.UnaryExpr); ok && u.Op == token.AND {
				rx = ast.Unparen(u.X)
			}
			// recv.F.ByteLength(…): the length of the receiver's own field F
			if fsel, ok := rx.(*ast.SelectorExpr); ok && sel.Sel.Name == "ByteLength" {
				if id, ok := ast.Unparen(fsel.X).(*ast.Ident); ok && info.Uses[id] == env.recv {
					if s, ok := info.Selections[fsel]; ok && s.Kind() == types.FieldVal {
						return polyAtom("bl:" + fsel.Sel.Name), true
					}
				}
			}
			// recv.FixedLength(…) / recv.ByteLength(…): the other length method of the same value
			if id, ok := rx.(*ast.Ident); ok && info.Uses[id] == env.recv && se.inlining < 3 {
				if f := calleeFunc(info, x); f != nil {
					if mi := se.methods[f]; mi != nil && mi.fd.Body != nil {
						se.inlining++
						p, form, why := se.lengthOf(mi)
						se.inlining--
						if why == "" && form == "expr" {
							return p, true
						}
					}
				}
				return nil, false
			}
		}
		// XType.TypeByteLength() / XType.Length() / XType(spec).TypeByteLength()
		if sel, ok := x.Fun.(*ast.SelectorExpr); ok && len(x.Args) == 0 {
			switch sel.Sel.Name {
			case "TypeByteLength":
				sh := se.descShape(env.pk, sel.X)
				sz, fixed, ok := fixedSize(sh)
				if ok && fixed {
					return sz, true
				}
				return nil, false
			case "Length":
				sh := canon(se.descShape(env.pk, sel.X))
				if sh.K == "vector" || sh.K == "bytes" || sh.K == "bitvector" {
					return sh.N, true
				}
				return nil, false
			}
		}
		// a plain function of the same package that only computes a value (straight-line assignments and a return):
		// read as the returned expression with the arguments in place of the parameters
		if f := calleeFunc(info, x); f != nil && f.Pkg() == env.pk.Types && se.inlining < 3 {
			if mi := se.methods[f]; mi != nil && mi.fd.Body != nil && mi.fd.Recv == nil {
				senv := symEnv{}
				i := 0
				for _, fl := range mi.fd.Type.Params.List {
					for _, nm := range fl.Names {
						if i < len(x.Args) {
							senv[info.Defs[nm]] = x.Args[i]
						}
						i++
					}
				}
				if _, ret, ok := symRun(info, mi.fd.Body.List, senv); ok && ret != nil && i == len(x.Args) {
					se.inlining++
					p, ok := se.intExpr(env, ret)
					se.inlining--
					return p, ok
				}
			}
		}
		return nil, false
	case *ast.SelectorExpr:
		// spec.FOO
		if s, ok := info.Selections[x]; ok && s.Kind() == types.FieldVal {
			if isSpecType(info.TypeOf(x.X)) {
				return polyAtom(x.Sel.Name), true
			}
			// XType.Size (BasicVectorTypeDef has no Size field; ComplexVector ... ) -> byte length of descriptor
			if x.Sel.Name == "Size" {
				sh := se.descShape(env.pk, x.X)
				sz, fixed, ok := fixedSize(sh)
				if ok && fixed {
					return sz, true
				}
			}
		}
		return nil, false
	case *ast.Ident:
		if obj := info.Uses[x]; obj != nil && env.loc != nil {
			if def, ok := env.loc[obj]; ok {
				return se.intExpr(env, def)
			}
		}
		return nil, false
	case *ast.BinaryExpr:
		a, ok1 := se.intExpr(env, x.X)
		b, ok2 := se.intExpr(env, x.Y)
		if !ok1 || !ok2 {
			return nil, false
		}
		switch x.Op {
		case token.ADD:
			return polyAdd(a, b, 1), true
		case token.SUB:
			return polyAdd(a, b, -1), true
		case token.MUL:
			return polyMul(a, b), true
		case token.QUO:
			return polyDiv(a, b), true
		case token.SHL:
			if cb, ok := b.isConst(); ok && cb >= 0 && cb < 62 {
				return polyMul(a, polyConst(1<<uint(cb))), true
			}
		case token.SHR:
			if cb, ok := b.isConst(); ok && cb >= 0 && cb < 62 {
				return polyDiv(a, polyConst(1<<uint(cb))), true
			}
		}
		return nil, false
	}
	return nil, false
}

// ---- descriptor shapes ----

var ztypConstShapes = map[string]*Shape{
	"Uint8Type": {K: "uint", Bits: 8}, "ByteType": {K: "uint", Bits: 8}, "Uint16Type": {K: "uint", Bits: 16},
	"Uint32Type": {K: "uint", Bits: 32}, "Uint64Type": {K: "uint", Bits: 64}, "Uint128Type": {K: "uint", Bits: 128},
	"Uint256Type": {K: "uint", Bits: 256}, "BoolType": {K: "bool"},
	"RootType":   {K: "bytes", N: Poly{"": 32}},
	"Bytes4Type": {K: "bytes", N: Poly{"": 4}}, "Bytes8Type": {K: "bytes", N: Poly{"": 8}}, "Bytes16Type": {K: "bytes", N: Poly{"": 16}},
}

func isZtyp(o types.Object) bool {
	return o != nil && o.Pkg() != nil && strings.HasPrefix(o.Pkg().Path(), "github.com/protolambda/ztyp")
}

// declOf finds the package and the initialiser expression of a package-level var/const of zrnt.
func (se *shapeEval) declOf(obj types.Object) (*packages.Package, ast.Expr) {
	pk := se.p.ByPth[obj.Pkg().Path()]
	if pk == nil {
		return nil, nil
	}
	for _, f := range pk.Syntax {
		for _, d := range f.Decls {
			gd, ok := d.(*ast.GenDecl)
			if !ok {
				continue
			}
			for _, s := range gd.Specs {
				vs, ok := s.(*ast.ValueSpec)
				if !ok {
					continue
				}
				for i, n := range vs.Names {
					if pk.TypesInfo.Defs[n] == obj && i < len(vs.Values) {
						return pk, vs.Values[i]
					}
				}
			}
		}
	}
	return pk, nil
}

// descShape evaluates a ztyp type-descriptor expression to a shape.
func (se *shapeEval) descShape(pk *packages.Package, e ast.Expr) *Shape {
	info := pk.TypesInfo
	e = ast.Unparen(e)
	src := types.ExprString(e)
	switch x := e.(type) {
	case *ast.Ident, *ast.SelectorExpr:
		var obj types.Object
		if id, ok := x.(*ast.Ident); ok {
			obj = info.Uses[id]
		} else {
			obj = info.Uses[x.(*ast.SelectorExpr).Sel]
		}
		if obj == nil {
			return unknownShape(src, "unresolved identifier")
		}
		if sh, ok := se.descMemo[obj]; ok {
			return sh
		}
		var sh *Shape
		switch {
		case isZtyp(obj):
			if s, ok := ztypConstShapes[obj.Name()]; ok {
				c := *s
				c.Src = src
				sh = &c
			} else {
				sh = unknownShape(src, "ztyp descriptor "+obj.Name()+" not in table")
			}
		case isZrnt(obj):
			dpk, init := se.declOf(obj)
			if init == nil {
				sh = unknownShape(src, "no initialiser found")
			} else {
				se.descMemo[obj] = unknownShape(src, "recursive descriptor")
				sh = se.descShape(dpk, init)
				c := *sh
				c.Src = src
				sh = &c
			}
		default:
			sh = unknownShape(src, "descriptor outside zrnt/ztyp")
		}
		se.descMemo[obj] = sh
		return sh
	case *ast.CallExpr:
		if isConversion(info, x) && len(x.Args) == 1 {
			// SmallByteVecMeta(20)
			if nt := namedOf(info.TypeOf(x.Fun)); nt != nil && nt.Obj().Name() == "SmallByteVecMeta" {
				if n, ok := se.intExpr(&intEnv{pk: pk}, x.Args[0]); ok {
					return &Shape{K: "bytes", N: n, Src: src}
				}
			}
			return unknownShape(src, "conversion not understood")
		}
		f := calleeFunc(info, x)
		if f == nil {
			return unknownShape(src, "dynamic descriptor call")
		}
		if isZtyp(f) {
			env := &intEnv{pk: pk}
			switch f.Name() {
			case "ContainerType":
				if len(x.Args) != 2 {
					break
				}
				cl, ok := ast.Unparen(x.Args[1]).(*ast.CompositeLit)
				if !ok {
					return unknownShape(src, "ContainerType fields are not a literal")
				}
				sh := &Shape{K: "container", Src: src}
				if bl, ok := ast.Unparen(x.Args[0]).(*ast.BasicLit); ok {
					sh.Src = strings.Trim(bl.Value, `"`) + "Type"
				}
				for _, el := range cl.Elts {
					fl, ok := el.(*ast.CompositeLit)
					if !ok {
						return unknownShape(src, "FieldDef is not a literal")
					}
					var nameE, typE ast.Expr
					if len(fl.Elts) == 2 {
						nameE, typE = fl.Elts[0], fl.Elts[1]
						if kv, ok := nameE.(*ast.KeyValueExpr); ok {
							nameE = kv.Value
						}
						if kv, ok := typE.(*ast.KeyValueExpr); ok {
							typE = kv.Value
						}
					} else {
						return unknownShape(src, "FieldDef with != 2 elements")
					}
					name := ""
					if tv, ok := info.Types[nameE]; ok && tv.Value != nil {
						name = constant.StringVal(tv.Value)
					}
					sh.Names = append(sh.Names, name)
					sh.Fields = append(sh.Fields, se.descShape(pk, typE))
				}
				return sh
			case "ListType", "ComplexListType", "BasicListType":
				if len(x.Args) == 2 {
					lim, ok := se.intExpr(env, x.Args[1])
					if !ok {
						return unknownShape(src, "list limit "+types.ExprString(x.Args[1])+" not normalisable")
					}
					return &Shape{K: "list", Elem: se.descShape(pk, x.Args[0]), N: lim, Src: src}
				}
			case "VectorType", "ComplexVectorType", "BasicVectorType":
				if len(x.Args) == 2 {
					n, ok := se.intExpr(env, x.Args[1])
					if !ok {
						return unknownShape(src, "vector length "+types.ExprString(x.Args[1])+" not normalisable")
					}
					return &Shape{K: "vector", Elem: se.descShape(pk, x.Args[0]), N: n, Src: src}
				}
			case "BitListType":
				if n, ok := se.intExpr(env, x.Args[0]); ok {
					return &Shape{K: "bitlist", N: n, Src: src}
				}
			case "BitVectorType":
				if n, ok := se.intExpr(env, x.Args[0]); ok {
					return &Shape{K: "bitvector", N: n, Src: src}
				}
			}
			return unknownShape(src, "ztyp constructor "+f.Name()+" not modelled")
		}
		if isZrnt(f) {
			mi := se.methods[f]
			if mi == nil {
				return unknownShape(src, "descriptor function body not found")
			}
			if sh, ok := se.descMemo[f]; ok {
				return sh
			}
			se.descMemo[f] = unknownShape(src, "recursive descriptor")
			var ret ast.Expr
			nret := 0
			ast.Inspect(mi.fd.Body, func(n ast.Node) bool {
				if _, ok := n.(*ast.FuncLit); ok {
					return false
				}
				if r, ok := n.(*ast.ReturnStmt); ok && len(r.Results) == 1 {
					ret = r.Results[0]
					nret++
				}
				return true
			})
			var sh *Shape
			if nret != 1 {
				sh = unknownShape(src, fmt.Sprintf("descriptor function has %d returns", nret))
			} else {
				sh = se.descShape(mi.pk, ret)
				c := *sh
				if c.K != "container" {
					c.Src = src
				}
				sh = &c
			}
			se.descMemo[f] = sh
			return sh
		}
	}
	return unknownShape(src, "descriptor expression not understood")
}

// ---- Go-type shapes (from method bodies) ----

var ztypViewShapes = map[string]*Shape{
	"Uint8View": {K: "uint", Bits: 8}, "ByteView": {K: "uint", Bits: 8}, "Uint16View": {K: "uint", Bits: 16}, "Uint32View": {K: "uint", Bits: 32},
	"Uint64View": {K: "uint", Bits: 64}, "Uint256View": {K: "uint", Bits: 256}, "BoolView": {K: "bool"},
	"RootView": {K: "bytes", N: Poly{"": 32}}, "Root": {K: "bytes", N: Poly{"": 32}},
}

// argField resolves a Container/HashTreeRoot argument to (field index of receiver struct, wrapped-by-spec, conversion type or nil).
type fieldArg struct {
	idx     int
	name    string
	wrapped bool
	conv    types.Type // (*BoolView)(&v.Slashed) -> BoolView
	typ     types.Type // static type of the field (or of the conversion target)
	expr    ast.Expr
}

func (se *shapeEval) fieldArgs(mi *methInfo, args []ast.Expr) ([]fieldArg, string) {
	info := mi.pk.TypesInfo
	var recvObj types.Object
	if mi.fd.Recv != nil && len(mi.fd.Recv.List) == 1 && len(mi.fd.Recv.List[0].Names) == 1 {
		recvObj = info.Defs[mi.fd.Recv.List[0].Names[0]]
	}
	var out []fieldArg
	ldefs := singleDefs(info, mi.fd.Body)
	// a local that merely names the argument (bits := spec.Wrap(&v.F); f(bits)) is read through, at each layer
	through := func(e ast.Expr) ast.Expr {
		for k := 0; k < 3; k++ {
			id, ok := ast.Unparen(e).(*ast.Ident)
			if !ok {
				break
			}
			d, ok := ldefs[info.Uses[id]]
			if !ok || d.pos != 0 || d.n != 1 || d.rhs == nil {
				break
			}
			e = d.rhs
		}
		return ast.Unparen(e)
	}
	for _, a := range args {
		fa := fieldArg{idx: -1, expr: a}
		e := through(a)
		// spec.Wrap(x)
		if call, ok := e.(*ast.CallExpr); ok {
			if f := calleeFunc(info, call); f != nil && f.Name() == "Wrap" && len(call.Args) == 1 && isSpecType(info.TypeOf(call.Fun.(*ast.SelectorExpr).X)) {
				fa.wrapped = true
				e = through(call.Args[0])
			}
		}
		// conversion (*T)(&v.F) or T(v.F)
		if call, ok := e.(*ast.CallExpr); ok && isConversion(info, call) && len(call.Args) == 1 {
			fa.conv = info.TypeOf(call.Fun)
			e = through(call.Args[0])
		}
		if ue, ok := e.(*ast.UnaryExpr); ok && ue.Op == token.AND {
			e = ast.Unparen(ue.X)
		}
		sel, ok := e.(*ast.SelectorExpr)
		if !ok {
			return nil, "argument " + types.ExprString(a) + " is not a receiver field"
		}
		base, ok := ast.Unparen(sel.X).(*ast.Ident)
		if !ok || recvObj == nil || info.Uses[base] != recvObj {
			return nil, "argument " + types.ExprString(a) + " is not a field of the receiver"
		}
		s, ok := info.Selections[sel]
		if !ok || s.Kind() != types.FieldVal || len(s.Index()) != 1 {
			return nil, "argument " + types.ExprString(a) + " is not a direct field"
		}
		fa.idx = s.Index()[0]
		fa.name = sel.Sel.Name
		fa.typ = s.Type()
		if fa.conv != nil {
			fa.typ = fa.conv
		}
		out = append(out, fa)
	}
	return out, ""
}

// bodyCall returns the call expression of a method whose body is a single `return <call>` (optionally
// preceded by nil-guards of the receiver and allocation preambles, which are returned as well).
func singleReturnCall(fd *ast.FuncDecl) (*ast.CallExpr, []ast.Stmt) {
	if fd.Body == nil || len(fd.Body.List) == 0 {
		return nil, nil
	}
	last := fd.Body.List[len(fd.Body.List)-1]
	r, ok := last.(*ast.ReturnStmt)
	if !ok || len(r.Results) != 1 {
		return nil, nil
	}
	// `if recv != nil { return <call> }; return <what a nil receiver stands for>`: the nil guard written the other
	// way round; the method's work is the guarded return
	if n := len(fd.Body.List); n >= 2 && fd.Recv != nil && len(fd.Recv.List) == 1 && len(fd.Recv.List[0].Names) == 1 {
		if ifs, ok := fd.Body.List[n-2].(*ast.IfStmt); ok && ifs.Else == nil && ifs.Init == nil && len(ifs.Body.List) == 1 {
			if be, ok := ast.Unparen(ifs.Cond).(*ast.BinaryExpr); ok && be.Op == token.NEQ {
				rn := fd.Recv.List[0].Names[0].Name
				isR := func(e ast.Expr) bool { id, ok := ast.Unparen(e).(*ast.Ident); return ok && id.Name == rn }
				isNil := func(e ast.Expr) bool { id, ok := ast.Unparen(e).(*ast.Ident); return ok && id.Name == "nil" }
				if (isR(be.X) && isNil(be.Y)) || (isR(be.Y) && isNil(be.X)) {
					if r2, ok := ifs.Body.List[0].(*ast.ReturnStmt); ok && len(r2.Results) == 1 {
						if call, ok := ast.Unparen(r2.Results[0]).(*ast.CallExpr); ok {
							return call, fd.Body.List[:n-2]
						}
					}
				}
			}
		}
	}
	call, ok := ast.Unparen(r.Results[0]).(*ast.CallExpr)
	if !ok {
		// `return <call>` spelt with the error looked at: if err := <call>; err != nil { return err }; return nil
		// (or err := <call>; [if err != nil { return err };] return err / nil)
		n := len(fd.Body.List)
		isNilId := func(e ast.Expr) bool { id, ok := ast.Unparen(e).(*ast.Ident); return ok && id.Name == "nil" }
		lastId, _ := ast.Unparen(r.Results[0]).(*ast.Ident)
		guardOf := func(st ast.Stmt) (init *ast.AssignStmt, errName string, ok bool) {
			ifs, isIf := st.(*ast.IfStmt)
			if !isIf || ifs.Else != nil || len(ifs.Body.List) != 1 {
				return nil, "", false
			}
			be, isBe := ast.Unparen(ifs.Cond).(*ast.BinaryExpr)
			if !isBe || be.Op != token.NEQ {
				return nil, "", false
			}
			var eid *ast.Ident
			if id, ok := ast.Unparen(be.X).(*ast.Ident); ok && isNilId(be.Y) {
				eid = id
			} else if id, ok := ast.Unparen(be.Y).(*ast.Ident); ok && isNilId(be.X) {
				eid = id
			}
			if eid == nil {
				return nil, "", false
			}
			rr, isRet := ifs.Body.List[0].(*ast.ReturnStmt)
			if !isRet || len(rr.Results) != 1 {
				return nil, "", false
			}
			if id, ok := ast.Unparen(rr.Results[0]).(*ast.Ident); !ok || id.Name != eid.Name {
				return nil, "", false
			}
			as, _ := ifs.Init.(*ast.AssignStmt)
			return as, eid.Name, true
		}
		callOf := func(as *ast.AssignStmt, errName string) *ast.CallExpr {
			if as == nil || len(as.Lhs) != 1 || len(as.Rhs) != 1 {
				return nil
			}
			if id, ok := as.Lhs[0].(*ast.Ident); !ok || id.Name != errName {
				return nil
			}
			c, _ := ast.Unparen(as.Rhs[0]).(*ast.CallExpr)
			return c
		}
		if n >= 2 && (isNilId(r.Results[0]) || lastId != nil) {
			if init, en, ok := guardOf(fd.Body.List[n-2]); ok && (isNilId(r.Results[0]) || lastId.Name == en) {
				if init != nil {
					if c := callOf(init, en); c != nil {
						return c, fd.Body.List[:n-2]
					}
				} else if n >= 3 {
					if as, ok := fd.Body.List[n-3].(*ast.AssignStmt); ok {
						if c := callOf(as, en); c != nil {
							return c, fd.Body.List[:n-3]
						}
					}
				}
			}
			// err := <call>; return err
			if lastId != nil && !isNilId(r.Results[0]) {
				if as, ok := fd.Body.List[n-2].(*ast.AssignStmt); ok {
					if c := callOf(as, lastId.Name); c != nil {
						return c, fd.Body.List[:n-2]
					}
				}
			}
		}
		return nil, nil
	}
	return call, fd.Body.List[:len(fd.Body.List)-1]
}

func (se *shapeEval) envFor(mi *methInfo) *intEnv {
	env := &intEnv{pk: mi.pk, loc: map[types.Object]ast.Expr{}}
	info := mi.pk.TypesInfo
	if mi.fd.Recv != nil && len(mi.fd.Recv.List) == 1 && len(mi.fd.Recv.List[0].Names) == 1 {
		env.recv = info.Defs[mi.fd.Recv.List[0].Names[0]]
	}
	// single-definition locals at top level of the body: x := expr
	cnt := map[types.Object]int{}
	ast.Inspect(mi.fd.Body, func(n ast.Node) bool {
		if as, ok := n.(*ast.AssignStmt); ok {
			for i, l := range as.Lhs {
				if id, ok := l.(*ast.Ident); ok {
					obj := info.Defs[id]
					if obj == nil {
						obj = info.Uses[id]
					}
					if obj != nil {
						cnt[obj]++
						if len(as.Lhs) == len(as.Rhs) && as.Tok == token.DEFINE {
							env.loc[obj] = as.Rhs[i]
						}
					}
				}
			}
		}
		if id, ok := n.(*ast.IncDecStmt); ok {
			if x, ok := id.X.(*ast.Ident); ok {
				if obj := info.Uses[x]; obj != nil {
					cnt[obj] += 2
				}
			}
		}
		return true
	})
	for o, c := range cnt {
		if c != 1 {
			delete(env.loc, o)
		}
	}
	return env
}

// typeShape is the SSZ shape of a Go type as its `which` method ("Deserialize" or "HashTreeRoot") encodes it.
func (se *shapeEval) typeShape(t types.Type, which string) *Shape {
	if pt, ok := t.(*types.Pointer); ok {
		t = pt.Elem()
	}
	t = types.Unalias(t)
	key := which + ":" + types.TypeString(t, nil)
	if sh, ok := se.goMemo[key]; ok {
		return sh
	}
	if se.busy[key] {
		return unknownShape(key, "recursive type")
	}
	se.busy[key] = true
	sh := se.typeShape1(t, which)
	delete(se.busy, key)
	se.goMemo[key] = sh
	return sh
}

func (se *shapeEval) typeShape1(t types.Type, which string) *Shape {
	nt, ok := t.(*types.Named)
	if !ok {
		return unknownShape(types.TypeString(t, nil), "unnamed type")
	}
	name := nt.Obj().Pkg().Name() + "." + nt.Obj().Name()
	if isZtyp(nt.Obj()) {
		if s, ok := ztypViewShapes[nt.Obj().Name()]; ok {
			c := *s
			c.Src = name
			return &c
		}
		return unknownShape(name, "ztyp type not in table")
	}
	if !isZrnt(nt.Obj()) {
		return unknownShape(name, "type outside zrnt/ztyp")
	}
	// named type defined as another named SSZ type without own methods: `type Hash32 = Root` / `type Bytes32 Root`
	mi := se.method(nt, which)
	if mi == nil {
		// a defined type over a named type inherits nothing; but embedded? Try the underlying named (type X Y).
		return unknownShape(name, "no "+which+" method in zrnt")
	}
	info := mi.pk.TypesInfo
	env := se.envFor(mi)

	// Byte arrays: hand-written readers; the shape is the array length.
	if at, ok := nt.Underlying().(*types.Array); ok {
		if b, ok := at.Elem().Underlying().(*types.Basic); ok && b.Kind() == types.Uint8 {
			return &Shape{K: "bytes", N: polyConst(at.Len()), Src: name}
		}
	}

	call, pre := singleReturnCall(mi.fd)
	if call == nil {
		return unknownShape(name, which+" body is not a single returned call")
	}
	_ = pre
	// delegation: (*X)(a).M(...) or X(a).M(...)
	if sel, ok := call.Fun.(*ast.SelectorExpr); ok && sel.Sel.Name == which {
		if conv, ok := ast.Unparen(sel.X).(*ast.CallExpr); ok && isConversion(info, conv) {
			inner := se.typeShape(info.TypeOf(conv.Fun), which)
			c := *inner
			c.Src = name
			return &c
		}
	}
	f := calleeFunc(info, call)
	if f == nil {
		return unknownShape(name, which+" returns a dynamic call")
	}
	fname := f.Name()
	// accessor: the element accessor handed to a hasher/decoder, whichever way it is written: a function literal, a
	// method value (x.elemAt) or a function of the package; its index parameter and its body
	type accessorT struct {
		param types.Object
		body  *ast.BlockStmt
	}
	accessor := func(fl ast.Expr) (accessorT, bool) {
		var ft *ast.FuncType
		var body *ast.BlockStmt
		// a local that names the accessor (next := …; dr.List(next, …)) is read as its one definition
		if id, ok := ast.Unparen(fl).(*ast.Ident); ok && mi.fd.Body != nil {
			if _, isVar := info.Uses[id].(*types.Var); isVar {
				if d, ok := singleDefs(info, mi.fd.Body)[info.Uses[id]]; ok && d.n == 1 && d.rhs != nil {
					fl = d.rhs
				}
			}
		}
		switch x := ast.Unparen(fl).(type) {
		case *ast.FuncLit:
			ft, body = x.Type, x.Body
		case *ast.CallExpr:
			// a factory of the package whose body is `return func(…) … { … }`: the accessor is that literal
			if fobj := calleeFunc(info, x); fobj != nil && fobj.Pkg() == mi.pk.Types {
				if hd := declOfFunc(mi.pk, fobj); hd != nil && hd.Body != nil && len(hd.Body.List) == 1 {
					if r, ok := hd.Body.List[0].(*ast.ReturnStmt); ok && len(r.Results) == 1 {
						if lit, ok := ast.Unparen(r.Results[0]).(*ast.FuncLit); ok {
							ft, body = lit.Type, lit.Body
						}
					}
				}
			}
		case *ast.SelectorExpr, *ast.Ident:
			var obj types.Object
			if sel, ok := x.(*ast.SelectorExpr); ok {
				if s := info.Selections[sel]; s != nil {
					obj = s.Obj()
				} else {
					obj = info.Uses[sel.Sel]
				}
			} else {
				obj = info.Uses[x.(*ast.Ident)]
			}
			fobj, ok := obj.(*types.Func)
			if !ok || fobj.Pkg() != mi.pk.Types {
				return accessorT{}, false
			}
			if hd := declOfFunc(mi.pk, fobj); hd != nil && hd.Body != nil {
				ft, body = hd.Type, hd.Body
			}
		}
		if ft == nil || body == nil {
			return accessorT{}, false
		}
		// (decoders hand out the next element and take no index)
		if ft.Params == nil || len(ft.Params.List) == 0 {
			return accessorT{nil, body}, true
		}
		if len(ft.Params.List) != 1 || len(ft.Params.List[0].Names) != 1 {
			return accessorT{}, false
		}
		return accessorT{info.Defs[ft.Params.List[0].Names[0]], body}, true
	}
	elemOfClosure := func(fl ast.Expr) (types.Type, bool, string) {
		// the closure returns &(*a)[i] / spec.Wrap(&(*a)[i]) / (*a)[i] ; element type from the receiver's slice/array type
		acc, ok := accessor(fl)
		if !ok {
			return nil, false, "element accessor is neither a closure nor a function of the package"
		}
		lit := struct{ Body *ast.BlockStmt }{acc.body}
		var ret ast.Expr
		n := 0
		ast.Inspect(lit.Body, func(m ast.Node) bool {
			if r, ok := m.(*ast.ReturnStmt); ok && len(r.Results) == 1 {
				ret = r.Results[0]
				n++
			}
			return true
		})
		if n == 0 {
			return nil, false, "closure has no return"
		}
		// several returns (guarded `if i < length {return &li[i]}; return nil`): take the first non-nil
		if n > 1 {
			ret = nil
			ast.Inspect(lit.Body, func(m ast.Node) bool {
				if r, ok := m.(*ast.ReturnStmt); ok && len(r.Results) == 1 && ret == nil {
					if id, ok := ast.Unparen(r.Results[0]).(*ast.Ident); !ok || id.Name != "nil" {
						ret = r.Results[0]
					}
				}
				return true
			})
			if ret == nil {
				return nil, false, "closure returns only nil"
			}
		}
		wrapped := false
		e := ast.Unparen(ret)
		if c, ok := e.(*ast.CallExpr); ok {
			if cf := calleeFunc(info, c); cf != nil && cf.Name() == "Wrap" && len(c.Args) == 1 {
				wrapped = true
				e = ast.Unparen(c.Args[0])
			} else if isConversion(info, c) && len(c.Args) == 1 {
				// uint64(li[i]) in Uint64ListHTR closures: element type is that of the indexed value
				e = ast.Unparen(c.Args[0])
			}
		}
		if ue, ok := e.(*ast.UnaryExpr); ok && ue.Op == token.AND {
			e = ast.Unparen(ue.X)
		}
		ix, ok := e.(*ast.IndexExpr)
		if !ok {
			return nil, false, "closure does not return an indexed element: " + types.ExprString(ret)
		}
		et := info.TypeOf(ix)
		return et, wrapped, ""
	}
	// closureBound: the K of the guard `if i < K { return &x[i] }` (or `if i >= K { return nil }`) in an element accessor
	closureBound := func(fl ast.Expr) (Poly, bool) {
		acc, ok := accessor(fl)
		if !ok {
			return nil, false
		}
		if acc.param == nil {
			return nil, false
		}
		lit := struct{ Body *ast.BlockStmt }{acc.body}
		iv := acc.param
		var bound Poly
		found := false
		ast.Inspect(lit.Body, func(m ast.Node) bool {
			is, ok := m.(*ast.IfStmt)
			if !ok || found {
				return true
			}
			be, ok := ast.Unparen(is.Cond).(*ast.BinaryExpr)
			if !ok {
				return true
			}
			var k ast.Expr
			if id, ok := ast.Unparen(be.X).(*ast.Ident); ok && info.Uses[id] == iv && (be.Op == token.LSS || be.Op == token.GEQ) {
				k = be.Y
			} else if id, ok := ast.Unparen(be.Y).(*ast.Ident); ok && info.Uses[id] == iv && (be.Op == token.GTR || be.Op == token.LEQ) {
				k = be.X
			}
			if k == nil {
				return true
			}
			if p, ok := se.intExpr(env, k); ok {
				bound, found = p, true
			}
			return true
		})
		return bound, found
	}
	switch {
	case which == "Deserialize" && (fname == "Container" || fname == "FixedLenContainer") && isZtyp(f),
		which == "HashTreeRoot" && fname == "HashTreeRoot" && isZtyp(f):
		fas, why := se.fieldArgs(mi, call.Args)
		if why != "" {
			return unknownShape(name, why)
		}
		sh := &Shape{K: "container", Src: name}
		for _, fa := range fas {
			sh.Names = append(sh.Names, fa.name)
			sh.Fields = append(sh.Fields, se.typeShape(fa.typ, which))
		}
		return sh
	case fname == "List" && which == "Deserialize" && len(call.Args) == 3:
		et, _, why := elemOfClosure(call.Args[0])
		if why != "" {
			return unknownShape(name, why)
		}
		lim, ok := se.intExpr(env, call.Args[2])
		if !ok {
			return unknownShape(name, "limit "+types.ExprString(call.Args[2])+" not normalisable")
		}
		return &Shape{K: "list", Elem: se.typeShape(et, which), N: lim, Src: name}
	case fname == "Vector" && which == "Deserialize" && len(call.Args) == 3:
		et, _, why := elemOfClosure(call.Args[0])
		if why != "" {
			return unknownShape(name, why)
		}
		n, ok := se.intExpr(env, call.Args[2])
		if !ok {
			return unknownShape(name, "length "+types.ExprString(call.Args[2])+" not normalisable")
		}
		return &Shape{K: "vector", Elem: se.typeShape(et, which), N: n, Src: name}
	case fname == "ReadRoots" && len(call.Args) == 3:
		n, ok := se.intExpr(env, call.Args[2])
		if !ok {
			return unknownShape(name, "length not normalisable")
		}
		return &Shape{K: "vector", Elem: &Shape{K: "bytes", N: polyConst(32), Src: "Root"}, N: n, Src: name}
	case fname == "ReadRootsLimited" && len(call.Args) == 3:
		n, ok := se.intExpr(env, call.Args[2])
		if !ok {
			return unknownShape(name, "limit not normalisable")
		}
		return &Shape{K: "list", Elem: &Shape{K: "bytes", N: polyConst(32), Src: "Root"}, N: n, Src: name}
	case (fname == "BitList" || fname == "BitListHTR") && len(call.Args) == 2:
		n, ok := se.intExpr(env, call.Args[1])
		if !ok {
			return unknownShape(name, "bit limit not normalisable")
		}
		return &Shape{K: "bitlist", N: n, Src: name}
	case fname == "BitVector" && which == "Deserialize" && len(call.Args) == 2:
		n, ok := se.intExpr(env, call.Args[1])
		if !ok {
			return unknownShape(name, "bit length not normalisable")
		}
		return &Shape{K: "bitvector", N: n, Src: name}
	case fname == "BitVectorHTR" && which == "HashTreeRoot":
		return &Shape{K: "bitvector", N: nil, Src: name + " (hasher takes no length)"}
	case fname == "ChunksHTR" && which == "HashTreeRoot" && len(call.Args) == 3:
		n, ok := se.intExpr(env, call.Args[2])
		if !ok {
			return unknownShape(name, "chunk limit not normalisable")
		}
		return &Shape{K: "vector", Elem: &Shape{K: "bytes", N: polyConst(32), Src: "Root"}, N: n, Src: name}
	case (fname == "ByteList" || fname == "ByteListHTR") && len(call.Args) == 2:
		n, ok := se.intExpr(env, call.Args[1])
		if !ok {
			return unknownShape(name, "byte limit not normalisable")
		}
		return &Shape{K: "bytelist", N: n, Src: name}
	case which == "HashTreeRoot" && (fname == "ComplexListHTR" || fname == "Uint64ListHTR" || fname == "Uint8ListHTR") && len(call.Args) == 3:
		et, _, why := elemOfClosure(call.Args[0])
		if why != "" {
			return unknownShape(name, why)
		}
		lim, ok := se.intExpr(env, call.Args[2])
		if !ok {
			return unknownShape(name, "limit "+types.ExprString(call.Args[2])+" not normalisable")
		}
		es := se.typeShape(et, which)
		// the basic-list hashers pack elements at a fixed width: it must be the element's own width
		if fname == "Uint64ListHTR" {
			es = packWidth(es, 64, name)
		} else if fname == "Uint8ListHTR" {
			es = packWidth(es, 8, name)
		}
		return &Shape{K: "list", Elem: es, N: lim, Src: name}
	case which == "HashTreeRoot" && (fname == "ComplexVectorHTR" || fname == "Uint64VectorHTR" || fname == "Uint8VectorHTR") && len(call.Args) == 2:
		et, _, why := elemOfClosure(call.Args[0])
		if why != "" {
			return unknownShape(name, why)
		}
		n, ok := se.intExpr(env, call.Args[1])
		if !ok {
			return unknownShape(name, "length "+types.ExprString(call.Args[1])+" not normalisable")
		}
		es := se.typeShape(et, which)
		if fname == "Uint64VectorHTR" {
			es = packWidth(es, 64, name)
		} else if fname == "Uint8VectorHTR" {
			es = packWidth(es, 8, name)
		}
		// the accessor hands out elements below its own bound only: that bound is how many elements are really hashed
		if kb, ok := closureBound(call.Args[0]); ok && !polyEq(kb, n) {
			return &Shape{K: "vector", Elem: es, N: kb, Src: name + " (the element accessor stops at " + kb.String() + ", the hasher is told " + n.String() + ")"}
		}
		return &Shape{K: "vector", Elem: es, N: n, Src: name}
	}
	return unknownShape(name, which+" body form `"+qualName(f)+"` not modelled")
}

// packWidth: a basic-list hasher that packs at `bits` width over an element whose own shape has another width
// produces a different merkleization; encode that as a shape with the hasher's width so the diff shows it.
func packWidth(es *Shape, bits int, src string) *Shape {
	if es.K == "uint" && es.Bits != bits {
		return &Shape{K: "uint", Bits: bits, Src: src + " (hasher packs at this width; element is " + es.String() + ")"}
	}
	return es
}

// smallBitvecAsBytes: a hand-written [k]byte type standing for bitvector[n] with k == ceil(n/8) <= 32 has the same
// serialization and the same single-chunk merkleization (common.JustificationBits is the one instance).
func smallBitvecAsBytes(by, bv *Shape) bool {
	if by.K != "bytes" || bv.K != "bitvector" || bv.N == nil {
		return false
	}
	k, ok1 := by.N.isConst()
	n, ok2 := bv.N.isConst()
	return ok1 && ok2 && k == (n+7)/8 && k <= 32
}
