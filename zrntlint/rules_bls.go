package main

import (
	"go/ast"
	"go/token"
	"go/types"
	"regexp"
	"sort"
	"strings"

	"golang.org/x/tools/go/packages"
)

func init() {
	register(&Rule{Name: "bls.verify", Floor: 40,
		Doc: "every BLS verification in zrnt (a) verifies over the whole 32-byte signing root (an unbounded [:] of the value returned by ComputeSigningRoot or a signing-root helper), (b) the signing root combines an object of the type the spec assigns to the signature domain that reaches it (traced through GetDomain/ComputeDomain/domain-function parameters to a DOMAIN_* variable), with the spec's fork-version class for fixed-version domains, (c) decided on the control-flow graph under an assumption: with the verification taken to have FAILED every path from it ends in a refusal (an error, false, a verdict other than ACCEPT; the skipped deposit of process_deposit) or hands the verdict on, and with it taken to have SUCCEEDED not every path ends in a certain refusal (the test is not inverted) — whatever the statement shape (if !v, if v {…}, a flag, a switch, a helper); (d) always: every path to an accepting exit (nil error, true, ACCEPT) evaluates the verification, also when it is reached through a module function that hands its verdict on, with what stands right of && / || read as evaluated only sometimes; the two places where the spec itself skips it are the reviewed blsConditional",
		Run: ruleBLSVerify})
	register(&Rule{Name: "seed.domain", Floor: 3,
		Doc: "each GetSeed call mixes in the domain the spec assigns to its consumer: shuffling -> BEACON_ATTESTER, proposers -> BEACON_PROPOSER, sync committee -> SYNC_COMMITTEE",
		Run: ruleSeedDomain})
}

// domain -> allowed signed object types (consensus-specs v1.5.0-beta.2)
var domainObjects = map[string][]string{
	"DOMAIN_BEACON_PROPOSER":                {"BeaconBlockHeader", "Root"},
	"DOMAIN_BEACON_ATTESTER":                {"AttestationData"},
	"DOMAIN_RANDAO":                         {"Epoch"},
	"DOMAIN_DEPOSIT":                        {"DepositMessage", "DepositData.MessageRoot"},
	"DOMAIN_VOLUNTARY_EXIT":                 {"VoluntaryExit"},
	"DOMAIN_SELECTION_PROOF":                {"Slot"},
	"DOMAIN_AGGREGATE_AND_PROOF":            {"AggregateAndProof"},
	"DOMAIN_SYNC_COMMITTEE":                 {"Root"},
	"DOMAIN_SYNC_COMMITTEE_SELECTION_PROOF": {"SyncAggregatorSelectionData"},
	"DOMAIN_CONTRIBUTION_AND_PROOF":         {"ContributionAndProof"},
	"DOMAIN_BLS_TO_EXECUTION_CHANGE":        {"BLSToExecutionChange"},
}

// fixed fork-version classes for ComputeDomain call sites: domain -> allowed version expressions (leaf names)
var domainFixedVersion = map[string][]string{
	"DOMAIN_DEPOSIT":                 {"GENESIS_FORK_VERSION"},
	"DOMAIN_BLS_TO_EXECUTION_CHANGE": {"GENESIS_FORK_VERSION"},
	"DOMAIN_VOLUNTARY_EXIT":          {"CAPELLA_FORK_VERSION"}, // deneb EIP-7044 (the only ComputeDomain use for exits)
	"DOMAIN_BEACON_PROPOSER":         {"version"},              // envelope check: caller-supplied version of the block's slot
}

// domainEpoch: for domains derived from the state's fork at a message epoch (GetDomain / domain function), the spec's
// epoch source, as regexes over the (local-resolved) epoch argument.
var domainEpoch = map[string]struct {
	want string
	re   []string
}{
	"DOMAIN_VOLUNTARY_EXIT":                 {"voluntary_exit.epoch", []string{`(?i)exit[\w\.]*\.Epoch$`, `Message\.Epoch$`}},
	"DOMAIN_BEACON_ATTESTER":                {"attestation.data.target.epoch", []string{`Target\.Epoch$`}},
	"DOMAIN_RANDAO":                         {"get_current_epoch(state)", []string{`SlotToEpoch\(slot\)$`, `(?i)currentepoch`}},
	"DOMAIN_BEACON_PROPOSER":                {"compute_epoch_at_slot(header.slot)", []string{`SlotToEpoch\(.*\.Slot\)$`}},
	"DOMAIN_SELECTION_PROOF":                {"compute_epoch_at_slot(slot)", []string{`SlotToEpoch\(slot\)$`, `SlotToEpoch\(.*\.Slot\)$`}},
	"DOMAIN_AGGREGATE_AND_PROOF":            {"compute_epoch_at_slot(aggregate.data.slot)", []string{`Target\.Epoch$`, `SlotToEpoch\(.*\.Slot\)$`}},
	"DOMAIN_SYNC_COMMITTEE":                 {"compute_epoch_at_slot(message slot / previous slot)", []string{`SlotToEpoch\((prevSlot|.*\.Slot)\)$`}},
	"DOMAIN_SYNC_COMMITTEE_SELECTION_PROOF": {"compute_epoch_at_slot(slot)", []string{`SlotToEpoch\(slot\)$`, `SlotToEpoch\(.*\.Slot\)$`}},
	"DOMAIN_CONTRIBUTION_AND_PROOF":         {"compute_epoch_at_slot(contribution.slot)", []string{`SlotToEpoch\(.*\.Slot\)$`}},
}

type blsTracer struct {
	p       *Prog
	decls   map[*types.Func]*methInfo
	callers map[*types.Func][]callSite
}

type callSite struct {
	pk   *packages.Package
	fd   *ast.FuncDecl
	call *ast.CallExpr
}

func newBLSTracer(p *Prog) *blsTracer {
	t := &blsTracer{p: p, decls: map[*types.Func]*methInfo{}, callers: map[*types.Func][]callSite{}}
	p.funcDecls(func(pk *packages.Package, fd *ast.FuncDecl) {
		if f, ok := pk.TypesInfo.Defs[fd.Name].(*types.Func); ok {
			t.decls[f] = &methInfo{pk, fd}
		}
		ast.Inspect(fd.Body, func(n ast.Node) bool {
			if call, ok := n.(*ast.CallExpr); ok {
				if f := calleeFunc(pk.TypesInfo, call); f != nil && isZrnt(f) {
					t.callers[f.Origin()] = append(t.callers[f.Origin()], callSite{pk, fd, call})
				}
			}
			return true
		})
	})
	return t
}

// lastDefBefore finds the latest assignment to obj in fd that precedes pos.
func lastDefBefore(info *types.Info, fd *ast.FuncDecl, obj types.Object, pos token.Pos) (rhs ast.Expr, idx int) {
	var bestPos token.Pos
	ast.Inspect(fd.Body, func(n ast.Node) bool {
		as, ok := n.(*ast.AssignStmt)
		if !ok || as.Pos() >= pos {
			return true
		}
		for i, l := range as.Lhs {
			id, ok := l.(*ast.Ident)
			if !ok {
				continue
			}
			o := info.Defs[id]
			if o == nil {
				o = info.Uses[id]
			}
			if o != obj || as.Pos() < bestPos {
				continue
			}
			bestPos = as.Pos()
			if len(as.Rhs) == len(as.Lhs) {
				rhs, idx = as.Rhs[i], 0
			} else if len(as.Rhs) == 1 {
				rhs, idx = as.Rhs[0], i
			}
		}
		return true
	})
	return
}

func paramIndex(fd *ast.FuncDecl, info *types.Info, obj types.Object) int {
	i := 0
	if fd.Type.Params == nil {
		return -1
	}
	for _, f := range fd.Type.Params.List {
		if len(f.Names) == 0 {
			i++
			continue
		}
		for _, n := range f.Names {
			if info.Defs[n] == obj {
				return i
			}
			i++
		}
	}
	return -1
}

func isDomainVar(o types.Object) bool {
	v, ok := o.(*types.Var)
	return ok && v.Pkg() != nil && v.Pkg().Name() == "common" && strings.HasPrefix(v.Name(), "DOMAIN_") && v.Parent() == v.Pkg().Scope()
}

type domainFact struct {
	epochArg string // resolved epoch argument of the GetDomain / domain-function call ("" if none)
	epochKnd string // what kind of value that is (epochKind)
	name     string // DOMAIN_X
	version  string // leaf name of the fork-version argument when built by ComputeDomain ("" otherwise)
	root     string // genesis-validators-root argument (for deposit: must be the zero root)
	via      string
}

// traceDomain follows a BLSDomain-valued (or BLSDomainType-valued) expression to DOMAIN_* variables.
func (t *blsTracer) traceDomain(pk *packages.Package, fd *ast.FuncDecl, e ast.Expr, at token.Pos, depth int) []domainFact {
	if depth > 5 || e == nil {
		return nil
	}
	info := pk.TypesInfo
	e = ast.Unparen(e)
	switch x := e.(type) {
	case *ast.SelectorExpr:
		if o := info.Uses[x.Sel]; o != nil && isDomainVar(o) {
			return []domainFact{{name: o.Name()}}
		}
	case *ast.Ident:
		o := info.Uses[x]
		if o == nil {
			return nil
		}
		if isDomainVar(o) {
			return []domainFact{{name: o.Name()}}
		}
		if pi := paramIndex(fd, info, o); pi >= 0 {
			// parameter: all callers
			f, _ := info.Defs[fd.Name].(*types.Func)
			var out []domainFact
			for _, cs := range t.callers[f] {
				if pi < len(cs.call.Args) {
					out = append(out, t.traceDomain(cs.pk, cs.fd, cs.call.Args[pi], cs.call.Pos(), depth+1)...)
				}
			}
			return out
		}
		if rhs, _ := lastDefBefore(info, fd, o, at); rhs != nil {
			return t.traceDomain(pk, fd, rhs, at, depth+1)
		}
	case *ast.CallExpr:
		name := calleeLabel(info, x)
		switch name {
		case "ComputeDomain":
			if len(x.Args) == 3 {
				fs := t.traceDomain(pk, fd, x.Args[0], at, depth+1)
				for i := range fs {
					fs[i].version = leafName(x.Args[1])
					fs[i].root = types.ExprString(x.Args[2])
					fs[i].via = "ComputeDomain"
				}
				return fs
			}
		}
		// GetDomain(state, D, epoch) / x.GetDomain(D, ...) / domFn(D, epoch): the BLSDomainType-typed argument
		for ai, a := range x.Args {
			if nt := namedOf(info.TypeOf(a)); nt != nil && nt.Obj().Name() == "BLSDomainType" {
				fs := t.traceDomain(pk, fd, a, at, depth+1)
				ep, epK := "", ""
				if ai+1 < len(x.Args) {
					if et := namedOf(info.TypeOf(x.Args[ai+1])); et != nil && et.Obj().Name() == "Epoch" {
						ee := ast.Unparen(x.Args[ai+1])
						if id, ok := ee.(*ast.Ident); ok {
							if paramIndex(fd, info, info.Uses[id]) < 0 {
								if rhs, _ := lastDefBefore(info, fd, info.Uses[id], x.Pos()); rhs != nil {
									ee = rhs
								}
							} else {
								ee = nil // a parameter: decided at the caller
							}
						}
						if ee != nil {
							ep = types.ExprString(ee)
							epK = epochKind(info, fd, ee, x.Pos(), 0)
						}
					}
				}
				for i := range fs {
					if fs[i].via == "" {
						fs[i].via = name
					}
					if fs[i].epochArg == "" {
						fs[i].epochArg = ep
						fs[i].epochKnd = epK
					}
				}
				return fs
			}
		}
	}
	return nil
}

// signedObject names the type of the object whose root is signed.
func signedObject(info *types.Info, e ast.Expr) string {
	e = ast.Unparen(e)
	if call, ok := e.(*ast.CallExpr); ok {
		if sel, ok := call.Fun.(*ast.SelectorExpr); ok {
			if sel.Sel.Name == "HashTreeRoot" {
				if nt := namedOf(info.TypeOf(sel.X)); nt != nil {
					return nt.Obj().Name()
				}
			}
			if nt := namedOf(info.TypeOf(sel.X)); nt != nil {
				return nt.Obj().Name() + "." + sel.Sel.Name
			}
		}
	}
	if nt := namedOf(info.TypeOf(e)); nt != nil {
		return nt.Obj().Name()
	}
	return types.ExprString(e)
}

// signingRootCall follows an expression to the ComputeSigningRoot call that produced it (possibly inside a helper).
// blsTraceOpen: the last signingRootCall stopped at something whose origin it does not read (a parameter, a field, an
// element it finds no store for) — as opposed to a definite other source (a call that is not ComputeSigningRoot).
var blsTraceOpen bool

func (t *blsTracer) signingRootCall(pk *packages.Package, fd *ast.FuncDecl, e ast.Expr, at token.Pos, depth int) (*packages.Package, *ast.FuncDecl, *ast.CallExpr) {
	if depth > 4 {
		return nil, nil, nil
	}
	info := pk.TypesInfo
	e = ast.Unparen(e)
	switch x := e.(type) {
	case *ast.Ident:
		o := info.Uses[x]
		if o == nil {
			return nil, nil, nil
		}
		if rhs, idx := lastDefBefore(info, fd, o, at); rhs != nil && idx == 0 {
			return t.signingRootCall(pk, fd, rhs, at, depth+1)
		}
		// a parameter, a range variable, a multi-value result: where the value comes from is not read here
		blsTraceOpen = true
	case *ast.IndexExpr:
		// roots[k], k a constant, roots a local array or slice: the last `roots[k] = …` before the use
		aid, ok := ast.Unparen(x.X).(*ast.Ident)
		tv, okK := info.Types[x.Index]
		if !ok || !okK || tv.Value == nil {
			return nil, nil, nil
		}
		o := info.ObjectOf(aid)
		var best *ast.AssignStmt
		var bestRhs ast.Expr
		ast.Inspect(fd.Body, func(n ast.Node) bool {
			as, ok := n.(*ast.AssignStmt)
			if !ok || as.Pos() >= at || len(as.Lhs) != len(as.Rhs) {
				return true
			}
			for i, l := range as.Lhs {
				ix, ok := ast.Unparen(l).(*ast.IndexExpr)
				if !ok {
					continue
				}
				lid, ok := ast.Unparen(ix.X).(*ast.Ident)
				ltv, okL := info.Types[ix.Index]
				if !ok || info.ObjectOf(lid) != o || !okL || ltv.Value == nil || ltv.Value.ExactString() != tv.Value.ExactString() {
					continue
				}
				if best == nil || as.Pos() > best.Pos() {
					best, bestRhs = as, as.Rhs[i]
				}
			}
			return true
		})
		if bestRhs != nil {
			return t.signingRootCall(pk, fd, bestRhs, best.Pos(), depth+1)
		}
		blsTraceOpen = true
	case *ast.SelectorExpr, *ast.StarExpr:
		blsTraceOpen = true
	case *ast.CallExpr:
		f := calleeFunc(info, x)
		if f == nil {
			blsTraceOpen = true
			return nil, nil, nil
		}
		if f.Name() == "ComputeSigningRoot" {
			return pk, fd, x
		}
		if mi := t.decls[f.Origin()]; mi != nil {
			// helper: every return must be a ComputeSigningRoot (first result)
			var found *ast.CallExpr
			ast.Inspect(mi.fd.Body, func(n ast.Node) bool {
				if r, ok := n.(*ast.ReturnStmt); ok && len(r.Results) >= 1 {
					if c, ok := ast.Unparen(r.Results[0]).(*ast.CallExpr); ok {
						if g := calleeFunc(mi.pk.TypesInfo, c); g != nil && g.Name() == "ComputeSigningRoot" {
							found = c
						}
					}
				}
				return true
			})
			if found != nil {
				return mi.pk, mi.fd, found
			}
		}
	}
	return nil, nil, nil
}

func ruleBLSVerify(c *Ctx) {
	t := newBLSTracer(c.P)
	nSites := 0
	blsAlways(c)
	blsPrimitives(c)
	c.P.funcDecls(func(pk *packages.Package, fd *ast.FuncDecl) {
		info := pk.TypesInfo
		parents := parentMap(fd.Body)
		cnt := 0
		ast.Inspect(fd.Body, func(n ast.Node) bool {
			call, ok := n.(*ast.CallExpr)
			if !ok {
				return true
			}
			f := calleeFunc(info, call)
			if f == nil || f.Pkg() == nil || !strings.Contains(f.Pkg().Path(), "bls12-381-util") {
				return true
			}
			switch f.Name() {
			case "Verify", "FastAggregateVerify", "Eth2FastAggregateVerify", "AggregateVerify":
			default:
				return true
			}
			nSites++
			cnt++
			site := pkgShort(pk.Types) + "." + funcName(fd)
			if cnt > 1 {
				site += "#" + string(rune('0'+cnt))
			}
			if len(call.Args) != 3 {
				c.unm(site+".msg", call.Pos(), "unexpected arity")
				return true
			}
			// (a) whole message
			msg := ast.Unparen(call.Args[1])
			sl, ok := msg.(*ast.SliceExpr)
			if !ok {
				c.unm(site+".msg", call.Pos(), "message argument %s is not a slice of a signing root", types.ExprString(msg))
			} else if sl.Low != nil || sl.High != nil || sl.Max != nil {
				c.bad(site+".msg", call.Pos(), "signature is verified over %s, a truncated signing root: any message whose root shares that prefix verifies", types.ExprString(msg))
			} else if at, ok := info.TypeOf(sl.X).Underlying().(*types.Array); !ok || at.Len() != 32 {
				c.bad(site+".msg", call.Pos(), "message %s is not a 32-byte root", types.ExprString(msg))
			} else {
				c.ok(site+".msg", call.Pos(), "verified over the whole 32-byte signing root")
			}
			// (b) object/domain
			if sl != nil {
				blsTraceOpen = false
				spk, sfd, src := t.signingRootCall(pk, fd, sl.X, call.Pos(), 0)
				if (src == nil || len(src.Args) != 2) && blsTraceOpen {
					c.unm(site+".root", call.Pos(), "where the verified message %s comes from is not read (a parameter, a field or an element)", types.ExprString(sl.X))
				} else if src == nil || len(src.Args) != 2 {
					c.bad(site+".root", call.Pos(), "the verified message %s does not come from ComputeSigningRoot (no domain separation)", types.ExprString(sl.X))
				} else {
					// the root may have been put in a local first
					obj := signedObject(spk.TypesInfo, resolveLocal(spk.TypesInfo, src.Args[0], singleDefs(spk.TypesInfo, sfd.Body), 3))
					facts := t.traceDomain(spk, sfd, src.Args[1], src.Pos(), 0)
					if len(facts) == 0 {
						c.unm(site+".domain", src.Pos(), "domain %s could not be traced to a DOMAIN_* variable", types.ExprString(src.Args[1]))
					}
					seen := map[string]bool{}
					for _, df := range facts {
						if seen[df.name+df.version] {
							continue
						}
						seen[df.name+df.version] = true
						allowed, known := domainObjects[df.name]
						key := site + ".domain[" + df.name + "]"
						okObj := false
						for _, a := range allowed {
							if a == obj {
								okObj = true
							}
						}
						switch {
						case !known:
							c.bad(key, src.Pos(), "unknown signature domain %s", df.name)
						case !okObj:
							c.bad(key, src.Pos(), "a %s is signed under %s; the spec signs %v under that domain (cross-domain replay: a signature made for another message type verifies here)", obj, df.name, allowed)
						default:
							c.ok(key, src.Pos(), "%s under %s (via %s)", obj, df.name, df.via)
						}
						if hint, ok := domainEpoch[df.name]; ok && df.epochArg != "" && df.via != "ComputeDomain" {
							ekey := site + ".epoch[" + df.name + "]"
							good, undecided := false, false
							if allowed, has := domainEpochKinds[df.name]; has && df.epochKnd != "" {
								for _, k := range strings.Split(allowed, "|") {
									if k == df.epochKnd {
										good = true
									}
								}
								undecided = !good && strings.HasPrefix(df.epochKnd, "?")
							} else {
								for _, re := range hint.re {
									if m, _ := regexp.MatchString(re, df.epochArg); m {
										good = true
									}
								}
							}
							if good {
								c.ok(ekey, src.Pos(), "fork version selected by %s", df.epochArg)
							} else if undecided {
								c.unm(ekey, src.Pos(), "the epoch `%s` that selects the fork version of %s is not of a kind this rule reads (the spec: %s)", df.epochArg, df.name, hint.want)
							} else {
								c.bad(ekey, src.Pos(), "the fork version of %s is selected by epoch `%s`; the spec selects it by %s (a message signed under the other fork version verifies across a fork boundary)", df.name, df.epochArg, hint.want)
							}
						}
						if df.via == "ComputeDomain" {
							vkey := site + ".version[" + df.name + "]"
							av, ok := domainFixedVersion[df.name]
							if !ok {
								c.bad(vkey, src.Pos(), "%s is built with a fixed fork version (%s); the spec derives it from the state's fork at the message epoch", df.name, df.version)
							} else {
								good := false
								for _, a := range av {
									if a == df.version {
										good = true
									}
								}
								if !good {
									c.bad(vkey, src.Pos(), "%s uses fork version %s, the spec prescribes %v", df.name, df.version, av)
								} else if df.name == "DOMAIN_DEPOSIT" && !strings.HasSuffix(df.root, "Root{}") {
									c.bad(vkey, src.Pos(), "deposit domain mixes in %s; deposits are chain-agnostic and use the zero root", df.root)
								} else {
									c.ok(vkey, src.Pos(), "fork version %s", df.version)
								}
							}
						}
					}
				}
			}
			// (c) result honoured: decided on the control-flow graph. With the verification taken to have FAILED, every
			// path from it ends in a refusal (an error, false, a verdict other than ACCEPT; the skipped deposit of
			// process_deposit) or hands the verdict on as the function's result; with it taken to have SUCCEEDED, not
			// every path does (or the test is inverted).
			key := site + ".result"
			{
				body := fd.Body
				var enclosing ast.Node = fd
				for p := parents[call]; p != nil; p = parents[p] {
					if fl, ok := p.(*ast.FuncLit); ok {
						body, enclosing = fl.Body, fl
						break
					}
				}
				_ = enclosing
				failed, ok1 := outcomesUnder(info, body, call, false)
				passed, ok2 := outcomesUnder(info, body, call, true)
				if !ok1 || !ok2 || len(failed) == 0 {
					c.unm(key, call.Pos(), "the verification is not on the control-flow graph of its function")
					return true
				}
				refuses := func(o truthOutcome, whenFailed bool) bool {
					if o.ret == nil {
						return false
					}
					if o.decided != 0 {
						return o.decided < 0
					}
					if !refusalReturn(info, o.ret, fd) {
						return false
					}
					if whenFailed {
						return true
					}
					// on the valid side only what certainly refuses counts: `return store(x)` may well succeed
					if v := verdictOf(info, o.ret); v == "?" {
						return false // a verdict carried in a variable: not known to refuse
					} else if v != "" {
						return true
					}
					last := ast.Unparen(o.ret.Results[len(o.ret.Results)-1])
					if id, ok := last.(*ast.Ident); ok && (id.Name == "false" || id.Name == "nil") {
						return true
					}
					if cl, ok := last.(*ast.CallExpr); ok {
						if f := calleeFunc(info, cl); f != nil && f.Pkg() != nil && (f.Pkg().Path() == "errors" || f.Pkg().Path() == "fmt") {
							return true
						}
					}
					return false
				}
				bad := ""
				for _, o := range failed {
					if !refuses(o, true) {
						if o.ret == nil {
							bad = "the function runs to its end"
						} else {
							bad = "line " + itoa(int64(c.P.Fset.Position(o.ret.Pos()).Line)) + " returns without refusing"
						}
						break
					}
				}
				allRefuse := len(passed) > 0
				for _, o := range passed {
					if !refuses(o, false) {
						allRefuse = false
					}
				}
				switch {
				case bad != "":
					c.bad(key, call.Pos(), "a failed verification does not end every path with an error / false / REJECT: %s", bad)
				case allRefuse:
					c.bad(key, call.Pos(), "a valid signature leads only to refusals (the test is inverted: valid messages are refused, forged ones pass)")
				default:
					c.ok(key, call.Pos(), "a failed verification refuses on every path; a valid one does not")
				}
			}
			return true
		})
	})
	c.stat("verify_call_sites", nSites)
	if nSites < 12 {
		anchorFail("only %d BLS verification call sites found", nSites)
	}
}

// refusalBlock: block ends with a return of non-nil error, false, or a non-ACCEPT verdict. Special case: ProcessDeposit's
// `return nil` on a bad proof of possession is the spec's behaviour (deposit skipped).
func refusalBlock(info *types.Info, b *ast.BlockStmt, fd *ast.FuncDecl) bool {
	if b == nil || len(b.List) == 0 {
		return false
	}
	r, ok := b.List[len(b.List)-1].(*ast.ReturnStmt)
	if !ok {
		return false
	}
	return refusalReturn(info, r, fd)
}

// refusalReturn: the return hands back a non-nil error, false, or a verdict other than ACCEPT.
func refusalReturn(info *types.Info, r *ast.ReturnStmt, fd *ast.FuncDecl) bool {
	if v := verdictOf(info, r); v != "" {
		return v != "ACCEPT"
	}
	if len(r.Results) == 0 {
		return false
	}
	last := ast.Unparen(r.Results[len(r.Results)-1])
	if id, ok := last.(*ast.Ident); ok {
		if id.Name == "false" {
			return true
		}
		if id.Name == "nil" {
			if fd.Name.Name == "ProcessDeposit" || blsOwnedByProcessDeposit(fd) {
				return true // spec: invalid proof of possession => deposit skipped, block valid
			}
			if len(r.Results) >= 2 {
				if b0, ok := ast.Unparen(r.Results[0]).(*ast.Ident); ok && b0.Name == "false" {
					return true
				}
			}
			return false
		}
		if id.Name == "true" {
			return false
		}
	}
	t := info.TypeOf(last)
	return isErrorT(t) || (t != nil && types.Implements(t, errorIface()))
}

func ruleSeedDomain(c *Ctx) {
	want := map[string]string{
		"ComputeShufflingEpoch":       "DOMAIN_BEACON_ATTESTER",
		"ComputeProposers":            "DOMAIN_BEACON_PROPOSER",
		"ComputeSyncCommitteeIndices": "DOMAIN_SYNC_COMMITTEE",
	}
	found := map[string]bool{}
	// an unexported function that asks for the seed does so on behalf of the functions of its package that call it
	callersOf := map[*types.Func][]*ast.FuncDecl{}
	c.P.funcDecls(func(pk *packages.Package, fd *ast.FuncDecl) {
		if fd.Body == nil {
			return
		}
		ast.Inspect(fd.Body, func(n ast.Node) bool {
			if call, ok := n.(*ast.CallExpr); ok {
				if f := calleeFunc(pk.TypesInfo, call); f != nil && !f.Exported() && f.Pkg() == pk.Types {
					callersOf[f] = append(callersOf[f], fd)
				}
			}
			return true
		})
	})
	c.P.funcDecls(func(pk *packages.Package, fd0 *ast.FuncDecl) {
		info := pk.TypesInfo
		if fd0.Body == nil {
			return
		}
		fd := fd0
		if _, known := want[fd0.Name.Name]; !known {
			if self, ok := info.Defs[fd0.Name].(*types.Func); ok && !self.Exported() {
				for _, c1 := range callersOf[self] {
					if _, ok := want[c1.Name.Name]; ok {
						fd = c1
					}
					if s1, ok := info.Defs[c1.Name].(*types.Func); ok && !s1.Exported() {
						for _, c2 := range callersOf[s1] {
							if _, ok := want[c2.Name.Name]; ok {
								fd = c2
							}
						}
					}
				}
			}
		}
		ast.Inspect(fd0.Body, func(n ast.Node) bool {
			call, ok := n.(*ast.CallExpr)
			if !ok {
				return true
			}
			f := calleeFunc(info, call)
			if f == nil || f.Name() != "GetSeed" || !isZrnt(f) {
				return true
			}
			var dom string
			for _, a := range call.Args {
				if nt := namedOf(info.TypeOf(a)); nt != nil && nt.Obj().Name() == "BLSDomainType" {
					dom = leafName(a)
				}
			}
			key := pkgShort(pk.Types) + "." + funcName(fd) + "->GetSeed"
			found[fd.Name.Name] = true
			w, known := want[fd.Name.Name]
			switch {
			case !known:
				c.info(key, call.Pos(), "GetSeed consumer not in the table (domain %s)", dom)
			case dom != w:
				c.bad(key, call.Pos(), "%s seeds with %s, the spec uses %s (a different seed gives a different shuffling/selection)", fd.Name.Name, dom, w)
			default:
				c.ok(key, call.Pos(), "%s", dom)
			}
			return true
		})
	})
	var missing []string
	for k := range want {
		if !found[k] {
			missing = append(missing, k)
		}
	}
	sort.Strings(missing)
	if len(missing) > 0 {
		anchorFail("GetSeed consumers not found: %v", missing)
	}
}

func isBLSVerifyCall(info *types.Info, call *ast.CallExpr) bool {
	f := calleeFunc(info, call)
	if f == nil || f.Pkg() == nil || !strings.Contains(f.Pkg().Path(), "bls12-381-util") {
		return false
	}
	switch f.Name() {
	case "Verify", "FastAggregateVerify", "Eth2FastAggregateVerify", "AggregateVerify":
		return true
	}
	return false
}

// blsAlways: a signature check that is only evaluated under some condition is no check when the condition fails. Every
// BLS verification — and every call of a module function that hands a verification's verdict on as its result — is
// evaluated on every path through its function that reaches it: it stands under no enclosing branch and after no
// short-circuit operand, other than (i) tests of an error value against nil and (ii) the reviewed conditions of
// blsConditional (process_deposit verifies the proof of possession of NEW validators only).
func blsAlways(c *Ctx) {
	// functions whose boolean result is a verification's verdict
	verdict := map[*types.Func]bool{}
	for changed := true; changed; {
		changed = false
		c.P.funcDecls(func(pk *packages.Package, fd *ast.FuncDecl) {
			f, _ := pk.TypesInfo.Defs[fd.Name].(*types.Func)
			if f == nil || verdict[f] || fd.Body == nil {
				return
			}
			ast.Inspect(fd.Body, func(n ast.Node) bool {
				if _, ok := n.(*ast.FuncLit); ok {
					return false
				}
				r, ok := n.(*ast.ReturnStmt)
				if !ok {
					return true
				}
				for _, res := range r.Results {
					if call, ok := ast.Unparen(res).(*ast.CallExpr); ok {
						if isBLSVerifyCall(pk.TypesInfo, call) {
							verdict[f], changed = true, true
						} else if g := calleeFunc(pk.TypesInfo, call); g != nil && verdict[g] {
							verdict[f], changed = true, true
						}
					}
				}
				return true
			})
		})
	}
	c.P.funcDecls(func(pk *packages.Package, fd *ast.FuncDecl) {
		if fd.Body == nil || !strings.Contains(pk.PkgPath, "/eth2/") {
			return
		}
		info := pk.TypesInfo
		parents := parentMap(fd.Body)
		fn := pkgShort(pk.Types) + "." + funcName(fd)
		cnt := 0
		ast.Inspect(fd.Body, func(n ast.Node) bool {
			call, ok := n.(*ast.CallExpr)
			if !ok {
				return true
			}
			what := ""
			if isBLSVerifyCall(info, call) {
				what = "the signature check"
			} else if g := calleeFunc(info, call); g != nil && verdict[g] {
				what = "the signature check of " + g.Name()
			} else {
				return true
			}
			cnt++
			key := fn + ".always"
			if cnt > 1 {
				key += "#" + itoa(int64(cnt))
			}
			// on the control-flow graph: every path to an accepting exit (nil error, true, ACCEPT) evaluates this call
			this := call
			pp := newPathPass(c.P, pk, func(_ *types.Info, k ast.Node) bool { return k == ast.Node(this) })
			if pp.before(fd, nil) {
				c.ok(key, call.Pos(), "%s is evaluated on every path to an accepting exit", what)
				return true
			}
			// a function that answers with a boolean: every path that ends without having come to the check answers
			// false (a result variable that starts out false and is only set by the check)
			if res := fd.Type.Results; res != nil && len(res.List) > 0 && !rightOfShortCircuit(parents, call) {
				if bt, ok := info.TypeOf(res.List[len(res.List)-1].Type).Underlying().(*types.Basic); ok && bt.Kind() == types.Bool {
					if outs, okW := outcomesWithout(info, fd.Body, call); okW && len(outs) > 0 {
						allFalse := true
						for _, o := range outs {
							if o.ret == nil || o.decided != -1 {
								allFalse = false
							}
						}
						if allFalse {
							c.ok(key, call.Pos(), "%s: every path that ends without evaluating it answers false", what)
							return true
						}
					}
				}
			}
			var under []string
			for _, pc := range pathCondsAt(parents, call) {
				if pc.after || pc.loop {
					continue
				}
				// a test of an error against nil
				if be, ok := pc.e.(*ast.BinaryExpr); ok && (be.Op == token.EQL || be.Op == token.NEQ) && (isNilExpr(info, be.X) || isNilExpr(info, be.Y)) {
					continue
				}
				if blsReviewedCondition(info, fd, fn, pc.e) {
					continue
				}
				t := types.ExprString(pc.e)
				if pc.neg {
					t = "!(" + t + ")"
				}
				under = append(under, t)
			}
			if len(under) > 0 {
				c.bad(key, call.Pos(), "%s is only evaluated when %s: when that fails the message passes without its signature having been looked at", what, strings.Join(under, " && "))
			} else {
				c.ok(key, call.Pos(), "%s stands under no condition other than the reviewed ones (blsConditional)", what)
			}
			return true
		})
	})
}

// blsConditional: the conditions a verification may stand under, reviewed against the spec.
//   - phase0.ProcessDeposit: apply_deposit checks the proof of possession only `if pubkey not in validator_pubkeys`
//     (a top-up carries no valid signature), and zrnt's caller-supplied flag skips it for deposits whose proof was
//     checked beforehand (genesis): the bool parameter, and the bool local computed from the registry lookup
//     (ValidatorIndex of the pubkey cache).
//   - common.PostSlotTransition: the caller of the state transition chooses whether the block's signature and state
//     root are validated (validate_result of state_transition): the bool parameter.
var blsConditional = map[string]string{"phase0.ProcessDeposit": "param,lookup", "common.PostSlotTransition": "param"}

func blsReviewedCondition(info *types.Info, fd *ast.FuncDecl, fn string, e ast.Expr) bool {
	kinds, ok := blsConditional[fn]
	if !ok {
		// an unexported function that only the reviewed one calls: the exception moves with the code
		if kinds, ok = blsConditional[ownerOrSelf(fn)]; !ok {
			return false
		}
	}
	id, ok := ast.Unparen(e).(*ast.Ident)
	if !ok {
		return false
	}
	obj := info.ObjectOf(id)
	if obj == nil {
		return false
	}
	if b, ok := obj.Type().Underlying().(*types.Basic); !ok || b.Kind() != types.Bool {
		return false
	}
	// a bool parameter
	for _, f := range fd.Type.Params.List {
		for _, nm := range f.Names {
			if info.Defs[nm] == obj {
				return true
			}
		}
	}
	if !strings.Contains(kinds, "lookup") {
		return false
	}
	// a bool local computed from the result of the registry lookup
	looked := map[types.Object]bool{}
	ast.Inspect(fd.Body, func(n ast.Node) bool {
		as, ok := n.(*ast.AssignStmt)
		if !ok || len(as.Rhs) != 1 {
			return true
		}
		if call, isCall := ast.Unparen(as.Rhs[0]).(*ast.CallExpr); isCall {
			if f := calleeFunc(info, call); f != nil && f.Name() == "ValidatorIndex" {
				for _, l := range as.Lhs {
					if lid, ok := l.(*ast.Ident); ok && info.ObjectOf(lid) != nil {
						looked[info.ObjectOf(lid)] = true
					}
				}
			}
		}
		return true
	})
	if looked[obj] {
		return true
	}
	found := false
	ast.Inspect(fd.Body, func(n ast.Node) bool {
		as, ok := n.(*ast.AssignStmt)
		if !ok || len(as.Rhs) != len(as.Lhs) {
			return true
		}
		for i, l := range as.Lhs {
			if lid, ok := l.(*ast.Ident); ok && info.ObjectOf(lid) == obj {
				for o := range looked {
					if mentions(info, as.Rhs[i], o) {
						found = true
					}
				}
			}
		}
		return true
	})
	return found
}

// rightOfShortCircuit: n stands in the right operand of a && or || (it is evaluated only sometimes even when the node
// that holds it is).
func rightOfShortCircuit(parents map[ast.Node]ast.Node, n ast.Node) bool {
	for child, p := n, parents[n]; p != nil; child, p = p, parents[p] {
		if be, ok := p.(*ast.BinaryExpr); ok && (be.Op == token.LAND || be.Op == token.LOR) && ast.Node(be.Y) == child {
			return true
		}
		if _, ok := p.(ast.Stmt); ok {
			return false
		}
	}
	return false
}

// blsOwnedByProcessDeposit: fd is an unexported function of package phase0 that only ProcessDeposit (or functions it
// owns) calls (owners.go).
func blsOwnedByProcessDeposit(fd *ast.FuncDecl) bool {
	return fd.Recv == nil && helperOwner["phase0."+fd.Name.Name] == "phase0.ProcessDeposit"
}

// domainEpochKinds: the kinds of value (epochKind) the specification selects each domain's fork version with. Kinds are
// read off types, fields and callees, never off the names of locals or parameters.
var domainEpochKinds = map[string]string{
	"DOMAIN_VOLUNTARY_EXIT":                 "Epoch@VoluntaryExit",
	"DOMAIN_BEACON_ATTESTER":                "Epoch@Target",
	"DOMAIN_RANDAO":                         "s2e(state)|s2e(param)|current",
	"DOMAIN_BEACON_PROPOSER":                "s2e(field.Slot)",
	"DOMAIN_SELECTION_PROOF":                "s2e(param)|s2e(field.Slot)",
	"DOMAIN_AGGREGATE_AND_PROOF":            "Epoch@Target|s2e(field.Slot)",
	"DOMAIN_SYNC_COMMITTEE":                 "s2e(prev)|s2e(field.Slot)",
	"DOMAIN_SYNC_COMMITTEE_SELECTION_PROOF": "s2e(param)|s2e(field.Slot)",
	"DOMAIN_CONTRIBUTION_AND_PROOF":         "s2e(field.Slot)",
}

// slotKindAt: the kind of SlotToEpoch(<arg>) with <arg> read in the function fd (of the package with info): the callee of
// the probe is resolved with calleeInfo, the package it was written in.
func slotKindAt(info *types.Info, fd *ast.FuncDecl, calleeInfo *types.Info, probe *ast.CallExpr, pos token.Pos, depth int) string {
	saved := epochKindCallee
	epochKindCallee = func(c *ast.CallExpr) *types.Func {
		if c == probe {
			return calleeFunc(calleeInfo, &ast.CallExpr{Fun: probe.Fun})
		}
		return nil
	}
	defer func() { epochKindCallee = saved }()
	return epochKind(info, fd, probe, pos, depth)
}

var epochKindCallee func(*ast.CallExpr) *types.Func

// epochKind: what an epoch expression is, with locals read as their last definition before pos:
//
//	Epoch@<T>        the Epoch field of a value of named type T (VoluntaryExit), or of the field Target / Source of something
//	s2e(field.Slot)  SlotToEpoch of a Slot field of a message
//	s2e(prev)        SlotToEpoch of <slot>.Previous()
//	s2e(state)       SlotToEpoch of the slot read from the state (a Slot() call)
//	s2e(param)       SlotToEpoch of a parameter of the function
//	current          the current epoch of the context / state (CurrentEpoch.Epoch, GetCurrentEpoch / CurrentEpoch calls)
//	?…               anything else
func epochKind(info *types.Info, fd *ast.FuncDecl, e ast.Expr, pos token.Pos, depth int) string {
	e = ast.Unparen(e)
	if depth > 4 {
		return "?deep"
	}
	resolve := func(id *ast.Ident) ast.Expr {
		if paramIndex(fd, info, info.Uses[id]) >= 0 {
			return nil
		}
		rhs, _ := lastDefBefore(info, fd, info.Uses[id], pos)
		return rhs
	}
	switch x := e.(type) {
	case *ast.Ident:
		if paramIndex(fd, info, info.Uses[x]) >= 0 {
			return "?param"
		}
		if rhs := resolve(x); rhs != nil {
			return epochKind(info, fd, rhs, pos, depth+1)
		}
		return "?local"
	case *ast.SelectorExpr:
		if x.Sel.Name == "Epoch" {
			if inner, ok := ast.Unparen(x.X).(*ast.SelectorExpr); ok {
				switch inner.Sel.Name {
				case "Target", "Source":
					return "Epoch@" + inner.Sel.Name
				case "CurrentEpoch":
					return "current"
				}
			}
			t := info.TypeOf(x.X)
			if p, ok := t.(*types.Pointer); ok {
				t = p.Elem()
			}
			if nt := namedOf(t); nt != nil {
				return "Epoch@" + nt.Obj().Name()
			}
		}
		return "?field"
	case *ast.CallExpr:
		if isConversion(info, x) && len(x.Args) == 1 {
			return epochKind(info, fd, x.Args[0], pos, depth+1)
		}
		var f *types.Func
		if epochKindCallee != nil {
			f = epochKindCallee(x)
		}
		if f == nil {
			f = calleeFunc(info, x)
		}
		if f == nil {
			return "?call"
		}
		switch f.Name() {
		case "GetCurrentEpoch", "CurrentEpoch":
			return "current"
		case "SlotToEpoch":
			if len(x.Args) != 1 {
				return "?call"
			}
			a := ast.Unparen(x.Args[0])
			for i := 0; i < 4; i++ {
				id, ok := a.(*ast.Ident)
				if !ok {
					break
				}
				if k := paramIndex(fd, info, info.Uses[id]); k >= 0 {
					// a parameter of an unexported helper is what its callers hand in: the kind they all agree on
					if f, _ := info.Defs[fd.Name].(*types.Func); f != nil && fd.Recv == nil && !f.Exported() && !helperEscapes[f] && len(helperCallSites[f]) > 0 && depth < 3 {
						kind := ""
						for _, cs := range helperCallSites[f] {
							if k >= len(cs.call.Args) || cs.call.Ellipsis.IsValid() {
								return "s2e(param)"
							}
							// the argument, read in the caller as the slot of a SlotToEpoch call there
							probe := &ast.CallExpr{Fun: x.Fun, Args: []ast.Expr{cs.call.Args[k]}}
							ck := slotKindAt(cs.info, cs.fd, info, probe, cs.call.Pos(), depth+1)
							if kind != "" && ck != kind {
								return "?s2e(callers differ)"
							}
							kind = ck
						}
						return kind
					}
					return "s2e(param)"
				}
				rhs := resolve(id)
				if rhs == nil {
					return "?s2e(local)"
				}
				a = ast.Unparen(rhs)
			}
			switch y := a.(type) {
			case *ast.SelectorExpr:
				if y.Sel.Name == "Slot" {
					return "s2e(field.Slot)"
				}
			case *ast.CallExpr:
				if g := calleeFunc(info, y); g != nil {
					switch g.Name() {
					case "Previous":
						return "s2e(prev)"
					case "Slot":
						return "s2e(state)"
					}
				}
			}
			return "?s2e(other)"
		}
	}
	return "?other"
}
