package main

import (
	"go/ast"
	"go/constant"
	"go/token"
	"go/types"
	"reflect"
	"strconv"
)

// A third normalisation of the loaded syntax (applied between the two in desugar.go): a loop over a table that is
// written out in the source,
//
//	for _, row := range [...]T{{a1, b1}, {a2, b2}} { body(row.x, row.y) }      (table given in place, as a local
//	                                                                             defined once, or as a package variable
//	                                                                             that nothing assigns or points into)
//
// is rewritten as  body(a1, b1); body(a2, b2)  — the straight-line code it abbreviates. Each copy gets its own objects
// for the locals the body declares, `row.f` is the element's field expression, `row` the element, the index its
// number, and `*p` for an element `&x` is x. A loop is left alone when unrolling would change what it does: an
// unlabelled break or continue of that loop (or a jump to its label), the element or index being assigned or having
// its address taken, an element that is not a literal, keyed elements, or more than 16 rows.
// Rules then see one spelling: the straight-line code and the table-driven loop are the same statements.
func desugarTableLoops(p *Prog) int {
	n := 0
	for _, pk := range p.Pkgs {
		info := pk.TypesInfo
		// package-level tables: var T = <composite literal>, never assigned, indexed on the left or pointed into
		pkgTables := map[types.Object]*ast.CompositeLit{}
		tainted := map[types.Object]bool{}
		for _, f := range pk.Syntax {
			for _, d := range f.Decls {
				gd, ok := d.(*ast.GenDecl)
				if !ok || gd.Tok != token.VAR {
					continue
				}
				for _, sp := range gd.Specs {
					vs := sp.(*ast.ValueSpec)
					if len(vs.Names) != len(vs.Values) {
						continue
					}
					for i, nm := range vs.Names {
						if cl, ok := ast.Unparen(vs.Values[i]).(*ast.CompositeLit); ok {
							pkgTables[info.Defs[nm]] = cl
						}
					}
				}
			}
		}
		for _, f := range pk.Syntax {
			for _, d := range f.Decls {
				if fd, ok := d.(*ast.FuncDecl); ok {
					n += inlineElementAliases(info, fd)
				}
			}
		}
		baseObj := func(e ast.Expr) types.Object {
			for {
				switch x := ast.Unparen(e).(type) {
				case *ast.Ident:
					return info.ObjectOf(x)
				case *ast.IndexExpr:
					e = x.X
				case *ast.SelectorExpr:
					e = x.X
				case *ast.StarExpr:
					e = x.X
				case *ast.SliceExpr:
					e = x.X
				default:
					return nil
				}
			}
		}
		for _, f := range pk.Syntax {
			ast.Inspect(f, func(k ast.Node) bool {
				switch x := k.(type) {
				case *ast.AssignStmt:
					if x.Tok == token.DEFINE {
						return true
					}
					for _, l := range x.Lhs {
						if o := baseObj(l); o != nil {
							tainted[o] = true
						}
					}
				case *ast.IncDecStmt:
					if o := baseObj(x.X); o != nil {
						tainted[o] = true
					}
				case *ast.UnaryExpr:
					if x.Op == token.AND {
						if _, isLit := ast.Unparen(x.X).(*ast.CompositeLit); !isLit {
							if o := baseObj(x.X); o != nil {
								tainted[o] = true
							}
						}
					}
				case *ast.SliceExpr:
					if o := baseObj(x.X); o != nil {
						tainted[o] = true // a slice of it aliases its storage
					}
				}
				return true
			})
		}
		for _, f := range pk.Syntax {
			for _, d := range f.Decls {
				fd, ok := d.(*ast.FuncDecl)
				if !ok || fd.Body == nil {
					continue
				}
				unrolledTables := map[types.Object]bool{}
				for round := 0; round < 3; round++ {
					before := n
					defs := singleDefs(info, fd.Body)
					tableOf := func(e ast.Expr) *ast.CompositeLit {
						switch x := ast.Unparen(e).(type) {
						case *ast.CompositeLit:
							return x
						case *ast.Ident:
							o := info.ObjectOf(x)
							if o == nil || tainted[o] {
								return nil
							}
							if cl, ok := pkgTables[o]; ok {
								return cl
							}
							if d, ok := defs[o]; ok && d.pos == 0 && d.n == 1 {
								cl, _ := ast.Unparen(d.rhs).(*ast.CompositeLit)
								return cl
							}
						}
						return nil
					}
					rewrite := func(list []ast.Stmt) []ast.Stmt {
						var out []ast.Stmt
						changed := false
						for _, st := range list {
							// `for i := 0; i < len(T); i++ { … T[i] … }` is `for i := range T { … }`
							if fs, ok := st.(*ast.ForStmt); ok {
								if rs := countingAsRange(info, fs); rs != nil {
									if copies := unrollRange(info, pk.Types, rs, tableOf(rs.X)); copies != nil {
										changed = true
										n++
										if id, ok := ast.Unparen(rs.X).(*ast.Ident); ok {
											unrolledTables[info.ObjectOf(id)] = true
										}
										out = append(out, copies...)
										continue
									}
								}
							}
							rs, ok := st.(*ast.RangeStmt)
							if !ok {
								out = append(out, st)
								continue
							}
							copies := unrollRange(info, pk.Types, rs, tableOf(rs.X))
							if copies == nil {
								out = append(out, st)
								continue
							}
							if id, ok := ast.Unparen(rs.X).(*ast.Ident); ok {
								unrolledTables[info.ObjectOf(id)] = true
							}
							changed = true
							n++
							out = append(out, copies...)
						}
						if !changed {
							return list
						}
						return out
					}
					ast.Inspect(fd.Body, func(k ast.Node) bool {
						switch x := k.(type) {
						case *ast.BlockStmt:
							x.List = rewrite(x.List)
						case *ast.CaseClause:
							x.Body = rewrite(x.Body)
						case *ast.CommClause:
							x.Body = rewrite(x.Body)
						}
						return true
					})
					if n == before {
						break
					}
					// a local table that only the unrolled loops read is gone with them
					uses := map[types.Object]int{}
					ast.Inspect(fd.Body, func(k ast.Node) bool {
						if id, ok := k.(*ast.Ident); ok {
							if o := info.Uses[id]; o != nil {
								uses[o]++
							}
						}
						return true
					})
					drop := func(list []ast.Stmt) []ast.Stmt {
						var out []ast.Stmt
						changed := false
						for _, st := range list {
							if as, ok := st.(*ast.AssignStmt); ok && as.Tok == token.DEFINE && len(as.Lhs) == 1 && len(as.Rhs) == 1 {
								if id, ok := as.Lhs[0].(*ast.Ident); ok {
									if _, isLit := ast.Unparen(as.Rhs[0]).(*ast.CompositeLit); isLit && unrolledTables[info.Defs[id]] && uses[info.Defs[id]] == 0 {
										changed = true
										continue
									}
								}
							}
							out = append(out, st)
						}
						if !changed {
							return list
						}
						return out
					}
					ast.Inspect(fd.Body, func(k ast.Node) bool {
						switch x := k.(type) {
						case *ast.BlockStmt:
							x.List = drop(x.List)
						case *ast.CaseClause:
							x.Body = drop(x.Body)
						}
						return true
					})
				}
			}
		}
	}
	return n
}

// countingAsRange reads `for i := 0; i < len(T); i++ { body }` (i not assigned in the body) as the range statement
// `for i := range T { body }`; nil when the loop is not of that form.
func countingAsRange(info *types.Info, fs *ast.ForStmt) *ast.RangeStmt {
	as, ok := fs.Init.(*ast.AssignStmt)
	if !ok || as.Tok != token.DEFINE || len(as.Lhs) != 1 || len(as.Rhs) != 1 || fs.Cond == nil || fs.Post == nil {
		return nil
	}
	iv, ok := as.Lhs[0].(*ast.Ident)
	if !ok {
		return nil
	}
	if tv, ok := info.Types[as.Rhs[0]]; !ok || tv.Value == nil || tv.Value.ExactString() != "0" {
		return nil
	}
	obj := info.Defs[iv]
	be, ok := ast.Unparen(fs.Cond).(*ast.BinaryExpr)
	if !ok {
		return nil
	}
	var bound ast.Expr
	isI := func(e ast.Expr) bool {
		id, ok := ast.Unparen(e).(*ast.Ident)
		return ok && info.Uses[id] == obj
	}
	switch {
	case be.Op == token.LSS && isI(be.X):
		bound = be.Y
	case be.Op == token.GTR && isI(be.Y):
		bound = be.X
	default:
		return nil
	}
	for {
		c, ok := ast.Unparen(bound).(*ast.CallExpr)
		if !ok {
			return nil
		}
		if isConversion(info, c) && len(c.Args) == 1 {
			bound = c.Args[0]
			continue
		}
		id, ok := c.Fun.(*ast.Ident)
		if !ok || id.Name != "len" || len(c.Args) != 1 {
			return nil
		}
		bound = c.Args[0]
		break
	}
	switch post := fs.Post.(type) {
	case *ast.IncDecStmt:
		if post.Tok != token.INC || !isI(post.X) {
			return nil
		}
	case *ast.AssignStmt:
		if post.Tok != token.ADD_ASSIGN || len(post.Lhs) != 1 || !isI(post.Lhs[0]) {
			return nil
		}
		if tv, ok := info.Types[post.Rhs[0]]; !ok || tv.Value == nil || tv.Value.ExactString() != "1" {
			return nil
		}
	default:
		return nil
	}
	return &ast.RangeStmt{For: fs.For, Key: iv, Tok: token.DEFINE, X: bound, Body: fs.Body}
}

// unrollRange returns the statements of the unrolled loop, or nil when the loop is not a loop over a written-out table
// that can be unrolled faithfully.
func unrollRange(info *types.Info, pkg *types.Package, rs *ast.RangeStmt, table *ast.CompositeLit) []ast.Stmt {
	if table == nil || rs.Tok != token.DEFINE || len(table.Elts) == 0 || len(table.Elts) > 16 {
		return nil
	}
	switch info.TypeOf(table).Underlying().(type) {
	case *types.Array, *types.Slice:
	default:
		return nil
	}
	var keyObj, valObj types.Object
	if id, ok := rs.Key.(*ast.Ident); ok && id.Name != "_" {
		keyObj = info.Defs[id]
	} else if rs.Key != nil && !ok {
		return nil
	}
	if rs.Value != nil {
		id, ok := rs.Value.(*ast.Ident)
		if !ok {
			return nil
		}
		if id.Name != "_" {
			valObj = info.Defs[id]
		}
	}
	// rows: literal elements; struct rows by field name
	type row struct {
		whole  ast.Expr
		fields map[string]ast.Expr
	}
	var rows []row
	for _, el := range table.Elts {
		if _, keyed := el.(*ast.KeyValueExpr); keyed {
			return nil
		}
		r := row{whole: el}
		lit := ast.Unparen(el)
		if u, ok := lit.(*ast.UnaryExpr); ok && u.Op == token.AND {
			lit = ast.Unparen(u.X)
		}
		if cl, ok := lit.(*ast.CompositeLit); ok {
			t := info.TypeOf(cl)
			if t != nil {
				if st, ok := t.Underlying().(*types.Struct); ok {
					r.fields = map[string]ast.Expr{}
					for i, fe := range cl.Elts {
						if kv, ok := fe.(*ast.KeyValueExpr); ok {
							if kid, ok := kv.Key.(*ast.Ident); ok {
								r.fields[kid.Name] = kv.Value
							}
						} else if i < st.NumFields() {
							r.fields[st.Field(i).Name()] = fe
						}
					}
				}
			}
		}
		rows = append(rows, r)
	}
	// `if c { continue }` directly in the body is `if !c { the rest of the body }`
	var guard func(list []ast.Stmt) []ast.Stmt
	guard = func(list []ast.Stmt) []ast.Stmt {
		for i, st := range list {
			is, ok := st.(*ast.IfStmt)
			if !ok || is.Else != nil || len(is.Body.List) != 1 {
				continue
			}
			br, ok := is.Body.List[0].(*ast.BranchStmt)
			if !ok || br.Tok != token.CONTINUE || br.Label != nil {
				continue
			}
			not := &ast.UnaryExpr{OpPos: is.Cond.Pos(), Op: token.NOT, X: &ast.ParenExpr{Lparen: is.Cond.Pos(), X: is.Cond, Rparen: is.Cond.End()}}
			if tv, ok := info.Types[is.Cond]; ok {
				info.Types[not] = tv
				info.Types[not.X] = tv
			}
			rest := guard(append([]ast.Stmt{}, list[i+1:]...))
			out := append([]ast.Stmt{}, list[:i]...)
			if is.Init != nil {
				out = append(out, is.Init)
			}
			return append(out, &ast.IfStmt{If: is.If, Cond: not, Body: &ast.BlockStmt{Lbrace: is.Body.Lbrace, List: rest, Rbrace: rs.Body.Rbrace}})
		}
		return list
	}
	if g := guard(rs.Body.List); len(g) != len(rs.Body.List) || (len(g) > 0 && g[len(g)-1] != rs.Body.List[len(rs.Body.List)-1]) {
		rs = &ast.RangeStmt{For: rs.For, Key: rs.Key, Value: rs.Value, Tok: rs.Tok, X: rs.X, Body: &ast.BlockStmt{Lbrace: rs.Body.Lbrace, List: g, Rbrace: rs.Body.Rbrace}}
	}
	// the body: no break/continue of this loop, no goto; the loop variables only read
	okBody := true
	var scan func(n ast.Node, shielded bool)
	scan = func(n ast.Node, shielded bool) {
		ast.Inspect(n, func(k ast.Node) bool {
			if !okBody || k == nil {
				return false
			}
			switch x := k.(type) {
			case *ast.FuncLit:
				// a closure capturing the loop variable per iteration: each copy gets its own, fine; but a break inside it
				// cannot target the loop anyway
				scanUses(info, x, keyObj, valObj, &okBody)
				return false
			case *ast.ForStmt, *ast.RangeStmt:
				if k != n {
					scan(k, true)
					return false
				}
			case *ast.SwitchStmt, *ast.TypeSwitchStmt, *ast.SelectStmt:
				if k != n {
					// break inside targets the switch; continue still targets the loop
					ast.Inspect(k, func(m ast.Node) bool {
						if br, ok := m.(*ast.BranchStmt); ok && (br.Tok == token.CONTINUE || br.Label != nil || br.Tok == token.GOTO) && !shielded {
							okBody = false
						}
						if _, isLoop := m.(*ast.ForStmt); isLoop {
							return false
						}
						if _, isLoop := m.(*ast.RangeStmt); isLoop {
							return false
						}
						return okBody
					})
					scanUses(info, k, keyObj, valObj, &okBody)
					return false
				}
			case *ast.BranchStmt:
				if x.Tok == token.GOTO || x.Label != nil {
					okBody = false
				} else if !shielded && (x.Tok == token.BREAK || x.Tok == token.CONTINUE) {
					okBody = false
				}
			case *ast.LabeledStmt:
				okBody = false
			}
			return okBody
		})
	}
	scan(rs.Body, false)
	if !okBody {
		return nil
	}
	scanUses(info, rs.Body, keyObj, valObj, &okBody)
	if !okBody {
		return nil
	}
	// every use of the element is `v.f` with f a field the row spells out, or the whole element
	parents := parentMap(rs.Body)
	needWhole := false
	ast.Inspect(rs.Body, func(k ast.Node) bool {
		id, ok := k.(*ast.Ident)
		if !ok || valObj == nil || info.Uses[id] != valObj {
			return true
		}
		if sel, ok := parents[id].(*ast.SelectorExpr); ok && sel.X == ast.Expr(id) {
			for _, r := range rows {
				if r.fields == nil && purePath(info, r.whole) {
					continue // a row that names a variable or its address (&ps.Header1): v.f is (row).f
				}
				if r.fields == nil || r.fields[sel.Sel.Name] == nil {
					okBody = false
				}
			}
			return true
		}
		needWhole = true
		return true
	})
	if !okBody {
		return nil
	}
	_ = needWhole
	var out []ast.Stmt
	for k, r := range rows {
		c := &cloner{info: info, pkg: pkg, rename: map[types.Object]types.Object{}, keyObj: keyObj, valObj: valObj, index: k, row: r.whole, fields: r.fields}
		if _, isIdent := ast.Unparen(rs.X).(*ast.Ident); isIdent {
			c.tableText = types.ExprString(rs.X)
		}
		// fresh objects for what the body declares
		ast.Inspect(rs.Body, func(m ast.Node) bool {
			if id, ok := m.(*ast.Ident); ok {
				if o, ok := info.Defs[id].(*types.Var); ok && o != nil {
					c.rename[o] = types.NewVar(o.Pos(), o.Pkg(), o.Name(), o.Type())
				}
			}
			return true
		})
		body := c.clone(reflect.ValueOf(rs.Body)).Interface().(*ast.BlockStmt)
		out = append(out, body.List...)
	}
	return out
}

// scanUses: the loop variables are only read (never assigned, incremented or pointed to).
func scanUses(info *types.Info, n ast.Node, keyObj, valObj types.Object, ok *bool) {
	is := func(e ast.Expr) bool {
		id, isId := ast.Unparen(e).(*ast.Ident)
		if !isId {
			return false
		}
		o := info.Uses[id]
		return o != nil && (o == keyObj || o == valObj)
	}
	ast.Inspect(n, func(k ast.Node) bool {
		switch x := k.(type) {
		case *ast.AssignStmt:
			for _, l := range x.Lhs {
				if is(l) {
					*ok = false
				}
				// v.f = … writes into the copy: not a read
				if sel, isSel := ast.Unparen(l).(*ast.SelectorExpr); isSel && is(sel.X) {
					*ok = false
				}
			}
		case *ast.IncDecStmt:
			if is(x.X) {
				*ok = false
			}
		case *ast.UnaryExpr:
			if x.Op == token.AND && is(x.X) {
				*ok = false
			}
		}
		return *ok
	})
}

type cloner struct {
	info           *types.Info
	pkg            *types.Package
	rename         map[types.Object]types.Object
	keyObj, valObj types.Object
	index          int
	tableText      string // the table as written in the loop header (T of `range T`), for T[i]
	row            ast.Expr
	fields         map[string]ast.Expr
}

var (
	astObjectType = reflect.TypeOf((*ast.Object)(nil))
	astScopeType  = reflect.TypeOf((*ast.Scope)(nil))
)

// plain copies an expression from outside the loop body (a row's element or field): new nodes, same objects.
func (c *cloner) plain(e ast.Expr) ast.Expr {
	sub := &cloner{info: c.info, pkg: c.pkg, rename: map[types.Object]types.Object{}}
	return sub.clone(reflect.ValueOf(e)).Interface().(ast.Expr)
}

func (c *cloner) clone(v reflect.Value) reflect.Value {
	switch v.Kind() {
	case reflect.Interface:
		if v.IsNil() {
			return v
		}
		out := reflect.New(v.Type()).Elem()
		out.Set(c.clone(v.Elem()))
		return out
	case reflect.Slice:
		if v.IsNil() {
			return v
		}
		out := reflect.MakeSlice(v.Type(), v.Len(), v.Len())
		for i := 0; i < v.Len(); i++ {
			out.Index(i).Set(c.clone(v.Index(i)))
		}
		return out
	case reflect.Ptr:
		if v.IsNil() {
			return v
		}
		if v.Type() == astObjectType || v.Type() == astScopeType {
			return reflect.Zero(v.Type())
		}
		// substitutions
		switch x := v.Interface().(type) {
		case *ast.SelectorExpr:
			if id, ok := ast.Unparen(x.X).(*ast.Ident); ok && c.valObj != nil && c.info.Uses[id] == c.valObj && c.fields != nil {
				if fe := c.fields[x.Sel.Name]; fe != nil {
					return reflect.ValueOf(c.plain(fe))
				}
			}
			if ix, ok := ast.Unparen(x.X).(*ast.IndexExpr); ok && c.keyObj != nil && c.tableText != "" && c.fields != nil {
				if id, ok := ast.Unparen(ix.Index).(*ast.Ident); ok && c.info.Uses[id] == c.keyObj && types.ExprString(ix.X) == c.tableText {
					if fe := c.fields[x.Sel.Name]; fe != nil {
						return reflect.ValueOf(c.plain(fe))
					}
				}
			}
		case *ast.Ident:
			if o := c.info.Uses[x]; o != nil {
				if c.valObj != nil && o == c.valObj {
					return reflect.ValueOf(c.plain(c.row))
				}
				if c.keyObj != nil && o == c.keyObj {
					lit := &ast.BasicLit{ValuePos: x.Pos(), Kind: token.INT, Value: strconv.Itoa(c.index)}
					tv := c.info.Types[x]
					tv.Value = constant.MakeInt64(int64(c.index))
					c.info.Types[lit] = tv
					return reflect.ValueOf(lit)
				}
			}
		case *ast.CallExpr:
			// a row that is a parameterless function literal doing nothing but `return E`, called in place: E
			if len(x.Args) == 0 {
				isRow := false
				if id, ok := ast.Unparen(x.Fun).(*ast.Ident); ok && c.valObj != nil && c.info.Uses[id] == c.valObj {
					isRow = true
				}
				if ix, ok := ast.Unparen(x.Fun).(*ast.IndexExpr); ok && c.keyObj != nil && c.tableText != "" {
					if id, ok := ast.Unparen(ix.Index).(*ast.Ident); ok && c.info.Uses[id] == c.keyObj && types.ExprString(ix.X) == c.tableText {
						isRow = true
					}
				}
				if isRow {
					if lit, ok := ast.Unparen(c.row).(*ast.FuncLit); ok && (lit.Type.Params == nil || len(lit.Type.Params.List) == 0) && len(lit.Body.List) == 1 {
						if r, ok := lit.Body.List[0].(*ast.ReturnStmt); ok && len(r.Results) == 1 {
							return reflect.ValueOf(c.plain(r.Results[0]))
						}
					}
				}
			}
		case *ast.IndexExpr:
			// T[i] with i the index of the row being written out: the row (and T[i].f its field)
			if c.keyObj != nil && c.tableText != "" {
				if id, ok := ast.Unparen(x.Index).(*ast.Ident); ok && c.info.Uses[id] == c.keyObj && types.ExprString(x.X) == c.tableText {
					return reflect.ValueOf(c.plain(c.row))
				}
			}
		case *ast.StarExpr:
			// *p with p standing for &x
			inner := c.clone(reflect.ValueOf(x.X)).Interface().(ast.Expr)
			if u, ok := ast.Unparen(inner).(*ast.UnaryExpr); ok && u.Op == token.AND {
				return reflect.ValueOf(u.X)
			}
			out := &ast.StarExpr{Star: x.Star, X: inner}
			if tv, ok := c.info.Types[x]; ok {
				c.info.Types[out] = tv
			}
			return reflect.ValueOf(out)
		}
		elem := v.Elem()
		if elem.Kind() != reflect.Struct {
			return v
		}
		out := reflect.New(elem.Type())
		for i := 0; i < elem.NumField(); i++ {
			if !out.Elem().Field(i).CanSet() {
				continue
			}
			out.Elem().Field(i).Set(c.clone(elem.Field(i)))
		}
		c.register(v.Interface(), out.Interface())
		return out
	case reflect.Struct:
		out := reflect.New(v.Type()).Elem()
		for i := 0; i < v.NumField(); i++ {
			if out.Field(i).CanSet() {
				out.Field(i).Set(c.clone(v.Field(i)))
			}
		}
		return out
	}
	return v
}

func (c *cloner) register(old, neu interface{}) {
	if oe, ok := old.(ast.Expr); ok {
		if tv, ok := c.info.Types[oe]; ok {
			c.info.Types[neu.(ast.Expr)] = tv
		}
	}
	switch o := old.(type) {
	case *ast.Ident:
		nid := neu.(*ast.Ident)
		if obj := c.info.Defs[o]; obj != nil {
			if r, ok := c.rename[obj]; ok {
				obj = r
			}
			c.info.Defs[nid] = obj
		}
		if obj := c.info.Uses[o]; obj != nil {
			if r, ok := c.rename[obj]; ok {
				obj = r
			}
			c.info.Uses[nid] = obj
		}
		if inst, ok := c.info.Instances[o]; ok && c.info.Instances != nil {
			c.info.Instances[nid] = inst
		}
	case *ast.SelectorExpr:
		if s, ok := c.info.Selections[o]; ok {
			c.info.Selections[neu.(*ast.SelectorExpr)] = s
		}
	}
	if on, ok := old.(ast.Node); ok {
		if obj, ok := c.info.Implicits[on]; ok && c.info.Implicits != nil {
			c.info.Implicits[neu.(ast.Node)] = obj
		}
	}
}

// purePath: e names a variable, a field path from one, or the address of such (x, x.f.g, &x.f): reading it twice gives
// the same thing and has no effect.
func purePath(info *types.Info, e ast.Expr) bool {
	e = ast.Unparen(e)
	if u, ok := e.(*ast.UnaryExpr); ok && u.Op == token.AND {
		e = ast.Unparen(u.X)
	}
	for {
		switch x := e.(type) {
		case *ast.SelectorExpr:
			if s, ok := info.Selections[x]; !ok || s.Kind() != types.FieldVal {
				// a qualified package-level variable
				if _, isVar := info.ObjectOf(x.Sel).(*types.Var); isVar {
					return true
				}
				return false
			}
			e = ast.Unparen(x.X)
		case *ast.Ident:
			_, isVar := info.ObjectOf(x).(*types.Var)
			return isVar
		default:
			return false
		}
	}
}

// inlineElementAliases rewrites, in a loop over a table T by index i,
//
//	e := &T[i]; … e.f … e.g …        as        … T[i].f … T[i].g …
//
// when e is nothing but a shorthand for reading the element: defined once, directly in the loop body, every use a read of
// one of its fields (no store through it, no address taken, no method called on it, not handed on), and neither T nor i
// assigned in the body. The pointer is then unobservable, and the loop reads like the one written with T[i] — which
// the unroller knows. Returns the number of aliases removed.
func inlineElementAliases(info *types.Info, fd *ast.FuncDecl) int {
	if fd.Body == nil {
		return 0
	}
	n := 0
	parents := parentMap(fd.Body)
	loopOf := func(body *ast.BlockStmt) (tbl, idx types.Object) {
		switch l := parents[body].(type) {
		case *ast.RangeStmt:
			if l.Body != body || l.Tok != token.DEFINE {
				return nil, nil
			}
			if v, ok := l.Value.(*ast.Ident); l.Value != nil && (!ok || v.Name != "_") {
				return nil, nil
			}
			k, ok1 := l.Key.(*ast.Ident)
			t, ok2 := ast.Unparen(l.X).(*ast.Ident)
			if !ok1 || !ok2 {
				return nil, nil
			}
			return info.ObjectOf(t), info.Defs[k]
		case *ast.ForStmt:
			if l.Body != body {
				return nil, nil
			}
			if rs := countingAsRange(info, l); rs != nil {
				k, ok1 := rs.Key.(*ast.Ident)
				t, ok2 := ast.Unparen(rs.X).(*ast.Ident)
				if ok1 && ok2 {
					return info.ObjectOf(t), info.Defs[k]
				}
			}
		}
		return nil, nil
	}
	var bodies []*ast.BlockStmt
	ast.Inspect(fd.Body, func(k ast.Node) bool {
		if b, ok := k.(*ast.BlockStmt); ok {
			bodies = append(bodies, b)
		}
		return true
	})
	defs := singleDefs(info, fd.Body)
	for _, body := range bodies {
		tbl, idx := loopOf(body)
		if tbl == nil || idx == nil {
			continue
		}
		// only tables written out in the function (the loops the unroller may take apart): elsewhere `v := &xs[i]` stays
		// as written
		if d, ok := defs[tbl]; !ok || d.pos != 0 || d.n != 1 || d.rhs == nil {
			continue
		} else if _, isLit := ast.Unparen(d.rhs).(*ast.CompositeLit); !isLit {
			continue
		}
		// T and i are not written in the body
		written := false
		ast.Inspect(body, func(k ast.Node) bool {
			base := func(e ast.Expr) types.Object {
				for {
					switch x := ast.Unparen(e).(type) {
					case *ast.Ident:
						return info.ObjectOf(x)
					case *ast.IndexExpr:
						e = x.X
					case *ast.SelectorExpr:
						e = x.X
					case *ast.StarExpr:
						e = x.X
					default:
						return nil
					}
				}
			}
			switch x := k.(type) {
			case *ast.AssignStmt:
				if x.Tok != token.DEFINE {
					for _, l := range x.Lhs {
						if o := base(l); o != nil && (o == tbl || o == idx) {
							written = true
						}
					}
				}
			case *ast.IncDecStmt:
				if o := base(x.X); o != nil && (o == tbl || o == idx) {
					written = true
				}
			}
			return !written
		})
		if written {
			continue
		}
		for si := 0; si < len(body.List); si++ {
			as, ok := body.List[si].(*ast.AssignStmt)
			if !ok || as.Tok != token.DEFINE || len(as.Lhs) != 1 || len(as.Rhs) != 1 {
				continue
			}
			pid, ok := as.Lhs[0].(*ast.Ident)
			if !ok || pid.Name == "_" {
				continue
			}
			u, ok := ast.Unparen(as.Rhs[0]).(*ast.UnaryExpr)
			if !ok || u.Op != token.AND {
				continue
			}
			ix, ok := ast.Unparen(u.X).(*ast.IndexExpr)
			if !ok {
				continue
			}
			tid, ok1 := ast.Unparen(ix.X).(*ast.Ident)
			iid, ok2 := ast.Unparen(ix.Index).(*ast.Ident)
			if !ok1 || !ok2 || info.ObjectOf(tid) != tbl || info.Uses[iid] != idx {
				continue
			}
			pobj := info.Defs[pid]
			if pobj == nil {
				continue
			}
			// every use of p: the X of a field selector that is read
			var sels []*ast.SelectorExpr
			fine := true
			ast.Inspect(fd.Body, func(k ast.Node) bool {
				id, ok := k.(*ast.Ident)
				if !ok || info.Uses[id] != pobj {
					return fine
				}
				sel, ok := parents[id].(*ast.SelectorExpr)
				if !ok || sel.X != ast.Expr(id) {
					fine = false
					return false
				}
				if s, ok := info.Selections[sel]; !ok || s.Kind() != types.FieldVal {
					fine = false
					return false
				}
				// climb the path p.f.g[k]… to its top and see what is done with it
				var cur ast.Node = sel
				for {
					up := parents[cur]
					switch x := up.(type) {
					case *ast.ParenExpr:
						cur = x
						continue
					case *ast.SelectorExpr:
						if x.X == cur {
							if s, ok := info.Selections[x]; !ok || s.Kind() != types.FieldVal {
								fine = false // a method on (part of) the element may write to it
								return false
							}
							cur = x
							continue
						}
					case *ast.IndexExpr:
						if x.X == cur {
							cur = x
							continue
						}
					case *ast.AssignStmt:
						for _, l := range x.Lhs {
							if ast.Node(l) == cur {
								fine = false
							}
						}
					case *ast.IncDecStmt:
						fine = false
					case *ast.UnaryExpr:
						if x.Op == token.AND {
							fine = false
						}
					case *ast.SliceExpr:
						if x.X == cur {
							fine = false
						}
					}
					break
				}
				sels = append(sels, sel)
				return fine
			})
			if !fine || len(sels) == 0 {
				continue
			}
			for _, sel := range sels {
				old := sel.X
				nix := &ast.IndexExpr{X: &ast.Ident{NamePos: old.Pos(), Name: tid.Name}, Lbrack: old.Pos(), Index: &ast.Ident{NamePos: old.Pos(), Name: iid.Name}, Rbrack: old.End()}
				info.Uses[nix.X.(*ast.Ident)] = tbl
				info.Uses[nix.Index.(*ast.Ident)] = idx
				if tv, ok := info.Types[tid]; ok {
					info.Types[nix.X] = tv
				}
				if tv, ok := info.Types[iid]; ok {
					info.Types[nix.Index] = tv
				}
				if tv, ok := info.Types[ix]; ok {
					info.Types[nix] = tv
				}
				sel.X = nix
			}
			body.List = append(body.List[:si:si], body.List[si+1:]...)
			si--
			n++
		}
	}
	return n
}
