package main

import (
	"encoding/json"
	"flag"
	"fmt"
	"os"
	"os/exec"
	"path/filepath"
	"regexp"
	"sort"
	"strings"
	"sync"
)

// The seeded corpus: changes to zrnt written by independent sub-agents that saw only a property's text
// (/verif/seeded/<P>-<V>/patch.diff, confirmed to compile, to pass the pinned tests and to break the property; see
// seeded/README.md). Here each one is applied to today's sources through the go/packages overlay — nothing is
// written to /repo, nothing is executed — and the property's rules must report a violation. Like the mutant
// corpus this measures the checker and never enters a verdict.

type seededResult struct {
	ID     string   `json:"id"`
	Status string   `json:"status"` // detected | missed | stale | broken
	Keys   []string `json:"keys,omitempty"`
	Detail string   `json:"detail,omitempty"`
}

var hunkRe = regexp.MustCompile(`^@@ -(\d+)(?:,(\d+))? \+(\d+)(?:,(\d+))? @@`)

// applyUnifiedDiff applies a unified diff to file contents read from repo; returns overlay (abs path -> new content).
func applyUnifiedDiff(repo, diff string) (map[string][]byte, error) {
	out := map[string][]byte{}
	lines := strings.Split(diff, "\n")
	var file string
	var content []string
	flush := func() {
		if file != "" {
			out[filepath.Join(repo, file)] = []byte(strings.Join(content, "\n"))
		}
	}
	i := 0
	for i < len(lines) {
		l := lines[i]
		switch {
		case strings.HasPrefix(l, "+++ "):
			flush()
			file = strings.TrimPrefix(strings.TrimPrefix(l, "+++ "), "b/")
			if file == "/dev/null" {
				return nil, fmt.Errorf("file deletion not supported")
			}
			b, err := os.ReadFile(filepath.Join(repo, file))
			if err != nil {
				return nil, fmt.Errorf("cannot read %s", file)
			}
			content = strings.Split(string(b), "\n")
			i++
		case hunkRe.MatchString(l) && file != "":
			// collect the hunk
			i++
			var oldBlock, newBlock []string
			for i < len(lines) {
				h := lines[i]
				if strings.HasPrefix(h, "@@") || strings.HasPrefix(h, "diff --git") || strings.HasPrefix(h, "--- ") {
					break
				}
				switch {
				case strings.HasPrefix(h, "+"):
					newBlock = append(newBlock, h[1:])
				case strings.HasPrefix(h, "-"):
					oldBlock = append(oldBlock, h[1:])
				case strings.HasPrefix(h, " "):
					oldBlock = append(oldBlock, h[1:])
					newBlock = append(newBlock, h[1:])
				case h == "":
					// a blank context line that lost its leading space, or the trailing newline of the diff
					if i == len(lines)-1 {
						i++
						continue
					}
					oldBlock = append(oldBlock, "")
					newBlock = append(newBlock, "")
				case strings.HasPrefix(h, "\\"):
				}
				i++
			}
			// locate the old block (exact match of all its lines), unique
			at := -1
			n := 0
			for s := 0; s+len(oldBlock) <= len(content); s++ {
				ok := true
				for k := range oldBlock {
					if content[s+k] != oldBlock[k] {
						ok = false
						break
					}
				}
				if ok {
					n++
					if at < 0 {
						at = s
					}
				}
			}
			if at < 0 {
				return nil, fmt.Errorf("hunk does not match today's %s", file)
			}
			if n > 1 {
				// fall back to the hunk's line number (closest match)
				m := hunkRe.FindStringSubmatch(l)
				want := 0
				fmt.Sscanf(m[1], "%d", &want)
				best := -1
				for s := 0; s+len(oldBlock) <= len(content); s++ {
					ok := true
					for k := range oldBlock {
						if content[s+k] != oldBlock[k] {
							ok = false
							break
						}
					}
					if ok && (best < 0 || abs(s+1-want) < abs(best+1-want)) {
						best = s
					}
				}
				at = best
			}
			content = append(append(append([]string{}, content[:at]...), newBlock...), content[at+len(oldBlock):]...)
		default:
			i++
		}
	}
	flush()
	if len(out) == 0 {
		return nil, fmt.Errorf("no file in the diff")
	}
	return out, nil
}

func abs(x int) int {
	if x < 0 {
		return -x
	}
	return x
}

func seededDirs(verif string) []string {
	ds, _ := filepath.Glob(filepath.Join(verif, "seeded", "C*-*"))
	sort.Strings(ds)
	return ds
}

// runOneSeeded: apply, load, run the property's rules (scoped as the property scopes them), collect violations that
// are not violations of the unchanged tree.
var seededAllRules = false

func runOneSeeded(repo, dir string, baseline map[string]bool) seededResult {
	id := filepath.Base(dir)
	res := seededResult{ID: id}
	pid := id[:3]
	pr := properties[pid]
	if pr == nil {
		res.Status, res.Detail = "broken", "unknown property"
		return res
	}
	patch := filepath.Join(dir, "patch.head.diff")
	if _, err := os.Stat(patch); err != nil {
		patch = filepath.Join(dir, "patch.diff")
	}
	b, err := os.ReadFile(patch)
	if err != nil {
		res.Status, res.Detail = "broken", err.Error()
		return res
	}
	ov, err := applyUnifiedDiff(repo, string(b))
	if err != nil {
		res.Status, res.Detail = "stale", err.Error()
		return res
	}
	p, err := load(loadOpts{repo: repo, overlay: ov})
	if err != nil {
		res.Status, res.Detail = "broken", "does not type-check on today's tree: "+truncate(err.Error(), 160)
		return res
	}
	ruleSpecs := pr.Rules
	if seededAllRules {
		ruleSpecs = sortedKeys(rules)
	}
	for _, spec := range ruleSpecs {
		rn, scope := spec, ""
		if i := strings.Index(spec, "@"); i >= 0 {
			rn, scope = spec[:i], spec[i+1:]
		}
		r := rules[rn]
		if r == nil {
			continue
		}
		rr := runRule(p, r)
		for _, o := range rr.Obligs {
			if o.Status != Violation || baseline[o.Key] {
				continue
			}
			if scope != "" {
				in := false
				rest := strings.TrimPrefix(o.Key, rn+":")
				for _, pre := range strings.Split(scope, "|") {
					if strings.HasPrefix(rest, pre) {
						in = true
					}
				}
				if !in {
					continue
				}
			}
			res.Keys = append(res.Keys, o.Key)
		}
	}
	sort.Strings(res.Keys)
	if len(res.Keys) > 0 {
		res.Status = "detected"
	} else {
		res.Status = "missed"
	}
	return res
}

func cmdSeeded(args []string) int {
	fs := flag.NewFlagSet("seeded", flag.ExitOnError)
	repo := fs.String("repo", "/repo", "")
	verif := fs.String("verif", "/verif", "")
	ids := fs.String("ids", "", "only these (comma separated, e.g. C01-A)")
	props := fs.String("props", "", "only these properties")
	worker := fs.Bool("worker", false, "")
	show := fs.Bool("show", false, "print the reporting obligations of detected changes")
	allr := fs.Bool("allrules", false, "judge each change by every rule (any property), not only its own property's")
	j := fs.Int("j", 12, "")
	fs.Parse(args)
	seededAllRules = *allr
	var sel []string
	for _, d := range seededDirs(*verif) {
		id := filepath.Base(d)
		if *ids != "" && !strings.Contains(","+*ids+",", ","+id+",") {
			continue
		}
		if *props != "" && !strings.Contains(","+*props+",", ","+id[:3]+",") {
			continue
		}
		sel = append(sel, d)
	}
	if *worker {
		enc := json.NewEncoder(os.Stdout)
		for _, d := range sel {
			enc.Encode(runOneSeeded(*repo, d, map[string]bool{}))
		}
		return 0
	}
	results := runSeededParallel(*repo, *verif, sel, *j)
	cnt := map[string]int{}
	for _, r := range results {
		cnt[r.Status]++
		if r.Status != "detected" {
			fmt.Printf("%-9s %-8s %s\n", r.Status, r.ID, r.Detail)
		} else if *show {
			fmt.Printf("%-9s %-8s %s\n", r.Status, r.ID, strings.Join(r.Keys, " | "))
		}
	}
	fmt.Printf("seeded: total=%d detected=%d missed=%d stale=%d broken=%d\n", len(results), cnt["detected"], cnt["missed"], cnt["stale"], cnt["broken"])
	if cnt["missed"]+cnt["broken"] > 0 {
		return 1
	}
	return 0
}

func runSeededParallel(repo, verif string, dirs []string, workers int) []seededResult {
	self, _ := os.Executable()
	const perProc = 3
	var chunks [][]string
	for i := 0; i < len(dirs); i += perProc {
		e := i + perProc
		if e > len(dirs) {
			e = len(dirs)
		}
		chunks = append(chunks, dirs[i:e])
	}
	var mu sync.Mutex
	var results []seededResult
	sem := make(chan struct{}, workers)
	var wg sync.WaitGroup
	for _, ch := range chunks {
		wg.Add(1)
		sem <- struct{}{}
		go func(ch []string) {
			defer wg.Done()
			defer func() { <-sem }()
			var ids []string
			for _, d := range ch {
				ids = append(ids, filepath.Base(d))
			}
			cmdArgs := []string{"seeded", "-worker", "-repo", repo, "-verif", verif, "-ids", strings.Join(ids, ",")}
			if seededAllRules {
				cmdArgs = append(cmdArgs, "-allrules")
			}
			cmd := exec.Command(self, cmdArgs...)
			out, err := cmd.Output()
			got := map[string]bool{}
			for _, line := range strings.Split(string(out), "\n") {
				var r seededResult
				if strings.TrimSpace(line) != "" && json.Unmarshal([]byte(line), &r) == nil {
					mu.Lock()
					results = append(results, r)
					mu.Unlock()
					got[r.ID] = true
				}
			}
			for _, id := range ids {
				if !got[id] {
					mu.Lock()
					results = append(results, seededResult{ID: id, Status: "broken", Detail: fmt.Sprintf("worker failed: %v", err)})
					mu.Unlock()
				}
			}
		}(ch)
	}
	wg.Wait()
	sort.Slice(results, func(i, j int) bool { return results[i].ID < results[j].ID })
	return results
}

// runSeededForProperty is used by the thorough tier.
func runSeededForProperty(repo, verif, pid string) map[string]any {
	var sel []string
	for _, d := range seededDirs(verif) {
		if strings.HasPrefix(filepath.Base(d), pid+"-") {
			sel = append(sel, d)
		}
	}
	results := runSeededParallel(repo, verif, sel, 8)
	cnt := map[string]int{}
	for _, r := range results {
		cnt[r.Status]++
	}
	return map[string]any{
		"what":     "changes written by independent sub-agents from the property's text alone (confirmed: compile, pass the pinned tests, break the property), applied to today's sources through the go/packages overlay; the property's own rules must report a violation for each. Measures the checker only; never part of the verdict. 'stale' = the stored patch no longer applies to today's sources.",
		"total":    len(results),
		"detected": cnt["detected"], "missed": cnt["missed"], "stale": cnt["stale"], "broken": cnt["broken"],
		"results": results,
	}
}
