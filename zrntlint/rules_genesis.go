package main

import (
	"go/ast"
	"go/token"
	"go/types"
	"regexp"
	"strings"

	"golang.org/x/tools/go/cfg"
	"golang.org/x/tools/go/packages"
)

// genesis.init reads GenesisFromEth1 the way it would run if every same-package helper and every local closure it
// calls were written out in place: the calls are collected in source order through those bodies, each with the chain
// of frames it sits in (helper parameter -> the argument of that call). Arguments are judged in their resolved
// normal form (locals by reaching definition, parameters by their argument, conversions dropped), identities
// (a parameter, a spec constant) by the object the expression resolves to, and the conditions a call stands under by
// the comparisons that hold on the way to it in every frame of its chain. Nothing is matched by spelling.

// inlMaxDepth: how many frames deep helpers are read in place.
var inlMaxDepth = 3

type inlEnv struct {
	info    *types.Info
	body    *ast.BlockStmt
	parents map[ast.Node]ast.Node
	subst   map[types.Object]ast.Expr // this frame's parameters (and receiver) -> the entering call's arguments
	up      *inlEnv
	site    *ast.CallExpr // the call in `up` that enters this frame
	defs    map[types.Object]localDef
	reach   *reachInfo
}

type inlSite struct {
	call *ast.CallExpr
	env  *inlEnv
	f    *types.Func
	seq  int
}

// top is the node of the outermost frame that this site is reached through.
func (s inlSite) top() *ast.CallExpr {
	call, e := s.call, s.env
	for e.up != nil {
		call, e = e.site, e.up
	}
	return call
}

// nodeIn gives the node that stands for this site in frame fr (the site itself, or the call that leads to it), nil
// when the site's chain does not pass through fr.
func (s inlSite) nodeIn(fr *inlEnv) ast.Node {
	call, e := s.call, s.env
	for e != nil {
		if e == fr {
			return call
		}
		call, e = e.site, e.up
	}
	return nil
}

func newInlEnv(info *types.Info, body *ast.BlockStmt, up *inlEnv, site *ast.CallExpr, subst map[types.Object]ast.Expr, share *inlEnv) *inlEnv {
	e := &inlEnv{info: info, body: body, up: up, site: site, subst: subst}
	if share != nil {
		// a closure body lies inside its function: same parents, definitions and reaching definitions
		e.parents, e.defs, e.reach = share.parents, share.defs, share.reach
	} else {
		e.parents = parentMap(body)
		e.defs = singleDefs(info, body)
		e.reach = reachingDefs(info, body)
	}
	return e
}

// walkInlined visits every call with a resolved callee in body and, in place, in the bodies of the same-package
// functions and local closures it calls (three levels deep; function literals are read where they are called, not where
// they are written).
func walkInlined(p *Prog, pk *packages.Package, env *inlEnv, depth int, active map[*ast.BlockStmt]bool, seq *int, visit func(inlSite)) {
	walkInlined2(p, pk, env, depth, active, seq, func(*inlEnv) {}, visit)
}

// walkInlined2 also reports every frame as it is entered.
func walkInlined2(p *Prog, pk *packages.Package, env *inlEnv, depth int, active map[*ast.BlockStmt]bool, seq *int, enter func(*inlEnv), visit func(inlSite)) {
	info := pk.TypesInfo
	if active[env.body] {
		return
	}
	active[env.body] = true
	defer delete(active, env.body)
	enter(env)
	ast.Inspect(env.body, func(n ast.Node) bool {
		if _, isLit := n.(*ast.FuncLit); isLit {
			return false
		}
		call, ok := n.(*ast.CallExpr)
		if !ok {
			return true
		}
		// arguments are evaluated first
		for _, a := range call.Args {
			ast.Inspect(a, func(m ast.Node) bool {
				if _, isLit := m.(*ast.FuncLit); isLit {
					return false
				}
				return true
			})
		}
		if f := calleeFunc(info, call); f != nil {
			*seq++
			visit(inlSite{call, env, f, *seq})
			if depth < inlMaxDepth && f.Pkg() == pk.Types {
				if hd := declOfFunc(pk, f); hd != nil && hd.Body != nil {
					sub := map[types.Object]ast.Expr{}
					i := 0
					for _, fl := range hd.Type.Params.List {
						for _, nm := range fl.Names {
							if i < len(call.Args) {
								sub[info.Defs[nm]] = call.Args[i]
							}
							i++
						}
					}
					if hd.Recv != nil && len(hd.Recv.List) == 1 && len(hd.Recv.List[0].Names) == 1 {
						if sel, ok := ast.Unparen(call.Fun).(*ast.SelectorExpr); ok {
							sub[info.Defs[hd.Recv.List[0].Names[0]]] = sel.X
						}
					}
					walkInlined2(p, pk, newInlEnv(info, hd.Body, env, call, sub, nil), depth+1, active, seq, enter, visit)
				}
			}
			return true
		}
		// a method value handed in as an argument and called through the parameter: getter := x.M; … getter()
		if id, ok := ast.Unparen(call.Fun).(*ast.Ident); ok && depth < inlMaxDepth {
			if _, isParam := env.subst[info.Uses[id]]; isParam {
				x, fr := env.resolve(id)
				if sel, ok := x.(*ast.SelectorExpr); ok {
					if sn := fr.info.Selections[sel]; sn != nil && sn.Kind() == types.MethodVal {
						if f, ok := sn.Obj().(*types.Func); ok {
							*seq++
							visit(inlSite{call, env, f, *seq})
							if f.Pkg() == pk.Types {
								if hd := declOfFunc(pk, f); hd != nil && hd.Body != nil {
									sub := map[types.Object]ast.Expr{}
									i := 0
									for _, fl := range hd.Type.Params.List {
										for _, nm := range fl.Names {
											if i < len(call.Args) {
												sub[info.Defs[nm]] = call.Args[i]
											}
											i++
										}
									}
									if hd.Recv != nil && len(hd.Recv.List) == 1 && len(hd.Recv.List[0].Names) == 1 {
										sub[info.Defs[hd.Recv.List[0].Names[0]]] = sel.X
									}
									walkInlined2(p, pk, newInlEnv(info, hd.Body, env, call, sub, nil), depth+1, active, seq, enter, visit)
								}
							}
							return true
						}
					}
				}
			}
		}
		// a function literal called where it is written
		if lit, ok := ast.Unparen(call.Fun).(*ast.FuncLit); ok && depth < inlMaxDepth {
			walkInlined2(p, pk, newInlEnv(info, lit.Body, env, call, map[types.Object]ast.Expr{}, env), depth+1, active, seq, enter, visit)
			return false
		}
		// a local closure
		if id, ok := ast.Unparen(call.Fun).(*ast.Ident); ok && depth < inlMaxDepth {
			if d, ok := env.defs[info.Uses[id]]; ok && d.pos == 0 {
				if lit, ok := ast.Unparen(d.rhs).(*ast.FuncLit); ok {
					sub := map[types.Object]ast.Expr{}
					i := 0
					for _, fl := range lit.Type.Params.List {
						for _, nm := range fl.Names {
							if i < len(call.Args) {
								sub[info.Defs[nm]] = call.Args[i]
							}
							i++
						}
					}
					walkInlined2(p, pk, newInlEnv(info, lit.Body, env, call, sub, env), depth+1, active, seq, enter, visit)
				}
			}
		}
		return true
	})
}

// poly evaluates e, written in this frame, in its resolved normal form over the whole chain of frames.
func (e *inlEnv) poly(x ast.Expr) (Poly, bool) { return e.polyStop(x, nil) }

// polyStop is poly with some locals (loop variables) kept as they are written.
func (e *inlEnv) polyStop(x ast.Expr, stop map[string]bool) (Poly, bool) {
	defs := map[types.Object]localDef{}
	args := map[types.Object]ast.Expr{}
	ri := &reachInfo{defs: map[types.Object][]reachDef{}, parents: map[ast.Node]ast.Node{}, addr: map[types.Object]bool{}}
	for fr := e; fr != nil; fr = fr.up {
		for o, d := range fr.defs {
			if _, dup := defs[o]; !dup {
				defs[o] = d
			}
		}
		for o, a := range fr.subst {
			args[o] = a
		}
		for o, ds := range fr.reach.defs {
			if _, dup := ri.defs[o]; !dup {
				ri.defs[o] = ds
			}
		}
		for n, p := range fr.reach.parents {
			ri.parents[n] = p
		}
		for o := range fr.reach.addr {
			ri.addr[o] = true
		}
	}
	savedA, savedR, savedP := polyArgs, polyReach, polyPaths
	polyArgs, polyReach, polyPaths = args, ri, true
	defer func() { polyArgs, polyReach, polyPaths = savedA, savedR, savedP }()
	return exprPoly(e.info, x, defs, stop, 0)
}

// walkInlinedNodes visits every node of the frame's body and, in place, of the bodies of the same-package functions and
// local closures called from it (three levels deep), each with its frame.
func walkInlinedNodes(p *Prog, pk *packages.Package, env *inlEnv, visit func(n ast.Node, env *inlEnv)) {
	seq := 0
	walkInlined2(p, pk, env, 0, map[*ast.BlockStmt]bool{}, &seq, func(fr *inlEnv) {
		ast.Inspect(fr.body, func(n ast.Node) bool {
			if n == nil {
				return false
			}
			if _, isLit := n.(*ast.FuncLit); isLit {
				return false // read where it is called
			}
			visit(n, fr)
			return true
		})
	}, func(inlSite) {})
}

// resolve follows x through conversions, parentheses, address-of, locals with one reaching definition and parameters
// to the expression it stands for, and the frame that expression is written in.
func (e *inlEnv) resolve(x ast.Expr) (ast.Expr, *inlEnv) {
	fr := e
	for step := 0; step < 12; step++ {
		x = ast.Unparen(x)
		switch v := x.(type) {
		case *ast.UnaryExpr:
			if v.Op == token.AND {
				x = v.X
				continue
			}
		case *ast.CallExpr:
			if isConversion(fr.info, v) && len(v.Args) == 1 {
				x = v.Args[0]
				continue
			}
		case *ast.Ident:
			o := fr.info.Uses[v]
			if o == nil {
				return x, fr
			}
			if a, ok := fr.subst[o]; ok && fr.up != nil {
				x, fr = a, fr.up
				continue
			}
			if d, ok := fr.reach.at(o, v); ok && d.pos == 0 {
				x = d.rhs
				continue
			}
			if d, ok := fr.defs[o]; ok && d.pos == 0 {
				x = d.rhs
				continue
			}
		}
		return x, fr
	}
	return x, fr
}

// tupleSource: x resolves to the k-th result of a call (`v, err := f()`): that call.
func (e *inlEnv) tupleSource(x ast.Expr) *ast.CallExpr {
	x, fr := e.resolve(x)
	id, ok := x.(*ast.Ident)
	if !ok {
		c, _ := x.(*ast.CallExpr)
		return c
	}
	o := fr.info.Uses[id]
	if d, ok := fr.reach.at(o, id); ok {
		c, _ := ast.Unparen(d.rhs).(*ast.CallExpr)
		return c
	}
	if d, ok := fr.defs[o]; ok {
		c, _ := ast.Unparen(d.rhs).(*ast.CallExpr)
		return c
	}
	return nil
}

// constName: the spec field or declared constant x resolves to ("" otherwise).
func (e *inlEnv) constName(x ast.Expr) string {
	x, fr := e.resolve(x)
	switch v := x.(type) {
	case *ast.SelectorExpr:
		if isSpecType(fr.info.TypeOf(v.X)) {
			return v.Sel.Name
		}
		if c, ok := fr.info.Uses[v.Sel].(*types.Const); ok {
			return c.Name()
		}
	case *ast.Ident:
		if c, ok := fr.info.Uses[v].(*types.Const); ok {
			return c.Name()
		}
	}
	return ""
}

func (e *inlEnv) objOf(x ast.Expr) types.Object {
	x, fr := e.resolve(x)
	if id, ok := x.(*ast.Ident); ok {
		return fr.info.Uses[id]
	}
	return nil
}

func (e *inlEnv) constIs(x ast.Expr, want int64) bool {
	x, fr := e.resolve(x)
	tv, ok := fr.info.Types[x]
	if !ok || tv.Value == nil {
		return false
	}
	v, ok := constantInt(tv)
	return ok && v == want
}

// facts: the comparisons that hold whenever control reaches the site, in every frame of its chain, each with the frame
// it is written in.
type inlFact struct {
	pathFact
	env *inlEnv
}

func (s inlSite) facts() []inlFact {
	var out []inlFact
	var node ast.Node = s.call
	for fr := s.env; fr != nil; fr = fr.up {
		for _, f := range pathFactsAt(fr.parents, node) {
			out = append(out, inlFact{f, fr})
		}
		node = fr.site
	}
	return out
}

// conds: every boolean leaf that holds (or not) whenever control reaches the site, in every frame of its chain.
type inlCond struct {
	pathCond
	env *inlEnv
}

func (s inlSite) conds() []inlCond {
	var out []inlCond
	var node ast.Node = s.call
	for fr := s.env; fr != nil; fr = fr.up {
		for _, f := range pathCondsAt(fr.parents, node) {
			out = append(out, inlCond{f, fr})
		}
		node = fr.site
	}
	return out
}

func isNilExpr(info *types.Info, e ast.Expr) bool {
	id, ok := ast.Unparen(e).(*ast.Ident)
	if !ok {
		return false
	}
	_, isNil := info.Uses[id].(*types.Nil)
	return isNil
}

var roundedRe = regexp.MustCompile(`-1·mod\((.*),EFFECTIVE_BALANCE_INCREMENT\)`)

// roundedAndCapped: s is the resolved form min(X - X mod EFFECTIVE_BALANCE_INCREMENT ; MAX_EFFECTIVE_BALANCE) for some X.
func roundedAndCapped(p Poly) (bool, string) {
	s := p.String()
	if len(p) != 1 || !strings.HasPrefix(s, "min(") || !strings.HasSuffix(s, ")") {
		return false, "not a min(…) of two values"
	}
	var parts []string
	depth, start := 0, 0
	in := s[4 : len(s)-1]
	for i, ch := range in {
		switch ch {
		case '(':
			depth++
		case ')':
			depth--
		case ';':
			if depth == 0 {
				parts = append(parts, in[start:i])
				start = i + 1
			}
		}
	}
	parts = append(parts, in[start:])
	if len(parts) != 2 {
		return false, "min of " + strings.Join(parts, " ; ")
	}
	other := ""
	switch {
	case parts[0] == "MAX_EFFECTIVE_BALANCE":
		other = parts[1]
	case parts[1] == "MAX_EFFECTIVE_BALANCE":
		other = parts[0]
	default:
		return false, "not capped at MAX_EFFECTIVE_BALANCE"
	}
	m := roundedRe.FindStringSubmatchIndex(other)
	if m == nil {
		return false, "the capped value is not rounded down to EFFECTIVE_BALANCE_INCREMENT"
	}
	x := other[m[2]:m[3]]
	rest := strings.Trim(other[:m[0]]+other[m[1]:], "+")
	if rest != x {
		return false, "the capped value is " + other + ", not X - X mod EFFECTIVE_BALANCE_INCREMENT"
	}
	return true, x
}

func ruleGenesisInit(c *Ctx) {
	pk, fd := c.P.mustFunc("eth2/beacon/phase0", "GenesisFromEth1")
	info := pk.TypesInfo
	var pobj []types.Object
	for _, f := range fd.Type.Params.List {
		for _, n := range f.Names {
			pobj = append(pobj, info.Defs[n])
		}
	}
	if len(pobj) != 5 {
		anchorFail("GenesisFromEth1 signature changed")
	}
	pHash, pTime, pDeps, pIgnore := pobj[1], pobj[2], pobj[3], pobj[4]
	g := cfg.New(fd.Body, func(*ast.CallExpr) bool { return true })
	var succ []*cfg.Block
	for _, b := range g.Blocks {
		if !b.Live || len(b.Nodes) == 0 {
			continue
		}
		if r, ok := b.Nodes[len(b.Nodes)-1].(*ast.ReturnStmt); ok && len(r.Results) == 3 && isNilExpr(info, r.Results[2]) {
			succ = append(succ, b)
		}
	}
	if len(succ) == 0 {
		anchorFail("GenesisFromEth1: no success return")
	}
	blockOf := map[ast.Node]*cfg.Block{}
	for _, b := range g.Blocks {
		for _, n := range b.Nodes {
			ast.Inspect(n, func(m ast.Node) bool {
				if _, isLit := m.(*ast.FuncLit); isLit {
					return false
				}
				if cl, ok := m.(*ast.CallExpr); ok {
					blockOf[cl] = b
				}
				return true
			})
		}
	}
	topEnv := newInlEnv(info, fd.Body, nil, nil, nil, nil)
	sites := map[string][]inlSite{}
	var all []inlSite
	seq := 0
	walkInlined(c.P, pk, topEnv, 0, map[*ast.BlockStmt]bool{}, &seq, func(s inlSite) {
		sites[s.f.Name()] = append(sites[s.f.Name()], s)
		all = append(all, s)
	})
	// every success path passes the step
	must := func(name string, check func(s inlSite) (string, bool)) {
		key := "GenesisFromEth1." + name
		l := sites[name]
		if len(l) == 0 {
			c.bad(key, fd.Pos(), "genesis never calls %s", name)
			return
		}
		var locs []callLoc
		for _, s := range l {
			if b := blockOf[s.top()]; b != nil {
				locs = append(locs, callLoc{blk: b, call: s.top()})
			}
		}
		if !cuts(g, locs, succ) {
			c.bad(key, l[0].call.Pos(), "a success path of genesis skips %s", name)
			return
		}
		if check != nil {
			// the step is judged on the first call that is recognisably the spec's (an unrecognised shape is undecided)
			undecided := ""
			for _, s := range l {
				msg, decided := check(s)
				if !decided {
					undecided = msg
					continue
				}
				if msg != "" {
					c.bad(key, s.call.Pos(), "%s", msg)
				} else {
					c.ok(key, s.call.Pos(), "on every success path with the spec's arguments")
				}
				return
			}
			c.unm(key, l[0].call.Pos(), "%s", undecided)
			return
		}
		c.ok(key, l[0].call.Pos(), "on every success path")
	}
	// the fields of the struct value an argument stands for: a composite literal (possibly through a local and &), a
	// local declared with `var` or a literal and filled field by field before the call, or both
	fieldsOf := func(s inlSite, arg ast.Expr) (map[string]ast.Expr, *inlEnv, bool) {
		m := map[string]ast.Expr{}
		x, fr := s.env.resolve(arg)
		switch v := x.(type) {
		case *ast.CompositeLit:
			for _, el := range v.Elts {
				p, ok := el.(*ast.KeyValueExpr)
				if !ok {
					return nil, nil, false
				}
				k, ok := p.Key.(*ast.Ident)
				if !ok {
					return nil, nil, false
				}
				m[k.Name] = p.Value
			}
		case *ast.Ident:
			// `var x T` (zero value) — the fields come from the assignments below
			if _, isVar := fr.info.Uses[v].(*types.Var); !isVar {
				return nil, nil, false
			}
			if _, isStruct := fr.info.TypeOf(v).Underlying().(*types.Struct); !isStruct {
				if pt, ok := fr.info.TypeOf(v).Underlying().(*types.Pointer); !ok {
					return nil, nil, false
				} else if _, isStruct := pt.Elem().Underlying().(*types.Struct); !isStruct {
					return nil, nil, false
				}
			}
		default:
			return nil, nil, false
		}
		// field assignments on the local the argument names, in the frame of the call, before the call
		base := ast.Unparen(arg)
		if u, ok := base.(*ast.UnaryExpr); ok && u.Op == token.AND {
			base = ast.Unparen(u.X)
		}
		if id, ok := base.(*ast.Ident); ok {
			o := s.env.info.Uses[id]
			ast.Inspect(s.env.body, func(n ast.Node) bool {
				if _, isLit := n.(*ast.FuncLit); isLit {
					return false
				}
				if as, ok := n.(*ast.AssignStmt); ok && as.Pos() < s.call.Pos() && as.Tok == token.ASSIGN && len(as.Lhs) == len(as.Rhs) {
					for i, l := range as.Lhs {
						if sel, ok := ast.Unparen(l).(*ast.SelectorExpr); ok {
							if b, ok := ast.Unparen(sel.X).(*ast.Ident); ok && s.env.info.Uses[b] == o {
								m[sel.Sel.Name] = as.Rhs[i]
								fr = s.env
							}
						}
					}
				}
				return true
			})
		}
		return m, fr, true
	}
	must("SetGenesisTime", func(s inlSite) (string, bool) {
		p, ok := s.env.poly(s.call.Args[0])
		if !ok {
			return "genesis time not readable as a formula", false
		}
		want := polyAdd(polyAtom(pTime.Name()), polyAtom("GENESIS_DELAY"), 1)
		if !polyEq(p, want) {
			return "genesis time is " + p.String() + ", the spec sets eth1_timestamp + GENESIS_DELAY", true
		}
		return "", true
	})
	must("SetFork", func(s inlSite) (string, bool) {
		m, fr, ok := fieldsOf(s, s.call.Args[0])
		if !ok {
			return "the fork value is not a keyed literal", false
		}
		// a field set from another field of the value under construction (f.PreviousVersion = f.CurrentVersion) is
		// what that field was set to
		if id, ok := ast.Unparen(s.call.Args[0]).(*ast.Ident); ok {
			o := s.env.info.Uses[id]
			for round := 0; round < 3; round++ {
				for k, v := range m {
					if sel, ok := ast.Unparen(v).(*ast.SelectorExpr); ok {
						if b, ok := ast.Unparen(sel.X).(*ast.Ident); ok && o != nil && s.env.info.Uses[b] == o && m[sel.Sel.Name] != nil && sel.Sel.Name != k {
							m[k] = m[sel.Sel.Name]
						}
					}
				}
			}
		}
		for _, k := range []string{"PreviousVersion", "CurrentVersion"} {
			if m[k] == nil || fr.constName(m[k]) != "GENESIS_FORK_VERSION" {
				return "genesis fork is not {GENESIS_FORK_VERSION, GENESIS_FORK_VERSION, GENESIS_EPOCH}: " + k, true
			}
		}
		if m["Epoch"] != nil && !fr.constIs(m["Epoch"], 0) {
			return "genesis fork is not {GENESIS_FORK_VERSION, GENESIS_FORK_VERSION, GENESIS_EPOCH}: Epoch", true
		}
		return "", true
	})
	must("SetEth1Data", func(s inlSite) (string, bool) {
		m, fr, ok := fieldsOf(s, s.call.Args[0])
		if !ok {
			return "the eth1 data value is not a keyed literal", false
		}
		if m["DepositCount"] == nil {
			return "eth1 deposit count is left zero, the spec sets len(deposits)", true
		}
		p, ok := fr.poly(m["DepositCount"])
		if !ok || !polyEq(p, polyAtom("len("+pDeps.Name()+")")) {
			return "eth1 deposit count is " + p.String() + ", the spec sets len(deposits)", true
		}
		if m["BlockHash"] == nil || fr.objOf(m["BlockHash"]) != pHash {
			return "eth1 block hash is not the eth1 block hash given", true
		}
		return "", true
	})
	must("SetLatestBlockHeader", func(s inlSite) (string, bool) {
		m, fr, ok := fieldsOf(s, s.call.Args[0])
		if !ok {
			return "the latest header is not a keyed literal", false
		}
		if m["BodyRoot"] == nil {
			return "latest block header body root is left zero, want the root of an empty block body", true
		}
		x, fr2 := fr.resolve(m["BodyRoot"])
		call, ok := x.(*ast.CallExpr)
		if !ok {
			return "latest block header body root is not computed by a call", false
		}
		f := calleeFunc(fr2.info, call)
		sel, isSel := ast.Unparen(call.Fun).(*ast.SelectorExpr)
		if f == nil || f.Name() != "HashTreeRoot" || !isSel {
			return "latest block header body root is not a hash-tree-root", true
		}
		if nt := namedOf(fr2.info.TypeOf(sel.X)); nt == nil || nt.Obj().Name() != "BeaconBlockBody" || nt.Obj().Pkg() != pk.Types {
			return "body root is computed over something other than this fork's BeaconBlockBody", true
		}
		base, fr3 := fr2.resolve(sel.X)
		switch b := base.(type) {
		case *ast.CompositeLit:
			if len(b.Elts) != 0 {
				return "body root is not computed over an empty BeaconBlockBody{}", true
			}
		case *ast.Ident:
			// `var body BeaconBlockBody` never assigned: the zero value
			o := fr3.info.Uses[b]
			if len(fr3.reach.defs[o]) > 1 || fr3.reach.addr[o] {
				return "the body whose root is taken is assigned to", false
			}
			for _, d := range fr3.reach.defs[o] {
				if d.def.rhs != nil {
					return "the body whose root is taken is not visibly empty", false
				}
			}
		default:
			return "the body whose root is taken is not visibly empty", false
		}
		return "", true
	})
	must("SeedRandao", func(s inlSite) (string, bool) {
		if s.env.objOf(s.call.Args[len(s.call.Args)-1]) != pHash {
			return "randao is not seeded with the eth1 block hash given", true
		}
		return "", true
	})
	must("SetGenesisValidatorsRoot", func(s inlSite) (string, bool) {
		x, fr := s.env.resolve(s.call.Args[0])
		call, ok := x.(*ast.CallExpr)
		if !ok {
			return "genesis validators root is not computed by a call", false
		}
		f := calleeFunc(fr.info, call)
		sel, isSel := ast.Unparen(call.Fun).(*ast.SelectorExpr)
		if f == nil || f.Name() != "HashTreeRoot" || !isSel {
			return "genesis validators root is not a hash-tree-root", true
		}
		src := fr.tupleSource(sel.X)
		if src == nil {
			return "the value whose root is taken is not visibly the registry", false
		}
		if sf := calleeFunc(fr.info, src); sf == nil || sf.Name() != "Validators" {
			return "genesis validators root is not the hash-tree-root of the registry", true
		}
		return "", true
	})
	must("LoadShuffling", nil)
	must("LoadProposers", nil)

	// deposit loop: per deposit, append its root, refresh the eth1 deposit root, then process it
	if pd := sites["ProcessDeposit"]; len(pd) == 0 {
		c.bad("GenesisFromEth1.deposit-loop", fd.Pos(), "genesis never calls ProcessDeposit")
	} else {
		p0 := pd[0]
		key := "GenesisFromEth1.deposit-loop"
		// the innermost loop around it, in whichever frame
		var loop ast.Node
		var loopFr *inlEnv
		var node ast.Node = p0.call
		for fr := p0.env; fr != nil && loop == nil; fr = fr.up {
			for q := fr.parents[node]; q != nil; q = fr.parents[q] {
				if _, isLit := q.(*ast.FuncLit); isLit {
					break
				}
				switch q.(type) {
				case *ast.RangeStmt, *ast.ForStmt:
					loop, loopFr = q, fr
				}
				if loop != nil {
					break
				}
			}
			node = fr.site
		}
		if loop == nil {
			c.bad(key, p0.call.Pos(), "ProcessDeposit is not called in a loop over the deposits")
		} else {
			var ev []byte
			var firstP inlSite
			for _, s := range all {
				n := s.nodeIn(loopFr)
				if n == nil || n.Pos() < loop.Pos() || n.End() > loop.End() {
					continue
				}
				switch s.f.Name() {
				case "Append":
					ev = append(ev, 'A')
				case "SetEth1Data":
					ev = append(ev, 'U')
				case "ProcessDeposit":
					if firstP.call == nil {
						firstP = s
					}
					ev = append(ev, 'P')
				}
			}
			seqS := string(ev)
			pi := strings.IndexByte(seqS, 'P')
			before := seqS[:pi]
			ui := strings.LastIndexByte(before, 'U')
			switch {
			case ui < 0 || !strings.Contains(before[:ui], "A"):
				c.bad(key, loop.Pos(), "per deposit the spec appends the deposit-data root and updates the incremental deposit-tree root before processing the deposit (append, update root, process); here the order of those steps in one round is %q", seqS)
			case strings.Contains(before[ui:], "A"):
				c.bad(key, loop.Pos(), "a deposit-data root is appended after the last update of the deposit-tree root and before the deposit is processed (order in one round: %q)", seqS)
			case firstP.env.objOf(firstP.call.Args[len(firstP.call.Args)-1]) != pIgnore:
				c.bad(key, firstP.call.Pos(), "ProcessDeposit is not given the caller's ignoreSignaturesAndProofs")
			default:
				c.ok(key, loop.Pos(), "append -> update root -> ProcessDeposit(..., %s)", pIgnore.Name())
			}
		}
	}

	// activation: effective balance = min(balance - balance mod INCREMENT, MAX) for every validator, activated at
	// genesis exactly when that equals MAX_EFFECTIVE_BALANCE
	key := "GenesisFromEth1.activation"
	maxA := polyAtom("MAX_EFFECTIVE_BALANCE")
	switch se := sites["SetEffectiveBalance"]; {
	case len(se) == 0:
		c.bad(key, fd.Pos(), "genesis never sets the effective balance of the deposited validators")
	default:
		s := se[0]
		pe, ok := s.env.poly(s.call.Args[0])
		if !ok {
			c.unm(key, s.call.Pos(), "the effective balance is not readable as a formula")
			break
		}
		if good, why := roundedAndCapped(pe); !good {
			c.bad(key, s.call.Pos(), "the genesis effective balance is %s: %s (spec: min(balance - balance %% EFFECTIVE_BALANCE_INCREMENT, MAX_EFFECTIVE_BALANCE))", pe.String(), why)
			break
		}
		cond := ""
		for _, f := range s.facts() {
			if f.loop || isNilExpr(f.env.info, f.be.X) || isNilExpr(f.env.info, f.be.Y) {
				continue
			}
			if b, ok := f.env.info.TypeOf(f.be.X).Underlying().(*types.Basic); ok && b.Info()&types.IsBoolean != 0 {
				continue
			}
			px, ok1 := f.env.poly(f.be.X)
			py, ok2 := f.env.poly(f.be.Y)
			if !ok1 || !ok2 {
				continue
			}
			// only a condition on the balance makes the update partial
			cut := polyAdd(px, py, -1)
			for a := range cut {
				if a != "" && strings.Contains(pe.String(), a) {
					cond = types.ExprString(f.be)
				}
			}
		}
		if cond != "" {
			c.bad(key, s.call.Pos(), "the effective balance is only recomputed for some validators (under `%s`); the spec recomputes it from the final balance for every validator before testing for activation", cond)
			break
		}
		wantCut := polyAdd(pe, maxA, -1)
		bad := ""
		n := 0
		for _, name := range []string{"SetActivationEligibilityEpoch", "SetActivationEpoch"} {
			found := false
			for _, a := range sites[name] {
				if !a.env.constIs(a.call.Args[0], 0) {
					continue
				}
				for _, f := range a.facts() {
					op := f.be.Op
					if f.neg {
						op = negOp[op]
					}
					if op != token.EQL {
						continue
					}
					px, ok1 := f.env.poly(f.be.X)
					py, ok2 := f.env.poly(f.be.Y)
					if !ok1 || !ok2 {
						continue
					}
					cut := polyAdd(px, py, -1)
					if polyEq(cut, wantCut) || polyEq(polyAdd(Poly{}, cut, -1), wantCut) {
						found = true
					}
				}
			}
			if found {
				n++
			} else {
				bad = name
			}
		}
		if n != 2 {
			c.bad(key, s.call.Pos(), "%s(GENESIS_EPOCH) is not made exactly when the effective balance just set equals MAX_EFFECTIVE_BALANCE", bad)
			break
		}
		c.ok(key, s.call.Pos(), "effective balance = min(balance - balance mod INCREMENT, MAX) for every validator; activated at genesis iff == MAX_EFFECTIVE_BALANCE")
		// validators root after activation
		if l := sites["SetGenesisValidatorsRoot"]; len(l) > 0 {
			last := 0
			for _, name := range []string{"SetEffectiveBalance", "SetActivationEligibilityEpoch", "SetActivationEpoch", "ProcessDeposit"} {
				for _, a := range sites[name] {
					if a.seq > last {
						last = a.seq
					}
				}
			}
			if l[0].seq > last {
				c.ok("GenesisFromEth1.root-after-activation", l[0].call.Pos(), "validators root taken after the activation loop")
			} else {
				c.bad("GenesisFromEth1.root-after-activation", l[0].call.Pos(), "genesis validators root is taken before activations are applied")
			}
		}
	}

	// who may skip signatures/proofs
	allowed := map[string]bool{"KickStartState": true, "KickStartStateWithSignatures": true}
	// an unexported function of the same package that only the kick-start helpers call is part of them
	{
		callers := map[string]map[string]bool{}
		c.P.funcDecls(func(p2 *packages.Package, f2 *ast.FuncDecl) {
			if p2 != pk || f2.Body == nil {
				return
			}
			ast.Inspect(f2.Body, func(n ast.Node) bool {
				if call, ok := n.(*ast.CallExpr); ok {
					if f := calleeFunc(p2.TypesInfo, call); f != nil && f.Pkg() == pk.Types && !f.Exported() {
						if callers[f.Name()] == nil {
							callers[f.Name()] = map[string]bool{}
						}
						callers[f.Name()][f2.Name.Name] = true
					}
				}
				return true
			})
		})
		for round := 0; round < 3; round++ {
			for h, cs := range callers {
				ok := len(cs) > 0
				for cn := range cs {
					if !allowed[cn] {
						ok = false
					}
				}
				if ok {
					allowed[h] = true
				}
			}
		}
	}
	c.P.funcDecls(func(p2 *packages.Package, f2 *ast.FuncDecl) {
		if f2.Body == nil {
			return
		}
		ast.Inspect(f2.Body, func(n ast.Node) bool {
			call, ok := n.(*ast.CallExpr)
			if !ok {
				return true
			}
			f := calleeFunc(p2.TypesInfo, call)
			if f == nil || (f.Name() != "GenesisFromEth1" && f.Name() != "ProcessDeposit") || !isZrnt(f) || len(call.Args) == 0 {
				return true
			}
			last := ast.Unparen(call.Args[len(call.Args)-1])
			key := pkgShort(p2.Types) + "." + funcName(f2) + "->" + f.Name() + ".ignoreSignaturesAndProofs"
			tv, isConst := p2.TypesInfo.Types[last]
			switch {
			case isConst && tv.Value != nil && tv.Value.String() == "true":
				if allowed[f2.Name.Name] || strings.HasPrefix(p2.PkgPath, modPath+"/tests") {
					c.ok(key, call.Pos(), "kick-start helper (documented: builds a state without eth1 deposits)")
				} else {
					c.bad(key, call.Pos(), "%s asks %s to skip deposit signature and Merkle-proof checks", f2.Name.Name, f.Name())
				}
			case isConst && tv.Value != nil:
				c.ok(key, call.Pos(), "checks enabled")
			default:
				c.ok(key, call.Pos(), "flag passed through from the caller (%s)", types.ExprString(last))
			}
			return true
		})
	})
}
