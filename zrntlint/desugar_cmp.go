package main

import (
	"go/ast"
	"go/token"
	"go/types"
)

// desugarMinMaxCmps: an ordering test against a minimum or maximum is the conjunction / disjunction of the tests
// against its operands — `i >= min(a, b)` is `i >= a || i >= b`, `i < min(a, b)` is `i < a && i < b`, and dually for
// max. The comparison is rewritten in place (also when the min/max was first put in a local that is defined once), so
// that a bound hoisted as `bound := min(count, LIMIT)` and the two tests it replaces are read alike. Returns the number
// of comparisons split.
func desugarMinMaxCmps(p *Prog) int {
	n := 0
	for _, pk := range p.Pkgs {
		info := pk.TypesInfo
		for _, file := range pk.Syntax {
			for _, d := range file.Decls {
				fd, ok := d.(*ast.FuncDecl)
				if !ok || fd.Body == nil {
					continue
				}
				defs := singleDefs(info, fd.Body)
				// how often a variable is assigned in the function (parameters: 0, single-definition locals: 1)
				assigned := map[types.Object]int{}
				ast.Inspect(fd.Body, func(k ast.Node) bool {
					switch x := k.(type) {
					case *ast.AssignStmt:
						for _, l := range x.Lhs {
							if id, ok := ast.Unparen(l).(*ast.Ident); ok {
								if o := info.ObjectOf(id); o != nil {
									assigned[o]++
								}
							}
						}
					case *ast.IncDecStmt:
						if id, ok := ast.Unparen(x.X).(*ast.Ident); ok {
							if o := info.ObjectOf(id); o != nil {
								assigned[o] += 2
							}
						}
					case *ast.UnaryExpr:
						if x.Op == token.AND {
							if id, ok := ast.Unparen(x.X).(*ast.Ident); ok {
								if o := info.ObjectOf(id); o != nil {
									assigned[o] += 2
								}
							}
						}
					}
					return true
				})
				// the compared value itself is written twice in one expression: it only has to be free of effects
				anyVar := false
				var stable func(e ast.Expr) bool
				stable = func(e ast.Expr) bool {
					e = ast.Unparen(e)
					if tv, ok := info.Types[e]; ok && tv.Value != nil {
						return true
					}
					switch x := e.(type) {
					case *ast.Ident:
						o, isVar := info.ObjectOf(x).(*types.Var)
						return isVar && (anyVar || assigned[o] <= 1)
					case *ast.SelectorExpr:
						if s := info.Selections[x]; s != nil && s.Kind() == types.FieldVal {
							return stable(x.X)
						}
						_, isVar := info.ObjectOf(x.Sel).(*types.Var)
						return isVar
					case *ast.CallExpr:
						if isConversion(info, x) && len(x.Args) == 1 {
							return stable(x.Args[0])
						}
						if id, ok := x.Fun.(*ast.Ident); ok && (id.Name == "len" || id.Name == "cap") && len(x.Args) == 1 {
							if _, isB := info.ObjectOf(id).(*types.Builtin); isB {
								return stable(x.Args[0])
							}
						}
					}
					return false
				}
				// e is min(a, b) / max(a, b), directly or through a local defined once as that
				minmax := func(e ast.Expr) (string, ast.Expr, ast.Expr) {
					e = ast.Unparen(stripConv(info, ast.Unparen(e)))
					if id, ok := e.(*ast.Ident); ok {
						o := info.ObjectOf(id)
						if dd, ok := defs[o]; ok && dd.n == 1 && dd.rhs != nil && assigned[o] <= 1 {
							e = ast.Unparen(stripConv(info, ast.Unparen(dd.rhs)))
						}
					}
					call, ok := e.(*ast.CallExpr)
					if !ok || len(call.Args) != 2 {
						return "", nil, nil
					}
					id, ok := call.Fun.(*ast.Ident)
					if !ok || (id.Name != "min" && id.Name != "max") {
						return "", nil, nil
					}
					if _, isB := info.ObjectOf(id).(*types.Builtin); !isB {
						return "", nil, nil
					}
					if !stable(call.Args[0]) || !stable(call.Args[1]) {
						return "", nil, nil
					}
					return id.Name, call.Args[0], call.Args[1]
				}
				flip := map[token.Token]token.Token{token.LSS: token.GTR, token.LEQ: token.GEQ, token.GTR: token.LSS, token.GEQ: token.LEQ}
				ast.Inspect(fd.Body, func(k ast.Node) bool {
					be, ok := k.(*ast.BinaryExpr)
					if !ok {
						return true
					}
					if _, isOrd := flip[be.Op]; !isOrd {
						return true
					}
					x, op := be.X, be.Op
					name, a, b := minmax(be.Y)
					if name == "" {
						if name, a, b = minmax(be.X); name == "" {
							return true
						}
						x, op = be.Y, flip[op]
					}
					anyVar = true
					pure := stable(x)
					anyVar = false
					if !pure {
						return true
					}
					// x op min(a, b): both for < <=, either for > >=; max the other way round
					both := op == token.LSS || op == token.LEQ
					if name == "max" {
						both = !both
					}
					mk := func(y ast.Expr) *ast.BinaryExpr {
						nb := &ast.BinaryExpr{X: x, OpPos: be.OpPos, Op: op, Y: y}
						info.Types[nb] = info.Types[be]
						return nb
					}
					l, r := mk(a), mk(b)
					be.X, be.Y = l, r
					if both {
						be.Op = token.LAND
					} else {
						be.Op = token.LOR
					}
					n++
					return false
				})
			}
		}
	}
	return n
}

// desugarFlagPolarity: a boolean local defined once as a disjunction (`isNew := !known || count <= index`) and tested
// afterwards is the negation of the flag the spec's wording suggests (`exists := known && index < count`). The one whose
// definition is a conjunction once negations are pushed inwards is taken as the normal form: the definition is replaced
// by the negation of its right-hand side in negation normal form and every use `f` by `!f` (`!f` by `f`). Only the
// polarity changes; the variable stays. Returns the number of flags turned round.
func desugarFlagPolarity(p *Prog) int {
	n := 0
	for _, pk := range p.Pkgs {
		info := pk.TypesInfo
		boolTV := func(like ast.Expr) types.TypeAndValue {
			tv := info.Types[like]
			tv.Value = nil
			if tv.Type == nil {
				tv.Type = types.Typ[types.Bool]
			}
			return tv
		}
		flipCmp := map[token.Token]token.Token{token.EQL: token.NEQ, token.NEQ: token.EQL, token.LSS: token.GEQ, token.GEQ: token.LSS, token.GTR: token.LEQ, token.LEQ: token.GTR}
		// neg: the negation of e with negations pushed to the leaves
		var neg func(e ast.Expr) ast.Expr
		neg = func(e ast.Expr) ast.Expr {
			switch x := ast.Unparen(e).(type) {
			case *ast.UnaryExpr:
				if x.Op == token.NOT {
					return ast.Unparen(x.X)
				}
			case *ast.BinaryExpr:
				switch x.Op {
				case token.LAND, token.LOR:
					op := token.LOR
					if x.Op == token.LOR {
						op = token.LAND
					}
					nb := &ast.BinaryExpr{X: neg(x.X), OpPos: x.OpPos, Op: op, Y: neg(x.Y)}
					info.Types[nb] = boolTV(x)
					return nb
				}
				if fo, ok := flipCmp[x.Op]; ok {
					nb := &ast.BinaryExpr{X: x.X, OpPos: x.OpPos, Op: fo, Y: x.Y}
					info.Types[nb] = boolTV(x)
					return nb
				}
			}
			ne := &ast.UnaryExpr{OpPos: e.Pos(), Op: token.NOT, X: e}
			info.Types[ne] = boolTV(e)
			return ne
		}
		// top: the top-level connective of e once negations are pushed inwards
		var top func(e ast.Expr, negated bool) token.Token
		top = func(e ast.Expr, negated bool) token.Token {
			switch x := ast.Unparen(e).(type) {
			case *ast.UnaryExpr:
				if x.Op == token.NOT {
					return top(x.X, !negated)
				}
			case *ast.BinaryExpr:
				if x.Op == token.LAND || x.Op == token.LOR {
					if negated == (x.Op == token.LAND) {
						return token.LOR
					}
					return token.LAND
				}
			}
			return token.ILLEGAL
		}
		for _, file := range pk.Syntax {
			for _, d := range file.Decls {
				fd, ok := d.(*ast.FuncDecl)
				if !ok || fd.Body == nil {
					continue
				}
				// candidates: bool locals defined once by `f := E`, never assigned again, address not taken
				type cand struct {
					def *ast.AssignStmt
					idx int
				}
				cands := map[types.Object]*cand{}
				spoiled := map[types.Object]bool{}
				ast.Inspect(fd.Body, func(k ast.Node) bool {
					switch x := k.(type) {
					case *ast.AssignStmt:
						for i, l := range x.Lhs {
							id, ok := ast.Unparen(l).(*ast.Ident)
							if !ok {
								continue
							}
							o := info.ObjectOf(id)
							if o == nil {
								continue
							}
							if x.Tok == token.DEFINE && info.Defs[id] != nil && len(x.Lhs) == len(x.Rhs) {
								if b, ok := o.Type().Underlying().(*types.Basic); ok && b.Kind() == types.Bool {
									if cands[o] == nil {
										cands[o] = &cand{x, i}
										continue
									}
								}
							}
							spoiled[o] = true
						}
					case *ast.UnaryExpr:
						if x.Op == token.AND {
							if id, ok := ast.Unparen(x.X).(*ast.Ident); ok {
								if o := info.ObjectOf(id); o != nil {
									spoiled[o] = true
								}
							}
						}
					case *ast.FuncLit:
						// a flag captured by a closure keeps its polarity (the closure may run anywhere)
						ast.Inspect(x.Body, func(m ast.Node) bool {
							if id, ok := m.(*ast.Ident); ok {
								if o := info.Uses[id]; o != nil {
									spoiled[o] = true
								}
							}
							return true
						})
					}
					return true
				})
				for o, c := range cands {
					if spoiled[o] {
						continue
					}
					rhs := c.def.Rhs[c.idx]
					if top(rhs, false) != token.LOR {
						continue
					}
					// only when the negation reads more plainly: fewer negative leaves (`!x`, `a != b`) than before.
					// `matches := isGenesis || a == b` stays as it is; `isNew := !known || n <= i` becomes `known && n > i`
					if negLeaves(rhs, false) <= negLeaves(rhs, true) {
						continue
					}
					// every use must be rewritable in place: collect parents
					parents := parentMap(fd.Body)
					var uses []*ast.Ident
					ast.Inspect(fd.Body, func(k ast.Node) bool {
						if id, ok := k.(*ast.Ident); ok && info.Uses[id] == o {
							uses = append(uses, id)
						}
						return true
					})
					c.def.Rhs[c.idx] = neg(rhs)
					for _, id := range uses {
						par := parents[id]
						for {
							if pe, ok := par.(*ast.ParenExpr); ok {
								par = parents[pe]
								continue
							}
							break
						}
						if u, ok := par.(*ast.UnaryExpr); ok && u.Op == token.NOT {
							// !f -> f: replace the UnaryExpr in ITS parent by the identifier
							replaceChild(parents[u], u, id)
							continue
						}
						ne := &ast.UnaryExpr{OpPos: id.Pos(), Op: token.NOT, X: id}
						info.Types[ne] = boolTV(id)
						replaceChild(parents[id], id, ne)
					}
					n++
				}
			}
		}
	}
	return n
}

// replaceChild puts repl where old stands among the expression slots of parent.
func replaceChild(parent ast.Node, old, repl ast.Expr) {
	switch p := parent.(type) {
	case *ast.ParenExpr:
		if p.X == old {
			p.X = repl
		}
	case *ast.UnaryExpr:
		if p.X == old {
			p.X = repl
		}
	case *ast.BinaryExpr:
		if p.X == old {
			p.X = repl
		}
		if p.Y == old {
			p.Y = repl
		}
	case *ast.IfStmt:
		if p.Cond == old {
			p.Cond = repl
		}
	case *ast.ForStmt:
		if p.Cond == old {
			p.Cond = repl
		}
	case *ast.ReturnStmt:
		for i, r := range p.Results {
			if r == old {
				p.Results[i] = repl
			}
		}
	case *ast.AssignStmt:
		for i, r := range p.Rhs {
			if r == old {
				p.Rhs[i] = repl
			}
		}
	case *ast.CallExpr:
		for i, a := range p.Args {
			if a == old {
				p.Args[i] = repl
			}
		}
	case *ast.KeyValueExpr:
		if p.Value == old {
			p.Value = repl
		}
	case *ast.CompositeLit:
		for i, a := range p.Elts {
			if a == old {
				p.Elts[i] = repl
			}
		}
	case *ast.CaseClause:
		for i, a := range p.List {
			if a == old {
				p.List[i] = repl
			}
		}
	case *ast.ValueSpec:
		for i, a := range p.Values {
			if a == old {
				p.Values[i] = repl
			}
		}
	case *ast.ExprStmt:
		if p.X == old {
			p.X = repl
		}
	}
}

// negLeaves counts the negative leaves (`!x`, `a != b`) of a boolean expression read as it stands, or negated.
func negLeaves(e ast.Expr, negated bool) int {
	switch x := ast.Unparen(e).(type) {
	case *ast.UnaryExpr:
		if x.Op == token.NOT {
			return negLeaves(x.X, !negated)
		}
	case *ast.BinaryExpr:
		switch x.Op {
		case token.LAND, token.LOR:
			return negLeaves(x.X, negated) + negLeaves(x.Y, negated)
		case token.EQL:
			if negated {
				return 1
			}
			return 0
		case token.NEQ:
			if negated {
				return 0
			}
			return 1
		case token.LSS, token.LEQ, token.GTR, token.GEQ:
			return 0
		}
	}
	if negated {
		return 1
	}
	return 0
}
