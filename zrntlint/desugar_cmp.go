package main

import (
	"go/ast"
	"go/token"
	"go/types"
)

// desugarMinMaxCmps: an ordering test against a minimum or maximum is the conjunction / disjunction of the tests
// against its operands — `i >= min(a, b)` is `i >= a || i >= b`, `i < min(a, b)` is `i < a && i < b`, and dually for
// max. The comparison is rewritten in place (also when the min/max was first put in a local that is defined once), so
// that a bound hoisted as `bound := min(count, LIMIT)` and the two tests it replaces are read alike. Returns the number
// of comparisons split.
func desugarMinMaxCmps(p *Prog) int {
	n := 0
	for _, pk := range p.Pkgs {
		info := pk.TypesInfo
		for _, file := range pk.Syntax {
			for _, d := range file.Decls {
				fd, ok := d.(*ast.FuncDecl)
				if !ok || fd.Body == nil {
					continue
				}
				defs := singleDefs(info, fd.Body)
				// how often a variable is assigned in the function (parameters: 0, single-definition locals: 1)
				assigned := map[types.Object]int{}
				ast.Inspect(fd.Body, func(k ast.Node) bool {
					switch x := k.(type) {
					case *ast.AssignStmt:
						for _, l := range x.Lhs {
							if id, ok := ast.Unparen(l).(*ast.Ident); ok {
								if o := info.ObjectOf(id); o != nil {
									assigned[o]++
								}
							}
						}
					case *ast.IncDecStmt:
						if id, ok := ast.Unparen(x.X).(*ast.Ident); ok {
							if o := info.ObjectOf(id); o != nil {
								assigned[o] += 2
							}
						}
					case *ast.UnaryExpr:
						if x.Op == token.AND {
							if id, ok := ast.Unparen(x.X).(*ast.Ident); ok {
								if o := info.ObjectOf(id); o != nil {
									assigned[o] += 2
								}
							}
						}
					}
					return true
				})
				// the compared value itself is written twice in one expression: it only has to be free of effects
				anyVar := false
				var stable func(e ast.Expr) bool
				stable = func(e ast.Expr) bool {
					e = ast.Unparen(e)
					if tv, ok := info.Types[e]; ok && tv.Value != nil {
						return true
					}
					switch x := e.(type) {
					case *ast.Ident:
						o, isVar := info.ObjectOf(x).(*types.Var)
						return isVar && (anyVar || assigned[o] <= 1)
					case *ast.SelectorExpr:
						if s := info.Selections[x]; s != nil && s.Kind() == types.FieldVal {
							return stable(x.X)
						}
						_, isVar := info.ObjectOf(x.Sel).(*types.Var)
						return isVar
					case *ast.CallExpr:
						if isConversion(info, x) && len(x.Args) == 1 {
							return stable(x.Args[0])
						}
						if id, ok := x.Fun.(*ast.Ident); ok && (id.Name == "len" || id.Name == "cap") && len(x.Args) == 1 {
							if _, isB := info.ObjectOf(id).(*types.Builtin); isB {
								return stable(x.Args[0])
							}
						}
					}
					return false
				}
				// e is min(a, b) / max(a, b), directly or through a local defined once as that
				minmax := func(e ast.Expr) (string, ast.Expr, ast.Expr) {
					e = ast.Unparen(stripConv(info, ast.Unparen(e)))
					if id, ok := e.(*ast.Ident); ok {
						o := info.ObjectOf(id)
						if dd, ok := defs[o]; ok && dd.n == 1 && dd.rhs != nil && assigned[o] <= 1 {
							e = ast.Unparen(stripConv(info, ast.Unparen(dd.rhs)))
						}
					}
					call, ok := e.(*ast.CallExpr)
					if !ok || len(call.Args) != 2 {
						return "", nil, nil
					}
					id, ok := call.Fun.(*ast.Ident)
					if !ok || (id.Name != "min" && id.Name != "max") {
						return "", nil, nil
					}
					if _, isB := info.ObjectOf(id).(*types.Builtin); !isB {
						return "", nil, nil
					}
					if !stable(call.Args[0]) || !stable(call.Args[1]) {
						return "", nil, nil
					}
					return id.Name, call.Args[0], call.Args[1]
				}
				flip := map[token.Token]token.Token{token.LSS: token.GTR, token.LEQ: token.GEQ, token.GTR: token.LSS, token.GEQ: token.LEQ}
				ast.Inspect(fd.Body, func(k ast.Node) bool {
					be, ok := k.(*ast.BinaryExpr)
					if !ok {
						return true
					}
					if _, isOrd := flip[be.Op]; !isOrd {
						return true
					}
					x, op := be.X, be.Op
					name, a, b := minmax(be.Y)
					if name == "" {
						if name, a, b = minmax(be.X); name == "" {
							return true
						}
						x, op = be.Y, flip[op]
					}
					anyVar = true
					pure := stable(x)
					anyVar = false
					if !pure {
						return true
					}
					// x op min(a, b): both for < <=, either for > >=; max the other way round
					both := op == token.LSS || op == token.LEQ
					if name == "max" {
						both = !both
					}
					mk := func(y ast.Expr) *ast.BinaryExpr {
						nb := &ast.BinaryExpr{X: x, OpPos: be.OpPos, Op: op, Y: y}
						info.Types[nb] = info.Types[be]
						return nb
					}
					l, r := mk(a), mk(b)
					be.X, be.Y = l, r
					if both {
						be.Op = token.LAND
					} else {
						be.Op = token.LOR
					}
					n++
					return false
				})
			}
		}
	}
	return n
}
